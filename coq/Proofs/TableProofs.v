(* C20: abbreviation helper and table layout. *)
From Coq Require Import ZArith List Bool Lia ZifyBool Arith PeanoNat Sorting.Sorted Sorting.Permutation.
From Sv Require Import PyTime Timer Table.
Import ListNotations.
Open Scope Z_scope.

(* ---- str_cutoff ---------------------------------------------------------------------------------- *)
Theorem str_cutoff_total s w tail :
  1 <= w -> exists r, m_str_cutoff s w tail = Ok r /\ Z.of_nat (length r) = Z.min (Z.of_nat (length s)) w.
Proof.
  intros Hw. unfold m_str_cutoff. replace (w <? 1) with false by lia.
  destruct (w <? Z.of_nat (length s)) eqn:E.
  - eexists. split; [reflexivity|]. destruct tail.
    + rewrite app_length, firstn_length. cbn. lia.
    + cbn [length]. rewrite skipn_length. lia.
  - eexists. split; [reflexivity|]. lia.
Qed.
Theorem str_cutoff_rejects s w tail : w < 1 -> m_str_cutoff s w tail = Err ValueError.
Proof. intros H. unfold m_str_cutoff. replace (w <? 1) with true by lia. reflexivity. Qed.
(* a string that fits is shown unchanged *)
Theorem str_cutoff_fits s w tail : 1 <= w -> Z.of_nat (length s) <= w -> m_str_cutoff s w tail = Ok s.
Proof.
  intros Hw Hl. unfold m_str_cutoff. replace (w <? 1) with false by lia.
  replace (w <? Z.of_nat (length s)) with false by lia. reflexivity.
Qed.
(* an over-long one keeps w-1 of its characters (head or tail) plus the marker *)
Theorem str_cutoff_marker s w tail :
  1 <= w -> w < Z.of_nat (length s) ->
  m_str_cutoff s w tail =
    Ok (if tail then firstn (Z.to_nat (w - 1)) s ++ [HASH] else HASH :: skipn (length s - Z.to_nat (w - 1)) s).
Proof.
  intros Hw Hl. unfold m_str_cutoff. replace (w <? 1) with false by lia.
  replace (w <? Z.of_nat (length s)) with true by lia. reflexivity.
Qed.

Lemma cut_length s w tail : (1 <= w)%nat -> length (cut s w tail) = Nat.min (length s) w.
Proof.
  intros Hw. unfold cut. destruct (str_cutoff_total s (Z.of_nat w) tail) as (r & Hr & Hl); [lia|]. rewrite Hr. lia.
Qed.
Lemma cut_fits s w tail : (1 <= w)%nat -> (length s <= w)%nat -> cut s w tail = s.
Proof. intros Hw Hl. unfold cut. rewrite str_cutoff_fits by lia. reflexivity. Qed.

(* ---- padding and rows ------------------------------------------------------------------------------ *)
Lemma spaces_length n : length (spaces n) = n.
Proof. induction n; cbn; congruence. Qed.
Lemma dashes_length n : length (dashes n) = n.
Proof. induction n; cbn; congruence. Qed.
Lemma pad_length l w s : length (pad l w s) = Nat.max w (length s).
Proof. unfold pad. destruct l; rewrite app_length, spaces_length; lia. Qed.

Fixpoint sum_widths (cols : list col) : nat := match cols with [] => O | c :: r => (snd c + sum_widths r)%nat end.
(* width of a formatted row, newline included: the column widths plus one separator each *)
Definition row_width (cols : list col) : nat :=
  match cols with [] => 1%nat | _ => (sum_widths cols + length cols)%nat end.

Lemma join_sp_cons2 x y r : join_sp (x :: y :: r) = x ++ SP :: join_sp (y :: r).
Proof. reflexivity. Qed.
Lemma join_cells_length cols : forall cells,
  cols <> [] -> Forall2 (fun c s => (length s <= snd c)%nat) cols cells ->
  (length (join_sp (fmt_cells cols cells)) + 1 = sum_widths cols + length cols)%nat.
Proof.
  induction cols as [|[l w] cr IH]; intros cells Hne H; [congruence|].
  inversion H as [|? s ? sr Hs Hr]; subst. cbn [fmt_cells]. cbn [snd] in Hs.
  destruct cr as [|[l2 w2] cr'].
  - inversion Hr; subst. cbn [fmt_cells join_sp sum_widths length snd]. rewrite pad_length. lia.
  - inversion Hr as [|? s2 ? sr2 Hs2 Hr2]; subst.
    assert (Hne2 : (l2, w2) :: cr' <> []) by discriminate.
    specialize (IH (s2 :: sr2) Hne2 Hr). cbn [fmt_cells] in IH |- *.
    rewrite join_sp_cons2, app_length, pad_length. cbn [length]. cbn [sum_widths length snd] in IH |- *. lia.
Qed.
Lemma fmt_row_length cols : forall cells,
  Forall2 (fun c s => (length s <= snd c)%nat) cols cells -> length (fmt_row cols cells) = row_width cols.
Proof.
  intros cells H. unfold fmt_row, row_width. rewrite app_length. cbn [length].
  destruct cols as [|c cr]; [inversion H; reflexivity|].
  apply join_cells_length; [discriminate|exact H].
Qed.

(* ---- the cells of a job row fit their columns ------------------------------------------------------ *)
Lemma row_type_le v : (length (row_type v) <= 8)%nat.
Proof. unfold row_type. destruct (v_max v =? 1); [cbn; lia|]. destruct (v_type v); cbn; lia. Qed.
Lemma row_dt_le v : (length (row_dt v) <= 19)%nat.
Proof. unfold row_dt. rewrite firstn_length. lia. Qed.

Theorem row_cells_fit_thr v :
  Forall2 (fun c s => (length s <= snd c)%nat) COLS_THR (row_cells true v).
Proof.
  unfold COLS_THR, row_cells. cbn [app].
  constructor; [apply row_type_le|]. constructor; [cbn [snd]; rewrite cut_length by lia; lia|].
  constructor; [apply row_dt_le|]. constructor; [cbn [snd]; rewrite cut_length by lia; lia|].
  constructor; [cbn [snd]; rewrite cut_length by lia; lia|]. constructor; [cbn [snd]; rewrite cut_length by lia; lia|].
  constructor; [cbn [snd]; rewrite cut_length by lia; lia|]. constructor.
Qed.
Theorem row_cells_fit_aio v :
  Forall2 (fun c s => (length s <= snd c)%nat) COLS_AIO (row_cells false v).
Proof.
  unfold COLS_AIO, row_cells. cbn [app].
  constructor; [apply row_type_le|]. constructor; [cbn [snd]; rewrite cut_length by lia; lia|].
  constructor; [apply row_dt_le|]. constructor; [cbn [snd]; rewrite cut_length by lia; lia|].
  constructor; [cbn [snd]; rewrite cut_length by lia; lia|]. constructor; [cbn [snd]; rewrite cut_length by lia; lia|].
  constructor.
Qed.

Lemma Forall2_drop_tz {A B} (R : A -> B -> Prop) l1 l2 : Forall2 R l1 l2 -> Forall2 R (drop_tz l1) (drop_tz l2).
Proof.
  intros H. unfold drop_tz. apply Forall2_app.
  - clear -H. revert l2 H. generalize 3%nat. induction l1; intros n l2 H; inversion H; subst; destruct n; cbn; constructor; auto.
  - clear -H. revert l2 H. generalize 4%nat. induction l1; intros n l2 H; inversion H; subst; destruct n; cbn; auto; constructor; auto.
Qed.

(* every job row is exactly as wide as the header row, in all four table variants *)
Definition cols_of (with_weight has_tz : bool) : list col :=
  let cols := if with_weight then COLS_THR else COLS_AIO in if has_tz then cols else drop_tz cols.
Definition pick_of {A} (has_tz : bool) (l : list A) : list A := if has_tz then l else drop_tz l.

Theorem row_width_eq_header (with_weight has_tz : bool) v :
  length (fmt_row (cols_of with_weight has_tz) (pick_of has_tz (row_cells with_weight v))) =
  length (fmt_row (cols_of with_weight has_tz) (pick_of has_tz (if with_weight then names_thr else names_aio))).
Proof.
  assert (Hrow : Forall2 (fun c s => (length s <= snd c)%nat) (cols_of with_weight has_tz)
                         (pick_of has_tz (row_cells with_weight v))).
  { unfold cols_of, pick_of. destruct with_weight, has_tz;
      try apply Forall2_drop_tz; try apply row_cells_fit_thr; apply row_cells_fit_aio. }
  rewrite (fmt_row_length _ _ Hrow).
  destruct with_weight, has_tz; vm_compute; reflexivity.
Qed.
Theorem dash_row_width_eq_header (with_weight has_tz : bool) :
  let cols := if with_weight then COLS_THR else COLS_AIO in
  length (fmt_row (cols_of with_weight has_tz) (pick_of has_tz (map (fun c : col => dashes (snd c)) cols))) =
  length (fmt_row (cols_of with_weight has_tz) (pick_of has_tz (if with_weight then names_thr else names_aio))).
Proof. destruct with_weight, has_tz; vm_compute; reflexivity. Qed.

(* a cell that fits is shown unchanged, an over-long one is cut to the column width *)
Theorem cell_unchanged_if_fits s w tail : (1 <= w)%nat -> (length s <= w)%nat -> cut s w tail = s.
Proof. exact (cut_fits s w tail). Qed.
Theorem cell_cut_to_width s w tail : (1 <= w)%nat -> (w < length s)%nat -> length (cut s w tail) = w.
Proof. intros Hw Hl. rewrite cut_length by exact Hw. lia. Qed.

(* ---- one row per job, ascending due time, true count ---------------------------------------------- *)
Lemma ins_due_perm v l : Permutation (v :: l) (ins_due v l).
Proof.
  induction l as [|y t IH]; cbn; [reflexivity|]. destruct (v_due y <? v_due v); [|reflexivity].
  rewrite perm_swap. constructor. exact IH.
Qed.
Theorem sort_due_perm l : Permutation l (sort_due l).
Proof. induction l as [|x t IH]; cbn; [constructor|]. etransitivity; [|apply ins_due_perm]. constructor. exact IH. Qed.
Lemma ins_due_sorted v l :
  StronglySorted (fun a b => v_due a <= v_due b) l -> StronglySorted (fun a b => v_due a <= v_due b) (ins_due v l).
Proof.
  induction 1 as [|y t Hs IH Hall]; cbn; [repeat constructor|].
  destruct (v_due y <? v_due v) eqn:E.
  - constructor; [exact IH|]. rewrite Forall_forall in *. intros z Hz.
    apply (Permutation_in z (Permutation_sym (ins_due_perm v t))) in Hz. destruct Hz as [<-|Hz]; [lia|auto].
  - constructor; [constructor; assumption|]. constructor; [lia|].
    rewrite Forall_forall in *. intros z Hz. specialize (Hall z Hz). lia.
Qed.
Theorem sort_due_sorted l : StronglySorted (fun a b => v_due a <= v_due b) (sort_due l).
Proof. induction l; cbn; [constructor|apply ins_due_sorted; assumption]. Qed.

(* the table is: heading, true job count, header row, dash row, then exactly one row per job in
   ascending due-time order *)
Theorem table_structure (with_weight has_tz : bool) heading jobs :
  exists rows,
    table with_weight has_tz heading jobs =
      heading ++ dec (Z.of_nat (length jobs)) ++ [NL; NL] ++
      fmt_row (cols_of with_weight has_tz) (pick_of has_tz (if with_weight then names_thr else names_aio)) ++
      fmt_row (cols_of with_weight has_tz) (pick_of has_tz (map (fun c : col => dashes (snd c)) (if with_weight then COLS_THR else COLS_AIO))) ++
      concat_str (map (fun v => fmt_row (cols_of with_weight has_tz) (pick_of has_tz (row_cells with_weight v))) rows) /\
    Permutation jobs rows /\ length rows = length jobs /\
    StronglySorted (fun a b => v_due a <= v_due b) rows.
Proof.
  exists (sort_due jobs). split; [|split; [apply sort_due_perm|split; [symmetry; apply Permutation_length; apply sort_due_perm|apply sort_due_sorted]]].
  unfold table, cols_of, pick_of. destruct with_weight, has_tz; reflexivity.
Qed.

(* decimal rendering is exact below 10^40 (the job count of any scheduler that fits in memory) *)
Fixpoint undigits (acc : Z) (s : pystr) : Z := match s with [] => acc | c :: r => undigits (acc * 10 + (c - 48)) r end.
Lemma undigits_app a s1 s2 : undigits a (s1 ++ s2) = undigits (undigits a s1) s2.
Proof. revert a. induction s1 as [|c r IH]; intros a; cbn; [reflexivity|]. apply IH. Qed.
Ltac Zify.zify_post_hook ::= Z.to_euclidean_division_equations.
Lemma digits_correct fuel : forall n, 0 <= n < 10 ^ Z.of_nat fuel -> (0 < fuel)%nat -> undigits 0 (digits fuel n) = n.
Proof.
  induction fuel as [|f IH]; intros n Hn Hf; [lia|]. cbn [digits].
  destruct (n <? 10) eqn:E; [cbn [undigits]; lia|].
  rewrite undigits_app. destruct f as [|f'].
  - cbn in Hn. lia.
  - rewrite IH; [cbn [undigits]; lia| |lia].
    rewrite Nat2Z.inj_succ, Z.pow_succ_r in Hn by lia. split; [apply Z.div_pos; lia|].
    apply Z.div_lt_upper_bound; lia.
Qed.
Theorem dec_correct n : 0 <= n < 10 ^ 40 -> undigits 0 (dec n) = n.
Proof. intros H. unfold dec. apply digits_correct; [exact H|lia]. Qed.

(* str(scheduler) of both front ends: the instance of [table_structure] with the heading of Scheduler.__headings *)
Theorem sched_str_structure : forall mx tz pname jobs,
  (exists rows,
    sched_str_thr mx tz pname jobs =
      heading_thr mx tz pname ++ dec (Z.of_nat (length jobs)) ++ [NL; NL] ++
      fmt_row (cols_of true (is_some tz)) (pick_of (is_some tz) names_thr) ++
      fmt_row (cols_of true (is_some tz)) (pick_of (is_some tz) (map (fun c : col => dashes (snd c)) COLS_THR)) ++
      concat_str (map (fun v => fmt_row (cols_of true (is_some tz)) (pick_of (is_some tz) (row_cells true v))) rows) /\
    Permutation jobs rows /\ length rows = length jobs /\
    StronglySorted (fun a b => v_due a <= v_due b) rows) /\
  (exists rows,
    sched_str_aio tz jobs =
      heading_aio tz ++ dec (Z.of_nat (length jobs)) ++ [NL; NL] ++
      fmt_row (cols_of false (is_some tz)) (pick_of (is_some tz) names_aio) ++
      fmt_row (cols_of false (is_some tz)) (pick_of (is_some tz) (map (fun c : col => dashes (snd c)) COLS_AIO)) ++
      concat_str (map (fun v => fmt_row (cols_of false (is_some tz)) (pick_of (is_some tz) (row_cells false v))) rows) /\
    Permutation jobs rows /\ length rows = length jobs /\
    StronglySorted (fun a b => v_due a <= v_due b) rows).
Proof.
  intros mx tz pname jobs. split.
  - exact (table_structure true (is_some tz) (heading_thr mx tz pname) jobs).
  - exact (table_structure false (is_some tz) (heading_aio tz) jobs).
Qed.

