(* C03: cyclic jobs keep the cadence start + k*interval; one-shot jobs are exact. *)
From Coq Require Import ZArith List Bool Lia ZifyBool.
From Sv Require Import PyTime Timer Job Sched Occur TimerProofs JobProofs.
Import ListNotations.
Open Scope Z_scope.

(* a single-timer cyclic job without skip_missing whose timer sits at start + m*T *)
Definition cyclic_inv (j : job) (T : Z) : Prop :=
  job_ok j /\ c_type (j_cfg j) = CYCLIC /\ c_skip (j_cfg j) = false /\ 0 <= j_attempts j /\
  exists nxt, j_timers j = [mkTimer CYCLIC (TCyclic T) nxt false] /\
              utc nxt = utc (j_start j) +
                        (if c_delay (j_cfg j) then j_attempts j + 1 else Z.max (j_attempts j) 1) * T.

Lemma cyclic_pending0 j tm : job_ok j -> j_timers j = [tm] -> j_pending j = O.
Proof.
  intros Hok Htm. pose proof (jok_pending j Hok) as Hp. rewrite Htm in Hp. unfold pending_index in Hp.
  destruct (all_same_awareness _); inversion Hp. reflexivity.
Qed.

(* the due instant a cyclic job reports after n executions *)
Lemma cyclic_due j T :
  cyclic_inv j T ->
  utc (job_datetime j) = utc (j_start j) + (j_attempts j + if c_delay (j_cfg j) then 1 else 0) * T.
Proof.
  intros (Hok & Hty & Hsk & Hat & nxt & Htm & Hn).
  unfold job_datetime, pending_timer. rewrite (cyclic_pending0 j _ Hok Htm), Htm. cbn [nth jt_next].
  destruct (c_delay (j_cfg j)); cbn [negb andb].
  - rewrite Hn. reflexivity.
  - destruct (j_attempts j =? 0) eqn:E; [lia|]. rewrite Hn. lia.
Qed.

Theorem cyclic_job_cycle j T run :
  cyclic_inv j T -> aware (snd run) = tz_aware (j_tz j) ->
  exists j', job_cycle j run = Ok j' /\ cyclic_inv j' T /\ j_cfg j' = j_cfg j /\ j_tz j' = j_tz j /\
             j_start j' = j_start j /\ j_attempts j' = j_attempts j + 1.
Proof.
  intros (Hok & Hty & Hsk & Hat & nxt & Htm & Hn) Hr. unfold job_cycle.
  pose proof (job_run_ok j (fst run) Hok) as Hok1.
  destruct (job_calc_ok (job_run j (fst run)) (snd run) Hok1 Hr)
    as (j' & Hj' & Hok' & Hcfg & Htz & Hst & Hat' & Hfl & _ & Hct & _).
  exists j'. split; [exact Hj'|].
  cbn [job_run j_cfg j_tz j_start j_attempts] in *.
  unfold calc_timers in Hct. cbn [job_run j_cfg j_attempts j_timers j_pending] in Hct. rewrite Hsk in Hct.
  unfold pending_timer in Hct. cbn [job_run j_pending j_timers] in Hct.
  rewrite (cyclic_pending0 j _ Hok Htm), Htm in Hct. cbn [nth] in Hct.
  split; [|repeat split; assumption].
  split; [exact Hok'|]. rewrite Hcfg. cbn [job_run j_cfg]. split; [exact Hty|]. split; [exact Hsk|].
  split; [lia|].
  destruct (c_delay (j_cfg j) || negb (j_attempts j + 1 =? 1)) eqn:E.
  - rewrite timer_cyclic_advance in Hct. cbn in Hct. inversion Hct as [Hct'].
    eexists. split; [first [reflexivity | symmetry; exact Hct']|]. rewrite utc_dt_add, Hn, Hst, Hat'. cbn [job_run j_start].
    destruct (c_delay (j_cfg j)); cbn in E; lia.
  - inversion Hct as [Hct'].
    eexists. split; [first [reflexivity | symmetry; exact Hct']|]. rewrite Hn, Hst, Hat'. cbn [job_run j_start].
    destruct (c_delay (j_cfg j)); cbn in E; [discriminate|]. lia.
Qed.

Theorem cyclic_job_cycles j T runs :
  cyclic_inv j T -> Forall (fun r => aware (snd r) = tz_aware (j_tz j)) runs ->
  exists j', job_cycles j runs = Ok j' /\ cyclic_inv j' T /\ j_cfg j' = j_cfg j /\
             j_start j' = j_start j /\ j_attempts j' = j_attempts j + Z.of_nat (length runs).
Proof.
  intros Hi Hr. revert j Hi Hr. induction runs as [|r rest IH]; intros j Hi Hr.
  - exists j. split; [reflexivity|]. split; [exact Hi|]. repeat split; cbn; lia.
  - inversion Hr as [|? ? Hr1 Hr2]; subst.
    destruct (cyclic_job_cycle j T r Hi Hr1) as (j1 & Hj1 & Hi1 & Hc1 & Htz1 & Hs1 & Ha1).
    destruct (IH j1 Hi1) as (j' & Hj' & Hi' & Hc' & Hs' & Ha'); [rewrite Htz1; exact Hr2|].
    exists j'. cbn [job_cycles]. rewrite Hj1. cbn [bind]. split; [exact Hj'|]. split; [exact Hi'|].
    repeat split; try congruence. rewrite Ha', Ha1. cbn [length]. lia.
Qed.

Lemma created_cyclic c tz now j T :
  cfg_valid c -> job_create c tz now = Ok j -> c_type c = CYCLIC -> c_timing c = [TCyclic T] ->
  c_skip c = false ->
  cyclic_inv j T /\ j_tz j = tz /\ c_delay (j_cfg j) = c_delay c /\
  j_start j = match c_start c with Some s => s | None => dt_now now tz end.
Proof.
  intros Hv Hc Hty Htg Hsk.
  destruct (job_create_ok c tz now j Hv Hc) as [Hok Htz Hcty Hctg _ _ Hcdl _ Hcsk _ _ Hstart _ [Hat _] Hfirst _].
  rewrite Hty, Htg in Hctg. cbn in Hctg.
  pose proof (jok_timing j Hok) as Hmap. rewrite Hctg in Hmap.
  destruct (j_timers j) as [|tm [|tm2 r]] eqn:Etm; cbn in Hmap; try discriminate.
  inversion Hmap as [Htm].
  pose proof (jok_timers j Hok) as Hwf. rewrite Etm in Hwf. inversion Hwf as [|? ? (H1 & H2 & H3 & H4) _]; subst.
  rewrite Hcty, Hty in *. rewrite Hcsk, Hsk in H2.
  inversion Hfirst as [|? ? Hf _]; subst. specialize (Hf T Htm).
  split; [|repeat split; assumption].
  split; [exact Hok|]. rewrite Hcty, Hcsk. repeat split; try assumption; try lia.
  exists (jt_next tm). split.
  - destruct tm as [a b n d]. cbn in *. subst. exact Etm.
  - rewrite Hf, utc_dt_add, Hat. destruct (c_delay (j_cfg j)); lia.
Qed.

(* C03: the due instant after n executions at arbitrary polling instants is start + k*T with
   k = n+1 (delay) or n (deprecated delay=False: the first execution is planned for start) *)
Theorem cyclic_cadence c tz now j T runs :
  cfg_valid c -> job_create c tz now = Ok j -> c_type c = CYCLIC -> c_timing c = [TCyclic T] ->
  c_skip c = false -> Forall (fun r => aware (snd r) = tz_aware tz) runs ->
  let s := utc (match c_start c with Some s => s | None => dt_now now tz end) in
  exists j', job_cycles j runs = Ok j' /\
             j_attempts j' = Z.of_nat (length runs) /\
             utc (job_datetime j') = s + (Z.of_nat (length runs) + if c_delay c then 1 else 0) * T.
Proof.
  intros Hv Hc Hty Htg Hsk Hr s.
  destruct (created_cyclic c tz now j T Hv Hc Hty Htg Hsk) as (Hi & Htz & Hdl & Hst).
  destruct (cyclic_job_cycles j T runs Hi) as (j' & Hj' & Hi' & Hc' & Hs' & Ha'); [rewrite Htz; exact Hr|].
  pose proof (job_create_ok c tz now j Hv Hc) as Hcr.
  exists j'. split; [exact Hj'|]. rewrite (proj1 (cr_counts _ _ _ _ Hcr)) in Ha'. split; [lia|].
  rewrite (cyclic_due j' T Hi'), Hs', Hst, Hc', Hdl, Ha'. subst s. f_equal. 
Qed.

(* one-shot jobs *)
Theorem once_datetime_exact c0 d tz now j :
  job_create (once_cfg (OnceDt d) c0) tz now = Ok j -> job_datetime j = d /\ c_max_attempts (j_cfg j) = 1.
Proof.
  intros Hc. assert (Hv : cfg_valid (once_cfg (OnceDt d) c0)) by (repeat constructor).
  destruct (job_create_ok _ tz now j Hv Hc) as [Hok Htz Hcty Hctg Hmax _ Hcdl _ Hcsk _ _ Hstart _ [Hat _] _ _].
  cbn in *. split; [|exact Hmax]. unfold job_datetime. rewrite Hcdl, Hat. cbn. exact Hstart.
Qed.

Theorem once_timedelta_exact c0 T tz now j :
  job_create (once_cfg (OnceTd T) c0) tz now = Ok j ->
  utc (job_datetime j) = now + T /\ c_max_attempts (j_cfg j) = 1.
Proof.
  intros Hc. assert (Hv : cfg_valid (once_cfg (OnceTd T) c0)) by (repeat constructor).
  destruct (created_cyclic _ tz now j T Hv Hc eq_refl eq_refl eq_refl) as (Hi & Htz & Hdl & Hst).
  pose proof (job_create_ok _ tz now j Hv Hc) as Hcr.
  split; [|exact (cr_max _ _ _ _ Hcr)].
  rewrite (cyclic_due j T Hi), Hst, Hdl, (proj1 (cr_counts _ _ _ _ Hcr)).
  cbn [once_cfg c_start c_delay]. rewrite utc_dt_now. lia.
Qed.

Theorem once_time_is_next c0 t tz now j :
  valid_time t -> job_create (once_cfg (OnceTime t) c0) tz now = Ok j ->
  is_next (occ_daily t) now (utc (job_datetime j)) /\ c_max_attempts (j_cfg j) = 1.
Proof.
  intros Hvt Hc. assert (Hv : cfg_valid (once_cfg (OnceTime t) c0)) by (constructor; [exact Hvt|constructor]).
  destruct (created_single_clock _ tz now j (TTime t) Hv Hc) as (_ & _ & Hn & _); try reflexivity; try discriminate.
  pose proof (job_create_ok _ tz now j Hv Hc) as Hcr. split; [|exact (cr_max _ _ _ _ Hcr)].
  cbn in Hn. rewrite utc_dt_now in Hn. exact Hn.
Qed.

Theorem once_weekday_is_next c0 w t tz now j :
  valid_time t -> 0 <= w <= 6 -> job_create (once_cfg (OnceWd w t) c0) tz now = Ok j ->
  is_next (occ_weekly w t) now (utc (job_datetime j)) /\ c_max_attempts (j_cfg j) = 1.
Proof.
  intros Hvt Hw Hc. assert (Hv : cfg_valid (once_cfg (OnceWd w t) c0)) by (constructor; [split; assumption|constructor]).
  destruct (created_single_clock _ tz now j (TWeekday w t) Hv Hc) as (_ & _ & Hn & _); try reflexivity; try discriminate.
  pose proof (job_create_ok _ tz now j Hv Hc) as Hcr. split; [|exact (cr_max _ _ _ _ Hcr)].
  cbn in Hn. rewrite utc_dt_now in Hn. exact Hn.
Qed.

(* ---- cyclic jobs with skip_missing (C08) ------------------------------------------------------------- *)
(* job level: if the timer is not in the future at the execution instant r, the next due time is
   exactly r + T *)
Theorem cyclic_skip_job j T nxt r :
  job_ok j -> c_type (j_cfg j) = CYCLIC -> c_skip (j_cfg j) = true ->
  j_timers j = [mkTimer CYCLIC (TCyclic T) nxt true] -> aware r = tz_aware (j_tz j) ->
  utc nxt <= utc r -> 0 < j_attempts j ->
  exists j', job_calc j r = Ok j' /\ utc (job_datetime j') = utc r + T.
Proof.
  intros Hok Hty Hsk Htm Hr Hdue Hat.
  destruct (job_calc_ok j r Hok Hr) as (j' & Hj' & Hok' & Hcfg & _ & _ & Hat' & _ & _ & Hct & _).
  exists j'. split; [exact Hj'|].
  unfold calc_timers in Hct. rewrite Hsk, Htm in Hct. cbn [mapM jt_next] in Hct.
  pose proof (jok_timers j Hok) as Hwf. rewrite Htm in Hwf. inversion Hwf as [|? ? (_ & _ & Haw & _) _]; subst.
  cbn [jt_next] in Haw. rewrite dt_sub_same in Hct by congruence. cbn [bind] in Hct.
  replace (ts_le (utc nxt - utc r) 0) with true in Hct by (unfold ts_le; lia).
  rewrite timer_cyclic_skip in Hct. cbn in Hct. inversion Hct as [Hct'].
  unfold job_datetime, pending_timer. rewrite Hat'. replace (j_attempts j =? 0) with false by lia.
  rewrite andb_false_r. rewrite (cyclic_pending0 j' _ Hok' (eq_sym Hct')), <- Hct'. cbn. apply utc_dt_add.
Qed.
