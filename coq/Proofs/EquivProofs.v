(* Equivalent timings (C09 duplicate detection, C13 offset invariance). *)
From Coq Require Import ZArith List Bool Lia ZifyBool.
From Sv Require Import PyTime Timer Job Occur TimerProofs JobProofs.
Import ListNotations.
Open Scope Z_scope.
Ltac Zify.zify_post_hook ::= Z.to_euclidean_division_equations.

Definition same_occ (ty : jobtype) (tg1 tg2 : timing) : Prop := forall x, occ ty tg1 x <-> occ ty tg2 x.

Lemma is_next_equiv (P Q : Z -> Prop) ref x : (forall y, P y <-> Q y) -> is_next P ref x -> is_next Q ref x.
Proof.
  intros H (H1 & H2 & H3). split; [exact H1|]. split; [apply H; exact H2|].
  intros y Hy1 Hy2 Hq. apply (H3 y Hy1 Hy2). apply H. exact Hq.
Qed.

(* ---- C13: the execution instants depend only on the instants denoted --------------------------- *)
(* first due instant: same occurrence set, same reference instant => same due instant, whatever
   offsets the timing and the start are written in *)
Theorem offset_invariance_init ty tg1 tg2 s1 s2 skip :
  ty <> CYCLIC -> valid_entry ty tg1 -> valid_entry ty tg2 ->
  aware s1 = entry_aware' tg1 -> aware s2 = entry_aware' tg2 ->
  same_occ ty tg1 tg2 -> utc s1 = utc s2 ->
  exists tm1 tm2, timer_init ty tg1 s1 skip = Ok tm1 /\ timer_init ty tg2 s2 skip = Ok tm2 /\
                  timer_ok tm1 /\ timer_ok tm2 /\ utc (jt_next tm1) = utc (jt_next tm2).
Proof.
  intros Hty Hv1 Hv2 Ha1 Ha2 Heq Hs.
  destruct (timer_init_is_next ty tg1 s1 skip Hty Hv1 Ha1) as (tm1 & H1 & Hok1 & _ & _ & _ & Hn1).
  destruct (timer_init_is_next ty tg2 s2 skip Hty Hv2 Ha2) as (tm2 & H2 & Hok2 & _ & _ & _ & Hn2).
  exists tm1, tm2. split; [exact H1|]. split; [exact H2|]. split; [exact Hok1|]. split; [exact Hok2|].
  eapply is_next_unique; [exact Hn1|]. rewrite Hs. apply (is_next_equiv (occ ty tg2)); [intros y; symmetry; apply Heq|exact Hn2].
Qed.

(* rescheduling (with or without skip_missing): equal instants in, equal instants out *)
Theorem offset_invariance_calc tm1 tm2 r1 r2 :
  timer_ok tm1 -> timer_ok tm2 -> jt_type tm1 = jt_type tm2 -> jt_skip tm1 = jt_skip tm2 ->
  same_occ (jt_type tm1) (jt_timing tm1) (jt_timing tm2) ->
  utc (jt_next tm1) = utc (jt_next tm2) -> utc r1 = utc r2 ->
  aware r1 = entry_aware' (jt_timing tm1) -> aware r2 = entry_aware' (jt_timing tm2) ->
  exists tm1' tm2', timer_calc tm1 (Some r1) = Ok tm1' /\ timer_calc tm2 (Some r2) = Ok tm2' /\
                    timer_ok tm1' /\ timer_ok tm2' /\ utc (jt_next tm1') = utc (jt_next tm2').
Proof.
  intros Hok1 Hok2 Hty Hsk Heq Hn Hr Ha1 Ha2.
  destruct (jt_skip tm1) eqn:Es.
  - destruct (timer_skip_exact tm1 r1 Hok1 Es Ha1) as (t1 & H1 & Ho1 & _ & _ & _ & A1 & B1).
    assert (Es2 : jt_skip tm2 = true) by congruence.
    destruct (timer_skip_exact tm2 r2 Hok2 Es2 Ha2) as (t2 & H2 & Ho2 & _ & _ & _ & A2 & B2).
    exists t1, t2. split; [exact H1|]. split; [exact H2|]. split; [exact Ho1|]. split; [exact Ho2|].
    rewrite <- Hty, <- Hn, <- Hr in A2, B2.
    destruct (Z.le_gt_cases (utc r1) (utc (jt_next tm1) + period_of (jt_type tm1))) as [Hc|Hc].
    + rewrite (A1 Hc), (A2 Hc). reflexivity.
    + eapply is_next_unique; [apply (B1 Hc)|].
      apply (is_next_equiv (occ (jt_type tm1) (jt_timing tm2))); [intros y; symmetry; apply Heq|apply (B2 Hc)].
  - destruct (timer_advance tm1 (Some r1) Hok1 Es) as (t1 & H1 & Ho1 & _ & _ & _ & A1).
    assert (Es2 : jt_skip tm2 = false) by congruence.
    destruct (timer_advance tm2 (Some r2) Hok2 Es2) as (t2 & H2 & Ho2 & _ & _ & _ & A2).
    exists t1, t2. split; [exact H1|]. split; [exact H2|]. split; [exact Ho1|]. split; [exact Ho2|].
    rewrite A1, A2, Hn, Hty. reflexivity.
Qed.

(* ---- when do two entries denote the same recurring instants? ------------------------------------ *)
Lemma same_occ_minutely t1 t2 :
  valid_time t1 -> valid_time t2 ->
  (same_occ MINUTELY (TTime t1) (TTime t2) <->
   (t_second t1 * SEC + t_micro t1 - oz (t_off t1)) mod MN = (t_second t2 * SEC + t_micro t2 - oz (t_off t2)) mod MN).
Proof.
  intros H1 H2. unfold same_occ. cbn. unfold occ_minutely, reading, valid_time, MN, SEC in *. split.
  - intros H. specialize (H (t_second t1 * 1000000 + t_micro t1 - oz (t_off t1))).
    destruct H as [H _]. assert (Hx : (t_second t1 * 1000000 + t_micro t1 - oz (t_off t1) + oz (t_off t1)) mod 60000000 = t_second t1 * 1000000 + t_micro t1) by lia.
    specialize (H Hx). lia.
  - intros H x. lia.
Qed.
Lemma same_occ_hourly t1 t2 :
  valid_time t1 -> valid_time t2 ->
  (same_occ HOURLY (TTime t1) (TTime t2) <->
   ((t_minute t1 * 60 + t_second t1) * SEC + t_micro t1 - oz (t_off t1)) mod HR =
   ((t_minute t2 * 60 + t_second t2) * SEC + t_micro t2 - oz (t_off t2)) mod HR).
Proof.
  intros H1 H2. unfold same_occ. cbn. unfold occ_hourly, reading, valid_time, HR, SEC in *. split.
  - intros H. specialize (H ((t_minute t1 * 60 + t_second t1) * 1000000 + t_micro t1 - oz (t_off t1))).
    destruct H as [H _]. assert (Hx : ((t_minute t1 * 60 + t_second t1) * 1000000 + t_micro t1 - oz (t_off t1) + oz (t_off t1)) mod 3600000000 = (t_minute t1 * 60 + t_second t1) * 1000000 + t_micro t1) by lia.
    specialize (H Hx). lia.
  - intros H x. lia.
Qed.
Lemma same_occ_daily t1 t2 :
  valid_time t1 -> valid_time t2 ->
  (same_occ DAILY (TTime t1) (TTime t2) <-> (tod t1 - oz (t_off t1)) mod D = (tod t2 - oz (t_off t2)) mod D).
Proof.
  intros H1 H2. unfold same_occ. cbn. unfold occ_daily, reading, valid_time, tod, D, SEC in *. split.
  - intros H. specialize (H (((t_hour t1 * 60 + t_minute t1) * 60 + t_second t1) * 1000000 + t_micro t1 - oz (t_off t1))).
    destruct H as [H _].
    assert (Hx : ((((t_hour t1 * 60 + t_minute t1) * 60 + t_second t1) * 1000000 + t_micro t1 - oz (t_off t1)) + oz (t_off t1)) mod 86400000000 = ((t_hour t1 * 60 + t_minute t1) * 60 + t_second t1) * 1000000 + t_micro t1) by lia.
    specialize (H Hx). lia.
  - intros H x. lia.
Qed.

(* the canonical key the (fixed) duplicate check compares, per job type, on standardized entries *)
Theorem time_key_same_occ ty t1 t2 :
  (ty = MINUTELY \/ ty = HOURLY \/ ty = DAILY) -> valid_time t1 -> valid_time t2 ->
  let s1 := standardize_entry ty (TTime t1) in
  let s2 := standardize_entry ty (TTime t2) in
  match s1, s2 with
  | TTime u1, TTime u2 => time_key (period_of ty) u1 = time_key (period_of ty) u2 <-> same_occ ty s1 s2
  | _, _ => False
  end.
Proof.
  intros Hty H1 H2. destruct Hty as [->|[->| ->]]; cbn.
  - rewrite same_occ_minutely by (unfold valid_time, t_replace in *; cbn; lia).
    unfold time_key, tod, t_replace. cbn. unfold SEC, MN. split; intros H; lia.
  - rewrite same_occ_hourly by (unfold valid_time, t_replace in *; cbn; lia).
    unfold time_key, tod, t_replace. cbn. unfold SEC, HR. split; intros H; lia.
  - rewrite same_occ_daily by assumption. unfold time_key. tauto.
Qed.

(* weekly triggers: occurrences form one residue class modulo a week *)
Lemma occ_weekly_coset w t x :
  valid_time t -> 0 <= w <= 6 ->
  (occ_weekly w t x <-> (x + oz (t_off t)) mod WK = w * D + tod t).
Proof.
  intros Hv Hw. unfold occ_weekly, reading, valid_time, tod, WK, D, SEC in *. split; intros H; lia.
Qed.
Lemma wk_range w t : valid_time t -> 0 <= w <= 6 -> 0 <= w * D + tod t < WK.
Proof. unfold valid_time, tod, WK, D, SEC. lia. Qed.
Lemma coset_equiv a1 o1 a2 o2 :
  0 <= a1 < WK -> 0 <= a2 < WK ->
  ((forall x, (x + o1) mod WK = a1 <-> (x + o2) mod WK = a2) <-> (a1 - o1) mod WK = (a2 - o2) mod WK).
Proof.
  unfold WK. intros H1 H2. split.
  - intros H. specialize (H (a1 - o1)). destruct H as [H _].
    assert (Hx : (a1 - o1 + o1) mod 604800000000 = a1) by lia. specialize (H Hx). lia.
  - intros H x. lia.
Qed.

Lemma same_occ_weekly w1 t1 w2 t2 :
  valid_time t1 -> valid_time t2 -> 0 <= w1 <= 6 -> 0 <= w2 <= 6 ->
  (same_occ WEEKLY (TWeekday w1 t1) (TWeekday w2 t2) <->
   (w1 * D + tod t1 - oz (t_off t1)) mod WK = (w2 * D + tod t2 - oz (t_off t2)) mod WK).
Proof.
  intros H1 H2 Hw1 Hw2. rewrite <- coset_equiv by (apply wk_range; assumption).
  unfold same_occ. cbn. split; intros H x; specialize (H x); rewrite !occ_weekly_coset in * by assumption; exact H.
Qed.

(* the key compared by are_weekday_times_unique: the first occurrence after 1970-01-01T00:00 read
   in the scheduler's offset *)
Lemma weekday_key_is_next tz w t :
  valid_time t -> 0 <= w <= 6 -> t_aware t = tz_aware tz ->
  is_next (occ_weekly w t) (EPOCH1970 - oz tz) (weekday_key tz w t).
Proof.
  intros Hv Hw Ha. unfold weekday_key.
  set (ref := match tz with Some o => mkDt EPOCH1970 (Some o) | None => mkDt EPOCH1970 None end).
  set (ref' := match t_off t with Some o => astimezone ref (Some o) | None => match tz with Some _ => astimezone ref None | None => ref end end).
  assert (Hr : off ref' = t_off t /\ utc ref' = EPOCH1970 - oz tz).
  { subst ref' ref. unfold t_aware, tz_aware in Ha. destruct (t_off t) as [o|], tz as [z|]; try discriminate;
    unfold astimezone, utc, oz; cbn [loc off]; split; try reflexivity; lia. }
  destruct Hr as [Hr1 Hr2]. rewrite <- Hr2. apply next_weekly_is_next; assumption.
Qed.

(* equal keys <=> same recurring instants *)
Theorem weekday_key_same_occ tz w1 t1 w2 t2 :
  valid_time t1 -> valid_time t2 -> 0 <= w1 <= 6 -> 0 <= w2 <= 6 ->
  t_aware t1 = tz_aware tz -> t_aware t2 = tz_aware tz ->
  (weekday_key tz w1 t1 = weekday_key tz w2 t2 <-> same_occ WEEKLY (TWeekday w1 t1) (TWeekday w2 t2)).
Proof.
  intros H1 H2 Hw1 Hw2 Ha1 Ha2.
  pose proof (weekday_key_is_next tz w1 t1 H1 Hw1 Ha1) as K1.
  pose proof (weekday_key_is_next tz w2 t2 H2 Hw2 Ha2) as K2.
  split.
  - intros Heq. apply same_occ_weekly; try assumption.
    destruct K1 as (_ & O1 & _). destruct K2 as (_ & O2 & _).
    rewrite occ_weekly_coset in O1, O2 by assumption. rewrite Heq in O1.
    pose proof (wk_range w1 t1 H1 Hw1) as R1. pose proof (wk_range w2 t2 H2 Hw2) as R2.
    revert O1 O2 R1 R2. generalize (weekday_key tz w2 t2) as k.
    generalize (w1 * D + tod t1) as a1. generalize (w2 * D + tod t2) as a2.
    generalize (oz (t_off t1)) as o1. generalize (oz (t_off t2)) as o2.
    unfold WK. intros. lia.
  - intros Hs. eapply is_next_unique; [exact K1|]. apply (is_next_equiv (occ_weekly w2 t2)); [|exact K2].
    intros y. symmetry. apply (Hs y).
Qed.

(* ---- the duplicate check over a whole list (C09) -------------------------------------------------- *)
Lemma zmem_In' x l : zmem x l = true <-> In x l.
Proof.
  induction l as [|y t IH]; cbn; [split; [discriminate|tauto]|].
  rewrite orb_true_iff, IH, Z.eqb_eq. split; intros [H|H]; auto.
Qed.
Lemma znodup_pairs {A} (f : A -> Z) l :
  znodup (map f l) = true <-> ForallOrdPairs (fun a b => f a <> f b) l.
Proof.
  induction l as [|x t IH]; cbn.
  - split; [constructor|reflexivity].
  - rewrite andb_true_iff, negb_true_iff, IH. split.
    + intros [Hm Hp]. constructor; [|exact Hp]. rewrite Forall_forall. intros b Hb Heq.
      assert (Hin : zmem (f x) (map f t) = true) by (apply zmem_In'; apply in_map_iff; exists b; auto).
      congruence.
    + intros H. inversion H as [|? ? Hx Hp]; subst. split; [|exact Hp].
      destruct (zmem (f x) (map f t)) eqn:E; [|reflexivity]. apply zmem_In' in E. apply in_map_iff in E as (b & Hb & Hin).
      rewrite Forall_forall in Hx. exfalso. apply (Hx b Hin). congruence.
Qed.
Lemma FOP_impl {A} (P Q : A -> A -> Prop) l :
  (forall a b, In a l -> In b l -> P a b -> Q a b) -> ForallOrdPairs P l -> ForallOrdPairs Q l.
Proof.
  intros H Hp. induction Hp as [|x t Hx Hp IH]; constructor.
  - rewrite Forall_forall in *. intros b Hb. apply H; [left; reflexivity|right; exact Hb|apply Hx; exact Hb].
  - apply IH. intros a b Ha Hb. apply H; right; assumption.
Qed.

(* entries of a clock-time job after standardize_timing_format *)
Definition std_time (ty : jobtype) (tg : timing) : Prop :=
  exists t, valid_time t /\ tg = standardize_entry ty (TTime t).

Theorem dup_ok_times ty tgs tz :
  (ty = MINUTELY \/ ty = HOURLY \/ ty = DAILY) -> Forall (std_time ty) tgs ->
  (dup_ok ty tgs tz = true <-> ForallOrdPairs (fun a b => ~ same_occ ty a b) tgs).
Proof.
  intros Hty Hstd.
  assert (Hd : dup_ok ty tgs tz = znodup (map (time_key (period_of ty)) (times_of tgs))).
  { destruct Hty as [->|[->| ->]]; reflexivity. }
  rewrite Hd.
  (* times_of inverts TTime on standardized entries *)
  set (key := fun tg => match tg with TTime u => time_key (period_of ty) u | _ => 0 end).
  assert (Hmap : map (time_key (period_of ty)) (times_of tgs) = map key tgs).
  { clear Hd. induction Hstd as [|tg r (t & Hv & ->) Hr IH]; cbn; [reflexivity|].
    destruct Hty as [->|[->| ->]]; cbn; f_equal; exact IH. }
  rewrite Hmap, znodup_pairs. rewrite Forall_forall in Hstd.
  split; apply FOP_impl; intros a b Ha Hb H;
    destruct (Hstd a Ha) as (t1 & Hv1 & ->); destruct (Hstd b Hb) as (t2 & Hv2 & ->);
    pose proof (time_key_same_occ ty t1 t2 Hty Hv1 Hv2) as Hk; cbv zeta in Hk;
    destruct Hty as [->|[->| ->]]; cbn in *; tauto.
Qed.

Definition std_weekday (tz : option Z) (tg : timing) : Prop :=
  exists w t, valid_time t /\ 0 <= w <= 6 /\ t_aware t = tz_aware tz /\ tg = TWeekday w t.

Theorem dup_ok_weekly tgs tz :
  Forall (std_weekday tz) tgs ->
  (dup_ok WEEKLY tgs tz = true <-> ForallOrdPairs (fun a b => ~ same_occ WEEKLY a b) tgs).
Proof.
  intros Hstd. cbn.
  set (key := fun tg => match tg with TWeekday w t => weekday_key tz w t | _ => 0 end).
  assert (Hmap : weekday_keys tz tgs = map key tgs).
  { unfold weekday_keys. induction Hstd as [|tg r (w & t & Hv & Hw & Ha & ->) Hr IH]; cbn; [reflexivity|]. f_equal. exact IH. }
  rewrite Hmap, znodup_pairs. rewrite Forall_forall in Hstd.
  split; apply FOP_impl; intros a b Ha Hb H;
    destruct (Hstd a Ha) as (w1 & t1 & Hv1 & Hw1 & Ha1 & ->); destruct (Hstd b Hb) as (w2 & t2 & Hv2 & Hw2 & Ha2 & ->);
    pose proof (weekday_key_same_occ tz w1 t1 w2 t2 Hv1 Hv2 Hw1 Hw2 Ha1 Ha2) as Hk; cbn in *; tauto.
Qed.
