(* C14-C16: micro-operation interleavings, the worker pool, lock orders. *)
From Coq Require Import ZArith List Bool Lia ZifyBool Arith PeanoNat Sorting.Permutation.
From Sv Require Import PyTime Timer Job Sched Conc Occur TimerProofs JobProofs SchedProofs SelectProofs.
Import ListNotations.
Open Scope Z_scope.

(* =============================== 2. the worker pool (C16) ======================================= *)
Lemma nth_error_replace {A} n (l : list A) x k :
  (n < length l)%nat -> nth_error (replace_nth n l x) k = if Nat.eqb k n then Some x else nth_error l k.
Proof.
  revert n k. induction l as [|y r IH]; intros n k Hn; cbn in Hn; [lia|].
  destruct n; cbn.
  - destruct k; reflexivity.
  - destruct k; cbn; [reflexivity|]. apply IH. lia.
Qed.

Definition run_ids (ws : list wstate) : list nat :=
  flat_map (fun w => match w with WRun id => [id] | _ => [] end) ws.

Lemma run_ids_replace_idle ws w :
  nth_error ws w = Some WIdle -> forall x, (x = WExit \/ x = WIdle) -> run_ids (replace_nth w ws x) = run_ids ws.
Proof.
  revert w. induction ws as [|y r IH]; intros w H x Hx; destruct w; cbn in *; try discriminate.
  - inversion H; subst. destruct Hx; subst; reflexivity.
  - unfold run_ids in *. cbn. f_equal. apply IH; assumption.
Qed.
Lemma run_ids_start ws w id :
  nth_error ws w = Some WIdle -> Permutation (id :: run_ids ws) (run_ids (replace_nth w ws (WRun id))).
Proof.
  revert w. induction ws as [|y r IH]; intros w H; destruct w; cbn in *; try discriminate.
  - inversion H; subst. reflexivity.
  - unfold run_ids in *. cbn. etransitivity; [apply Permutation_middle|]. apply Permutation_app_head. apply IH. exact H.
Qed.
Lemma run_ids_finish ws w id :
  nth_error ws w = Some (WRun id) -> Permutation (run_ids ws) (id :: run_ids (replace_nth w ws WIdle)).
Proof.
  revert w. induction ws as [|y r IH]; intros w H; destruct w; cbn in *; try discriminate.
  - inversion H; subst. reflexivity.
  - unfold run_ids in *. cbn. etransitivity; [apply Permutation_app_head; apply IH; exact H|].
    symmetry. apply Permutation_middle.
Qed.

(* every job of the batch is, at any moment, in exactly one place: still queued, running in one
   worker, or done; and a worker only exits after it found the queue empty (it never grows) *)
Definition pool_inv (batch : list nat) (p : pool) : Prop :=
  Permutation batch (p_queue p ++ running p ++ p_done p) /\
  (In WExit (p_workers p) -> p_queue p = []).

Lemma in_replace_nth {A} n (l : list A) x y : In y (replace_nth n l x) -> y = x \/ In y l.
Proof.
  revert n. induction l as [|z r IH]; intros n H; destruct n; cbn in *; try tauto.
  - destruct H as [H|H]; auto.
  - destruct H as [H|H]; [auto|]. destruct (IH _ H); auto.
Qed.

Lemma pool_step_inv batch p w : pool_inv batch p -> pool_inv batch (pool_step p w) /\
  length (p_workers (pool_step p w)) = length (p_workers p).
Proof.
  unfold pool_inv, pool_step, running. intros [H Hex].
  destruct (nth_error (p_workers p) w) as [ws|] eqn:E; [|auto].
  assert (Hlt : (w < length (p_workers p))%nat) by (apply nth_error_Some; congruence).
  destruct ws as [|id|].
  - destruct (p_queue p) as [|id q] eqn:Eq; cbn.
    + split; [|apply replace_nth_length]. fold (run_ids (replace_nth w (p_workers p) WExit)).
      rewrite run_ids_replace_idle by auto. split; [exact H|reflexivity].
    + split; [|apply replace_nth_length]. fold (run_ids (replace_nth w (p_workers p) (WRun id))). split.
      * etransitivity; [exact H|]. cbn. etransitivity; [apply Permutation_middle|].
        apply Permutation_app_head. rewrite app_comm_cons. apply Permutation_app_tail. apply run_ids_start. exact E.
      * intros Hin. apply in_replace_nth in Hin as [Hin|Hin]; [discriminate|]. specialize (Hex Hin). discriminate.
  - cbn. split; [|apply replace_nth_length]. fold (run_ids (replace_nth w (p_workers p) WIdle)). split.
    + etransitivity; [exact H|]. apply Permutation_app_head.
      etransitivity; [apply Permutation_app_tail; apply (run_ids_finish _ w id E)|].
      cbn. apply Permutation_middle.
    + intros Hin. apply in_replace_nth in Hin as [Hin|Hin]; [discriminate|]. apply Hex. exact Hin.
  - auto.
Qed.

Theorem pool_run_inv batch sched_ : forall p,
  pool_inv batch p -> pool_inv batch (pool_run p sched_) /\
  length (p_workers (pool_run p sched_)) = length (p_workers p).
Proof.
  induction sched_ as [|w r IH]; intros p H; cbn; [auto|].
  destruct (pool_step_inv batch p w H) as [H1 H2]. destruct (IH _ H1) as [H3 H4]. split; [exact H3|].
  unfold pool_run in H4. rewrite H4. exact H2.
Qed.
Lemma repeat_idle_run k : flat_map (fun w => match w with WRun id => [id] | _ => [] end) (repeat WIdle k) = [].
Proof. induction k; cbn; auto. Qed.
Lemma pool_init_inv batch n : pool_inv batch (pool_init batch n).
Proof.
  unfold pool_inv, pool_init, running. cbn. rewrite repeat_idle_run. cbn. rewrite app_nil_r. split; [reflexivity|].
  intros Hin. apply repeat_spec in Hin. discriminate.
Qed.

Lemma running_le_workers p : (length (running p) <= length (p_workers p))%nat.
Proof. unfold running. induction (p_workers p) as [|w r IH]; cbn; [lia|]. destruct w; cbn; lia. Qed.

Lemma NoDup_app_l {A} (l1 l2 : list A) : NoDup (l1 ++ l2) -> NoDup l1.
Proof. induction l1 as [|x t IH]; cbn; intros H; [constructor|]. inversion H; subst. constructor; [rewrite in_app_iff in *; tauto|auto]. Qed.
Lemma NoDup_app_r {A} (l1 l2 : list A) : NoDup (l1 ++ l2) -> NoDup l2.
Proof. induction l1 as [|x t IH]; cbn; intros H; [exact H|]. inversion H; subst. auto. Qed.

(* C16 for every worker count and every interleaving of the workers *)
Theorem pool_any_schedule batch n_threads sched_ :
  let p := pool_run (pool_init batch n_threads) sched_ in
  let m := match n_threads with O => length batch | S _ => n_threads end in
  Permutation batch (p_queue p ++ running p ++ p_done p) /\          (* each selected job in exactly one place *)
  (length (running p) <= m)%nat /\                                     (* at most m callbacks at the same time *)
  (NoDup batch -> NoDup (running p) /\ NoDup (p_done p)) /\            (* never twice, never overlapping itself *)
  (all_exited p = true -> Permutation batch (p_done p)).               (* when the workers are joined: all done, once *)
Proof.
  intros p m. destruct (pool_run_inv batch sched_ _ (pool_init_inv batch n_threads)) as [[Hinv Hexit] Hlen].
  fold p in Hinv, Hexit, Hlen.
  assert (Hm : length (p_workers p) = m).
  { rewrite Hlen. unfold pool_init. cbn. rewrite repeat_length. reflexivity. }
  split; [exact Hinv|]. split.
  - pose proof (running_le_workers p) as H. lia.
  - split.
    + intros Hnd. pose proof (Permutation_NoDup Hinv Hnd) as H. apply NoDup_app_r in H.
      split; [apply (NoDup_app_l _ _ H)|apply (NoDup_app_r _ _ H)].
    + intros Hex. unfold all_exited in Hex. rewrite forallb_forall in Hex.
      assert (Hr : running p = []).
      { unfold running. clear -Hex. induction (p_workers p) as [|w r IH]; cbn; [reflexivity|].
        pose proof (Hex w (or_introl eq_refl)) as Hw. destruct w; try discriminate. apply IH. intros x Hx. apply Hex. right. exact Hx. }
      assert (Hq : p_queue p = []).
      { destruct (p_workers p) as [|w r] eqn:Ew.
        - (* no worker at all: n_threads = 0 and an empty batch *)
          cbn in Hm. subst m. destruct n_threads; [|discriminate].
          destruct batch; [|discriminate]. apply Permutation_nil in Hinv. apply app_eq_nil in Hinv. tauto.
        - apply Hexit. pose proof (Hex w (or_introl eq_refl)) as Hw. destruct w; try discriminate. left. reflexivity. }
      rewrite Hr, Hq in Hinv. exact Hinv.
Qed.

(* n_threads = 0: all selected callbacks can run simultaneously (worker i takes job i) *)
Theorem pool_unlimited_all_overlap batch :
  running (pool_run (pool_init batch 0) (seq 0 (length batch))) = batch.
Proof.
  unfold pool_init.
  assert (H : forall done_ q pre, 
            running (pool_run (mkPool q (pre ++ repeat WIdle (length q)) done_) (seq (length pre) (length q)))
            = run_ids pre ++ q).
  { intros done_ q. induction q as [|id r IH]; intros pre; cbn.
    - unfold running. cbn. rewrite app_nil_r, app_nil_r. reflexivity.
    - assert (Hn : nth_error (pre ++ WIdle :: repeat WIdle (length r)) (length pre) = Some WIdle).
      { rewrite nth_error_app2 by lia. rewrite Nat.sub_diag. reflexivity. }
      assert (Hrep : replace_nth (length pre) (pre ++ WIdle :: repeat WIdle (length r)) (WRun id) =
                     (pre ++ [WRun id]) ++ repeat WIdle (length r)).
      { clear. induction pre as [|x t IHp]; cbn; [reflexivity|]. f_equal. exact IHp. }
      assert (Hstep : pool_step {| p_queue := id :: r; p_workers := pre ++ WIdle :: repeat WIdle (length r); p_done := done_ |} (length pre)
                      = mkPool r ((pre ++ [WRun id]) ++ repeat WIdle (length r)) done_).
      { unfold pool_step. cbn [p_workers p_queue p_done]. rewrite Hn, Hrep. reflexivity. }
      rewrite Hstep. specialize (IH (pre ++ [WRun id])). rewrite app_length in IH. cbn [length] in IH.
      replace (length pre + 1)%nat with (S (length pre)) in IH by lia. unfold pool_run in IH. rewrite IH.
      unfold run_ids. rewrite flat_map_app. cbn. rewrite <- app_assoc. reflexivity. }
  specialize (H [] batch []). cbn in H. exact H.
Qed.

(* the state after the workers are done does not depend on the order in which they ran: each job
   of a duplicate-free batch is run exactly once, jobs outside are untouched *)
Definition run_one (js : list (nat * job)) (id : nat) : list (nat * job) :=
  match lookup id js with Some j => update id (job_run j (outcome_of j)) js | None => js end.
Definition apply_runs (js : list (nat * job)) (l : list nat) : list (nat * job) := fold_left run_one l js.

Theorem apply_runs_spec l : forall js x,
  NoDup l ->
  lookup x (apply_runs js l) =
    if nmem x l then option_map (fun j => job_run j (outcome_of j)) (lookup x js) else lookup x js.
Proof.
  induction l as [|a r IH]; intros js x Hnd; cbn [apply_runs fold_left nmem]; [reflexivity|].
  inversion Hnd as [|? ? Ha Hr]; subst. fold (apply_runs (run_one js a) r). rewrite (IH _ x Hr).
  destruct (Nat.eqb x a) eqn:E; cbn [orb].
  - apply Nat.eqb_eq in E. subst x.
    assert (Hn : nmem a r = false) by (destruct (nmem a r) eqn:En; [apply nmem_In in En; contradiction|reflexivity]).
    rewrite Hn. unfold run_one. destruct (lookup a js) as [j|] eqn:El; cbn; [|exact El].
    apply lookup_update_same. congruence.
  - apply Nat.eqb_neq in E.
    assert (Hl : lookup x (run_one js a) = lookup x js).
    { unfold run_one. destruct (lookup a js); [apply lookup_update_other; congruence|reflexivity]. }
    rewrite Hl. reflexivity.
Qed.
Theorem final_state_schedule_independent l l' js x :
  NoDup l -> Permutation l l' -> lookup x (apply_runs js l) = lookup x (apply_runs js l').
Proof.
  intros Hnd Hp. rewrite (apply_runs_spec l js x Hnd), (apply_runs_spec l' js x (Permutation_NoDup Hp Hnd)).
  assert (He : nmem x l = nmem x l').
  { destruct (nmem x l) eqn:E1, (nmem x l') eqn:E2; try reflexivity.
    - apply nmem_In in E1. apply (Permutation_in _ Hp) in E1. apply nmem_In in E1. congruence.
    - apply nmem_In in E2. apply (Permutation_in _ (Permutation_sym Hp)) in E2. apply nmem_In in E2. congruence. }
  rewrite He. reflexivity.
Qed.

(* =============================== 3. lock orders (C15) =========================================== *)
(* two workers whose callbacks print the scheduler deadlock: job lock -> registry lock -> the other
   job's lock against the mirror image.  Witness schedule, checked by computation. *)
Theorem two_printing_workers_deadlock_refuted :
  let s0 := mkLS [] [mkLT (plan_print 0 [0; 1]%nat); mkLT (plan_print 1 [0; 1]%nat)] in
  deadlocked (fold_left lstep [0; 1; 0; 0; 0; 1]%nat s0) = true.
Proof. vm_compute. reflexivity. Qed.

(* the same with ONE printing callback and one that merely uses the job set (get_jobs, delete_job,
   a scheduling call ...): registry lock -> other job's lock against job lock -> registry lock *)
Theorem printing_and_registry_op_deadlock_refuted :
  let s0 := mkLS [] [mkLT (plan_print 0 [0; 1]%nat); mkLT (plan_registry_op 1)] in
  deadlocked (fold_left lstep [0; 1; 0; 0; 0; 1]%nat s0) = true.
Proof. vm_compute. reflexivity. Qed.

(* one worker: whoever runs is the only lock holder, so it can always move (any plans, any locks) *)
Definition only_owner (s : lstate) (t : nat) : Prop :=
  forall l o c, lock_owner s l = Some (o, c) -> o = t \/ c = O.

Lemma lookup_upsert {A} k (v : A) l x : lookup x (upsert k v l) = if Nat.eqb k x then Some v else lookup x l.
Proof.
  induction l as [|[k' w] r IH]; cbn.
  - destruct (Nat.eqb k x); reflexivity.
  - destruct (Nat.eqb k' k) eqn:E; cbn.
    + apply Nat.eqb_eq in E. subst k'. destruct (Nat.eqb k x); reflexivity.
    + destruct (Nat.eqb k' x) eqn:E2; [|exact IH].
      destruct (Nat.eqb k x) eqn:E3; [|reflexivity].
      apply Nat.eqb_eq in E2, E3. subst. rewrite Nat.eqb_refl in E. discriminate.
Qed.

Theorem single_worker_never_blocks s :
  length (ls_threads s) = 1%nat -> only_owner s 0 ->
  (finished s = false -> can_step s 0 = true) /\ only_owner (lstep s 0) 0 /\
  length (ls_threads (lstep s 0)) = 1%nat.
Proof.
  intros Hlen Hown. destruct (ls_threads s) as [|th [|? ?]] eqn:Eth; try discriminate.
  split; [|split].
  - intros Hf. unfold finished in Hf. rewrite Eth in Hf. cbn in Hf. unfold can_step. rewrite Eth. cbn.
    destruct (lt_plan th) as [|[l|l] r]; [discriminate| |reflexivity].
    destruct (lock_owner s l) as [[o c]|] eqn:El; [|reflexivity]. destruct (Hown l o c El) as [->| ->]; cbn; [reflexivity|apply orb_true_r].
  - unfold lstep. destruct (negb (can_step s 0)); [exact Hown|]. rewrite Eth. cbn.
    destruct (lt_plan th) as [|[l|l] r]; [exact Hown| |]; intros l' o c Hl; unfold lock_owner in Hl; cbn in Hl;
      rewrite lookup_upsert in Hl; (destruct (Nat.eqb l l'); [inversion Hl; left; reflexivity|apply (Hown l' o c Hl)]).
  - unfold lstep. destruct (negb (can_step s 0)); [rewrite Eth; reflexivity|]. rewrite Eth. cbn.
    destruct (lt_plan th) as [|[l|l] r]; cbn; rewrite ?Eth; reflexivity.
Qed.

(* =============================== 1. micro-operations (C14) ====================================== *)
(* what holds of the shared state under EVERY interleaving (the attempt budget does not: see below) *)
Record wf (s : sched) : Prop := {
  wf_bound : forall id, In id (map fst (s_jobs s)) -> (id < s_next s)%nat;
  wf_keys : NoDup (map fst (s_jobs s));
  wf_reg_nodup : NoDup (s_reg s);
  wf_reg_jobs : forall id, In id (s_reg s) -> exists j, get_job s id = Some j;
  wf_jobs_ok : forall id j, get_job s id = Some j -> job_ok j /\ j_tz j = s_tz s
}.
Lemma sched_inv_wf s : sched_inv s -> wf s.
Proof. intros [a b c d e f]. constructor; assumption. Qed.

Lemma wf_shrink s r' : wf s -> NoDup r' -> (forall id, In id r' -> In id (s_reg s)) -> wf (upd_reg s r').
Proof. intros [a b c d e] Hn Hs. constructor; cbn; try assumption. intros id Hin. apply d. apply Hs. exact Hin. Qed.

Lemma wf_upd_job s id j j' :
  wf s -> get_job s id = Some j -> job_ok j' -> j_tz j' = j_tz j -> wf (upd_jobs s (update id j' (s_jobs s))).
Proof.
  intros [Hb Hk Hrn Hrj Hjo] Hj Hok Htz.
  assert (Hsame : lookup id (update id j' (s_jobs s)) = Some j') by (apply lookup_update_same; unfold get_job in Hj; congruence).
  assert (Hother : forall x, x <> id -> lookup x (update id j' (s_jobs s)) = lookup x (s_jobs s)) by (intros x Hx; apply lookup_update_other; congruence).
  constructor; unfold get_job in *; cbn.
  - rewrite update_keys. exact Hb.
  - rewrite update_keys. exact Hk.
  - exact Hrn.
  - intros x Hin. destruct (Nat.eq_dec x id) as [->|Hne]; [eauto|]. rewrite Hother by exact Hne. apply Hrj. exact Hin.
  - intros x jx Hx. destruct (Nat.eq_dec x id) as [->|Hne].
    + rewrite Hsame in Hx. inversion Hx; subst jx. split; [exact Hok|]. rewrite Htz. apply (Hjo id j Hj).
    + rewrite Hother in Hx by exact Hne. apply (Hjo x jx Hx).
Qed.

Lemma schedule_wf s c prog s' r :
  cfg_valid c -> wf s -> schedule s c prog = (s', r) ->
  wf s' /\ s_tz s' = s_tz s /\ s_next s' = S (s_next s) /\
  (forall x, (x < s_next s)%nat -> In x (s_reg s') -> In x (s_reg s)) /\
  (forall e, r = Err e -> c_timing c <> [] -> e = SchedulerError).
Proof.
  intros Hv [Hb Hk Hrn Hrj Hjo] H. unfold schedule in H.
  destruct (job_create c (s_tz s) (s_now s)) as [j|e] eqn:Ec; inversion H; subst; clear H; cbn.
  - pose proof (job_create_ok _ _ _ _ Hv Ec) as Hcr.
    assert (Hfresh : ~ In (s_next s) (map fst (s_jobs s))) by (intros Hin; specialize (Hb _ Hin); lia).
    assert (Hfresh_reg : ~ In (s_next s) (s_reg s)).
    { intros Hin. destruct (Hrj _ Hin) as (j0 & Hj0). apply lookup_in_keys in Hj0. contradiction. }
    assert (Hget : forall id, lookup id (s_jobs s ++ [(s_next s, j)]) = if Nat.eqb id (s_next s) then Some j else lookup id (s_jobs s)).
    { intros id. rewrite lookup_app. cbn. destruct (Nat.eqb id (s_next s)) eqn:E.
      - apply Nat.eqb_eq in E. subst id. rewrite (lookup_none_keys _ _ Hfresh), Nat.eqb_refl. reflexivity.
      - rewrite Nat.eqb_sym, E. destruct (lookup id (s_jobs s)); reflexivity. }
    split; [|split; [reflexivity|split; [reflexivity|split]]].
    + constructor; unfold get_job in *; cbn.
      * intros id Hin. rewrite map_app, in_app_iff in Hin. cbn in Hin. destruct Hin as [Hin|[<-|[]]]; [specialize (Hb _ Hin)|]; lia.
      * rewrite map_app. cbn. apply NoDup_app_nodup_singleton; assumption.
      * destruct (has_attempts j); [|exact Hrn]. apply NoDup_app_nodup_singleton; assumption.
      * intros id Hin. rewrite Hget. destruct (Nat.eqb id (s_next s)) eqn:E; [eauto|].
        apply Hrj. destruct (has_attempts j); [|exact Hin]. rewrite in_app_iff in Hin. destruct Hin as [Hin|[<-|[]]]; [exact Hin|].
        rewrite Nat.eqb_refl in E. discriminate.
      * intros id j0 Hj0. rewrite Hget in Hj0. destruct (Nat.eqb id (s_next s)); [|apply Hjo with id; exact Hj0].
        inversion Hj0; subst j0. split; apply Hcr.
    + intros x Hx Hin. destruct (has_attempts j); [|exact Hin]. rewrite in_app_iff in Hin. destruct Hin as [Hin|[Heq|[]]]; [exact Hin|lia].
    + intros e He. discriminate.
  - split; [|split; [reflexivity|split; [reflexivity|split; [auto|]]]].
    + constructor; cbn; try assumption. intros id Hin. specialize (Hb _ Hin). lia.
    + intros e0 He Hne. inversion He; subst. eapply job_create_err; eassumption.
Qed.

Definition mop_valid (o : mop) : Prop :=
  match o with
  | MAdd c => cfg_valid c /\ c_timing c <> []
  | MOnce ot _ => once_valid ot
  | _ => True
  end.

(* every micro-operation keeps the shared state well formed, never resurrects an old id, and fails
   only with SchedulerError (OtherError marks a micro-operation the code cannot perform at that
   point: a malformed log, never produced by the harness on the real code) *)
Theorem mstep_wf m o m' r :
  wf (m_s m) -> mop_valid o -> mstep m o = (m', r) ->
  wf (m_s m') /\ s_tz (m_s m') = s_tz (m_s m) /\ (s_next (m_s m) <= s_next (m_s m'))%nat /\
  (forall x, (x < s_next (m_s m))%nat -> In x (s_reg (m_s m')) -> In x (s_reg (m_s m))) /\
  (forall e, r = Err e -> e = SchedulerError \/ e = OtherError).
Proof.
  intros Hw Hv H. destruct o; cbn in H.
  - destruct Hv as [Hv1 Hv2]. destruct (schedule (m_s m) c []) as [s' r'] eqn:E. inversion H; subst; clear H. cbn.
    destruct (schedule_wf _ _ _ _ _ Hv1 Hw E) as (H1 & H2 & H3 & H4 & H5).
    split; [exact H1|]. split; [exact H2|]. split; [lia|]. split; [exact H4|]. intros e He. left. apply H5; assumption.
  - destruct (schedule (m_s m) (once_cfg ot c) []) as [s' r'] eqn:E. inversion H; subst; clear H. cbn.
    destruct (schedule_wf _ _ _ _ _ (once_cfg_valid ot c Hv) Hw E) as (H1 & H2 & H3 & H4 & H5).
    split; [exact H1|]. split; [exact H2|]. split; [lia|]. split; [exact H4|]. intros e He. left. apply H5; [assumption|apply once_cfg_nonempty].
  - destruct (nmem id (s_reg (m_s m))) eqn:E; inversion H; subst; clear H; cbn.
    + split; [apply wf_shrink; [exact Hw|apply NoDup_filter; apply Hw|intros x Hx; apply remove_id_In in Hx; tauto]|].
      split; [reflexivity|]. split; [lia|]. split; [intros x _ Hx; apply remove_id_In in Hx; tauto|]. intros e He. discriminate.
    + split; [exact Hw|]. split; [reflexivity|]. split; [lia|]. split; [auto|]. intros e He. inversion He. auto.
  - destruct tags as [[|t tg]|]; inversion H; subst; clear H; cbn;
      (split; [apply wf_shrink; [exact Hw|try constructor; try (apply NoDup_filter; apply Hw)|intros x Hx; try contradiction; apply filter_In in Hx; tauto]|]);
      (split; [reflexivity|]); (split; [lia|]); (split; [intros x _ Hx; try contradiction; apply filter_In in Hx; tauto|]); intros e He; discriminate.
  - destruct tags as [[|t tg]|]; inversion H; subst; clear H; cbn;
      (split; [exact Hw|]); (split; [reflexivity|]); (split; [lia|]); (split; [auto|]); intros e He; discriminate.
  - destruct force.
    + destruct (is_perm_of order (s_reg (m_s m))); inversion H; subst; clear H; cbn;
        (split; [exact Hw|]); (split; [reflexivity|]); (split; [lia|]); (split; [auto|]); intros e He; [discriminate|inversion He; auto].
    + inversion H; subst; clear H; cbn. split; [exact Hw|]. split; [reflexivity|]. split; [lia|]. split; [auto|]. intros e He. discriminate.
  - destruct (m_texec m t) as [te|]; [|inversion H; subst; split; [exact Hw|]; split; [reflexivity|]; split; [lia|]; split; [auto|]; intros e He; inversion He; auto].
    destruct (get_job (m_s m) id) as [j|] eqn:Hj; [|inversion H; subst; split; [exact Hw|]; split; [reflexivity|]; split; [lia|]; split; [auto|]; intros e He; inversion He; auto].
    destruct (nmem id (s_reg (m_s m)) && negb (nmem id (map fst (te_prios te)))); [|inversion H; subst; split; [exact Hw|]; split; [reflexivity|]; split; [lia|]; split; [auto|]; intros e He; inversion He; auto].
    destruct (wf_jobs_ok _ Hw id j Hj) as [Hok Htz].
    unfold job_timedelta in H. rewrite dt_sub_same in H by (rewrite (aware_job_datetime j Hok), Htz; symmetry; apply aware_dt_now').
    cbn [bind] in H. inversion H; subst; clear H; cbn. split; [exact Hw|]. split; [reflexivity|]. split; [lia|]. split; [auto|]. intros e He. discriminate.
  - destruct (m_texec m t) as [te|]; inversion H; subst; clear H; cbn;
      (split; [exact Hw|]); (split; [reflexivity|]); (split; [lia|]); (split; [auto|]); intros e He; [discriminate|inversion He; auto].
  - destruct (get_job (m_s m) id) as [j|] eqn:Hj; inversion H; subst; clear H; cbn.
    + destruct (wf_jobs_ok _ Hw id j Hj) as [Hok Htz].
      split; [apply (wf_upd_job _ id j); [exact Hw|exact Hj|apply job_run_ok; exact Hok|reflexivity]|].
      split; [reflexivity|]. split; [lia|]. split; [auto|]. intros e He. discriminate.
    + split; [exact Hw|]. split; [reflexivity|]. split; [lia|]. split; [auto|]. intros e He. inversion He. auto.
  - unfold resched in H. destruct (get_job (m_s m) id) as [j|] eqn:Hj.
    + destruct (wf_jobs_ok _ Hw id j Hj) as [Hok Htz].
      destruct (job_calc_ok j (dt_now (s_now (m_s m)) (s_tz (m_s m))) Hok) as (j' & Hj' & Hok' & _ & Htz' & _);
        [rewrite Htz; apply aware_dt_now'|].
      rewrite Hj' in H. inversion H; subst; clear H; cbn.
      split; [apply (wf_upd_job _ id j); assumption|]. split; [reflexivity|]. split; [lia|]. split; [auto|]. intros e He. discriminate.
    + inversion H; subst; clear H; cbn. split; [exact Hw|]. split; [reflexivity|]. split; [lia|]. split; [auto|]. intros e He. discriminate.
  - inversion H; subst; clear H; cbn. unfold retire. destruct (get_job (m_s m) id) as [j|]; [destruct (has_attempts j)|];
      try (split; [exact Hw|]; split; [reflexivity|]; split; [lia|]; split; [auto|]; intros e He; discriminate).
    split; [apply wf_shrink; [exact Hw|apply NoDup_filter; apply Hw|intros x Hx; apply remove_id_In in Hx; tauto]|].
    split; [reflexivity|]. split; [cbn; lia|]. split; [cbn; intros x _ Hx; apply remove_id_In in Hx; tauto|]. intros e He. discriminate.
Qed.

(* all interleavings: any list of micro-operations *)
Theorem mrun_wf ops : forall m, wf (m_s m) -> Forall mop_valid ops -> wf (m_s (mrun m ops)).
Proof.
  induction ops as [|o r IH]; intros m Hw Hv; cbn; [exact Hw|]. inversion Hv as [|? ? Hv1 Hv2]; subst.
  destruct (mstep m o) as [m' res] eqn:E. cbn. apply IH; [|exact Hv2]. apply (mstep_wf m o m' res Hw Hv1 E).
Qed.
(* a job that left the job set (deleted, cleared or retired) is never resurrected *)
Theorem mrun_never_resurrected ops : forall m x,
  wf (m_s m) -> Forall mop_valid ops -> (x < s_next (m_s m))%nat -> ~ In x (s_reg (m_s m)) ->
  ~ In x (s_reg (m_s (mrun m ops))).
Proof.
  induction ops as [|o r IH]; intros m x Hw Hv Hx Hn; cbn; [exact Hn|]. inversion Hv as [|? ? Hv1 Hv2]; subst.
  destruct (mstep m o) as [m' res] eqn:E. cbn.
  destruct (mstep_wf m o m' res Hw Hv1 E) as (Hw' & _ & Hnx & Hreg & _).
  apply IH; [exact Hw'|exact Hv2|lia|]. intros Hin. apply Hn. apply Hreg; assumption.
Qed.

(* ---- what an exec_jobs call can choose ------------------------------------------------------------ *)
Definition texec_ok (te : texec) : Prop :=
  NoDup (map fst (te_prios te)) /\
  (forall b, te_batch te = Some b -> NoDup b /\ (te_force te = false -> forall x, In x b -> In x (map fst (te_prios te)))).
Definition mexec_ok (m : mstate) : Prop := forall t te, m_texec m t = Some te -> texec_ok te.

Lemma m_texec_upsert m s t te t' :
  m_texec (mkM s (upsert t te (m_exec m))) t' = if Nat.eqb t t' then Some te else m_texec m t'.
Proof. unfold m_texec. cbn. apply lookup_upsert. Qed.

(* a job is invoked at most once per exec_jobs call: the batch is duplicate free (and consists of
   jobs whose priority this call has read, i.e. jobs that were registered at that moment) *)
Theorem mstep_exec_ok m o m' r :
  wf (m_s m) -> mexec_ok m -> mstep m o = (m', r) -> mexec_ok m'.
Proof.
  intros Hw Hm H. 
  assert (Hkeep : forall s', mexec_ok (m_set_s m s')) by (intros s' t te Ht; apply (Hm t te Ht)).
  destruct o; cbn in H.
  - destruct (schedule _ _ _) as [s' r']. inversion H; subst. apply Hkeep.
  - destruct (schedule _ _ _) as [s' r']. inversion H; subst. apply Hkeep.
  - destruct (nmem id _); inversion H; subst; [apply Hkeep|exact Hm].
  - destruct tags as [[|? ?]|]; inversion H; subst; apply Hkeep.
  - destruct tags as [[|? ?]|]; inversion H; subst; apply Hkeep.
  - destruct force.
    + destruct (is_perm_of order (s_reg (m_s m))) eqn:Ep; inversion H; subst; [|exact Hm].
      intros t' te Ht. rewrite m_texec_upsert in Ht. destruct (Nat.eqb t t'); [|apply (Hm t' te Ht)].
      inversion Ht; subst. split; [constructor|]. cbn. intros b Hb. inversion Hb; subst.
      split; [apply (is_perm_of_spec _ _ (wf_reg_nodup _ Hw) Ep)|discriminate].
    + inversion H; subst. intros t' te Ht. rewrite m_texec_upsert in Ht. destruct (Nat.eqb t t'); [|apply (Hm t' te Ht)].
      inversion Ht; subst. split; [constructor|]. cbn. intros b Hb. discriminate.
  - destruct (m_texec m t) as [te|] eqn:Et; [|inversion H; subst; exact Hm].
    destruct (get_job (m_s m) id) as [j|]; [|inversion H; subst; exact Hm].
    destruct (nmem id (s_reg (m_s m)) && negb (nmem id (map fst (te_prios te)))) eqn:Ec; [|inversion H; subst; exact Hm].
    destruct (job_timedelta j _) as [d|e]; [|inversion H; subst; exact Hm].
    inversion H; subst; clear H. intros t' te' Ht. rewrite m_texec_upsert in Ht. destruct (Nat.eqb t t'); [|apply (Hm t' te' Ht)].
    inversion Ht; subst. destruct (Hm t te Et) as [Hn Hb]. apply andb_prop in Ec as [_ Ec]. apply negb_true_iff in Ec.
    split; cbn.
    + rewrite map_app. cbn. apply NoDup_app_nodup_singleton; [exact Hn|]. intros Hin. apply nmem_In in Hin. congruence.
    + intros b Hbb. destruct (Hb b Hbb) as [H1 H2]. split; [exact H1|]. intros Hf x Hx. rewrite map_app, in_app_iff. left. apply H2; assumption.
  - destruct (m_texec m t) as [te|] eqn:Et; [|inversion H; subst; exact Hm].
    inversion H; subst; clear H. intros t' te' Ht. rewrite m_texec_upsert in Ht. destruct (Nat.eqb t t'); [|apply (Hm t' te' Ht)].
    inversion Ht; subst. destruct (Hm t te Et) as [Hn Hb]. split; [exact Hn|]. cbn. intros b Hbb. inversion Hbb; subst.
    destruct (select_batch_sub (s_max_exec (m_s m)) (te_prios te) Hn) as [H1 H2]. split; [exact H1|]. intros _. exact H2.
  - destruct (get_job _ _); inversion H; subst; [apply Hkeep|exact Hm].
  - destruct (resched _ _) as [s' r']. inversion H; subst. apply Hkeep.
  - inversion H; subst. apply Hkeep.
Qed.

(* a deleted job is never chosen by an exec_jobs call that starts after the deletion returned:
   once x is outside the job set (and is an old id) no later call reads its priority *)
Definition not_seen (m : mstate) (t x : nat) : Prop :=
  forall te, m_texec m t = Some te ->
             ~ In x (map fst (te_prios te)) /\ (forall b, te_batch te = Some b -> ~ In x b).

Theorem mstep_not_chosen m o m' r t x :
  wf (m_s m) -> mop_valid o -> mexec_ok m -> (x < s_next (m_s m))%nat -> ~ In x (s_reg (m_s m)) ->
  not_seen m t x -> mstep m o = (m', r) -> not_seen m' t x.
Proof.
  intros Hw Hv Hm Hx Hn Hs H.
  assert (Hkeep : forall s', not_seen (m_set_s m s') t x) by (intros s' te Ht; apply (Hs te Ht)).
  destruct o; cbn in H.
  - destruct (schedule _ _ _) as [s' r']. inversion H; subst. apply Hkeep.
  - destruct (schedule _ _ _) as [s' r']. inversion H; subst. apply Hkeep.
  - destruct (nmem id _); inversion H; subst; [apply Hkeep|exact Hs].
  - destruct tags as [[|? ?]|]; inversion H; subst; apply Hkeep.
  - destruct tags as [[|? ?]|]; inversion H; subst; apply Hkeep.
  - destruct force.
    + destruct (is_perm_of order (s_reg (m_s m))) eqn:Ep; inversion H; subst; [|exact Hs].
      intros te Ht. rewrite m_texec_upsert in Ht. destruct (Nat.eqb t0 t); [|apply (Hs te Ht)].
      inversion Ht; subst. cbn. split; [auto|]. intros b Hb. inversion Hb; subst. intros Hin.
      apply Hn. apply (is_perm_of_spec _ _ (wf_reg_nodup _ Hw) Ep). exact Hin.
    + inversion H; subst. intros te Ht. rewrite m_texec_upsert in Ht. destruct (Nat.eqb t0 t); [|apply (Hs te Ht)].
      inversion Ht; subst. cbn. split; [auto|]. intros b Hb. discriminate.
  - destruct (m_texec m t0) as [te|] eqn:Et; [|inversion H; subst; exact Hs].
    destruct (get_job (m_s m) id) as [j|]; [|inversion H; subst; exact Hs].
    destruct (nmem id (s_reg (m_s m)) && negb (nmem id (map fst (te_prios te)))) eqn:Ec; [|inversion H; subst; exact Hs].
    destruct (job_timedelta j _) as [d|e]; [|inversion H; subst; exact Hs].
    inversion H; subst; clear H. intros te' Ht. rewrite m_texec_upsert in Ht.
    destruct (Nat.eqb t0 t) eqn:Ett; [|apply (Hs te' Ht)]. apply Nat.eqb_eq in Ett. subst t0.
    inversion Ht; subst. destruct (Hs te Et) as [H1 H2]. apply andb_prop in Ec as [Ec _]. apply nmem_In in Ec.
    split; cbn; [|exact H2]. rewrite map_app, in_app_iff. cbn. intros [Hin|[Heq|[]]]; [contradiction|]. subst. contradiction.
  - destruct (m_texec m t0) as [te|] eqn:Et; [|inversion H; subst; exact Hs].
    inversion H; subst; clear H. intros te' Ht. rewrite m_texec_upsert in Ht.
    destruct (Nat.eqb t0 t) eqn:Ett; [|apply (Hs te' Ht)]. apply Nat.eqb_eq in Ett. subst t0.
    inversion Ht; subst. destruct (Hs te Et) as [H1 H2]. split; [exact H1|]. cbn. intros b Hb. inversion Hb; subst.
    destruct (Hm t te Et) as [Hnd _].
    destruct (select_batch_sub (s_max_exec (m_s m)) (te_prios te) Hnd) as [_ Hsub]. intros Hin. apply H1. apply Hsub. exact Hin.
  - destruct (get_job _ _); inversion H; subst; [apply Hkeep|exact Hs].
  - destruct (resched _ _) as [s' r']. inversion H; subst. apply Hkeep.
  - inversion H; subst. apply Hkeep.
Qed.

(* ---- the attempt budget does NOT survive overlapping exec_jobs calls (known finding) ------------- *)
Theorem overlapping_exec_budget_refuted :
  let c := mkCfg CYCLIC [TCyclic 5] 1 [] true None None false 1 1 [] [] [] in
  exists s0, sched_init None 0 PLinear [] 1000 = Ok s0 /\
  let m0 := m_init (run s0 [OCall (CSchedule c) []; ONow 2000]) in
  let m1 := mrun m0 [MBegin 0 false []; MPrio 0 0 None; MSelect 0;          (* thread A chooses job 0 *)
                     MBegin 1 false []; MPrio 1 0 None; MSelect 1;          (* thread B chooses job 0 too *)
                     MRun 0 false; MRun 0 false;                             (* both run it *)
                     MResched 0; MRetire 0; MResched 0; MRetire 0]%nat in
  option_map j_attempts (get_job (m_s m1) 0%nat) = Some 2 /\
  option_map (fun j => c_max_attempts (j_cfg j)) (get_job (m_s m1) 0%nat) = Some 1 /\
  s_reg (m_s m1) = [].
Proof. cbv zeta. eexists. split; [vm_compute; reflexivity|]. vm_compute. repeat split. Qed.
(* partial form: when a call's choice, runs and retirements are not interleaved with another call's
   on the same job, the sequential theorem (C06_budget) applies: see Proofs/SchedFacts.v *)
