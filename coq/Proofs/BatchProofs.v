(* C09: a batched job fires on the union of its entries' schedules. *)
From Coq Require Import ZArith List Bool Lia ZifyBool Arith PeanoNat.
From Sv Require Import PyTime Timer Job Occur TimerProofs JobProofs EquivProofs.
Import ListNotations.
Open Scope Z_scope.
Ltac Zify.zify_post_hook ::= Z.to_euclidean_division_equations.

(* ---- argmin ------------------------------------------------------------------------------------------ *)
Lemma argmin_from_spec l : forall pre best bv,
  (best < length pre)%nat -> nth best pre 0 = bv ->
  (forall k, (k < length pre)%nat -> bv <= nth k pre 0) ->
  let m := argmin_from (length pre) best bv l in
  (m < length (pre ++ l))%nat /\
  forall k, (k < length (pre ++ l))%nat -> nth m (pre ++ l) 0 <= nth k (pre ++ l) 0.
Proof.
  induction l as [|v r IH]; intros pre best bv Hb Hn Hmin; cbn [argmin_from].
  - rewrite app_nil_r. split; [exact Hb|]. intros k Hk. rewrite Hn. apply Hmin. exact Hk.
  - replace (pre ++ v :: r) with ((pre ++ [v]) ++ r) by (rewrite <- app_assoc; reflexivity).
    replace (S (length pre)) with (length (pre ++ [v])) by (rewrite app_length; cbn; lia).
    destruct (v <? bv) eqn:E.
    + apply IH.
      * rewrite app_length. cbn. lia.
      * rewrite app_nth2 by lia. rewrite Nat.sub_diag. reflexivity.
      * intros k Hk. rewrite app_length in Hk. cbn in Hk. destruct (Nat.lt_ge_cases k (length pre)) as [Hlt|Hge].
        -- rewrite app_nth1 by exact Hlt. specialize (Hmin k Hlt). lia.
        -- rewrite app_nth2 by exact Hge. replace (k - length pre)%nat with O by lia. cbn. lia.
    + apply IH.
      * rewrite app_length. cbn. lia.
      * rewrite app_nth1 by exact Hb. exact Hn.
      * intros k Hk. rewrite app_length in Hk. cbn in Hk. destruct (Nat.lt_ge_cases k (length pre)) as [Hlt|Hge].
        -- rewrite app_nth1 by exact Hlt. apply Hmin. exact Hlt.
        -- rewrite app_nth2 by exact Hge. replace (k - length pre)%nat with O by lia. cbn. lia.
Qed.

Lemma argmin_spec l :
  l <> [] -> (argmin l < length l)%nat /\ forall k, (k < length l)%nat -> nth (argmin l) l 0 <= nth k l 0.
Proof.
  destruct l as [|v r]; [congruence|]. intros _. cbn [argmin].
  apply (argmin_from_spec r [v] O v); cbn; try lia; try reflexivity.
  intros k Hk. destruct k; [lia|lia].
Qed.

(* ---- two entries that share one instant denote the same recurring instants ------------------------ *)
Lemma occ_shared_same ty tg1 tg2 d :
  ty <> CYCLIC -> valid_entry ty tg1 -> valid_entry ty tg2 ->
  occ ty tg1 d -> occ ty tg2 d -> same_occ ty tg1 tg2.
Proof.
  intros Hty Hv1 Hv2 H1 H2. destruct ty; try congruence; destruct tg1 as [|t1|w1 t1], tg2 as [|t2|w2 t2];
    cbn in *; try contradiction.
  - apply same_occ_minutely; try assumption. unfold occ_minutely, reading, valid_time, MN, SEC in *. lia.
  - apply same_occ_hourly; try assumption. unfold occ_hourly, reading, valid_time, HR, SEC in *. lia.
  - apply same_occ_daily; try assumption. unfold occ_daily, reading, valid_time, tod, D, SEC in *. lia.
  - destruct Hv1 as [Hv1 Hw1], Hv2 as [Hv2 Hw2]. apply same_occ_weekly; try assumption.
    rewrite occ_weekly_coset in H1, H2 by assumption.
    pose proof (wk_range w1 t1 Hv1 Hw1) as R1. pose proof (wk_range w2 t2 Hv2 Hw2) as R2.
    revert H1 H2 R1 R2. generalize (w1 * D + tod t1) as a1. generalize (w2 * D + tod t2) as a2.
    generalize (oz (t_off t1)) as o1. generalize (oz (t_off t2)) as o2. unfold WK. intros. lia.
Qed.

(* ---- list facts by index ------------------------------------------------------------------------------ *)
Lemma Forall_nth_iff {A} (P : A -> Prop) l d :
  Forall P l <-> forall k, (k < length l)%nat -> P (nth k l d).
Proof.
  split.
  - intros H k Hk. rewrite Forall_forall in H. apply H. apply nth_In. exact Hk.
  - intros H. apply Forall_forall. intros x Hx. destruct (In_nth l x d Hx) as (k & Hk & <-). apply H. exact Hk.
Qed.
Lemma nth_replace_nth {A} p (l : list A) x d k :
  (p < length l)%nat -> nth k (replace_nth p l x) d = if Nat.eqb k p then x else nth k l d.
Proof.
  revert p k. induction l as [|y r IH]; intros p k Hp; cbn in Hp; [lia|].
  destruct p; cbn.
  - destruct k; reflexivity.
  - destruct k; cbn; [reflexivity|]. apply IH. lia.
Qed.
Lemma FOP_nth {A} (R : A -> A -> Prop) l d :
  ForallOrdPairs R l -> forall a b, (a < b)%nat -> (b < length l)%nat -> R (nth a l d) (nth b l d).
Proof.
  induction 1 as [|x t Hx Hp IH]; intros a b Hab Hb; cbn in Hb; [lia|].
  destruct b; [lia|]. destruct a; cbn.
  - rewrite Forall_forall in Hx. apply Hx. apply nth_In. lia.
  - apply IH; lia.
Qed.

(* ---- the invariant of a batched clock job ------------------------------------------------------------- *)
Definition union_occ (ty : jobtype) (tgs : list timing) (x : Z) : Prop :=
  exists tg, In tg tgs /\ occ ty tg x.

Definition batch_inv (L : Z) (j : job) : Prop :=
  job_ok j /\ c_type (j_cfg j) <> CYCLIC /\ c_skip (j_cfg j) = false /\ c_delay (j_cfg j) = true /\
  ForallOrdPairs (fun a b => ~ same_occ (c_type (j_cfg j)) a b) (map jt_timing (j_timers j)) /\
  Forall (fun tm => is_next (occ (c_type (j_cfg j)) (jt_timing tm)) L (utc (jt_next tm))) (j_timers j).

Lemma nth_utc_next tms k :
  nth k (map utc (map jt_next tms)) 0 = utc (jt_next (nth k tms dummy_timer)).
Proof.
  change 0 with (utc (jt_next dummy_timer)). rewrite map_map. apply (map_nth (fun tm => utc (jt_next tm))).
Qed.

Lemma batch_due L j :
  batch_inv L j ->
  (j_pending j < length (j_timers j))%nat /\
  job_datetime j = jt_next (pending_timer j) /\
  forall k, (k < length (j_timers j))%nat ->
            utc (jt_next (pending_timer j)) <= utc (jt_next (nth k (j_timers j) dummy_timer)).
Proof.
  intros (Hok & Hty & Hsk & Hdl & Hpw & Hnx).
  pose proof (jok_pending j Hok) as Hp. pose proof (pending_index_lt _ _ Hp) as Hlt.
  split; [exact Hlt|]. split; [unfold job_datetime; rewrite Hdl; reflexivity|].
  unfold pending_index in Hp. destruct (j_timers j) as [|tm r] eqn:Etm; [discriminate|].
  destruct (all_same_awareness _); [|discriminate]. inversion Hp as [Hp']. clear Hp.
  assert (Hne : map utc (map jt_next (tm :: r)) <> []) by discriminate.
  destruct (argmin_spec _ Hne) as [_ Hmin].
  intros k Hk. unfold pending_timer. rewrite Etm, <- Hp'. rewrite <- !nth_utc_next. apply Hmin.
  rewrite !map_length. exact Hk.
Qed.

(* the job's due instant is the earliest occurrence of ANY of its entries after L *)
Theorem batch_due_is_next_union L j :
  batch_inv L j ->
  is_next (union_occ (c_type (j_cfg j)) (c_timing (j_cfg j))) L (utc (job_datetime j)).
Proof.
  intros Hb. destruct (batch_due L j Hb) as (Hlt & Hd & Hmin).
  destruct Hb as (Hok & Hty & Hsk & Hdl & Hpw & Hnx).
  rewrite Hd. rewrite (Forall_nth_iff _ _ dummy_timer) in Hnx.
  pose proof (Hnx _ Hlt) as (H1 & H2 & H3). fold (pending_timer j) in H1, H2, H3.
  split; [exact H1|]. split.
  - exists (jt_timing (pending_timer j)). split; [|exact H2].
    rewrite <- (jok_timing j Hok). apply in_map. apply nth_In. exact Hlt.
  - intros y Hy1 Hy2 (tg & Hin & Hocc). rewrite <- (jok_timing j Hok) in Hin.
    apply in_map_iff in Hin as (tm & <- & Hin). destruct (In_nth _ _ dummy_timer Hin) as (k & Hk & Hnth).
    pose proof (Hnx k Hk) as (K1 & K2 & K3). rewrite Hnth in K3.
    apply (K3 y Hy1); [|exact Hocc]. specialize (Hmin k Hk). rewrite Hnth in Hmin. lia.
Qed.

Lemma same_occ_sym ty a b : same_occ ty a b -> same_occ ty b a.
Proof. intros H x. symmetry. apply H. Qed.

(* one execution: the pending entry moves one period on, and the new due instant is the next
   occurrence of the union after the one just consumed *)
Theorem batch_cycle L j run :
  batch_inv L j -> aware (snd run) = tz_aware (j_tz j) ->
  exists j', job_cycle j run = Ok j' /\ batch_inv (utc (job_datetime j)) j' /\
             j_cfg j' = j_cfg j /\ j_tz j' = j_tz j /\ j_attempts j' = j_attempts j + 1.
Proof.
  intros Hb Hr. destruct (batch_due L j Hb) as (Hlt & Hd & Hmin).
  destruct Hb as (Hok & Hty & Hsk & Hdl & Hpw & Hnx).
  unfold job_cycle. pose proof (job_run_ok j (fst run) Hok) as Hok1.
  destruct (job_calc_ok (job_run j (fst run)) (snd run) Hok1 Hr)
    as (j' & Hj' & Hok' & Hcfg & Htz & Hst & Hat & Hfl & _ & Hct & _).
  exists j'. split; [exact Hj'|].
  cbn [job_run j_cfg j_tz j_attempts] in Hcfg, Htz, Hat.
  unfold calc_timers in Hct. cbn [job_run j_cfg j_attempts j_timers j_pending] in Hct.
  rewrite Hsk, Hdl in Hct. cbn [orb] in Hct.
  change (pending_timer (job_run j (fst run))) with (pending_timer j) in Hct.
  pose proof (nth_wf _ _ _ _ _ (jok_timers j Hok) Hlt) as Hwf. fold (pending_timer j) in Hwf.
  destruct Hwf as (Wty & Wsk & Waw & Wrest).
  assert (Wok : timer_ok (pending_timer j)) by (destruct (c_type (j_cfg j)); try congruence; apply Wrest).
  assert (Wskf : jt_skip (pending_timer j) = false) by congruence.
  destruct (timer_advance (pending_timer j) (Some (snd run)) Wok Wskf) as (tm' & Htm' & Hok2 & T1 & T2 & T3 & T4).
  rewrite Htm' in Hct. cbn [bind] in Hct. inversion Hct as [Hct']. symmetry in Hct'.
  split; [|repeat split; assumption].
  unfold batch_inv. rewrite Hcfg. split; [exact Hok'|]. split; [exact Hty|]. split; [exact Hsk|]. split; [exact Hdl|].
  assert (Htim : map jt_timing (j_timers j') = map jt_timing (j_timers j)).
  { rewrite Hct'. apply replace_nth_timing; [exact Hlt|exact T2]. }
  split; [rewrite Htim; exact Hpw|].
  rewrite (Forall_nth_iff _ _ dummy_timer) in Hnx. rewrite (Forall_nth_iff _ _ dummy_timer).
  rewrite Hct', replace_nth_length. intros k Hk. rewrite nth_replace_nth by exact Hlt.
  pose proof (Hnx _ Hlt) as (P1 & P2 & P3). fold (pending_timer j) in P1, P2, P3.
  rewrite Hd. destruct (Nat.eqb k (j_pending j)) eqn:Ek.
  - (* the advanced entry *)
    rewrite T2, T4, Wty. apply occ_succ; [exact Hty| |exact P2].
    rewrite <- Wty. apply Wok.
  - apply Nat.eqb_neq in Ek.
    pose proof (Hnx k Hk) as (K1 & K2 & K3). specialize (Hmin k Hk).
    assert (Hne : utc (jt_next (nth k (j_timers j) dummy_timer)) <> utc (jt_next (pending_timer j))).
    { intros Heq. rewrite Heq in K2.
      pose proof (nth_wf _ _ _ _ _ (jok_timers j Hok) Hk) as (Kty & _ & _ & Krest).
      assert (Kok : timer_ok (nth k (j_timers j) dummy_timer)) by (destruct (c_type (j_cfg j)); try congruence; apply Krest).
      assert (Hsame : same_occ (c_type (j_cfg j)) (jt_timing (nth k (j_timers j) dummy_timer)) (jt_timing (pending_timer j))).
      { apply (occ_shared_same _ _ _ (utc (jt_next (pending_timer j))) Hty); try assumption.
        - rewrite <- Kty. apply Kok.
        - rewrite <- Wty. apply Wok. }
      (* contradicts pairwise non-equivalence *)
      assert (Hkm : forall a b, (a < b)%nat -> (b < length (j_timers j))%nat ->
                ~ same_occ (c_type (j_cfg j)) (jt_timing (nth a (j_timers j) dummy_timer)) (jt_timing (nth b (j_timers j) dummy_timer))).
      { intros a b Hab Hbl. pose proof (FOP_nth _ _ (jt_timing dummy_timer) Hpw a b Hab) as Hf.
        rewrite map_length in Hf. specialize (Hf Hbl). rewrite !(map_nth jt_timing) in Hf. exact Hf. }
      destruct (Nat.lt_total k (j_pending j)) as [Hc|[Hc|Hc]]; [|congruence|].
      - apply (Hkm k (j_pending j) Hc Hlt). exact Hsame.
      - apply (Hkm (j_pending j) k Hc Hk). apply same_occ_sym. exact Hsame. }
    split; [lia|]. split; [exact K2|]. intros y Hy1 Hy2. apply K3; lia.
Qed.

Fixpoint dues (j : job) (runs : list (bool * datetime)) : res (list Z) :=
  match runs with
  | [] => Ok [utc (job_datetime j)]
  | r :: rest => j' <- job_cycle j r ;; ds <- dues j' rest ;; Ok (utc (job_datetime j) :: ds)
  end.
(* consecutive elements: each is the next union occurrence after its predecessor *)
Fixpoint chain (P : Z -> Prop) (prev : Z) (l : list Z) : Prop :=
  match l with
  | [] => True
  | x :: r => is_next P prev x /\ chain P x r
  end.

(* C09: over any number of executions at arbitrary polling instants the successive due times
   enumerate, in ascending order and without omission or repetition, the occurrences of all
   entries *)
Theorem batch_due_enumerates_union runs : forall L j,
  batch_inv L j -> Forall (fun r => aware (snd r) = tz_aware (j_tz j)) runs ->
  exists ds, dues j runs = Ok ds /\ length ds = S (length runs) /\
             chain (union_occ (c_type (j_cfg j)) (c_timing (j_cfg j))) L ds.
Proof.
  induction runs as [|r rest IH]; intros L j Hb Hr; cbn [dues].
  - eexists. split; [reflexivity|]. split; [reflexivity|]. cbn. split; [|exact I].
    apply batch_due_is_next_union. exact Hb.
  - inversion Hr as [|? ? Hr1 Hr2]; subst.
    destruct (batch_cycle L j r Hb Hr1) as (j' & Hj' & Hb' & Hcfg & Htz & _).
    rewrite Hj'. cbn [bind].
    destruct (IH _ j' Hb') as (ds & Hds & Hlen & Hch); [rewrite Htz; exact Hr2|].
    rewrite Hds. cbn [bind]. eexists. split; [reflexivity|]. split; [cbn; lia|].
    cbn [chain]. split; [apply batch_due_is_next_union; exact Hb|]. rewrite <- Hcfg. exact Hch.
Qed.

(* ---- a freshly created batched job satisfies the invariant ------------------------------------------- *)
Lemma job_create_checks c tz now j :
  job_create c tz now = Ok j ->
  let ty := c_type c in let tgs := standardize_timing ty (c_timing c) in
  sane_timing ty tgs = true /\ timing_tz_ok ty tgs tz = true /\ dup_ok ty tgs tz = true.
Proof.
  intros H ty tgs. unfold job_create in H. fold ty in H. fold tgs in H.
  destruct (sane_timing ty tgs); [|discriminate]. destruct (timing_tz_ok ty tgs tz); [|discriminate].
  destruct (dup_ok ty tgs tz); [|discriminate]. auto.
Qed.

Theorem created_batch c tz now j :
  cfg_valid c -> job_create c tz now = Ok j -> c_type c <> CYCLIC -> c_skip c = false -> c_delay c = true ->
  batch_inv (utc (match c_start c with Some s => s | None => dt_now now tz end)) j.
Proof.
  intros Hv Hc Hty Hsk Hdl.
  destruct (job_create_checks c tz now j Hc) as (E1 & E2 & E3).
  destruct (job_create_ok c tz now j Hv Hc) as [Hok Htz Hcty Hctg _ _ Hcdl _ Hcsk _ _ Hstart _ _ Hfirst _].
  unfold batch_inv. rewrite Hcty, Hcsk, Hcdl. split; [exact Hok|]. split; [exact Hty|]. split; [exact Hsk|]. split; [exact Hdl|].
  split.
  - rewrite (jok_timing j Hok), Hctg.
    set (ty := c_type c) in *. set (tgs := standardize_timing ty (c_timing c)) in *.
    unfold sane_timing in E1. apply andb_prop in E1 as [E1 _]. rewrite forallb_forall in E1.
    assert (Hraw : forall tg, In tg (c_timing c) -> entry_valid tg) by (apply Forall_forall; exact Hv).
    destruct ty eqn:Ety; try congruence.
    + apply (dup_ok_times MINUTELY tgs tz); [auto| |exact E3]. apply Forall_forall. intros tg Hin.
      unfold tgs, standardize_timing in Hin. apply in_map_iff in Hin as (raw & <- & Hin).
      specialize (E1 _ (in_map _ _ _ Hin)). specialize (Hraw _ Hin). destruct raw as [|t|]; cbn in E1; try discriminate. exists t. auto.
    + apply (dup_ok_times HOURLY tgs tz); [auto| |exact E3]. apply Forall_forall. intros tg Hin.
      unfold tgs, standardize_timing in Hin. apply in_map_iff in Hin as (raw & <- & Hin).
      specialize (E1 _ (in_map _ _ _ Hin)). specialize (Hraw _ Hin). destruct raw as [|t|]; cbn in E1; try discriminate. exists t. auto.
    + apply (dup_ok_times DAILY tgs tz); [auto| |exact E3]. apply Forall_forall. intros tg Hin.
      unfold tgs, standardize_timing in Hin. apply in_map_iff in Hin as (raw & <- & Hin).
      specialize (E1 _ (in_map _ _ _ Hin)). specialize (Hraw _ Hin). destruct raw as [|t|]; cbn in E1; try discriminate. exists t. auto.
    + apply (dup_ok_weekly tgs tz); [|exact E3]. apply Forall_forall. intros tg Hin.
      unfold tgs, standardize_timing in Hin. apply in_map_iff in Hin as (raw & <- & Hin).
      specialize (E1 _ (in_map _ _ _ Hin)). specialize (Hraw _ Hin). destruct raw as [| |w t]; cbn in E1; try discriminate.
      cbn in Hraw. destruct Hraw as [Hvt Hw]. exists w, t. split; [exact Hvt|]. split; [exact Hw|]. split; [|reflexivity].
      unfold timing_tz_ok in E2. rewrite forallb_forall in E2.
      specialize (E2 (TWeekday w t) (in_map (standardize_entry WEEKLY) _ _ Hin)). cbn in E2.
      unfold tz_aware. destruct (t_aware t), tz; cbn in E2; congruence.
  - rewrite <- Hstart. eapply Forall_impl; [|exact Hfirst]. intros tm Hf.
    destruct (c_type c) eqn:Ety; try congruence; exact Hf.
Qed.
