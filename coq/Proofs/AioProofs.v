(* C17, C18: the asyncio scheduler as a discrete-event system. *)
From Coq Require Import ZArith List Bool Lia ZifyBool Arith PeanoNat.
From Sv Require Import PyTime Timer Job Sched Aio Occur TimerProofs JobProofs SchedProofs.
Import ListNotations.
Open Scope Z_scope.

(* ---- C17: never early, no further delay -------------------------------------------------------- *)
Theorem wake_time_spec ref due :
  due <= wake_time ref due /\ ref <= wake_time ref due /\
  (ref <= due -> wake_time ref due = due) /\ (due <= ref -> wake_time ref due = ref).
Proof. unfold wake_time. lia. Qed.

Definition active (p : phase) : Prop := match p with PSleep _ | PRun _ => True | _ => False end.
Definition activeb (p : phase) : bool := match p with PSleep _ | PRun _ => true | _ => false end.

(* entering the loop: sleep until max(reference, due) while attempts remain, else finish *)
Lemma enter_loop_spec a j ref :
  enter_loop a j ref =
    if has_attempts j
    then (mkAjob j (PSleep (Z.max ref (utc (job_datetime j)))) ref (aj_durs a) (aj_pre a) (aj_post a) (aj_kill a) (aj_sync a), true)
    else (mkAjob j PDone ref (aj_durs a) (aj_pre a) (aj_post a) (aj_kill a) (aj_sync a), false).
Proof. reflexivity. Qed.

(* ---- the invariant ------------------------------------------------------------------------------------ *)
Record aio_inv (s : aio) : Prop := {
  ai_bound : forall id, In id (map fst (a_jobs s)) -> (id < a_next s)%nat;
  ai_keys : NoDup (map fst (a_jobs s));
  ai_reg_nodup : NoDup (a_reg s);
  ai_jobs : forall id a, a_get s id = Some a -> job_ok (aj_job a) /\ j_tz (aj_job a) = a_tz s;
  (* registered <=> the supervising task is alive and not asked to die *)
  ai_reg : forall id, In id (a_reg s) -> exists a, a_get s id = Some a /\ active (aj_phase a) /\ aj_kill a = false;
  (* a sleeping supervisor's job can still run *)
  ai_sleep : forall id a w, a_get s id = Some a -> aj_phase a = PSleep w -> has_attempts (aj_job a) = true
}.

(* replacing the record of one job *)
Lemma inv_update s id a a' reg' evs :
  aio_inv s -> a_get s id = Some a ->
  job_ok (aj_job a') -> j_tz (aj_job a') = a_tz s ->
  NoDup reg' -> (forall x, In x reg' -> In x (a_reg s)) ->
  (In id reg' -> active (aj_phase a') /\ aj_kill a' = false) ->
  (forall w, aj_phase a' = PSleep w -> has_attempts (aj_job a') = true) ->
  aio_inv (a_set s reg' (update id a' (a_jobs s)) evs).
Proof.
  intros [Hb Hk Hrn Hj Hr Hs] Hget Hok Htz Hnd Hsub Hact Hsl.
  assert (Hsame : lookup id (update id a' (a_jobs s)) = Some a').
  { apply lookup_update_same. unfold a_get in Hget. congruence. }
  assert (Hother : forall x, x <> id -> lookup x (update id a' (a_jobs s)) = lookup x (a_jobs s)).
  { intros x Hx. apply lookup_update_other. congruence. }
  constructor; unfold a_get in *; cbn.
  - rewrite update_keys. exact Hb.
  - rewrite update_keys. exact Hk.
  - exact Hnd.
  - intros x ax Hx. destruct (Nat.eq_dec x id) as [->|Hne].
    + rewrite Hsame in Hx. inversion Hx; subst. split; assumption.
    + rewrite Hother in Hx by exact Hne. apply (Hj x ax Hx).
  - intros x Hin. destruct (Nat.eq_dec x id) as [->|Hne].
    + exists a'. split; [exact Hsame|]. apply Hact. exact Hin.
    + rewrite Hother by exact Hne. apply Hr. apply Hsub. exact Hin.
  - intros x ax w Hx Hp. destruct (Nat.eq_dec x id) as [->|Hne].
    + rewrite Hsame in Hx. inversion Hx; subst. apply (Hsl w Hp).
    + rewrite Hother in Hx by exact Hne. apply (Hs x ax w Hx Hp).
Qed.

Lemma inv_events s evs : aio_inv s -> aio_inv (a_set s (a_reg s) (a_jobs s) evs).
Proof. intros [a b c d e f]. constructor; assumption. Qed.
Lemma inv_now s t : aio_inv s -> aio_inv (mkAio (a_tz s) t (a_reg s) (a_jobs s) (a_next s) (a_events s)).
Proof. intros [a b c d e f]. constructor; assumption. Qed.

(* what an operation leaves untouched *)
Record aframe (s s' : aio) : Prop := {
  af_tz : a_tz s' = a_tz s;
  af_now : a_now s' = a_now s;
  af_next : a_next s' = a_next s;
  af_keys : map fst (a_jobs s') = map fst (a_jobs s);
  af_reg : forall x, In x (a_reg s') -> In x (a_reg s)
}.
Lemma aframe_refl s : aframe s s.
Proof. constructor; auto. Qed.
Lemma aframe_trans s1 s2 s3 : aframe s1 s2 -> aframe s2 s3 -> aframe s1 s3.
Proof. intros [a b c d e] [a' b' c' d' e']. constructor; try congruence. auto. Qed.

(* ---- delete_job / cancel ------------------------------------------------------------------------------ *)
Lemma a_cancel_inv s id self :
  aio_inv s -> aio_inv (a_cancel s id self) /\ aframe s (a_cancel s id self) /\
  ~ In id (a_reg (a_cancel s id self)).
Proof.
  intros Hi. unfold a_cancel. destruct (a_get s id) as [a|] eqn:Hget.
  - set (is_self := match self with Some x => Nat.eqb x id | None => false end).
    set (a' := if is_self then aj_set_kill a else match aj_phase a with PSleep _ => aj_set_phase a PCancelled | PRun _ => aj_set_phase a PCancelled | _ => a end).
    assert (Hjob : aj_job a' = aj_job a) by (subst a'; destruct is_self; [reflexivity|destruct (aj_phase a); reflexivity]).
    split; [|split].
    + apply (inv_update s id a a'); try assumption.
      * rewrite Hjob. apply (ai_jobs s Hi id a Hget).
      * rewrite Hjob. apply (ai_jobs s Hi id a Hget).
      * apply NoDup_filter. apply Hi.
      * intros x Hx. apply remove_id_In in Hx. tauto.
      * intros Hin. apply remove_id_In in Hin. tauto.
      * intros w Hw. rewrite Hjob. subst a'. destruct is_self.
        -- cbn in Hw. apply (ai_sleep s Hi id a w Hget Hw).
        -- destruct (aj_phase a) eqn:Ep; cbn in Hw; try discriminate; congruence.
    + constructor; cbn; try reflexivity; [apply update_keys|]. intros x Hx. apply remove_id_In in Hx. tauto.
    + cbn. intros Hin. apply remove_id_In in Hin. tauto.
  - split; [exact Hi|]. split; [apply aframe_refl|]. intros Hin.
    destruct (ai_reg s Hi id Hin) as (a & Ha & _). congruence.
Qed.

(* delete_job cancels for good: a suspended task becomes cancelled and leaves the job set *)
Theorem delete_cancels s id a :
  a_get s id = Some a -> In id (a_reg s) ->
  let s' := fst (a_op s (ADelete id) None) in
  snd (a_op s (ADelete id) None) = Ok VNone /\ ~ In id (a_reg s') /\
  exists a', a_get s' id = Some a' /\ aj_job a' = aj_job a /\
             (active (aj_phase a) -> aj_phase a' = PCancelled).
Proof.
  intros Hget Hin. cbn. assert (Hm : nmem id (a_reg s) = true) by (apply nmem_In; exact Hin). rewrite Hm. cbn.
  split; [reflexivity|]. unfold a_cancel. rewrite Hget. cbn. split.
  - intros H. apply remove_id_In in H. tauto.
  - unfold a_get. cbn. rewrite lookup_update_same by (unfold a_get in Hget; congruence).
    eexists. split; [reflexivity|]. destruct (aj_phase a); cbn; split; try reflexivity; tauto.
Qed.
Theorem delete_missing_raises s id self :
  ~ In id (a_reg s) -> a_op s (ADelete id) self = (s, Err SchedulerError).
Proof.
  intros H. cbn. destruct (nmem id (a_reg s)) eqn:E; [apply nmem_In in E; contradiction|reflexivity].
Qed.

(* a cancelled or finished supervisor never does anything again *)
Theorem finished_never_resumes s id a :
  a_get s id = Some a -> ~ active (aj_phase a) -> a_resume s id = s.
Proof. intros Hget Hn. unfold a_resume. rewrite Hget. destruct (aj_phase a); cbn in Hn; try tauto; reflexivity. Qed.
Lemma earliest_active l : forall best id w,
  earliest l best = Some (id, w) ->
  (best = Some (id, w)) \/ (exists a, In (id, a) l /\ wake_of a = Some w).
Proof.
  induction l as [|[k a] r IH]; intros best id w H; cbn in H; [left; exact H|].
  destruct (wake_of a) as [wa|] eqn:Ew.
  - destruct best as [[bid bw]|].
    + destruct (wa <? bw).
      * destruct (IH _ _ _ H) as [Hb|(a' & Hin & Hw)]; [inversion Hb; subst; right; exists a; split; [left; reflexivity|exact Ew]|right; exists a'; split; [right; exact Hin|exact Hw]].
      * destruct (IH _ _ _ H) as [Hb|(a' & Hin & Hw)]; [left; exact Hb|right; exists a'; split; [right; exact Hin|exact Hw]].
    + destruct (IH _ _ _ H) as [Hb|(a' & Hin & Hw)]; [inversion Hb; subst; right; exists a; split; [left; reflexivity|exact Ew]|right; exists a'; split; [right; exact Hin|exact Hw]].
  - destruct (IH _ _ _ H) as [Hb|(a' & Hin & Hw)]; [left; exact Hb|right; exists a'; split; [right; exact Hin|exact Hw]].
Qed.
(* the loop only ever resumes tasks that are suspended (never a cancelled or finished one) *)
Theorem loop_resumes_only_active s id w :
  earliest (a_jobs s) None = Some (id, w) -> exists a, In (id, a) (a_jobs s) /\ active (aj_phase a).
Proof.
  intros H. destruct (earliest_active _ _ _ _ H) as [Hb|(a & Hin & Hw)]; [discriminate|].
  exists a. split; [exact Hin|]. unfold wake_of in Hw. destruct (aj_phase a); cbn; try discriminate; exact I.
Qed.

(* ---- every operation preserves the invariant ---------------------------------------------------------- *)
Lemma cancel_all_inv sel : forall s self,
  aio_inv s -> aio_inv (fold_left (fun st id => a_cancel st id self) sel s) /\
               aframe s (fold_left (fun st id => a_cancel st id self) sel s).
Proof.
  induction sel as [|x r IH]; intros s self Hi; cbn; [split; [exact Hi|apply aframe_refl]|].
  destruct (a_cancel_inv s x self Hi) as (Hi1 & Hf1 & _).
  destruct (IH (a_cancel s x self) self Hi1) as (Hi2 & Hf2). split; [exact Hi2|eapply aframe_trans; eassumption].
Qed.

Lemma a_op_inv s o self s' r :
  aio_inv s -> a_op s o self = (s', r) ->
  aio_inv s' /\ aframe s s' /\ (forall e, r = Err e -> e = SchedulerError /\ s' = s).
Proof.
  intros Hi H. destruct o as [id|tags any|tags any|]; cbn in H.
  - destruct (nmem id (a_reg s)); inversion H; subst; clear H.
    + destruct (a_cancel_inv s id self Hi) as (H1 & H2 & _). split; [exact H1|]. split; [exact H2|]. intros e He. discriminate.
    + split; [exact Hi|]. split; [apply aframe_refl|]. intros e He. inversion He. auto.
  - inversion H; subst; clear H.
    destruct (cancel_all_inv (match tags with None | Some [] => a_reg s | Some tg => a_select s tg any end) s self Hi) as (H1 & H2).
    split; [exact H1|]. split; [exact H2|]. intros e He. discriminate.
  - inversion H; subst. split; [exact Hi|]. split; [apply aframe_refl|]. intros e He. discriminate.
  - inversion H; subst. split; [exact Hi|]. split; [apply aframe_refl|]. intros e He. discriminate.
Qed.

Lemma a_prog_inv p : forall s self s' b,
  aio_inv s -> a_prog s p self = (s', b) -> aio_inv s' /\ aframe s s'.
Proof.
  induction p as [|o r IH]; intros s self s' b Hi H; cbn in H; [inversion H; subst; split; [exact Hi|apply aframe_refl]|].
  destruct (a_op s o (Some self)) as [s1 r1] eqn:E.
  destruct (a_op_inv s o (Some self) s1 r1 Hi E) as (Hi1 & Hf1 & _).
  destruct r1 as [v|e].
  - destruct (IH s1 self s' b Hi1 H) as (Hi2 & Hf2). split; [exact Hi2|eapply aframe_trans; eassumption].
  - inversion H; subst. split; assumption.
Qed.

Lemma keys_get (s s' : aio) id a :
  map fst (a_jobs s') = map fst (a_jobs s) -> a_get s id = Some a -> exists a', a_get s' id = Some a'.
Proof.
  intros Hk Hg. unfold a_get in *. apply lookup_in_keys in Hg. rewrite <- Hk in Hg.
  clear -Hg. induction (a_jobs s') as [|[k v] t IH]; cbn in *; [contradiction|].
  destruct (Nat.eqb k id) eqn:E; [eauto|]. destruct Hg as [Hg|Hg]; [subst; rewrite Nat.eqb_refl in E; discriminate|auto].
Qed.

Lemma aware_dt_now_tz now tz : aware (dt_now now tz) = tz_aware tz.
Proof. destruct tz; reflexivity. Qed.

(* the tail of both resumption branches: run (or fail), reschedule with the completion instant as
   reference, re-enter the loop *)
Lemma finish_invocation_inv s1 id a1 raises evs :
  aio_inv s1 -> a_get s1 id = Some a1 ->
  exists j2, job_calc (job_run (aj_job a1) raises) (dt_now (a_now s1) (a_tz s1)) = Ok j2 /\
  let '(a2, live) := enter_loop a1 j2 (a_now s1) in
  let a3 := if aj_kill a1 then (if live then aj_set_phase a2 PCancelled else a2) else a2 in
  aio_inv (a_set s1 (if live then a_reg s1 else remove_id id (a_reg s1)) (update id a3 (a_jobs s1)) evs).
Proof.
  intros Hi Hg. destruct (ai_jobs s1 Hi id a1 Hg) as [Hok Htz].
  destruct (job_calc_ok (job_run (aj_job a1) raises) (dt_now (a_now s1) (a_tz s1)) (job_run_ok _ _ Hok))
    as (j2 & Hj2 & Hok2 & _ & Htz2 & _); [cbn; rewrite Htz; apply aware_dt_now_tz|].
  exists j2. split; [exact Hj2|]. rewrite enter_loop_spec.
  assert (Htz2' : j_tz j2 = a_tz s1) by (cbn in Htz2; congruence).
  destruct (has_attempts j2) eqn:Eh; cbv zeta.
  - destruct (aj_kill a1) eqn:Ek.
    + apply (inv_update s1 id a1 _ _ _ Hi Hg); cbn [aj_job aj_phase aj_kill aj_set_phase].
      * exact Hok2.
      * exact Htz2'.
      * apply Hi.
      * auto.
      * intros Hin. destruct (ai_reg s1 Hi id Hin) as (a' & Ha' & _ & Hk'). congruence.
      * discriminate.
    + apply (inv_update s1 id a1 _ _ _ Hi Hg); cbn [aj_job aj_phase aj_kill].
      * exact Hok2.
      * exact Htz2'.
      * apply Hi.
      * auto.
      * intros _. split; [exact I|first [exact Ek|reflexivity]].
      * intros w _. exact Eh.
  - assert (Hx : (if aj_kill a1 then mkAjob j2 PDone (a_now s1) (aj_durs a1) (aj_pre a1) (aj_post a1) (aj_kill a1) (aj_sync a1)
                  else mkAjob j2 PDone (a_now s1) (aj_durs a1) (aj_pre a1) (aj_post a1) (aj_kill a1) (aj_sync a1)) =
                 mkAjob j2 PDone (a_now s1) (aj_durs a1) (aj_pre a1) (aj_post a1) (aj_kill a1) (aj_sync a1)) by (destruct (aj_kill a1); reflexivity).
    rewrite Hx. apply (inv_update s1 id a1 _ _ _ Hi Hg); cbn [aj_job aj_phase aj_kill].
    + exact Hok2.
    + exact Htz2'.
    + apply NoDup_filter. apply Hi.
    + intros x Hin. apply remove_id_In in Hin. tauto.
    + intros Hin. apply remove_id_In in Hin. tauto.
    + discriminate.
Qed.

Lemma sync_raise_inv s id a :
  aio_inv s -> a_get s id = Some a ->
  aio_inv (match job_calc (job_run (aj_job a) true) (dt_now (a_now s) (a_tz s)) with
           | Err _ => s
           | Ok j2 =>
               let '(a2, live) := enter_loop a j2 (a_now s) in
               a_set s (if live then a_reg s else remove_id id (a_reg s)) (update id a2 (a_jobs s))
                     (ELogA id :: a_events s)
           end).
Proof.
  intros Hi Hg. destruct (ai_jobs s Hi id a Hg) as [Hok Htz].
  destruct (job_calc_ok (job_run (aj_job a) true) (dt_now (a_now s) (a_tz s)) (job_run_ok _ _ Hok))
    as (j2 & Hj2 & Hok2 & _ & Htz2 & _); [cbn; rewrite Htz; apply aware_dt_now_tz|].
  rewrite Hj2, enter_loop_spec.
  assert (Htz2' : j_tz j2 = a_tz s) by (cbn in Htz2; congruence).
  destruct (has_attempts j2) eqn:Eh.
  - apply (inv_update s id a _ _ _ Hi Hg); cbn [aj_job aj_phase aj_kill].
    + exact Hok2.
    + exact Htz2'.
    + apply Hi.
    + auto.
    + intros Hin. split; [exact I|]. destruct (ai_reg s Hi id Hin) as (a' & Ha' & _ & Hk'). congruence.
    + intros w _. exact Eh.
  - apply (inv_update s id a _ _ _ Hi Hg); cbn [aj_job aj_phase aj_kill].
    + exact Hok2.
    + exact Htz2'.
    + apply NoDup_filter. apply Hi.
    + intros x Hin. apply remove_id_In in Hin. tauto.
    + intros Hin. apply remove_id_In in Hin. tauto.
    + discriminate.
Qed.

Lemma a_resume_inv s id : aio_inv s -> aio_inv (a_resume s id).
Proof.
  intros Hi. unfold a_resume. destruct (a_get s id) as [a|] eqn:Hg; [|exact Hi].
  destruct (aj_phase a) eqn:Ep; try exact Hi.
  - (* PSleep *)
    destruct (nth (Z.to_nat (j_attempts (aj_job a))) (aj_sync a) false) eqn:Esy; [apply sync_raise_inv; assumption|].
    set (s0 := a_set s (a_reg s) (a_jobs s) _).
    assert (Hi0 : aio_inv s0) by (apply inv_events; exact Hi).
    destruct (a_prog s0 (aj_pre a) id) as [s1 praised] eqn:Ep1.
    destruct (a_prog_inv _ _ _ _ _ Hi0 Ep1) as (Hi1 & Hf1).
    destruct (a_get s1 id) as [a1|] eqn:Hg1; [|exact Hi1].
    assert (Hnow : a_now s1 = a_now s) by (rewrite (af_now _ _ Hf1); reflexivity).
    assert (Htz : a_tz s1 = a_tz s) by (rewrite (af_tz _ _ Hf1); reflexivity).
    destruct praised.
    + destruct (finish_invocation_inv s1 id a1 true (ELogA id :: a_events s1) Hi1 Hg1) as (j2 & Hj2 & Hinv).
      rewrite Hnow, Htz in Hj2. rewrite Hj2. rewrite Hnow in Hinv.
      destruct (enter_loop a1 j2 (a_now s)) as [a2 live]. exact Hinv.
    + destruct (aj_kill a1) eqn:Ek.
      * apply (inv_update s1 id a1 _ _ _ Hi1 Hg1); cbn [aj_job aj_phase aj_kill aj_set_phase].
        -- apply (ai_jobs s1 Hi1 id a1 Hg1).
        -- apply (ai_jobs s1 Hi1 id a1 Hg1).
        -- apply Hi1.
        -- auto.
        -- intros Hin. destruct (ai_reg s1 Hi1 id Hin) as (a' & Ha' & _ & Hk'). congruence.
        -- discriminate.
      * apply (inv_update s1 id a1 _ _ _ Hi1 Hg1); cbn [aj_job aj_phase aj_kill aj_set_phase].
        -- apply (ai_jobs s1 Hi1 id a1 Hg1).
        -- apply (ai_jobs s1 Hi1 id a1 Hg1).
        -- apply Hi1.
        -- auto.
        -- intros _. split; [exact I|first [exact Ek|reflexivity]].
        -- discriminate.
  - (* PRun *)
    set (s0 := a_set s (a_reg s) (a_jobs s) _).
    assert (Hi0 : aio_inv s0) by (apply inv_events; exact Hi).
    destruct (a_prog s0 (aj_post a) id) as [s1 praised] eqn:Ep1.
    destruct (a_prog_inv _ _ _ _ _ Hi0 Ep1) as (Hi1 & Hf1).
    destruct (a_get s1 id) as [a1|] eqn:Hg1; [|exact Hi1].
    assert (Hnow : a_now s1 = a_now s) by (rewrite (af_now _ _ Hf1); reflexivity).
    assert (Htz : a_tz s1 = a_tz s) by (rewrite (af_tz _ _ Hf1); reflexivity).
    cbv zeta.
    destruct (finish_invocation_inv s1 id a1 (praised || outcome_of (aj_job a1))
                (if praised || outcome_of (aj_job a1) then ELogA id :: a_events s1 else a_events s1) Hi1 Hg1) as (j2 & Hj2 & Hinv).
    rewrite Hnow, Htz in Hj2. rewrite Hj2. rewrite Hnow in Hinv.
    destruct (enter_loop a1 j2 (a_now s)) as [a2 live]. exact Hinv.
Qed.

Lemma a_run_inv fuel : forall s t s' ok, aio_inv s -> a_run fuel s t = (s', ok) -> aio_inv s'.
Proof.
  induction fuel as [|f IH]; intros s t s' ok Hi H; cbn in H; [inversion H; subst; exact Hi|].
  destruct (earliest (a_jobs s) None) as [[id w]|].
  - destruct (w <=? t).
    + apply (IH _ _ _ _ (a_resume_inv _ id (inv_now s (Z.max (a_now s) w) Hi)) H).
    + inversion H; subst. apply inv_now. exact Hi.
  - inversion H; subst. apply inv_now. exact Hi.
Qed.

Lemma a_schedule_inv s c durs pre post sync s' r :
  cfg_valid c -> aio_inv s -> a_schedule s c durs pre post sync = (s', r) ->
  aio_inv s' /\ (forall e, r = Err e -> c_timing c <> [] -> e = SchedulerError).
Proof.
  intros Hv Hi H. unfold a_schedule in H.
  destruct Hi as [Hb Hk Hrn Hj Hr Hs].
  destruct (job_create c (a_tz s) (a_now s)) as [j|e] eqn:Ec.
  - pose proof (job_create_ok _ _ _ _ Hv Ec) as Hcr. rewrite enter_loop_spec in H.
    assert (Hfresh : ~ In (a_next s) (map fst (a_jobs s))) by (intros Hin; specialize (Hb _ Hin); lia).
    assert (Hfresh_reg : ~ In (a_next s) (a_reg s)).
    { intros Hin. destruct (Hr _ Hin) as (a0 & Ha0 & _). unfold a_get in Ha0. apply lookup_in_keys in Ha0. contradiction. }
    assert (Hget : forall a id, lookup id (a_jobs s ++ [(a_next s, a)])
             = if Nat.eqb id (a_next s) then Some a else lookup id (a_jobs s)).
    { intros a id. rewrite lookup_app. cbn.
      destruct (Nat.eqb id (a_next s)) eqn:E.
      - apply Nat.eqb_eq in E. subst id. rewrite (lookup_none_keys _ _ Hfresh), Nat.eqb_refl. reflexivity.
      - rewrite Nat.eqb_sym, E. destruct (lookup id (a_jobs s)); reflexivity. }
    destruct (has_attempts j) eqn:Eh; inversion H; subst; clear H; (split; [|intros e He; discriminate]);
      constructor; unfold a_get in *; cbn.
    + intros id Hin. rewrite map_app, in_app_iff in Hin. cbn in Hin. destruct Hin as [Hin|[<-|[]]]; [specialize (Hb _ Hin)|]; lia.
    + rewrite map_app. cbn. apply NoDup_app_nodup_singleton; assumption.
    + apply NoDup_app_nodup_singleton; assumption.
    + intros id a Ha. rewrite Hget in Ha. destruct (Nat.eqb id (a_next s)); [|apply (Hj id a Ha)].
      inversion Ha; subst. cbn. split; apply Hcr.
    + intros id Hin. rewrite Hget. rewrite in_app_iff in Hin. destruct (Nat.eqb id (a_next s)) eqn:E.
      * eexists. split; [reflexivity|]. cbn. auto.
      * destruct Hin as [Hin|[Heq|[]]]; [apply Hr; exact Hin|subst; rewrite Nat.eqb_refl in E; discriminate].
    + intros id a w Ha Hp. rewrite Hget in Ha. destruct (Nat.eqb id (a_next s)); [|apply (Hs id a w Ha Hp)].
      inversion Ha; subst. cbn. exact Eh.
    + intros id Hin. rewrite map_app, in_app_iff in Hin. cbn in Hin. destruct Hin as [Hin|[<-|[]]]; [specialize (Hb _ Hin)|]; lia.
    + rewrite map_app. cbn. apply NoDup_app_nodup_singleton; assumption.
    + exact Hrn.
    + intros id a Ha. rewrite Hget in Ha. destruct (Nat.eqb id (a_next s)); [|apply (Hj id a Ha)].
      inversion Ha; subst. cbn. split; apply Hcr.
    + intros id Hin. rewrite Hget. destruct (Nat.eqb id (a_next s)) eqn:E.
      * apply Nat.eqb_eq in E. subst. contradiction.
      * apply Hr. exact Hin.
    + intros id a w Ha Hp. rewrite Hget in Ha. destruct (Nat.eqb id (a_next s)); [|apply (Hs id a w Ha Hp)].
      inversion Ha; subst. cbn in Hp. discriminate.
  - inversion H; subst; clear H. split.
    + constructor; cbn; try assumption. intros id Hin. specialize (Hb _ Hin). lia.
    + intros e0 He Hne. inversion He; subst. eapply job_create_err; eassumption.
Qed.

Definition atop_valid (o : atop) : Prop :=
  match o with
  | TSchedule c _ _ _ _ => cfg_valid c /\ c_timing c <> []
  | TOnce ot _ _ _ _ _ => once_valid ot
  | _ => True
  end.

(* no operation and no amount of virtual time ever breaks the invariant; a call fails only with
   SchedulerError (OtherError = the model's own fuel bound on one run) *)
Opaque RUN_FUEL.
Theorem a_step_inv s o s' r :
  aio_inv s -> atop_valid o -> a_step s o = (s', r) ->
  aio_inv s' /\ (forall e, r = Err e -> e = SchedulerError \/ e = OtherError).
Proof.
  intros Hi Hv H. unfold a_step in H.
  assert (Hi0 : aio_inv (a_clear s)) by (destruct Hi; constructor; assumption).
  set (s0 := a_clear s) in *.
  assert (Hsettle : forall s1 r1, aio_inv s1 -> (forall e, r1 = Err e -> e = SchedulerError) ->
            settle (s1, r1) = (s', r) -> aio_inv s' /\ (forall e, r = Err e -> e = SchedulerError \/ e = OtherError)).
  { intros s1 r1 H1 Hr1 Hs. unfold settle in Hs. cbn [fst snd] in Hs.
    destruct (a_run RUN_FUEL s1 (a_now s1)) as [s2 ok] eqn:Er. inversion Hs; subst.
    split; [apply (a_run_inv _ _ _ _ _ H1 Er)|]. intros e He. destruct ok; [left; apply Hr1; exact He|right; inversion He; reflexivity]. }
  destruct o as [c durs pre post sync|ot c durs pre post sync|o|t].
  - destruct Hv as [Hv1 Hv2]. destruct (a_schedule s0 c durs pre post sync) as [s1 r1] eqn:E.
    destruct (a_schedule_inv s0 c durs pre post sync s1 r1 Hv1 Hi0 E) as (H1 & H2).
    apply (Hsettle s1 r1 H1); [intros e He; apply H2; assumption|exact H].
  - destruct (a_schedule s0 (once_cfg ot c) durs pre post sync) as [s1 r1] eqn:E.
    destruct (a_schedule_inv s0 _ durs pre post sync s1 r1 (once_cfg_valid ot c Hv) Hi0 E) as (H1 & H2).
    apply (Hsettle s1 r1 H1); [intros e He; apply H2; [assumption|apply once_cfg_nonempty]|exact H].
  - destruct (a_op s0 o None) as [s1 r1] eqn:E.
    destruct (a_op_inv s0 o None s1 r1 Hi0 E) as (H1 & _ & H3).
    apply (Hsettle s1 r1 H1); [intros e He; apply (H3 e He)|exact H].
  - destruct (a_run RUN_FUEL s0 t) as [s1 ok] eqn:Er. inversion H; subst.
    split; [apply (a_run_inv _ _ _ _ _ Hi0 Er)|]. intros e He. destruct ok; [discriminate|right; inversion He; reflexivity].
Qed.

Theorem a_init_inv tz now : aio_inv (a_init tz now).
Proof.
  constructor; cbn; try constructor; try (intros; contradiction); try (intros; discriminate).
Qed.

(* ---- C17: what one invocation does (no operations inside the coroutine) -------------------------------- *)
(* a sleeping supervisor wakes: the coroutine starts NOW and is suspended for its duration *)
Theorem resume_starts_invocation s id a w :
  a_get s id = Some a -> aj_phase a = PSleep w -> aj_pre a = [] -> aj_kill a = false ->
  nth (Z.to_nat (j_attempts (aj_job a))) (aj_sync a) false = false ->
  a_resume s id =
    a_set s (a_reg s) (update id (aj_set_phase a (PRun (a_now s + dur_of a))) (a_jobs s))
          (EStart id (a_now s) (utc (job_datetime (aj_job a))) (c_args (j_cfg (aj_job a))) (c_kwargs (j_cfg (aj_job a)))
           :: a_events s).
Proof.
  intros Hg Hp Hpre Hk Hsy. unfold a_resume. rewrite Hg, Hp, Hsy, Hpre. cbn [a_prog].
  unfold a_get in *. cbn. rewrite Hg, Hk. reflexivity.
Qed.

(* the coroutine returns at instant e: the job is run and rescheduled by the SAME job_cycle as in
   the threading scheduler, with the completion instant as reference; then the supervisor sleeps
   until max(e, next due) or finishes and unregisters *)
Theorem resume_finishes_invocation s id a e :
  aio_inv s -> a_get s id = Some a -> aj_phase a = PRun e -> aj_post a = [] -> aj_kill a = false ->
  let raises := outcome_of (aj_job a) in
  exists j', job_cycle (aj_job a) (raises, dt_now (a_now s) (a_tz s)) = Ok j' /\
    a_resume s id =
      a_set s (if has_attempts j' then a_reg s else remove_id id (a_reg s))
            (update id (mkAjob j' (if has_attempts j' then PSleep (Z.max (a_now s) (utc (job_datetime j'))) else PDone)
                               (a_now s) (aj_durs a) (aj_pre a) (aj_post a) false (aj_sync a)) (a_jobs s))
            ((if raises then [ELogA id] else []) ++ EEnd id (a_now s) :: a_events s).
Proof.
  intros Hi Hg Hp Hpost Hk raises.
  destruct (ai_jobs s Hi id a Hg) as [Hok Htz].
  destruct (job_calc_ok (job_run (aj_job a) raises) (dt_now (a_now s) (a_tz s)) (job_run_ok _ _ Hok))
    as (j' & Hj' & _); [cbn; rewrite Htz; apply aware_dt_now_tz|].
  exists j'. split; [exact Hj'|].
  unfold a_resume. rewrite Hg, Hp, Hpost. cbn [a_prog]. unfold a_get in *. cbn [a_jobs a_set]. rewrite Hg. cbn [orb].
  fold raises. cbn [a_now a_tz a_set]. unfold job_cycle in Hj'. cbn [fst snd] in Hj'. rewrite Hj'.
  rewrite enter_loop_spec, Hk. destruct (has_attempts j'); destruct raises; cbn; rewrite ?Hpost; reflexivity.
Qed.

(* jobs run independently: resuming one task (whose coroutine does not use the scheduler) touches
   no other job's record *)
Theorem resume_touches_only_itself s id a x :
  a_get s id = Some a -> aj_pre a = [] -> aj_post a = [] -> x <> id -> a_get (a_resume s id) x = a_get s x.
Proof.
  intros Hg Hpre Hpost Hx. unfold a_resume. rewrite Hg. destruct (aj_phase a) eqn:Ep; try reflexivity.
  - destruct (nth (Z.to_nat (j_attempts (aj_job a))) (aj_sync a) false).
    + destruct (job_calc _ _) as [j2|e0]; [|reflexivity]. rewrite enter_loop_spec.
      unfold a_get. destruct (has_attempts j2); cbn; apply lookup_update_other; congruence.
    + rewrite Hpre. cbn [a_prog]. unfold a_get in *. cbn. rewrite Hg.
      destruct (aj_kill a); cbn; apply lookup_update_other; congruence.
  - rewrite Hpost. cbn [a_prog]. unfold a_get in *. cbn. rewrite Hg. cbn.
    destruct (job_calc _ _) as [j2|e0]; [|reflexivity].
    rewrite enter_loop_spec. destruct (has_attempts j2), (aj_kill a), (outcome_of (aj_job a)); cbn; apply lookup_update_other; congruence.
Qed.
