(* Proofs about the occurrence arithmetic and the JobTimer model (C01, C02, C08). *)
From Coq Require Import ZArith List Bool Lia ZifyBool.
From Sv Require Import PyTime Timer Occur.
Import ListNotations.
Open Scope Z_scope.
Ltac Zify.zify_post_hook ::= Z.to_euclidean_division_equations.

Ltac unfold_time :=
  unfold valid_time, tod, reading, oz, utc, D, HR, MN, SEC, WK in *.

(* ---- occurrence sets are periodic: the successor of an occurrence -------------------- *)
Lemma occ_minutely_succ t x : occ_minutely t x -> is_next (occ_minutely t) x (x + MN).
Proof. unfold is_next, occ_minutely; unfold_time. intros H. repeat split; try lia; try (intros y H1 H2 H3; lia). Qed.
Lemma occ_hourly_succ t x : occ_hourly t x -> is_next (occ_hourly t) x (x + HR).
Proof. unfold is_next, occ_hourly; unfold_time. intros H. repeat split; try lia; try (intros y H1 H2 H3; lia). Qed.
Lemma occ_daily_succ t x : occ_daily t x -> is_next (occ_daily t) x (x + D).
Proof. unfold is_next, occ_daily; unfold_time. intros H. repeat split; try lia; try (intros y H1 H2 H3; lia). Qed.
Lemma occ_weekly_succ w t x : occ_weekly w t x -> is_next (occ_weekly w t) x (x + WK).
Proof.
  unfold is_next, occ_weekly; unfold_time. intros [H H']. repeat split; try lia;
  try (intros y H1 H2 [H3 H4]; lia).
Qed.

(* ---- scheduler/util.py: each function returns the next occurrence ---------------------- *)
(* [now] already carries the timing's offset (or both are naive) *)
Lemma next_minutely_is_next now t :
  valid_time t -> off now = t_off t ->
  is_next (occ_minutely t) (utc now) (utc (m_next_minutely now t)).
Proof.
  intros Hv Ho. unfold is_next, occ_minutely, m_next_minutely. cbn [loc off]. unfold utc. cbn [loc off].
  rewrite Ho. unfold_time. destruct (t_off t) as [o|];
  destruct (_ <=? 0) eqn:E; repeat split; try lia; try (intros y H1 H2 H3; lia).
Qed.

Lemma next_hourly_is_next now t :
  valid_time t -> off now = t_off t ->
  is_next (occ_hourly t) (utc now) (utc (m_next_hourly now t)).
Proof.
  intros Hv Ho. unfold is_next, occ_hourly, m_next_hourly. cbn [loc off]. unfold utc. cbn [loc off].
  rewrite Ho. unfold_time. destruct (t_off t) as [o|];
  destruct (_ <=? 0) eqn:E; repeat split; try lia; try (intros y H1 H2 H3; lia).
Qed.

Lemma next_daily_is_next now t :
  valid_time t -> off now = t_off t ->
  is_next (occ_daily t) (utc now) (utc (m_next_daily now t)).
Proof.
  intros Hv Ho. unfold is_next, occ_daily, m_next_daily. cbn [loc off]. unfold utc. cbn [loc off].
  rewrite Ho. unfold_time. destruct (t_off t) as [o|];
  destruct (_ <=? 0) eqn:E; repeat split; try lia; try (intros y H1 H2 H3; lia).
Qed.

Lemma days_to_weekday_range src dst :
  0 <= src <= 6 -> 0 <= dst <= 6 ->
  1 <= m_days_to_weekday src dst <= 7 /\ (src + m_days_to_weekday src dst) mod 7 = dst.
Proof. unfold m_days_to_weekday. lia. Qed.

Lemma next_weekly_is_next now w t :
  valid_time t -> 0 <= w <= 6 -> off now = t_off t ->
  is_next (occ_weekly w t) (utc now) (utc (m_next_weekly now w t)).
Proof.
  intros Hv Hw Ho.
  unfold is_next, occ_weekly, m_next_weekly, m_next_daily, m_days_to_weekday, dt_weekday.
  cbn [loc off]. unfold utc. rewrite Ho. unfold_time.
  destruct (t_off t) as [o|];
  destruct (_ <=? 0) eqn:E; destruct (_ && _) eqn:E2; cbn [loc off];
  repeat split; try lia; try (intros y H1 H2 [H3 H4]; lia).
Qed.

(* ---- comparisons inside one awareness class never raise ------------------------------ *)
Lemma dt_keys_same a b : aware a = aware b -> dt_keys a b = Ok (utc a, utc b).
Proof.
  unfold aware, dt_keys, utc, oz. destruct (off a), (off b); intros H; try discriminate; f_equal; f_equal; lia.
Qed.
Lemma dt_sub_same a b : aware a = aware b -> dt_sub a b = Ok (utc a - utc b).
Proof. intros H. unfold dt_sub. rewrite (dt_keys_same _ _ H). reflexivity. Qed.
Lemma dt_lt_same a b : aware a = aware b -> dt_lt a b = Ok (utc a <? utc b).
Proof. intros H. unfold dt_lt. rewrite (dt_keys_same _ _ H). reflexivity. Qed.
Lemma dt_le_same a b : aware a = aware b -> dt_le a b = Ok (utc a <=? utc b).
Proof. intros H. unfold dt_le. rewrite (dt_keys_same _ _ H). reflexivity. Qed.
Lemma dt_gt_same a b : aware a = aware b -> dt_gt a b = Ok (utc b <? utc a).
Proof. intros H. unfold dt_gt. rewrite (dt_keys_same _ _ H). reflexivity. Qed.
Lemma dt_ge_same a b : aware a = aware b -> dt_ge a b = Ok (utc b <=? utc a).
Proof. intros H. unfold dt_ge. rewrite (dt_keys_same _ _ H). reflexivity. Qed.
Lemma dt_keys_mixed a b : aware a <> aware b -> dt_keys a b = Err TypeError.
Proof. unfold aware, dt_keys. destruct (off a), (off b); intros H; try reflexivity; exfalso; apply H; reflexivity. Qed.

(* ---- calc_clock: conversion into the timing's offset + next occurrence ------------------ *)
Definition entry_off (tg : timing) : option Z :=
  match tg with TTime t => t_off t | TWeekday _ t => t_off t | TCyclic _ => None end.
Definition entry_aware' (tg : timing) : bool :=
  match entry_off tg with Some _ => true | None => false end.

Lemma astimezone_utc d o : utc (astimezone d (Some o)) = utc d.
Proof. unfold astimezone, utc, oz. cbn [loc off]. lia. Qed.

Lemma off_next_weekly now w t : off (m_next_weekly now w t) = off now.
Proof. unfold m_next_weekly, m_next_daily. destruct (_ && _); reflexivity. Qed.

Lemma calc_clock_is_next ty tg cur :
  ty <> CYCLIC -> valid_entry ty tg -> aware cur = entry_aware' tg ->
  exists n, calc_clock ty tg cur = Ok n /\ off n = entry_off tg /\
            is_next (occ ty tg) (utc cur) (utc n).
Proof.
  intros Hty Hv Haw.
  destruct ty; try congruence; destruct tg as [T|t|w t]; cbn in Hv; try contradiction;
  unfold calc_clock, entry_aware', entry_off in *.
  - (* minutely *)
    set (cur' := if aware cur then astimezone cur (t_off t) else cur).
    assert (Ho : off cur' = t_off t /\ utc cur' = utc cur).
    { subst cur'. unfold aware in *. destruct (off cur) eqn:Ec, (t_off t) eqn:Et; try discriminate.
      - split; [reflexivity|apply astimezone_utc].
      - split; [exact Ec|reflexivity]. }
    destruct Ho as [Ho Hu]. eexists; split; [reflexivity|]. split; [cbn; exact Ho|].
    rewrite <- Hu. apply next_minutely_is_next; assumption.
  - (* hourly *)
    set (cur' := if aware cur then astimezone cur (t_off t) else cur).
    assert (Ho : off cur' = t_off t /\ utc cur' = utc cur).
    { subst cur'. unfold aware in *. destruct (off cur) eqn:Ec, (t_off t) eqn:Et; try discriminate.
      - split; [reflexivity|apply astimezone_utc].
      - split; [exact Ec|reflexivity]. }
    destruct Ho as [Ho Hu]. eexists; split; [reflexivity|]. split; [cbn; exact Ho|].
    rewrite <- Hu. apply next_hourly_is_next; assumption.
  - (* daily *)
    set (cur' := if aware cur then astimezone cur (t_off t) else cur).
    assert (Ho : off cur' = t_off t /\ utc cur' = utc cur).
    { subst cur'. unfold aware in *. destruct (off cur) eqn:Ec, (t_off t) eqn:Et; try discriminate.
      - split; [reflexivity|apply astimezone_utc].
      - split; [exact Ec|reflexivity]. }
    destruct Ho as [Ho Hu]. eexists; split; [reflexivity|]. split; [cbn; exact Ho|].
    rewrite <- Hu. apply next_daily_is_next; assumption.
  - (* weekly *)
    destruct Hv as [Hv Hw].
    set (cur' := match t_off t with Some o => astimezone cur (Some o) | None => cur end).
    assert (Ho : off cur' = t_off t /\ utc cur' = utc cur).
    { subst cur'. unfold aware in *. destruct (off cur) eqn:Ec, (t_off t) eqn:Et; try discriminate.
      - split; [reflexivity|apply astimezone_utc].
      - split; [exact Ec|reflexivity]. }
    destruct Ho as [Ho Hu].
    assert (Hb : (0 <=? w) && (w <=? 6) = true) by lia. rewrite Hb.
    eexists; split; [reflexivity|]. split.
    + rewrite off_next_weekly. exact Ho.
    + rewrite <- Hu. apply next_weekly_is_next; assumption.
Qed.

(* ---- the timer invariant --------------------------------------------------------------- *)
(* a clock timer whose planned instant is one of its occurrences, written in the timing's offset *)
Record timer_ok (tm : timer) : Prop := {
  tok_type : jt_type tm <> CYCLIC;
  tok_valid : valid_entry (jt_type tm) (jt_timing tm);
  tok_off : off (jt_next tm) = entry_off (jt_timing tm);
  tok_occ : occ (jt_type tm) (jt_timing tm) (utc (jt_next tm))
}.

Lemma aware_of_off d tg : off d = entry_off tg -> aware d = entry_aware' tg.
Proof. unfold aware, entry_aware'. intros ->. reflexivity. Qed.

Lemma timer_calc_clock tm ref :
  jt_type tm <> CYCLIC ->
  timer_calc tm ref =
    (n1 <- calc_clock (jt_type tm) (jt_timing tm) (jt_next tm) ;;
     match ref with
     | Some r =>
         if jt_skip tm then
           (b <- dt_lt n1 r ;;
            if b then (n2 <- calc_clock (jt_type tm) (jt_timing tm) r ;; Ok (set_next tm n2))
            else Ok (set_next tm n1))
         else Ok (set_next tm n1)
     | None => Ok (set_next tm n1)
     end).
Proof.
  intros H. unfold timer_calc. destruct (jt_type tm); try congruence; destruct (jt_timing tm); reflexivity.
Qed.

(* first due instant: the earliest occurrence strictly after the start (C01, C02) *)
Theorem timer_init_is_next ty tg start skip :
  ty <> CYCLIC -> valid_entry ty tg -> aware start = entry_aware' tg ->
  exists tm, timer_init ty tg start skip = Ok tm /\ timer_ok tm /\
             jt_type tm = ty /\ jt_timing tm = tg /\ jt_skip tm = skip /\
             is_next (occ ty tg) (utc start) (utc (jt_next tm)).
Proof.
  intros Hty Hv Haw. unfold timer_init. rewrite timer_calc_clock by exact Hty. cbn [jt_type jt_timing jt_next jt_skip].
  destruct (calc_clock_is_next ty tg start Hty Hv Haw) as (n & Hn & Ho & Hnext).
  rewrite Hn. cbn [bind]. eexists; split; [reflexivity|].
  unfold set_next; cbn [jt_type jt_timing jt_next jt_skip].
  repeat split; cbn [jt_type jt_timing jt_next jt_skip]; try assumption; apply Hnext.
Qed.

Lemma occ_succ ty tg x :
  ty <> CYCLIC -> valid_entry ty tg -> occ ty tg x -> is_next (occ ty tg) x (x + period_of ty).
Proof.
  intros Hty Hv Ho. destruct ty; try congruence; destruct tg; cbn in *; try contradiction.
  - apply occ_minutely_succ; assumption.
  - apply occ_hourly_succ; assumption.
  - apply occ_daily_succ; assumption.
  - apply occ_weekly_succ; assumption.
Qed.

(* rescheduling without skip_missing: exactly one period later, whatever the reference *)
Theorem timer_advance tm ref :
  timer_ok tm -> jt_skip tm = false ->
  exists tm', timer_calc tm ref = Ok tm' /\ timer_ok tm' /\
              jt_type tm' = jt_type tm /\ jt_timing tm' = jt_timing tm /\ jt_skip tm' = jt_skip tm /\
              utc (jt_next tm') = utc (jt_next tm) + period_of (jt_type tm).
Proof.
  intros [Hty Hv Ho Hocc] Hs. rewrite timer_calc_clock by exact Hty. rewrite Hs.
  destruct (calc_clock_is_next _ _ (jt_next tm) Hty Hv (aware_of_off _ _ Ho)) as (n & Hn & Hon & Hnext).
  rewrite Hn. cbn [bind].
  assert (Heq : utc n = utc (jt_next tm) + period_of (jt_type tm)).
  { eapply is_next_unique; [exact Hnext|]. apply occ_succ; assumption. }
  exists (set_next tm n). split; [destruct ref; reflexivity|].
  unfold set_next; cbn [jt_type jt_timing jt_next jt_skip].
  split; [constructor; cbn [jt_type jt_timing jt_next jt_skip]; try assumption; apply Hnext|].
  repeat split; assumption.
Qed.

(* rescheduling with skip_missing after an execution at instant r (C08) *)
Theorem timer_skip tm r :
  timer_ok tm -> jt_skip tm = true -> aware r = entry_aware' (jt_timing tm) ->
  utc (jt_next tm) <= utc r ->
  exists tm', timer_calc tm (Some r) = Ok tm' /\ timer_ok tm' /\
              jt_type tm' = jt_type tm /\ jt_timing tm' = jt_timing tm /\ jt_skip tm' = jt_skip tm /\
              utc r <= utc (jt_next tm') /\
              utc (jt_next tm) < utc (jt_next tm') /\
              (forall y, utc r < y -> y < utc (jt_next tm') -> ~ occ (jt_type tm) (jt_timing tm) y).
Proof.
  intros [Hty Hv Ho Hocc] Hs Hr Hdue. rewrite timer_calc_clock by exact Hty. rewrite Hs.
  destruct (calc_clock_is_next _ _ (jt_next tm) Hty Hv (aware_of_off _ _ Ho)) as (n & Hn & Hon & Hnext).
  rewrite Hn. cbn [bind].
  assert (Hawn : aware n = aware r) by (rewrite Hr; apply aware_of_off; exact Hon).
  rewrite (dt_lt_same _ _ Hawn). cbn [bind].
  destruct (utc n <? utc r) eqn:E.
  - destruct (calc_clock_is_next _ _ r Hty Hv Hr) as (n2 & Hn2 & Hon2 & Hnext2).
    rewrite Hn2. cbn [bind]. exists (set_next tm n2). split; [reflexivity|].
    unfold set_next; cbn [jt_type jt_timing jt_next jt_skip].
    destruct Hnext2 as (H1 & H2 & H3).
    split; [constructor; cbn [jt_type jt_timing jt_next jt_skip]; assumption|].
    repeat split; try assumption; lia.
  - exists (set_next tm n). split; [reflexivity|].
    unfold set_next; cbn [jt_type jt_timing jt_next jt_skip].
    destruct Hnext as (H1 & H2 & H3).
    split; [constructor; cbn [jt_type jt_timing jt_next jt_skip]; assumption|].
    repeat split; try assumption; try lia.
    intros y Hy1 Hy2. apply H3; lia.
Qed.

(* cyclic timers *)
Theorem timer_cyclic_init T start skip :
  timer_init CYCLIC (TCyclic T) start skip = Ok (mkTimer CYCLIC (TCyclic T) (dt_add start T) skip).
Proof. reflexivity. Qed.
Theorem timer_cyclic_advance T nxt ref :
  timer_calc (mkTimer CYCLIC (TCyclic T) nxt false) ref = Ok (mkTimer CYCLIC (TCyclic T) (dt_add nxt T) false).
Proof. destruct ref; reflexivity. Qed.
Theorem timer_cyclic_skip T nxt r :
  timer_calc (mkTimer CYCLIC (TCyclic T) nxt true) (Some r) = Ok (mkTimer CYCLIC (TCyclic T) (dt_add r T) true).
Proof. reflexivity. Qed.
Lemma utc_dt_add d T : utc (dt_add d T) = utc d + T.
Proof. unfold utc, dt_add. cbn [loc off]. lia. Qed.

(* a trigger for the reference's own weekday: same day if its time is still ahead, else exactly
   one week later (C02) *)
Lemma next_weekly_same_weekday now w t :
  valid_time t -> 0 <= w <= 6 -> dt_weekday now = w ->
  let today := (loc now / D) * D in
  loc (m_next_weekly now w t) = if loc now - today <? tod t then today + tod t else today + tod t + 7 * D.
Proof.
  intros Hv Hw Hd today. subst today.
  unfold m_next_weekly, m_next_daily, m_days_to_weekday, dt_weekday in *. cbn [loc off].
  unfold_time.
  destruct (_ <=? 0) eqn:E; destruct (_ && _) eqn:E2; destruct (_ <? _) eqn:E3; cbn [loc off]; lia.
Qed.

(* the exact result of rescheduling with skip_missing: the successor occurrence if it is not
   before the reference, else the first occurrence strictly after the reference *)
Theorem timer_skip_exact tm r :
  timer_ok tm -> jt_skip tm = true -> aware r = entry_aware' (jt_timing tm) ->
  exists tm', timer_calc tm (Some r) = Ok tm' /\ timer_ok tm' /\
              jt_type tm' = jt_type tm /\ jt_timing tm' = jt_timing tm /\ jt_skip tm' = jt_skip tm /\
              (utc r <= utc (jt_next tm) + period_of (jt_type tm) ->
               utc (jt_next tm') = utc (jt_next tm) + period_of (jt_type tm)) /\
              (utc (jt_next tm) + period_of (jt_type tm) < utc r ->
               is_next (occ (jt_type tm) (jt_timing tm)) (utc r) (utc (jt_next tm'))).
Proof.
  intros [Hty Hv Ho Hocc] Hs Hr. rewrite timer_calc_clock by exact Hty. rewrite Hs.
  destruct (calc_clock_is_next _ _ (jt_next tm) Hty Hv (aware_of_off _ _ Ho)) as (n & Hn & Hon & Hnext).
  rewrite Hn. cbn [bind].
  assert (Heq : utc n = utc (jt_next tm) + period_of (jt_type tm)).
  { eapply is_next_unique; [exact Hnext|]. apply occ_succ; assumption. }
  assert (Hawn : aware n = aware r) by (rewrite Hr; apply aware_of_off; exact Hon).
  rewrite (dt_lt_same _ _ Hawn). cbn [bind].
  destruct (utc n <? utc r) eqn:E.
  - destruct (calc_clock_is_next _ _ r Hty Hv Hr) as (n2 & Hn2 & Hon2 & Hnext2).
    rewrite Hn2. cbn [bind]. exists (set_next tm n2). split; [reflexivity|].
    unfold set_next; cbn [jt_type jt_timing jt_next jt_skip].
    split; [constructor; cbn [jt_type jt_timing jt_next jt_skip]; try assumption; apply Hnext2|].
    split; [reflexivity|]. split; [reflexivity|]. split; [exact Hs|].
    split; [intros H; lia|intros _; exact Hnext2].
  - exists (set_next tm n). split; [reflexivity|].
    unfold set_next; cbn [jt_type jt_timing jt_next jt_skip].
    split; [constructor; cbn [jt_type jt_timing jt_next jt_skip]; try assumption; apply Hnext|].
    split; [reflexivity|]. split; [reflexivity|]. split; [exact Hs|].
    split; [intros _; exact Heq|intros H; lia].
Qed.
