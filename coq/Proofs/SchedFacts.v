(* Facts about the sequential scheduler derived from the invariants (C04-C07, C10-C13, C19). *)
From Coq Require Import ZArith List Bool Lia ZifyBool Arith PeanoNat Sorting.Permutation.
From Sv Require Import PyTime Timer Job Sched Occur TimerProofs JobProofs SchedProofs SelectProofs.
Import ListNotations.
Open Scope Z_scope.

(* ---- reachable states ------------------------------------------------------------------------------ *)
Theorem run_good ops : forall s, good s -> Forall op_valid ops -> good (run s ops).
Proof.
  induction ops as [|o r IH]; intros s Hg Hv; cbn; [exact Hg|].
  inversion Hv as [|? ? Hv1 Hv2]; subst. apply IH; [|exact Hv2].
  destruct (step s o) as [s' res] eqn:E. cbn. apply (step_good s o s' res Hg Hv1 E).
Qed.

(* a job that left the job set (deleted or retired) never reappears (C06, C11) *)
Theorem never_reappears ops : forall s x,
  good s -> Forall op_valid ops -> (x < s_next s)%nat -> ~ In x (s_reg s) -> ~ In x (s_reg (run s ops)).
Proof.
  induction ops as [|o r IH]; intros s x Hg Hv Hx Hn; cbn; [exact Hn|].
  inversion Hv as [|? ? Hv1 Hv2]; subst.
  destruct (step s o) as [s' res] eqn:E. cbn.
  destruct (step_good s o s' res Hg Hv1 E) as (Hg' & _ & Hnx & Hreg & _).
  apply IH; [exact Hg'|exact Hv2|lia|]. intros Hin. apply Hn. apply Hreg; assumption.
Qed.

(* every registered job can still run, respects its attempt budget and its stop (C06, C07) *)
Theorem registered_job_facts s id j :
  good s -> In id (s_reg s) -> get_job s id = Some j ->
  has_attempts j = true /\
  (0 < c_max_attempts (j_cfg j) -> j_attempts j < c_max_attempts (j_cfg j)) /\
  (forall e, c_stop (j_cfg j) = Some e -> utc (jt_next (pending_timer j)) <= utc e).
Proof.
  intros [Hi Hp Hl] Hin Hj. pose proof (Hl id j Hin (fun H => H) Hj) as Hh.
  split; [exact Hh|]. unfold has_attempts in Hh. destruct (j_mark j) eqn:Em; [discriminate|]. split.
  - intros Hm. destruct (c_max_attempts (j_cfg j) =? 0) eqn:E; lia.
  - intros e He. apply (jok_mark j (proj1 (si_jobs_ok _ Hi id j Hj)) Em e He).
Qed.

Theorem any_job_budget s id j :
  good s -> get_job s id = Some j -> 0 < c_max_attempts (j_cfg j) ->
  j_attempts j <= c_max_attempts (j_cfg j) /\ 0 <= j_failed j <= j_attempts j.
Proof.
  intros [Hi _ _] Hj Hm. split; [apply (si_budget _ Hi id j Hj Hm)|].
  apply (jok_counts j (proj1 (si_jobs_ok _ Hi id j Hj))).
Qed.

(* the due instant a registered job reports never exceeds its stop (C07) *)
Theorem registered_due_le_stop s id j e :
  good s -> In id (s_reg s) -> get_job s id = Some j -> c_stop (j_cfg j) = Some e ->
  (c_delay (j_cfg j) = true \/ 0 < j_attempts j) ->
  utc (job_datetime j) <= utc e.
Proof.
  intros Hg Hin Hj He Hd. destruct (registered_job_facts s id j Hg Hin Hj) as (_ & _ & Hs).
  unfold job_datetime. destruct Hd as [Hd|Hd].
  - rewrite Hd. cbn. apply Hs. exact He.
  - replace (j_attempts j =? 0) with false by lia. rewrite andb_false_r. apply Hs. exact He.
Qed.

(* ---- exec_jobs, unfolded --------------------------------------------------------------------------- *)
Definition exec_ref (s : sched) : datetime := dt_now (s_now s) (s_tz s).

(* priorities handed to the selection: one per registered job, in iteration order, computed from
   the overdue time *)
Fixpoint prios_spec (s : sched) (table : list (nat * prio)) (order : list nat) : list (nat * prio) :=
  match order with
  | [] => []
  | id :: r =>
      match get_job s id with
      | Some j => (id, job_prio s table id j (s_now s - utc (job_datetime j))) :: prios_spec s table r
      | None => prios_spec s table r
      end
  end.

Lemma utc_exec_ref s : utc (exec_ref s) = s_now s.
Proof. unfold exec_ref. destruct (s_tz s); unfold dt_now, utc, oz; cbn; lia. Qed.

(* the arguments each call of the priority function receives *)
Fixpoint prio_events (s : sched) (table : list (nat * prio)) (order : list nat) (n : Z) : list event :=
  match order with
  | [] => []
  | id :: r =>
      match get_job s id with
      | Some j => let od := s_now s - utc (job_datetime j) in
                  EPrioCall id od (s_max_exec s) n (job_prio s table id j od) :: prio_events s table r n
      | None => prio_events s table r n
      end
  end.

Lemma collect_prios_spec s table order n :
  sched_inv s -> (forall x, In x order -> exists j, get_job s x = Some j) ->
  collect_prios s table order (exec_ref s) n = Ok (prios_spec s table order, prio_events s table order n).
Proof.
  intros Hi Hj. induction order as [|id rest IH]; cbn; [reflexivity|].
  destruct (Hj id (or_introl eq_refl)) as (j & Hjid). rewrite Hjid.
  destruct (si_jobs_ok _ Hi id j Hjid) as [Hok Htz].
  unfold job_timedelta. rewrite dt_sub_same.
  2:{ rewrite (aware_job_datetime j Hok), Htz. unfold exec_ref. symmetry. apply aware_dt_now'. }
  cbn [bind]. rewrite IH by (intros x Hx; apply Hj; right; exact Hx). cbn [bind fst snd].
  rewrite utc_exec_ref. replace (- (utc (job_datetime j) - s_now s)) with (s_now s - utc (job_datetime j)) by lia.
  reflexivity.
Qed.

Lemma prios_spec_keys s table order :
  (forall x, In x order -> exists j, get_job s x = Some j) -> map fst (prios_spec s table order) = order.
Proof.
  induction order as [|id r IH]; intros Hj; cbn; [reflexivity|].
  destruct (Hj id (or_introl eq_refl)) as (j & ->). cbn. f_equal. apply IH. intros x Hx. apply Hj. right. exact Hx.
Qed.

(* exec_jobs(force_exec_all=False) = run the chosen batch *)
Theorem exec_jobs_unfold s order table :
  good s -> is_perm_of order (s_reg s) = true ->
  let prs := prios_spec s table order in
  let n := Z.of_nat (length (s_reg s)) in
  exec_jobs s false order table =
    exec_batch (mkSched (s_tz s) (s_max_exec s) (s_prio s) (s_reg s) (s_jobs s) (s_progs s) (s_next s) (s_now s)
                        (rev (prio_events s table order n) ++ s_events s))
               (map fst (chosen (s_max_exec s) prs)) (exec_ref s).
Proof.
  intros [Hi Hp Hl] Hperm prs n. unfold exec_jobs. rewrite Hperm. cbn [negb].
  destruct (is_perm_of_spec order (s_reg s) (si_reg_nodup _ Hi) Hperm) as [Hnd Hiff].
  fold (exec_ref s). rewrite collect_prios_spec; [reflexivity|exact Hi|].
  intros x Hx. apply (si_reg_jobs _ Hi). apply Hiff. exact Hx.
Qed.
Theorem exec_jobs_force_unfold s order table :
  is_perm_of order (s_reg s) = true -> exec_jobs s true order table = exec_batch s order (exec_ref s).
Proof. intros H. unfold exec_jobs. rewrite H. reflexivity. Qed.

(* ---- which callbacks an exec_batch invokes ------------------------------------------------------------ *)
Definition inv_ids (evs : list event) : list nat :=
  flat_map (fun e => match e with EInvoke id _ _ _ => [id] | _ => [] end) evs.

Lemma cb_step_events s o prog s' r : cb_step s o prog = (s', r) -> s_events s' = s_events s.
Proof.
  destruct o as [c|ot c|id|tags any|tags any|]; cbn; intros H.
  - unfold schedule in H. destruct (job_create _ _ _); inversion H; reflexivity.
  - unfold schedule in H. destruct (job_create _ _ _); inversion H; reflexivity.
  - destruct (nmem id (s_reg s)); inversion H; reflexivity.
  - destruct tags as [[|? ?]|]; inversion H; reflexivity.
  - destruct tags as [[|? ?]|]; inversion H; reflexivity.
  - inversion H; reflexivity.
Qed.
Lemma run_prog_events p : forall s s' b, run_prog s p = (s', b) -> s_events s' = s_events s.
Proof.
  induction p as [|o r IH]; intros s s' b H; cbn in H; [inversion H; reflexivity|].
  destruct (cb_step s o []) as [s1 r1] eqn:E. pose proof (cb_step_events _ _ _ _ _ E) as He.
  destruct r1; [rewrite (IH _ _ _ H); exact He|inversion H; subst; exact He].
Qed.
Lemma cb_step_keys s o prog s' r x :
  cb_step s o prog = (s', r) -> In x (map fst (s_jobs s)) -> In x (map fst (s_jobs s')).
Proof.
  destruct o as [c|ot c|id|tags any|tags any|]; cbn; intros H Hin.
  - unfold schedule in H. destruct (job_create _ _ _); inversion H; subst; cbn; [rewrite map_app, in_app_iff; auto|auto].
  - unfold schedule in H. destruct (job_create _ _ _); inversion H; subst; cbn; [rewrite map_app, in_app_iff; auto|auto].
  - destruct (nmem id (s_reg s)); inversion H; subst; exact Hin.
  - destruct tags as [[|? ?]|]; inversion H; subst; exact Hin.
  - destruct tags as [[|? ?]|]; inversion H; subst; exact Hin.
  - inversion H; subst; exact Hin.
Qed.
Lemma run_prog_keys p : forall s s' b x,
  run_prog s p = (s', b) -> In x (map fst (s_jobs s)) -> In x (map fst (s_jobs s')).
Proof.
  induction p as [|o r IH]; intros s s' b x H Hin; cbn in H; [inversion H; subst; exact Hin|].
  destruct (cb_step s o []) as [s1 r1] eqn:E. pose proof (cb_step_keys _ _ _ _ _ x E Hin) as Hk.
  destruct r1; [apply (IH _ _ _ _ H Hk)|inversion H; subst; exact Hk].
Qed.

Lemma keys_lookup {A} x (l : list (nat * A)) : In x (map fst l) -> exists v, lookup x l = Some v.
Proof.
  induction l as [|[k v] t IH]; cbn; [contradiction|]. intros [Heq|Hin].
  - subst. rewrite Nat.eqb_refl. eauto.
  - destruct (Nat.eqb k x); [eauto|apply IH; exact Hin].
Qed.

Lemma invoke_unfold s id j :
  get_job s id = Some j ->
  invoke s id =
    (let s0 := add_event s (EInvoke id (utc (job_datetime j)) (c_args (j_cfg j)) (c_kwargs (j_cfg j))) in
     let '(s1, praised) := run_prog s0 (match lookup id (s_progs s) with Some p => p | None => [] end) in
     match get_job s1 id with
     | None => s1
     | Some j1 =>
         let raises := praised || outcome_of j1 in
         let s2 := upd_jobs s1 (update id (job_run j1 raises) (s_jobs s1)) in
         if raises then add_event s2 (ELog id) else s2
     end).
Proof. intros H. unfold invoke. rewrite H. reflexivity. Qed.

Lemma invoke_events s id :
  In id (map fst (s_jobs s)) ->
  inv_ids (s_events (invoke s id)) = id :: inv_ids (s_events s) /\
  (forall x, In x (map fst (s_jobs s)) -> In x (map fst (s_jobs (invoke s id)))).
Proof.
  intros Hin. destruct (keys_lookup _ _ Hin) as (j & Hj). rewrite (invoke_unfold s id j Hj). cbv zeta.
  set (s0 := add_event s _).
  destruct (run_prog s0 _) as [s1 praised] eqn:Erun.
  pose proof (run_prog_events _ _ _ _ Erun) as He.
  assert (Hk : forall x, In x (map fst (s_jobs s)) -> In x (map fst (s_jobs s1))).
  { intros x Hx. apply (run_prog_keys _ _ _ _ x Erun). exact Hx. }
  destruct (get_job s1 id) as [j1|] eqn:Hj1.
  - destruct (praised || outcome_of j1); cbn; rewrite ?He; cbn; (split; [reflexivity|]);
      intros x Hx; rewrite update_keys; apply Hk; exact Hx.
  - rewrite He. cbn. split; [reflexivity|exact Hk].
Qed.

Lemma invoke_all_events batch : forall s,
  (forall x, In x batch -> In x (map fst (s_jobs s))) ->
  inv_ids (s_events (invoke_all s batch)) = rev batch ++ inv_ids (s_events s).
Proof.
  induction batch as [|id r IH]; intros s Hk; cbn [invoke_all]; [reflexivity|].
  destruct (invoke_events s id (Hk id (or_introl eq_refl))) as [He Hkeys].
  rewrite IH; [rewrite He; cbn; rewrite <- app_assoc; reflexivity|].
  intros x Hx. apply Hkeys. apply Hk. right. exact Hx.
Qed.

Lemma resched_all_events batch : forall s ref s' r, resched_all s batch ref = (s', r) -> s_events s' = s_events s.
Proof.
  induction batch as [|id rest IH]; intros s ref s' r H; cbn in H; [inversion H; reflexivity|].
  destruct (get_job s id) as [j|]; [|apply (IH _ _ _ _ H)].
  destruct (job_calc j ref) as [j'|e]; [|inversion H; reflexivity].
  rewrite (IH _ _ _ _ H). destruct (has_attempts j'); reflexivity.
Qed.

(* one exec_batch invokes exactly its batch, each member once, in order *)
Theorem exec_batch_invokes s batch ref s' r :
  (forall x, In x batch -> In x (map fst (s_jobs s))) ->
  exec_batch s batch ref = (s', r) ->
  inv_ids (s_events s') = rev batch ++ inv_ids (s_events s).
Proof.
  intros Hk H. unfold exec_batch in H.
  destruct (resched_all (invoke_all s batch) batch ref) as [s2 r2] eqn:E.
  pose proof (resched_all_events _ _ _ _ _ E) as He.
  assert (s' = s2) by (destruct r2; inversion H; reflexivity). subst s2.
  rewrite He. apply invoke_all_events. exact Hk.
Qed.

(* a poll at which nothing is due changes no job and no due time (C04) *)
Theorem exec_nothing_due s order table :
  good s -> is_perm_of order (s_reg s) = true ->
  chosen (s_max_exec s) (prios_spec s table order) = [] ->
  exists s', exec_jobs s false order table = (s', Ok (VInt 0)) /\
             s_jobs s' = s_jobs s /\ s_reg s' = s_reg s /\ inv_ids (s_events s') = inv_ids (s_events s).
Proof.
  intros Hg Hperm Hc. rewrite (exec_jobs_unfold s order table Hg Hperm). cbv zeta. rewrite Hc. cbn.
  eexists. split; [reflexivity|]. cbn. repeat split.
  unfold inv_ids. rewrite flat_map_app.
  assert (Hz : forall l n, flat_map (fun e => match e with EInvoke id _ _ _ => [id] | _ => [] end)
                             (rev (prio_events s table l n)) = []).
  { intros l n. induction l as [|x t IH]; cbn; [reflexivity|]. destruct (get_job s x); [|exact IH].
    cbn. rewrite flat_map_app, IH. reflexivity. }
  rewrite Hz. reflexivity.
Qed.

(* ---- priority functions (exact arithmetic) ----------------------------------------------------------- *)
Theorem linear_priority_positive od wn wd :
  0 < wd -> (qpos (linear_priority od wn wd) = true <-> 0 <= od /\ 0 < wn).
Proof. unfold qpos, linear_priority, SEC. intros Hwd. destruct (od <? 0) eqn:E; cbn; nia. Qed.
Theorem constant_priority_positive od wn wd :
  qpos (constant_priority od wn wd) = true <-> 0 <= od /\ 0 < wn.
Proof. unfold qpos, constant_priority. destruct (od <? 0) eqn:E; cbn; lia. Qed.
Theorem linear_priority_value od wn wd :
  0 <= od -> linear_priority od wn wd = ((od + SEC) * wn, wd * SEC).
Proof. unfold linear_priority. intros H. destruct (od <? 0) eqn:E; [lia|reflexivity]. Qed.
Theorem linear_priority_before od wn wd : od < 0 -> linear_priority od wn wd = (0, 1).
Proof. unfold linear_priority. intros H. destruct (od <? 0) eqn:E; [reflexivity|lia]. Qed.
(* among equally late jobs the heavier one, among equal weights the later one goes first *)
Theorem linear_monotone_weight od wn1 wn2 wd :
  0 <= od -> 0 < wd -> wn1 <= wn2 -> qle (linear_priority od wn1 wd) (linear_priority od wn2 wd) = true.
Proof.
  intros. rewrite !linear_priority_value by lia. unfold qle. cbn [fst snd]. apply Z.leb_le.
  assert (0 < SEC) by (unfold SEC; lia).
  apply Z.mul_le_mono_nonneg_r; [lia|]. apply Z.mul_le_mono_nonneg_l; lia.
Qed.
Theorem linear_monotone_lateness od1 od2 wn wd :
  0 <= od1 <= od2 -> 0 < wd -> 0 <= wn -> qle (linear_priority od1 wn wd) (linear_priority od2 wn wd) = true.
Proof.
  intros. rewrite !linear_priority_value by lia. unfold qle. cbn [fst snd]. apply Z.leb_le.
  assert (0 < SEC) by (unfold SEC; lia).
  apply Z.mul_le_mono_nonneg_r; [lia|]. apply Z.mul_le_mono_nonneg_r; lia.
Qed.
Theorem linear_strict_weight od wn1 wn2 wd :
  0 <= od -> 0 < wd -> wn1 < wn2 -> qle (linear_priority od wn2 wd) (linear_priority od wn1 wd) = false.
Proof.
  intros. rewrite !linear_priority_value by lia. unfold qle. cbn [fst snd]. apply Z.leb_gt.
  assert (0 < SEC) by (unfold SEC; lia).
  apply Z.mul_lt_mono_pos_r; [lia|]. apply Z.mul_lt_mono_pos_l; lia.
Qed.
Theorem linear_strict_lateness od1 od2 wn wd :
  0 <= od1 < od2 -> 0 < wd -> 0 < wn -> qle (linear_priority od2 wn wd) (linear_priority od1 wn wd) = false.
Proof.
  intros. rewrite !linear_priority_value by lia. unfold qle. cbn [fst snd]. apply Z.leb_gt.
  assert (0 < SEC) by (unfold SEC; lia).
  apply Z.mul_lt_mono_pos_r; [lia|]. apply Z.mul_lt_mono_pos_r; lia.
Qed.

(* ---- start/stop window (C07) ------------------------------------------------------------------------- *)
Theorem stop_not_later_rejected start e tz now :
  (forall s, start = Some s -> aware s = tz_aware tz) -> aware e = tz_aware tz ->
  utc e <= utc (match start with Some s => s | None => dt_now now tz end) ->
  set_start_check_stop start (Some e) tz now = Err SchedulerError.
Proof.
  intros Hs He Hle. unfold set_start_check_stop.
  assert (Hx : forall a, a = tz_aware tz -> xorb a (tz_aware tz) = false) by (intros a ->; apply xorb_nilpotent).
  destruct start as [s|]; cbn [bind].
  - rewrite (Hx _ (Hs s eq_refl)). cbn [bind]. rewrite (Hx _ He).
    rewrite dt_ge_same by (rewrite He; apply Hs; reflexivity). cbn [bind].
    replace (utc e <=? utc s) with true by lia. reflexivity.
  - rewrite (Hx _ He). rewrite dt_ge_same by (rewrite aware_dt_now; symmetry; exact He). cbn [bind].
    replace (utc e <=? utc (dt_now now tz)) with true by lia. reflexivity.
Qed.

(* a scheduling call registers the new job iff it can still run; in particular a job whose first
   due time already exceeds its stop is returned but not kept *)
Theorem schedule_registers_iff s c prog j :
  job_create c (s_tz s) (s_now s) = Ok j ->
  exists s', schedule s c prog = (s', Ok (VJob (s_next s))) /\
             get_job s' (s_next s) = (if nmem (s_next s) (map fst (s_jobs s)) then get_job s (s_next s) else Some j) /\
             s_reg s' = (if has_attempts j then s_reg s ++ [s_next s] else s_reg s).
Proof.
  intros Hc. unfold schedule. rewrite Hc. eexists. split; [reflexivity|]. cbn. split; [|reflexivity].
  unfold get_job. cbn. rewrite lookup_app. cbn. rewrite Nat.eqb_refl.
  destruct (nmem (s_next s) (map fst (s_jobs s))) eqn:E.
  - apply nmem_In in E. destruct (keys_lookup _ _ E) as (v & ->). reflexivity.
  - rewrite lookup_none_keys; [reflexivity|]. intros Hin. apply nmem_In in Hin. congruence.
Qed.
Theorem past_stop_cannot_run c tz now j e :
  cfg_valid c -> job_create c tz now = Ok j -> c_stop c = Some e ->
  utc e < utc (jt_next (pending_timer j)) -> has_attempts j = false.
Proof.
  intros Hv Hc He Hlt. pose proof (cr_mark _ _ _ _ (job_create_ok c tz now j Hv Hc)) as Hm.
  rewrite He in Hm. unfold has_attempts. rewrite Hm. replace (utc e <? _) with true by lia. reflexivity.
Qed.
(* a rejected scheduling call registers nothing and creates nothing (C11) *)
Theorem schedule_rejected_identity s c prog s' e :
  schedule s c prog = (s', Err e) -> s_reg s' = s_reg s /\ s_jobs s' = s_jobs s.
Proof. unfold schedule. destruct (job_create _ _ _); intros H; inversion H; subst; split; reflexivity. Qed.

(* ---- failures (C10) -------------------------------------------------------------------------------------- *)
Definition set_failed (j : job) (f : Z) : job :=
  mkJob (j_cfg j) (j_tz j) (j_start j) (j_timers j) (j_pending j) (j_mark j) (j_attempts j) f.
(* rescheduling, remaining attempts and the reported due time never look at the failure counter *)
Theorem job_calc_ignores_failed j f ref :
  job_calc (set_failed j f) ref =
    match job_calc j ref with Ok j' => Ok (set_failed j' f) | Err e => Err e end.
Proof.
  unfold job_calc, set_failed, pending_timer, set_timers. cbn.
  destruct (if c_skip (j_cfg j) then _ else _) as [tms|e]; cbn; [|reflexivity].
  destruct (pending_index tms) as [p|e]; cbn; [|reflexivity].
  destruct (past_stop _ _) as [mk|e]; reflexivity.
Qed.
Theorem has_attempts_ignores_failed j f : has_attempts (set_failed j f) = has_attempts j.
Proof. reflexivity. Qed.
Theorem job_datetime_ignores_failed j f : job_datetime (set_failed j f) = job_datetime j.
Proof. reflexivity. Qed.
(* an invocation counts the attempt always and the failure iff it raised; both outcomes leave
   everything else of the job equal *)
Theorem job_run_outcomes j :
  job_run j true = set_failed (job_run j false) (j_failed j + 1) /\
  j_attempts (job_run j true) = j_attempts j + 1 /\ j_attempts (job_run j false) = j_attempts j + 1 /\
  j_failed (job_run j true) = j_failed j + 1 /\ j_failed (job_run j false) = j_failed j.
Proof. repeat split. Qed.

Definition log_ids (evs : list event) : list nat :=
  flat_map (fun e => match e with ELog id => [id] | _ => [] end) evs.
(* ---- registry operations (C11, C12) ------------------------------------------------------------------- *)
Lemma zmem_In x l : zmem x l = true <-> In x l.
Proof.
  induction l as [|y t IH]; cbn; [split; [discriminate|tauto]|].
  rewrite orb_true_iff, IH, Z.eqb_eq. split; intros [H|H]; auto.
Qed.
Theorem tag_match_all tags jobtags :
  tag_match tags false jobtags = true <-> (forall t, In t tags -> In t jobtags).
Proof.
  unfold tag_match, subsetb. rewrite forallb_forall. split; intros H t Ht; [apply zmem_In|apply zmem_In]; auto.
Qed.
Theorem tag_match_any tags jobtags :
  tag_match tags true jobtags = true <-> (exists t, In t tags /\ In t jobtags).
Proof.
  unfold tag_match, intersectsb. rewrite existsb_exists. split; intros (t & Ht & H); exists t; split; auto; apply zmem_In; exact H.
Qed.
Theorem get_jobs_spec s tags any :
  cb_step s (CGetJobs tags any) [] =
    (s, Ok (VIds (if no_tags tags then s_reg s
                  else filter (fun id => tag_match (match tags with Some t => t | None => [] end) any (job_tags s id)) (s_reg s)))).
Proof. destruct tags as [[|t r]|]; reflexivity. Qed.
Theorem jobs_spec s : cb_step s CJobs [] = (s, Ok (VIds (s_reg s))).
Proof. reflexivity. Qed.
Theorem delete_jobs_spec s tags any :
  let sel := if no_tags tags then s_reg s
             else filter (fun id => tag_match (match tags with Some t => t | None => [] end) any (job_tags s id)) (s_reg s) in
  exists s', cb_step s (CDeleteJobs tags any) [] = (s', Ok (VInt (Z.of_nat (length sel)))) /\
             s_jobs s' = s_jobs s /\
             (forall id, In id (s_reg s') <-> In id (s_reg s) /\ ~ In id sel).
Proof.
  destruct tags as [[|t r]|]; cbn; eexists; (split; [reflexivity|]); (split; [reflexivity|]); cbn; intros id.
  - tauto.
  - rewrite filter_In, negb_true_iff. unfold select_ids. split.
    + intros [H1 H2]. split; [exact H1|]. intros H3. apply nmem_In in H3. congruence.
    + intros [H1 H2]. split; [exact H1|]. destruct (nmem id _) eqn:E; [|reflexivity]. apply nmem_In in E. contradiction.
  - tauto.
Qed.
Theorem delete_job_spec s id :
  cb_step s (CDelete id) [] =
    if nmem id (s_reg s) then (upd_reg s (remove_id id (s_reg s)), Ok VNone) else (s, Err SchedulerError).
Proof. reflexivity. Qed.

(* ---- arguments (C19) ------------------------------------------------------------------------------------- *)
(* the configuration of a job (arguments, keyword mapping, tags ...) never changes after creation *)
Theorem job_run_cfg j b : j_cfg (job_run j b) = j_cfg j.
Proof. reflexivity. Qed.
Theorem job_calc_cfg j ref j' : job_calc j ref = Ok j' -> j_cfg j' = j_cfg j.
Proof.
  unfold job_calc. intros H. apply bind_ok in H as (tms & _ & H). apply bind_ok in H as (p & _ & H).
  apply bind_ok in H as (mk & _ & H). inversion H. reflexivity.
Qed.

(* exactly one error record per raising invocation, none otherwise; the attempt is counted in
   both cases (C10) *)
Theorem invoke_logs s id j :
  get_job s id = Some j ->
  (exists j1 b, get_job (invoke s id) id = Some (job_run j1 b) /\
                log_ids (s_events (invoke s id)) = (if b then [id] else []) ++ log_ids (s_events s)) \/
  (get_job (invoke s id) id = None /\ log_ids (s_events (invoke s id)) = log_ids (s_events s)).
Proof.
  intros Hj. rewrite (invoke_unfold s id j Hj). cbv zeta.
  set (s0 := add_event s _).
  destruct (run_prog s0 _) as [s1 praised] eqn:Erun.
  pose proof (run_prog_events _ _ _ _ Erun) as He.
  destruct (get_job s1 id) as [j1|] eqn:Hj1.
  - left. exists j1, (praised || outcome_of j1).
    assert (Hl : lookup id (update id (job_run j1 (praised || outcome_of j1)) (s_jobs s1)) =
                 Some (job_run j1 (praised || outcome_of j1))).
    { apply lookup_update_same. unfold get_job in Hj1. congruence. }
    destruct (praised || outcome_of j1); unfold get_job; cbn; rewrite Hl, ?He; cbn; split; reflexivity.
  - right. split; [exact Hj1|]. rewrite He. reflexivity.
Qed.
