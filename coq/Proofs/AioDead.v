(* C18, trace level: a job whose supervising task has been cancelled (delete_job / delete_jobs, also from
   inside a coroutine) or has finished is never started again - over EVERY later history of scheduling
   calls, deletions and virtual-time runs.  [dead] is absorbing, and no operation performed while a job is
   dead records a start of it. *)
From Coq Require Import ZArith List Bool Lia.
From Sv Require Import PyTime Timer Job Sched Aio JobProofs SchedProofs AioProofs AioTrace.
Import ListNotations.
Open Scope Z_scope.

Definition dead (s : aio) (id : nat) : Prop := exists a, a_get s id = Some a /\ ~ active (aj_phase a).
Definition no_start (id : nat) (e : aevent) : Prop :=
  match e with EStart x _ _ _ _ => x <> id | _ => True end.
Definition dead_ok (s : aio) (id : nat) : Prop := dead s id /\ Forall (no_start id) (a_events s).

Lemma dead_update_other s id x a' reg evs :
  dead s id -> x <> id -> dead (a_set s reg (update x a' (a_jobs s)) evs) id.
Proof.
  intros (a & Hg & Hn) Hne. exists a. split; [|exact Hn].
  unfold a_get, a_set in *. cbn [a_jobs]. rewrite lookup_update_other by exact Hne. exact Hg.
Qed.
Lemma dead_update_same s id a a' reg evs :
  a_get s id = Some a -> ~ active (aj_phase a') -> dead (a_set s reg (update id a' (a_jobs s)) evs) id.
Proof.
  intros Hg Hn. exists a'. split; [|exact Hn].
  unfold a_get, a_set in *. cbn [a_jobs]. apply lookup_update_same. congruence.
Qed.
Lemma dead_frame s id reg evs : dead s id -> dead (a_set s reg (a_jobs s) evs) id.
Proof. intros (a & Hg & Hn). exists a. split; assumption. Qed.

Lemma a_cancel_dead s id x self : dead_ok s id -> dead_ok (a_cancel s x self) id.
Proof.
  intros [Hd He]. unfold a_cancel. destruct (a_get s x) as [ax|] eqn:Hgx; [|split; assumption].
  split.
  - destruct (Nat.eq_dec x id) as [->|Hne].
    + destruct Hd as (a & Hg & Hn). rewrite Hg in Hgx. inversion Hgx; subst ax.
      apply (dead_update_same s id a _ _ _ Hg).
      destruct (match self with Some x0 => Nat.eqb x0 id | None => false end); [exact Hn|].
      destruct (aj_phase a) eqn:Ep; cbn [active] in Hn; try tauto; rewrite Ep; exact Hn.
    + apply dead_update_other; assumption.
  - unfold a_set; cbn [a_events].
    destruct (match self with Some x0 => Nat.eqb x0 x | None => false end); [exact He|].
    destruct (aj_phase ax); try exact He. constructor; [exact I|exact He].
Qed.

Lemma cancel_all_dead sel id : forall s self,
  dead_ok s id -> dead_ok (fold_left (fun st x => a_cancel st x self) sel s) id.
Proof.
  induction sel as [|x r IH]; intros s self H; cbn [fold_left]; [exact H|].
  apply IH. apply a_cancel_dead. exact H.
Qed.

Lemma a_op_dead s o self s' r id : dead_ok s id -> a_op s o self = (s', r) -> dead_ok s' id.
Proof.
  intros Hd H. destruct o as [x|tags any|tags any|]; cbn [a_op] in H.
  - destruct (nmem x (a_reg s)); inversion H; subst; [apply a_cancel_dead|]; exact Hd.
  - inversion H; subst. apply cancel_all_dead. exact Hd.
  - inversion H; subst. exact Hd.
  - inversion H; subst. exact Hd.
Qed.

Lemma a_prog_dead p id : forall s self s' b, dead_ok s id -> a_prog s p self = (s', b) -> dead_ok s' id.
Proof.
  induction p as [|o r IH]; intros s self s' b Hd H; cbn [a_prog] in H; [inversion H; subst; exact Hd|].
  destruct (a_op s o (Some self)) as [s1 r1] eqn:E.
  pose proof (a_op_dead _ _ _ _ _ _ Hd E) as Hd1.
  destruct r1 as [v|e]; [apply (IH _ _ _ _ Hd1 H)|inversion H; subst; exact Hd1].
Qed.

Lemma lookup_snoc_keep {A} id (l : list (nat * A)) kv v : lookup id l = Some v -> lookup id (l ++ [kv]) = Some v.
Proof.
  induction l as [|[k w] t IH]; cbn; [discriminate|]. destruct (Nat.eqb k id); [auto|exact IH].
Qed.

Lemma a_schedule_dead s c durs pre post sync s' r id :
  dead_ok s id -> a_schedule s c durs pre post sync = (s', r) -> dead_ok s' id.
Proof.
  intros [(a & Hg & Hn) He] H. unfold a_schedule in H.
  destruct (job_create c (a_tz s) (a_now s)) as [j|e].
  - destruct (enter_loop (mkAjob j PDone (a_now s) durs pre post false sync) j (a_now s)) as [a2 live].
    inversion H; subst; clear H. split; [|exact He].
    exists a. split; [|exact Hn]. unfold a_get in *. cbn [a_jobs]. apply lookup_snoc_keep. exact Hg.
  - inversion H; subst. split; [exists a; split; assumption|exact He].
Qed.

Lemma a_resume_dead s x id : dead_ok s id -> dead_ok (a_resume s x) id.
Proof.
  intros [Hd He]. destruct (Nat.eq_dec x id) as [->|Hne].
  - destruct Hd as (a & Hg & Hn). rewrite (finished_never_resumes s id a Hg Hn). split; [exists a; split; assumption|exact He].
  - unfold a_resume. destruct (a_get s x) as [a|] eqn:Hg; [|split; assumption].
    destruct (aj_phase a) eqn:Ep; try (split; assumption).
    + destruct (nth (Z.to_nat (j_attempts (aj_job a))) (aj_sync a) false).
      * destruct (job_calc (job_run (aj_job a) true) (dt_now (a_now s) (a_tz s))) as [j2|e]; [|split; assumption].
        destruct (enter_loop a j2 (a_now s)) as [a2 live].
        split; [apply dead_update_other; assumption|]. unfold a_set; cbn [a_events]. constructor; [exact I|exact He].
      * set (s0 := a_set s (a_reg s) (a_jobs s) _).
        assert (Hd0 : dead_ok s0 id).
        { split; [apply dead_frame; exact Hd|]. unfold s0, a_set; cbn [a_events]. constructor; [exact Hne|exact He]. }
        destruct (a_prog s0 (aj_pre a) x) as [s1 praised] eqn:Ep1.
        pose proof (a_prog_dead _ _ _ _ _ _ Hd0 Ep1) as [Hd1 He1].
        destruct (a_get s1 x) as [a1|] eqn:Hg1; [|split; assumption].
        destruct praised.
        -- destruct (job_calc (job_run (aj_job a1) true) (dt_now (a_now s) (a_tz s))) as [j2|e]; [|split; assumption].
           destruct (enter_loop a1 j2 (a_now s)) as [a2 live].
           split; [apply dead_update_other; assumption|]. unfold a_set; cbn [a_events]. constructor; [exact I|exact He1].
        -- destruct (aj_kill a1).
           ++ split; [apply dead_update_other; assumption|]. unfold a_set; cbn [a_events]. constructor; [exact I|exact He1].
           ++ split; [apply dead_update_other; assumption|exact He1].
    + set (s0 := a_set s (a_reg s) (a_jobs s) _).
      assert (Hd0 : dead_ok s0 id).
      { split; [apply dead_frame; exact Hd|]. unfold s0, a_set; cbn [a_events]. constructor; [exact I|exact He]. }
      destruct (a_prog s0 (aj_post a) x) as [s1 praised] eqn:Ep1.
      pose proof (a_prog_dead _ _ _ _ _ _ Hd0 Ep1) as [Hd1 He1].
      destruct (a_get s1 x) as [a1|] eqn:Hg1; [|split; assumption].
      cbv zeta.
      destruct (job_calc (job_run (aj_job a1) (praised || outcome_of (aj_job a1))) (dt_now (a_now s) (a_tz s))) as [j2|e]; [|split; assumption].
      destruct (enter_loop a1 j2 (a_now s)) as [a2 live].
      split; [apply dead_update_other; assumption|].
      unfold a_set; cbn [a_events]. destruct (praised || outcome_of (aj_job a1)); [constructor; [exact I|exact He1]|exact He1].
Qed.

Lemma dead_now s t id : dead_ok s id -> dead_ok (mkAio (a_tz s) t (a_reg s) (a_jobs s) (a_next s) (a_events s)) id.
Proof. intros [(a & Hg & Hn) He]. split; [exists a; split; assumption|exact He]. Qed.

Lemma a_run_dead fuel id : forall s t s' ok, dead_ok s id -> a_run fuel s t = (s', ok) -> dead_ok s' id.
Proof.
  induction fuel as [|f IH]; intros s t s' ok Hd H; cbn [a_run] in H; [inversion H; subst; exact Hd|].
  destruct (earliest (a_jobs s) None) as [[x w]|].
  - destruct (w <=? t).
    + apply (IH _ _ _ _ (a_resume_dead _ x id (dead_now s _ id Hd)) H).
    + inversion H; subst. apply dead_now. exact Hd.
  - inversion H; subst. apply dead_now. exact Hd.
Qed.

Opaque RUN_FUEL.
(* once dead, always dead; and the operation records no start of the dead job *)
Theorem a_step_dead s o s' r id :
  dead s id -> a_step s o = (s', r) -> dead s' id /\ Forall (no_start id) (a_events s').
Proof.
  intros Hd H. unfold a_step in H.
  assert (Hd0 : dead_ok (a_clear s) id).
  { destruct Hd as (a & Hg & Hn). split; [exists a; split; assumption|constructor]. }
  set (s0 := a_clear s) in *.
  assert (Hsettle : forall s1 r1, dead_ok s1 id -> settle (s1, r1) = (s', r) -> dead_ok s' id).
  { intros s1 r1 H1 Hs. unfold settle in Hs. cbn [fst snd] in Hs.
    destruct (a_run RUN_FUEL s1 (a_now s1)) as [s2 ok] eqn:Er. inversion Hs; subst.
    apply (a_run_dead _ _ _ _ _ _ H1 Er). }
  destruct o as [c durs pre post sync|ot c durs pre post sync|o|t].
  - destruct (a_schedule s0 c durs pre post sync) as [s1 r1] eqn:E.
    apply (Hsettle s1 r1 (a_schedule_dead _ _ _ _ _ _ _ _ _ Hd0 E) H).
  - destruct (a_schedule s0 (once_cfg ot c) durs pre post sync) as [s1 r1] eqn:E.
    apply (Hsettle s1 r1 (a_schedule_dead _ _ _ _ _ _ _ _ _ Hd0 E) H).
  - destruct (a_op s0 o None) as [s1 r1] eqn:E.
    apply (Hsettle s1 r1 (a_op_dead _ _ _ _ _ _ Hd0 E) H).
  - destruct (a_run RUN_FUEL s0 t) as [s1 ok] eqn:Er. inversion H; subst.
    apply (a_run_dead _ _ _ _ _ _ Hd0 Er).
Qed.

(* every later history: after each of its operations the job is still dead and that operation started it not *)
Fixpoint a_trace (s : aio) (ops : list atop) : list aio :=
  match ops with [] => [] | o :: r => let s1 := fst (a_step s o) in s1 :: a_trace s1 r end.

Theorem dead_never_started s id ops :
  dead s id -> Forall (fun s' => dead s' id /\ Forall (no_start id) (a_events s')) (a_trace s ops).
Proof.
  revert s. induction ops as [|o r IH]; intros s Hd; cbn [a_trace]; [constructor|].
  destruct (a_step s o) as [s1 r1] eqn:E. cbn [fst].
  destruct (a_step_dead s o s1 r1 id Hd E) as [Hd1 He1].
  constructor; [split; assumption|apply IH; exact Hd1].
Qed.

(* deleting a suspended job makes it dead at once (with [delete_cancels]) *)
Theorem cancel_makes_dead s id a :
  a_get s id = Some a -> active (aj_phase a) -> dead (a_cancel s id None) id.
Proof.
  intros Hg Ha. unfold a_cancel. rewrite Hg.
  apply (dead_update_same s id a _ _ _ Hg).
  destruct (aj_phase a); cbn [active] in Ha; try tauto; cbn [aj_set_phase aj_phase active]; tauto.
Qed.

(* ---- the job set loses no live job ----------------------------------------------------------------------
   [aio_inv] says: registered => the supervisor is suspended and not asked to die.  The converse,
   [live_reg]: a job whose supervisor is suspended (sleeping or running) and has not been asked to die IS in the job
   set - so together the job set is exactly the set of live supervisors, in every reachable state. *)
Definition live_reg (s : aio) : Prop :=
  forall id a, a_get s id = Some a -> active (aj_phase a) -> aj_kill a = false -> In id (a_reg s).

Lemma live_update s id a a' reg' evs :
  live_reg s -> a_get s id = Some a ->
  (forall x, x <> id -> In x (a_reg s) -> In x reg') ->
  (active (aj_phase a') -> aj_kill a' = false -> In id reg') ->
  live_reg (a_set s reg' (update id a' (a_jobs s)) evs).
Proof.
  intros Hl Hg Hoth Hid x ax Hx Hact Hk. unfold a_get, a_set in *. cbn [a_jobs a_reg] in *.
  destruct (Nat.eq_dec x id) as [->|Hne].
  - rewrite lookup_update_same in Hx by congruence. inversion Hx; subst ax. apply Hid; assumption.
  - rewrite lookup_update_other in Hx by congruence. apply Hoth; [exact Hne|]. apply (Hl x ax Hx Hact Hk).
Qed.

Lemma enter_loop_live a0 j ref a live : enter_loop a0 j ref = (a, live) -> active (aj_phase a) -> live = true.
Proof.
  unfold enter_loop. destruct (has_attempts j); intros H; inversion H; subst; cbn [aj_phase active]; tauto.
Qed.
Lemma enter_loop_kill a0 j ref a live : enter_loop a0 j ref = (a, live) -> aj_kill a = aj_kill a0.
Proof. unfold enter_loop. destruct (has_attempts j); intros H; inversion H; subst; reflexivity. Qed.

Lemma a_cancel_live s x self : live_reg s -> live_reg (a_cancel s x self).
Proof.
  intros Hl. unfold a_cancel. destruct (a_get s x) as [a|] eqn:Hg; [|exact Hl].
  apply (live_update s x a); try assumption.
  - intros y Hne Hin. apply remove_id_In. split; assumption.
  - destruct (match self with Some x0 => Nat.eqb x0 x | None => false end).
    + cbn [aj_set_kill aj_kill]. intros _ H. discriminate.
    + destruct (aj_phase a) eqn:Ep; cbn [aj_set_phase aj_phase active]; try tauto; rewrite Ep; cbn [active]; tauto.
Qed.
Lemma cancel_all_live sel : forall s self, live_reg s -> live_reg (fold_left (fun st x => a_cancel st x self) sel s).
Proof.
  induction sel as [|x r IH]; intros s self H; cbn [fold_left]; [exact H|]. apply IH. apply a_cancel_live. exact H.
Qed.
Lemma a_op_live s o self s' r : live_reg s -> a_op s o self = (s', r) -> live_reg s'.
Proof.
  intros Hl H. destruct o as [x|tags any|tags any|]; cbn [a_op] in H.
  - destruct (nmem x (a_reg s)); inversion H; subst; [apply a_cancel_live|]; exact Hl.
  - inversion H; subst. apply cancel_all_live. exact Hl.
  - inversion H; subst. exact Hl.
  - inversion H; subst. exact Hl.
Qed.
Lemma a_prog_live p : forall s self s' b, live_reg s -> a_prog s p self = (s', b) -> live_reg s'.
Proof.
  induction p as [|o r IH]; intros s self s' b Hl H; cbn [a_prog] in H; [inversion H; subst; exact Hl|].
  destruct (a_op s o (Some self)) as [s1 r1] eqn:E.
  pose proof (a_op_live _ _ _ _ _ Hl E) as Hl1.
  destruct r1 as [v|e]; [apply (IH _ _ _ _ Hl1 H)|inversion H; subst; exact Hl1].
Qed.

(* a coroutine's own operations never change the phase of its own task's record *)
Lemma a_cancel_self_phase s x id a :
  a_get s id = Some a -> exists a', a_get (a_cancel s x (Some id)) id = Some a' /\ aj_phase a' = aj_phase a.
Proof.
  intros Hg. unfold a_cancel. destruct (a_get s x) as [ax|] eqn:Hgx; [|exists a; split; [exact Hg|reflexivity]].
  unfold a_get, a_set in *. cbn [a_jobs].
  destruct (Nat.eq_dec x id) as [->|Hne].
  - rewrite Hg in Hgx. inversion Hgx; subst ax. rewrite Nat.eqb_refl.
    exists (aj_set_kill a). split; [apply lookup_update_same; congruence|reflexivity].
  - rewrite lookup_update_other by exact Hne. exists a. split; [exact Hg|reflexivity].
Qed.
Lemma cancel_all_self_phase sel id : forall s a,
  a_get s id = Some a ->
  exists a', a_get (fold_left (fun st x => a_cancel st x (Some id)) sel s) id = Some a' /\ aj_phase a' = aj_phase a.
Proof.
  induction sel as [|x r IH]; intros s a Hg; cbn [fold_left]; [exists a; split; [exact Hg|reflexivity]|].
  destruct (a_cancel_self_phase s x id a Hg) as (a1 & Hg1 & Hp1).
  destruct (IH _ a1 Hg1) as (a2 & Hg2 & Hp2). exists a2. split; [exact Hg2|congruence].
Qed.
Lemma a_op_self_phase s o id s' r a :
  a_get s id = Some a -> a_op s o (Some id) = (s', r) -> exists a', a_get s' id = Some a' /\ aj_phase a' = aj_phase a.
Proof.
  intros Hg H. destruct o as [x|tags any|tags any|]; cbn [a_op] in H.
  - destruct (nmem x (a_reg s)); inversion H; subst; [apply a_cancel_self_phase; exact Hg|exists a; split; [exact Hg|reflexivity]].
  - inversion H; subst. apply cancel_all_self_phase. exact Hg.
  - inversion H; subst. exists a; split; [exact Hg|reflexivity].
  - inversion H; subst. exists a; split; [exact Hg|reflexivity].
Qed.
Lemma a_prog_self_phase p id : forall s s' b a,
  a_get s id = Some a -> a_prog s p id = (s', b) -> exists a', a_get s' id = Some a' /\ aj_phase a' = aj_phase a.
Proof.
  induction p as [|o r IH]; intros s s' b a Hg H; cbn [a_prog] in H; [inversion H; subst; exists a; split; [exact Hg|reflexivity]|].
  destruct (a_op s o (Some id)) as [s1 r1] eqn:E.
  destruct (a_op_self_phase _ _ _ _ _ _ Hg E) as (a1 & Hg1 & Hp1).
  destruct r1 as [v|e].
  - destruct (IH _ _ _ _ Hg1 H) as (a2 & Hg2 & Hp2). exists a2. split; [exact Hg2|congruence].
  - inversion H; subst. exists a1. split; assumption.
Qed.

Lemma a_schedule_live s c durs pre post sync s' r :
  live_reg s -> a_schedule s c durs pre post sync = (s', r) -> live_reg s'.
Proof.
  intros Hl H. unfold a_schedule in H.
  destruct (job_create c (a_tz s) (a_now s)) as [j|e].
  - destruct (enter_loop (mkAjob j PDone (a_now s) durs pre post false sync) j (a_now s)) as [a live] eqn:Eel.
    inversion H; subst; clear H.
    intros x ax Hx Hact Hk. unfold a_get in Hx. cbn [a_jobs a_reg] in *. rewrite lookup_app in Hx.
    destruct (lookup x (a_jobs s)) as [v|] eqn:Hlx.
    + inversion Hx; subst v. pose proof (Hl x ax Hlx Hact Hk) as Hin.
      destruct live; [apply in_or_app; left; exact Hin|exact Hin].
    + cbn [lookup] in Hx. destruct (Nat.eqb (a_next s) x) eqn:E; [|discriminate].
      apply Nat.eqb_eq in E. subst x. inversion Hx; subst ax.
      rewrite (enter_loop_live _ _ _ _ _ Eel Hact). apply in_or_app. right. left. reflexivity.
  - inversion H; subst. intros x ax Hx. exact (Hl x ax Hx).
Qed.

Lemma live_frame s evs : live_reg s -> live_reg (a_set s (a_reg s) (a_jobs s) evs).
Proof. intros Hl x ax Hx. exact (Hl x ax Hx). Qed.

(* the common tail of a resumption: reschedule from [a1], whose phase is still the suspended one *)
Lemma finish_live s1 id a1 j2 ref a2 live evs :
  live_reg s1 -> a_get s1 id = Some a1 -> active (aj_phase a1) -> enter_loop a1 j2 ref = (a2, live) ->
  live_reg (a_set s1 (if live then a_reg s1 else remove_id id (a_reg s1))
                  (update id (if aj_kill a1 then (if live then aj_set_phase a2 PCancelled else a2) else a2) (a_jobs s1)) evs).
Proof.
  intros Hl Hg Hact Eel. apply (live_update s1 id a1); try assumption.
  - intros y Hne Hin. destruct live; [exact Hin|apply remove_id_In; split; assumption].
  - pose proof (enter_loop_kill _ _ _ _ _ Eel) as Hk2.
    destruct (aj_kill a1) eqn:Ek.
    + destruct live.
      * cbn [aj_set_phase aj_phase active]. tauto.
      * intros Ha2 _. pose proof (enter_loop_live _ _ _ _ _ Eel Ha2). discriminate.
    + intros Ha2 _. rewrite (enter_loop_live _ _ _ _ _ Eel Ha2). apply (Hl id a1 Hg Hact Ek).
Qed.

Lemma a_resume_live s id : live_reg s -> live_reg (a_resume s id).
Proof.
  intros Hl. unfold a_resume. destruct (a_get s id) as [a|] eqn:Hg; [|exact Hl].
  destruct (aj_phase a) eqn:Ep; try exact Hl.
  - destruct (nth (Z.to_nat (j_attempts (aj_job a))) (aj_sync a) false).
    + destruct (job_calc (job_run (aj_job a) true) (dt_now (a_now s) (a_tz s))) as [j2|e]; [|exact Hl].
      destruct (enter_loop a j2 (a_now s)) as [a2 live] eqn:Eel.
      apply (live_update s id a); try assumption.
      * intros y Hne Hin. destruct live; [exact Hin|apply remove_id_In; split; assumption].
      * intros Ha2 Hk2. rewrite (enter_loop_live _ _ _ _ _ Eel Ha2).
        rewrite (enter_loop_kill _ _ _ _ _ Eel) in Hk2. apply (Hl id a Hg); [rewrite Ep; exact I|exact Hk2].
    + set (s0 := a_set s (a_reg s) (a_jobs s) _).
      assert (Hl0 : live_reg s0) by (apply live_frame; exact Hl).
      assert (Hg0 : a_get s0 id = Some a) by exact Hg.
      destruct (a_prog s0 (aj_pre a) id) as [s1 praised] eqn:Ep1.
      pose proof (a_prog_live _ _ _ _ _ Hl0 Ep1) as Hl1.
      destruct (a_prog_self_phase _ _ _ _ _ _ Hg0 Ep1) as (a1' & Hg1' & Hp1').
      destruct (a_get s1 id) as [a1|] eqn:Hg1; [|exact Hl1].
      inversion Hg1'; subst a1'.
      assert (Hact1 : active (aj_phase a1)) by (rewrite Hp1', Ep; exact I).
      destruct praised.
      * destruct (job_calc (job_run (aj_job a1) true) (dt_now (a_now s) (a_tz s))) as [j2|e]; [|exact Hl1].
        destruct (enter_loop a1 j2 (a_now s)) as [a2 live] eqn:Eel.
        apply (finish_live s1 id a1 j2 _ a2 live _ Hl1 Hg1 Hact1 Eel).
      * destruct (aj_kill a1) eqn:Ek.
        -- apply (live_update s1 id a1); try assumption; [intros y _ Hin; exact Hin|].
           cbn [aj_set_phase aj_phase active]. tauto.
        -- apply (live_update s1 id a1); try assumption; [intros y _ Hin; exact Hin|].
           intros _ _. apply (Hl1 id a1 Hg1 Hact1 Ek).
  - set (s0 := a_set s (a_reg s) (a_jobs s) _).
    assert (Hl0 : live_reg s0) by (apply live_frame; exact Hl).
    assert (Hg0 : a_get s0 id = Some a) by exact Hg.
    destruct (a_prog s0 (aj_post a) id) as [s1 praised] eqn:Ep1.
    pose proof (a_prog_live _ _ _ _ _ Hl0 Ep1) as Hl1.
    destruct (a_prog_self_phase _ _ _ _ _ _ Hg0 Ep1) as (a1' & Hg1' & Hp1').
    destruct (a_get s1 id) as [a1|] eqn:Hg1; [|exact Hl1].
    inversion Hg1'; subst a1'.
    assert (Hact1 : active (aj_phase a1)) by (rewrite Hp1', Ep; exact I).
    cbv zeta.
    destruct (job_calc (job_run (aj_job a1) (praised || outcome_of (aj_job a1))) (dt_now (a_now s) (a_tz s))) as [j2|e]; [|exact Hl1].
    destruct (enter_loop a1 j2 (a_now s)) as [a2 live] eqn:Eel.
    apply (finish_live s1 id a1 j2 _ a2 live _ Hl1 Hg1 Hact1 Eel).
Qed.

Lemma live_now s t : live_reg s -> live_reg (mkAio (a_tz s) t (a_reg s) (a_jobs s) (a_next s) (a_events s)).
Proof. intros Hl x ax Hx. exact (Hl x ax Hx). Qed.
Lemma a_run_live fuel : forall s t s' ok, live_reg s -> a_run fuel s t = (s', ok) -> live_reg s'.
Proof.
  induction fuel as [|f IH]; intros s t s' ok Hl H; cbn [a_run] in H; [inversion H; subst; exact Hl|].
  destruct (earliest (a_jobs s) None) as [[x w]|].
  - destruct (w <=? t).
    + apply (IH _ _ _ _ (a_resume_live _ x (live_now s _ Hl)) H).
    + inversion H; subst. apply live_now. exact Hl.
  - inversion H; subst. apply live_now. exact Hl.
Qed.

Theorem a_step_live s o s' r : live_reg s -> a_step s o = (s', r) -> live_reg s'.
Proof.
  intros Hl H. unfold a_step in H.
  assert (Hl0 : live_reg (a_clear s)) by (intros x ax Hx; exact (Hl x ax Hx)).
  set (s0 := a_clear s) in *.
  assert (Hsettle : forall s1 r1, live_reg s1 -> settle (s1, r1) = (s', r) -> live_reg s').
  { intros s1 r1 H1 Hs. unfold settle in Hs. cbn [fst snd] in Hs.
    destruct (a_run RUN_FUEL s1 (a_now s1)) as [s2 ok] eqn:Er. inversion Hs; subst.
    apply (a_run_live _ _ _ _ _ H1 Er). }
  destruct o as [c durs pre post sync|ot c durs pre post sync|o|t].
  - destruct (a_schedule s0 c durs pre post sync) as [s1 r1] eqn:E.
    apply (Hsettle s1 r1 (a_schedule_live _ _ _ _ _ _ _ _ Hl0 E) H).
  - destruct (a_schedule s0 (once_cfg ot c) durs pre post sync) as [s1 r1] eqn:E.
    apply (Hsettle s1 r1 (a_schedule_live _ _ _ _ _ _ _ _ Hl0 E) H).
  - destruct (a_op s0 o None) as [s1 r1] eqn:E.
    apply (Hsettle s1 r1 (a_op_live _ _ _ _ _ Hl0 E) H).
  - destruct (a_run RUN_FUEL s0 t) as [s1 ok] eqn:Er. inversion H; subst.
    apply (a_run_live _ _ _ _ _ Hl0 Er).
Qed.

Theorem history_live tz now ops : live_reg (a_steps (a_init tz now) ops).
Proof.
  assert (G : forall s, live_reg s -> live_reg (a_steps s ops)).
  { induction ops as [|o r IH]; intros s Hl; cbn [a_steps]; [exact Hl|].
    destruct (a_step s o) as [s1 r1] eqn:E. cbn [fst]. apply IH. apply (a_step_live _ _ _ _ Hl E). }
  apply G. intros x ax Hx. discriminate.
Qed.
