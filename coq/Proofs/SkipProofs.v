(* C08 at the job level, single and batched clock-time jobs with skip_missing=True:
   every timer stays anchored (it is the next occurrence of its entry after some instant not later than the
   last execution), so after an execution at instant r the job's new due time is an occurrence of one of its
   entries, not earlier than r, and NO entry has an occurrence strictly between r and it - the whole backlog
   collapses into the one invocation - for every history of executions at non-decreasing instants. *)
From Coq Require Import ZArith List Bool Lia ZifyBool.
From Sv Require Import PyTime Timer Job Occur TimerProofs JobProofs BatchProofs.
Import ListNotations.
Open Scope Z_scope.

Definition anchored (ty : jobtype) (L : Z) (tm : timer) : Prop :=
  exists Lk, Lk <= L /\ is_next (occ ty (jt_timing tm)) Lk (utc (jt_next tm)).

Definition skip_inv (L : Z) (j : job) : Prop :=
  job_ok j /\ c_type (j_cfg j) <> CYCLIC /\ c_skip (j_cfg j) = true /\ c_delay (j_cfg j) = true /\
  Forall (anchored (c_type (j_cfg j)) L) (j_timers j).

(* one timer of the loop `for timer in timers: if timer.datetime <= ref: timer.calc_next_exec(ref)` *)
Lemma skip_step ty aw L tm r :
  ty <> CYCLIC -> timer_wf ty true aw tm -> aware r = aw -> anchored ty L tm -> L <= utc r ->
  exists tm', (d <- dt_sub (jt_next tm) r ;; if ts_le d 0 then timer_calc tm (Some r) else Ok tm) = Ok tm' /\
              jt_timing tm' = jt_timing tm /\ anchored ty (utc r) tm' /\
              utc r <= utc (jt_next tm') /\ utc (jt_next tm) <= utc (jt_next tm') /\
              (utc (jt_next tm) <= utc r -> utc (jt_next tm) < utc (jt_next tm')) /\
              occ ty (jt_timing tm') (utc (jt_next tm')) /\
              (forall y, utc r < y -> y < utc (jt_next tm') -> ~ occ ty (jt_timing tm) y).
Proof.
  intros Hty (Ht & Hsk & Haw & Hrest) Hr (Lk & HLk & Hnext) HL.
  destruct ty; try congruence; destruct Hrest as [Hok Hea];
  (rewrite (dt_sub_same (jt_next tm) r) by congruence; cbn [bind];
   pose proof (tok_occ _ Hok) as Hocc; rewrite Ht in Hocc;
   unfold ts_le; destruct (utc (jt_next tm) - utc r <=? 0 * SEC) eqn:E;
   [ assert (Hdue : utc (jt_next tm) <= utc r) by (unfold SEC in E; lia);
     assert (Hra : aware r = entry_aware' (jt_timing tm)) by congruence;
     destruct (timer_skip tm r Hok Hsk Hra Hdue) as (tm' & Hc & Hok' & Ht' & Hg' & Hs' & H1 & H2 & H3);
     destruct (timer_skip_exact tm r Hok Hsk Hra) as (tm2 & Hc2 & _ & _ & _ & _ & Hx1 & Hx2);
     rewrite Hc in Hc2; inversion Hc2; subst tm2; clear Hc2;
     exists tm'; split; [exact Hc|]; split; [exact Hg'|]; split;
     [ destruct (Z_le_gt_dec (utc r) (utc (jt_next tm) + period_of (jt_type tm))) as [Hle|Hgt];
       [ exists (utc (jt_next tm)); split; [exact Hdue|]; rewrite (Hx1 Hle), Hg', Ht;
         apply occ_succ; [congruence|rewrite <- Ht; apply (tok_valid _ Hok)|exact Hocc]
       | exists (utc r); split; [lia|]; rewrite Hg', <- Ht; apply Hx2; lia ]
     | split; [exact H1|]; split; [lia|]; split; [intros _; exact H2|]; split;
       [ pose proof (tok_occ _ Hok') as Ho'; rewrite Ht', Ht in Ho'; exact Ho'
       | rewrite <- Ht; exact H3 ] ]
   | assert (Hfut : utc r < utc (jt_next tm)) by (unfold SEC in E; lia);
     exists tm; split; [reflexivity|]; split; [reflexivity|]; split;
     [ exists Lk; split; [lia|exact Hnext]
     | split; [lia|]; split; [lia|]; split; [lia|]; split; [exact Hocc|];
       intros y Hy1 Hy2; destruct Hnext as (_ & _ & Hn); apply Hn; lia ] ]).
Qed.

Definition step_facts (ty : jobtype) (r : datetime) (tm tm' : timer) : Prop :=
  jt_timing tm' = jt_timing tm /\ anchored ty (utc r) tm' /\
  utc r <= utc (jt_next tm') /\ utc (jt_next tm) <= utc (jt_next tm') /\
  (utc (jt_next tm) <= utc r -> utc (jt_next tm) < utc (jt_next tm')) /\
  occ ty (jt_timing tm') (utc (jt_next tm')) /\
  (forall y, utc r < y -> y < utc (jt_next tm') -> ~ occ ty (jt_timing tm) y).

Lemma skip_timers ty aw L tms r :
  ty <> CYCLIC -> Forall (timer_wf ty true aw) tms -> aware r = aw -> Forall (anchored ty L) tms -> L <= utc r ->
  exists tms', mapM (fun tm => d <- dt_sub (jt_next tm) r ;; if ts_le d 0 then timer_calc tm (Some r) else Ok tm) tms = Ok tms' /\
               Forall2 (step_facts ty r) tms tms'.
Proof.
  intros Hty Hwf Hr Han HL. induction Hwf as [|tm t Hw Ht IH]; [exists []; split; [reflexivity|constructor]|].
  pose proof (Forall_inv Han) as Ha1. pose proof (Forall_inv_tail Han) as Ha2.
  destruct (skip_step ty aw L tm r Hty Hw Hr Ha1 HL) as (tm' & Hc & Hfacts).
  destruct (IH Ha2) as (t' & Ht' & HF).
  exists (tm' :: t'). split; [cbn [mapM]; rewrite Hc; cbn [bind]; rewrite Ht'; reflexivity|].
  constructor; [exact Hfacts|exact HF].
Qed.

Lemma Forall2_nth_d {A B} (R : A -> B -> Prop) l l' da db k :
  Forall2 R l l' -> (k < length l)%nat -> R (nth k l da) (nth k l' db).
Proof.
  intros H. revert k. induction H as [|x y t t' Hxy Ht IH]; intros k Hk; [cbn in Hk; lia|].
  destruct k; cbn; [exact Hxy|]. apply IH. cbn in Hk. lia.
Qed.
Lemma Forall2_length' {A B} (R : A -> B -> Prop) l l' : Forall2 R l l' -> length l = length l'.
Proof. induction 1; cbn; congruence. Qed.

(* the due time of a delay=True job is the minimum of its timers *)
Lemma due_min j :
  job_ok j -> c_delay (j_cfg j) = true ->
  (j_pending j < length (j_timers j))%nat /\
  job_datetime j = jt_next (pending_timer j) /\
  forall k, (k < length (j_timers j))%nat ->
            utc (jt_next (pending_timer j)) <= utc (jt_next (nth k (j_timers j) dummy_timer)).
Proof.
  intros Hok Hdl.
  pose proof (jok_pending j Hok) as Hp. pose proof (pending_index_lt _ _ Hp) as Hlt.
  split; [exact Hlt|]. split; [unfold job_datetime; rewrite Hdl; reflexivity|].
  unfold pending_index in Hp. destruct (j_timers j) as [|tm r] eqn:Etm; [discriminate|].
  destruct (all_same_awareness _); [|discriminate]. inversion Hp as [Hp']. clear Hp.
  assert (Hne : map utc (map jt_next (tm :: r)) <> []) by discriminate.
  destruct (argmin_spec _ Hne) as [_ Hmin].
  intros k Hk. unfold pending_timer. rewrite Etm, <- Hp'. rewrite <- !nth_utc_next. apply Hmin.
  rewrite !map_length. exact Hk.
Qed.

Theorem skip_cycle L j b r :
  skip_inv L j -> aware r = tz_aware (j_tz j) -> L <= utc r ->
  let ty := c_type (j_cfg j) in
  exists j', job_cycle j (b, r) = Ok j' /\ skip_inv (utc r) j' /\
             j_cfg j' = j_cfg j /\ j_tz j' = j_tz j /\ j_attempts j' = j_attempts j + 1 /\
             utc r <= utc (job_datetime j') /\
             (utc (job_datetime j) <= utc r -> utc (job_datetime j) < utc (job_datetime j')) /\
             union_occ ty (c_timing (j_cfg j)) (utc (job_datetime j')) /\
             (forall tg y, In tg (c_timing (j_cfg j)) -> utc r < y -> y < utc (job_datetime j') -> ~ occ ty tg y).
Proof.
  intros (Hok & Hty & Hsk & Hdl & Han) Hr HL ty.
  unfold job_cycle. cbn [fst snd].
  pose proof (job_run_ok j b Hok) as Hok1.
  assert (Hr1 : aware r = tz_aware (j_tz (job_run j b))) by exact Hr.
  destruct (job_calc_ok (job_run j b) r Hok1 Hr1) as (j' & Hj' & Hok' & Hcfg & Htz & Hst & Hat & Hfl & _ & Hct & _).
  cbn [job_run j_cfg j_tz j_attempts j_timers] in Hcfg, Htz, Hat.
  (* the timers after the run *)
  unfold calc_timers in Hct. cbn [job_run j_cfg j_timers] in Hct. rewrite Hsk in Hct.
  pose proof (jok_timers j Hok) as Hwf. rewrite Hsk in Hwf.
  destruct (skip_timers ty (tz_aware (j_tz j)) L (j_timers j) r Hty Hwf Hr Han HL) as (tms' & Hm & HF).
  rewrite Hm in Hct. inversion Hct as [Htms]. clear Hct.
  exists j'. split; [exact Hj'|].
  assert (Hdl' : c_delay (j_cfg j') = true) by (rewrite Hcfg; exact Hdl).
  destruct (due_min j Hok Hdl) as (Hlt & Hd & Hmin).
  set (p' := j_pending j').
  destruct (due_min j' Hok' Hdl') as (Hlt' & Hd' & Hmin'). fold p' in Hlt'.
  unfold pending_timer in Hd', Hmin'. rewrite <- Htms in Hlt', Hmin', Hd'. fold p' in Hmin', Hd'.
  pose proof (Forall2_length' _ _ _ HF) as Hlen.
  assert (Hp'lt : (p' < length (j_timers j))%nat) by lia.
  pose proof (Forall2_nth_d _ _ _ dummy_timer dummy_timer p' HF Hp'lt) as (Fg & Fa & F1 & F2 & F3 & F4 & F5).
  split.
  { (* the invariant, anchored at the execution instant *)
    split; [exact Hok'|]. rewrite Hcfg. split; [exact Hty|]. split; [exact Hsk|]. split; [exact Hdl|].
    rewrite <- Htms. clear -HF. induction HF as [|x y t t' Hxy Ht IH]; constructor; [apply Hxy|exact IH]. }
  split; [exact Hcfg|]. split; [exact Htz|]. split; [exact Hat|].
  rewrite Hd'. split; [exact F1|]. split.
  { (* strictly later than the due time consumed *)
    intros Hdue. rewrite Hd in *. specialize (Hmin p' Hp'lt).
    destruct (Z_le_gt_dec (utc (jt_next (nth p' (j_timers j) dummy_timer))) (utc r)) as [Hle|Hgt]; [specialize (F3 Hle)|]; lia. }
  split.
  { exists (jt_timing (nth p' (j_timers j) dummy_timer)). split.
    - rewrite <- (jok_timing j Hok). apply in_map. apply nth_In. exact Hp'lt.
    - rewrite <- Fg. exact F4. }
  intros tg y Hin Hy1 Hy2. rewrite <- (jok_timing j Hok) in Hin. apply in_map_iff in Hin as (tm & <- & Hin).
  destruct (In_nth _ _ dummy_timer Hin) as (k & Hk & Hnth).
  pose proof (Forall2_nth_d _ _ _ dummy_timer dummy_timer k HF Hk) as (_ & _ & _ & _ & _ & _ & G5).
  rewrite Hnth in G5. apply (G5 y Hy1). specialize (Hmin' k). rewrite <- Hlen in Hmin'. specialize (Hmin' Hk). lia.
Qed.

(* a freshly scheduled skip_missing clock job satisfies the invariant, anchored at its reference *)
Theorem created_skip c tz now j :
  cfg_valid c -> job_create c tz now = Ok j -> c_type c <> CYCLIC -> c_skip c = true -> c_delay c = true ->
  skip_inv (utc (match c_start c with Some s => s | None => dt_now now tz end)) j.
Proof.
  intros Hv Hc Hty Hsk Hdl.
  destruct (job_create_ok c tz now j Hv Hc) as [Hok Htz Hcty Hctg _ _ Hcdl _ Hcsk _ _ Hstart _ _ Hfirst _].
  unfold skip_inv. rewrite Hcty, Hcsk, Hcdl. split; [exact Hok|]. split; [exact Hty|]. split; [exact Hsk|]. split; [exact Hdl|].
  rewrite <- Hstart. eapply Forall_impl; [|exact Hfirst]. intros tm Hf.
  exists (utc (j_start j)). split; [lia|]. destruct (c_type c) eqn:Ety; try congruence; exact Hf.
Qed.

(* any number of executions at non-decreasing instants: the invariant travels, so the facts of skip_cycle hold
   for every single one of them *)
Fixpoint nondecreasing (L : Z) (runs : list (bool * datetime)) : Prop :=
  match runs with
  | [] => True
  | r :: rest => L <= utc (snd r) /\ nondecreasing (utc (snd r)) rest
  end.
Definition last_instant (L : Z) (runs : list (bool * datetime)) : Z :=
  fold_left (fun _ r => utc (snd r)) runs L.

Theorem skip_cycles runs : forall L j,
  skip_inv L j -> Forall (fun r => aware (snd r) = tz_aware (j_tz j)) runs -> nondecreasing L runs ->
  exists j', job_cycles j runs = Ok j' /\ skip_inv (last_instant L runs) j' /\
             j_cfg j' = j_cfg j /\ j_tz j' = j_tz j /\ j_attempts j' = j_attempts j + Z.of_nat (length runs) /\
             (runs <> [] -> last_instant L runs <= utc (job_datetime j')).
Proof.
  induction runs as [|[b r] rest IH]; intros L j Hinv Haw Hmono.
  - exists j. unfold last_instant. cbn [job_cycles fold_left length]. split; [reflexivity|]. split; [exact Hinv|]. split; [reflexivity|]. split; [reflexivity|]. split; [lia|]. intros H; contradiction H; reflexivity.
  - destruct Hmono as [HL Hrest]. cbn [snd] in HL, Hrest.
    pose proof (Forall_inv Haw) as Ha1. pose proof (Forall_inv_tail Haw) as Ha2. cbn [snd] in Ha1.
    destruct (skip_cycle L j b r Hinv Ha1 HL) as (j1 & Hc1 & Hinv1 & Hcfg1 & Htz1 & Hat1 & Hge1 & _).
    cbn [job_cycles]. rewrite Hc1. cbn [bind].
    assert (Haw' : Forall (fun r0 => aware (snd r0) = tz_aware (j_tz j1)) rest) by (rewrite Htz1; exact Ha2).
    destruct (IH (utc r) j1 Hinv1 Haw' Hrest) as (j' & Hc & Hinv' & Hcfg' & Htz' & Hat' & Hge').
    exists j'. split; [exact Hc|]. unfold last_instant in *. cbn [fold_left snd] in *.
    split; [exact Hinv'|]. split; [congruence|]. split; [congruence|]. split; [rewrite Hat', Hat1; cbn [length]; lia|].
    intros _. destruct rest as [|r2 rest'].
    + cbn [fold_left] in *. cbn [job_cycles] in Hc. inversion Hc; subst j'. exact Hge1.
    + apply Hge'. discriminate.
Qed.
