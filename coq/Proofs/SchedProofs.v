(* Invariants of the sequential scheduler model, by induction over operations
   (C04-C07, C10-C13, C15). *)
From Coq Require Import ZArith List Bool Lia ZifyBool Arith PeanoNat.
From Sv Require Import PyTime Timer Job Sched Occur TimerProofs JobProofs.
Import ListNotations.
Open Scope Z_scope.

(* ---- association lists -------------------------------------------------------------------- *)
Lemma lookup_app {A} id (l1 l2 : list (nat * A)) :
  lookup id (l1 ++ l2) = match lookup id l1 with Some v => Some v | None => lookup id l2 end.
Proof.
  induction l1 as [|[k v] t IH]; cbn; [reflexivity|]. destruct (Nat.eqb k id); [reflexivity|exact IH].
Qed.
Lemma lookup_update_same {A} id (v : A) l : lookup id l <> None -> lookup id (update id v l) = Some v.
Proof.
  induction l as [|[k w] t IH]; cbn; [congruence|]. destruct (Nat.eqb k id) eqn:E; cbn; rewrite E; auto.
Qed.
Lemma lookup_update_other {A} id id' (v : A) l : id <> id' -> lookup id' (update id v l) = lookup id' l.
Proof.
  intros Hne. induction l as [|[k w] t IH]; cbn; [reflexivity|].
  destruct (Nat.eqb k id) eqn:E; cbn.
  - apply Nat.eqb_eq in E. subst k. destruct (Nat.eqb id id') eqn:E2; [apply Nat.eqb_eq in E2; congruence|reflexivity].
  - destruct (Nat.eqb k id'); [reflexivity|exact IH].
Qed.
Lemma update_keys {A} id (v : A) l : map fst (update id v l) = map fst l.
Proof. induction l as [|[k w] t IH]; cbn; [reflexivity|]. destruct (Nat.eqb k id); cbn; congruence. Qed.
Lemma lookup_in_keys {A} id (v : A) l : lookup id l = Some v -> In id (map fst l).
Proof.
  induction l as [|[k w] t IH]; cbn; [discriminate|]. destruct (Nat.eqb k id) eqn:E; intros H.
  - left. apply Nat.eqb_eq. exact E.
  - right. apply IH. exact H.
Qed.
Lemma lookup_none_keys {A} id (l : list (nat * A)) : ~ In id (map fst l) -> lookup id l = None.
Proof.
  induction l as [|[k w] t IH]; cbn; [reflexivity|]. intros H. destruct (Nat.eqb k id) eqn:E.
  - apply Nat.eqb_eq in E. exfalso. apply H. left. exact E.
  - apply IH. intros Hin. apply H. right. exact Hin.
Qed.

Lemma nmem_In x l : nmem x l = true <-> In x l.
Proof.
  induction l as [|y t IH]; cbn; [split; [discriminate|tauto]|].
  rewrite orb_true_iff, IH, Nat.eqb_eq. split; intros [H|H]; auto.
Qed.
Lemma remove_id_In x id l : In x (remove_id id l) <-> In x l /\ x <> id.
Proof.
  unfold remove_id. rewrite filter_In, negb_true_iff, Nat.eqb_neq. tauto.
Qed.
Lemma NoDup_filter {A} (f : A -> bool) l : NoDup l -> NoDup (filter f l).
Proof.
  induction 1 as [|x t Hx Hn IH]; cbn; [constructor|]. destruct (f x); [|exact IH].
  constructor; [|exact IH]. rewrite filter_In. tauto.
Qed.

Lemma NoDup_app_nodup_singleton {A} (l : list A) x : NoDup l -> ~ In x l -> NoDup (l ++ [x]).
Proof.
  intros Hn Hx. induction Hn as [|y t Hy Hn IH]; cbn; [constructor; [tauto|constructor]|].
  constructor.
  - rewrite in_app_iff. cbn. intros [H|[H|[]]]; [contradiction|]. apply Hx. left. symmetry. exact H.
  - apply IH. intros H. apply Hx. right. exact H.
Qed.

(* ---- the invariant that holds between operations ---------------------------------------------- *)
Record sched_inv (s : sched) : Prop := {
  si_bound : forall id, In id (map fst (s_jobs s)) -> (id < s_next s)%nat;
  si_keys_nodup : NoDup (map fst (s_jobs s));
  si_reg_nodup : NoDup (s_reg s);
  si_reg_jobs : forall id, In id (s_reg s) -> exists j, get_job s id = Some j;
  si_jobs_ok : forall id j, get_job s id = Some j -> job_ok j /\ j_tz j = s_tz s;
  si_budget : forall id j, get_job s id = Some j -> 0 < c_max_attempts (j_cfg j) ->
              j_attempts j <= c_max_attempts (j_cfg j)
}.
(* registered jobs outside B can still run *)
Definition live_except (B : list nat) (s : sched) : Prop :=
  forall id j, In id (s_reg s) -> ~ In id B -> get_job s id = Some j -> has_attempts j = true.
Definition live_inv := live_except [].

(* configurations produced by Python's own constructors *)
Definition once_valid (ot : oncetiming) : Prop :=
  match ot with
  | OnceDt _ | OnceTd _ => True
  | OnceTime t => valid_time t
  | OnceWd w t => valid_time t /\ 0 <= w <= 6
  end.
Definition cbop_valid (o : cbop) : Prop :=
  match o with
  | CSchedule c => cfg_valid c /\ c_timing c <> []
  | COnce ot _ => once_valid ot
  | _ => True
  end.
Lemma once_cfg_valid ot c : once_valid ot -> cfg_valid (once_cfg ot c).
Proof.
  destruct ot; cbn; intros H; unfold cfg_valid; cbn; (constructor; [|constructor]); cbn; try exact H; exact I.
Qed.

(* ---- scheduling calls ---------------------------------------------------------------------------- *)
Lemma schedule_inv s c prog s' r B :
  cfg_valid c -> sched_inv s -> live_except B s -> (forall id, In id B -> (id < s_next s)%nat) ->
  schedule s c prog = (s', r) ->
  sched_inv s' /\ live_except B s' /\ s_tz s' = s_tz s /\ s_now s' = s_now s /\
  s_max_exec s' = s_max_exec s /\ s_prio s' = s_prio s /\
  s_next s' = S (s_next s) /\
  (forall id, id <> s_next s -> get_job s' id = get_job s id) /\
  (forall id, id <> s_next s -> (In id (s_reg s') <-> In id (s_reg s))) /\
  (forall e, r = Err e -> s_reg s' = s_reg s /\ s_jobs s' = s_jobs s).
Proof.
  intros Hv Hi Hl HB H. unfold schedule in H.
  destruct Hi as [Hb Hk Hrn Hrj Hjo Hbu].
  destruct (job_create c (s_tz s) (s_now s)) as [j|e] eqn:Ec; inversion H; subst; clear H; cbn.
  - (* created *)
    pose proof (job_create_ok _ _ _ _ Hv Ec) as Hcr.
    assert (Hfresh : ~ In (s_next s) (map fst (s_jobs s))) by (intros Hin; specialize (Hb _ Hin); lia).
    assert (Hfresh_reg : ~ In (s_next s) (s_reg s)).
    { intros Hin. destruct (Hrj _ Hin) as (j0 & Hj0). apply lookup_in_keys in Hj0. contradiction. }
    assert (Hget : forall id, lookup id (s_jobs s ++ [(s_next s, j)])
             = if Nat.eqb id (s_next s) then Some j else lookup id (s_jobs s)).
    { intros id. rewrite lookup_app. cbn.
      destruct (Nat.eqb id (s_next s)) eqn:E.
      - apply Nat.eqb_eq in E. subst id. rewrite (lookup_none_keys _ _ Hfresh), Nat.eqb_refl. reflexivity.
      - rewrite Nat.eqb_sym, E. destruct (lookup id (s_jobs s)); reflexivity. }
    unfold live_except, get_job in *. cbn [s_jobs s_reg s_tz s_next].
    split; [|split; [|repeat split]].
    + constructor; unfold get_job; cbn.
      * intros id Hin. rewrite map_app, in_app_iff in Hin. cbn in Hin. destruct Hin as [Hin|[<-|[]]]; [specialize (Hb _ Hin)|]; lia.
      * rewrite map_app. cbn. apply NoDup_app_nodup_singleton; assumption.
      * destruct (has_attempts j); [|exact Hrn]. apply NoDup_app_nodup_singleton; assumption.
      * intros id Hin. rewrite Hget. destruct (Nat.eqb id (s_next s)) eqn:E; [eauto|].
        apply Hrj. destruct (has_attempts j); [|exact Hin]. rewrite in_app_iff in Hin. destruct Hin as [Hin|[<-|[]]]; [exact Hin|].
        rewrite Nat.eqb_refl in E. discriminate.
      * intros id j0 Hj0. rewrite Hget in Hj0. destruct (Nat.eqb id (s_next s)); [|apply Hjo with id; exact Hj0].
        inversion Hj0; subst j0. split; [apply Hcr|apply Hcr].
      * intros id j0 Hj0. rewrite Hget in Hj0. destruct (Nat.eqb id (s_next s)); [|apply Hbu with id; exact Hj0].
        inversion Hj0; subst j0. intros Hm. rewrite (proj1 (cr_counts _ _ _ _ Hcr)). lia.
    + intros id j0 Hin HnB Hj0. rewrite Hget in Hj0. destruct (Nat.eqb id (s_next s)) eqn:E.
      * inversion Hj0; subst j0. apply Nat.eqb_eq in E. subst id.
        destruct (has_attempts j) eqn:Eh; [reflexivity|]. cbn in Hin. contradiction.
      * apply (Hl id j0); try assumption. cbn in Hin. destruct (has_attempts j); [|exact Hin].
        rewrite in_app_iff in Hin. destruct Hin as [Hin|[<-|[]]]; [exact Hin|]. rewrite Nat.eqb_refl in E. discriminate.
    + intros id Hne. rewrite Hget. destruct (Nat.eqb id (s_next s)) eqn:E; [apply Nat.eqb_eq in E; congruence|reflexivity].
    + intros Hin. destruct (has_attempts j); [|exact Hin]. rewrite in_app_iff in Hin. destruct Hin as [Hin|[Heq|[]]]; [exact Hin|congruence].
    + intros Hin. destruct (has_attempts j); [|exact Hin]. rewrite in_app_iff. left. exact Hin.
    + discriminate.
    + discriminate.
  - (* rejected *)
    split; [|split; [|repeat split]]; try reflexivity; try tauto.
    + constructor; cbn; try assumption. intros id Hin. specialize (Hb _ Hin). lia.
Qed.

(* ---- callback programs are made of valid operations ------------------------------------------------ *)
Definition progs_valid (s : sched) : Prop :=
  forall id p, lookup id (s_progs s) = Some p -> Forall cbop_valid p.

Lemma schedule_progs s c prog s' r :
  progs_valid s -> Forall cbop_valid prog -> schedule s c prog = (s', r) -> progs_valid s'.
Proof.
  intros Hp Hv H. unfold schedule in H. destruct (job_create _ _ _); inversion H; subst; clear H; [|exact Hp].
  intros id p. cbn. rewrite lookup_app. destruct (lookup id (s_progs s)) eqn:E.
  - intros H; inversion H; subst. apply (Hp id). exact E.
  - cbn. destruct (Nat.eqb (s_next s) id); [|discriminate]. intros H; inversion H; subst. exact Hv.
Qed.

Lemma sched_inv_shrink s r' :
  sched_inv s -> NoDup r' -> (forall id, In id r' -> In id (s_reg s)) -> sched_inv (upd_reg s r').
Proof.
  intros [Hb Hk Hrn Hrj Hjo Hbu] Hn Hsub. constructor; cbn; try assumption.
  intros id Hin. apply Hrj. apply Hsub. exact Hin.
Qed.
Lemma live_shrink B s r' :
  live_except B s -> (forall id, In id r' -> In id (s_reg s)) -> live_except B (upd_reg s r').
Proof. intros Hl Hsub id j Hin HnB Hj. apply (Hl id j); auto. Qed.

(* what every operation other than exec_jobs guarantees *)
Record step_frame (s s' : sched) : Prop := {
  sf_tz : s_tz s' = s_tz s;
  sf_now : s_now s' = s_now s;
  sf_max : s_max_exec s' = s_max_exec s;
  sf_prio : s_prio s' = s_prio s;
  sf_next : (s_next s <= s_next s')%nat;
  sf_jobs : forall id, (id < s_next s)%nat -> get_job s' id = get_job s id;
  sf_reg : forall id, (id < s_next s)%nat -> In id (s_reg s') -> In id (s_reg s)
}.
Lemma step_frame_refl s : step_frame s s.
Proof. constructor; auto. Qed.
Lemma step_frame_trans s1 s2 s3 : step_frame s1 s2 -> step_frame s2 s3 -> step_frame s1 s3.
Proof.
  intros [a1 a2 a3 a4 a5 a6 a7] [b1 b2 b3 b4 b5 b6 b7]. constructor; try congruence; try lia.
  - intros id H. rewrite b6 by lia. apply a6. exact H.
  - intros id H Hin. apply a7; [exact H|]. apply b7; [lia|exact Hin].
Qed.

Lemma cb_step_inv s o prog s' r B :
  cbop_valid o -> sched_inv s -> live_except B s -> (forall id, In id B -> (id < s_next s)%nat) ->
  cb_step s o prog = (s', r) ->
  sched_inv s' /\ live_except B s' /\ step_frame s s'.
Proof.
  intros Hv Hi Hl HB H. destruct o as [c|ot c|id|tags any|tags any|]; cbn in H.
  - destruct (schedule_inv s c prog s' r B (proj1 Hv) Hi Hl HB H) as (H1 & H2 & H3 & H4 & H5 & H6 & H7 & H8 & H9 & _).
    split; [exact H1|]. split; [exact H2|]. constructor; try assumption; try lia.
    + intros id Hid. apply H8. lia.
    + intros id Hid Hin. apply H9; [lia|exact Hin].
  - destruct (schedule_inv s (once_cfg ot c) prog s' r B (once_cfg_valid ot c Hv) Hi Hl HB H)
      as (H1 & H2 & H3 & H4 & H5 & H6 & H7 & H8 & H9 & _).
    split; [exact H1|]. split; [exact H2|]. constructor; try assumption; try lia.
    + intros id Hid. apply H8. lia.
    + intros id Hid Hin. apply H9; [lia|exact Hin].
  - destruct (nmem id (s_reg s)); inversion H; subst; clear H.
    + assert (Hsub : forall x, In x (remove_id id (s_reg s)) -> In x (s_reg s)) by (intros x Hx; apply remove_id_In in Hx; tauto).
      split; [apply sched_inv_shrink; [exact Hi|apply NoDup_filter; apply Hi|exact Hsub]|].
      split; [apply live_shrink; assumption|]. constructor; cbn; auto.
    + split; [exact Hi|]. split; [exact Hl|apply step_frame_refl].
  - assert (Hall : sched_inv (upd_reg s []) /\ live_except B (upd_reg s []) /\ step_frame s (upd_reg s [])).
    { split; [apply sched_inv_shrink; [exact Hi|constructor|intros x []]|].
      split; [apply live_shrink; [exact Hl|intros x []]|]. constructor; cbn; auto. intros x _ []. }
    destruct tags as [[|t tg]|]; inversion H; subst; clear H; try exact Hall.
    set (sel := select_ids s (t :: tg) any).
    assert (Hsub : forall x, In x (filter (fun id => negb (nmem id sel)) (s_reg s)) -> In x (s_reg s))
      by (intros x Hx; apply filter_In in Hx; tauto).
    split; [apply sched_inv_shrink; [exact Hi|apply NoDup_filter; apply Hi|exact Hsub]|].
    split; [apply live_shrink; assumption|]. constructor; cbn; auto.
  - destruct tags as [[|t tg]|]; inversion H; subst; (split; [exact Hi|]; split; [exact Hl|apply step_frame_refl]).
  - inversion H; subst. split; [exact Hi|]. split; [exact Hl|apply step_frame_refl].
Qed.

Lemma cb_step_progs s o prog s' r :
  progs_valid s -> Forall cbop_valid prog -> cb_step s o prog = (s', r) -> progs_valid s'.
Proof.
  intros Hp Hv H. destruct o as [c|ot c|id|tags any|tags any|]; cbn in H.
  - eapply schedule_progs; eassumption.
  - eapply schedule_progs; eassumption.
  - destruct (nmem id (s_reg s)); inversion H; subst; exact Hp.
  - destruct tags as [[|t tg]|]; inversion H; subst; exact Hp.
  - destruct tags as [[|t tg]|]; inversion H; subst; exact Hp.
  - inversion H; subst. exact Hp.
Qed.

Lemma run_prog_inv p : forall s s' b B,
  Forall cbop_valid p -> sched_inv s -> progs_valid s -> live_except B s ->
  (forall id, In id B -> (id < s_next s)%nat) ->
  run_prog s p = (s', b) ->
  sched_inv s' /\ progs_valid s' /\ live_except B s' /\ step_frame s s'.
Proof.
  induction p as [|o rest IH]; intros s s' b B Hv Hi Hp Hl HB H; cbn in H.
  - inversion H; subst. split; [assumption|]. split; [assumption|]. split; [assumption|apply step_frame_refl].
  - inversion Hv as [|? ? Hv1 Hv2]; subst.
    destruct (cb_step s o []) as [s1 r1] eqn:E.
    destruct (cb_step_inv s o [] s1 r1 B Hv1 Hi Hl HB E) as (Hi1 & Hl1 & Hf1).
    pose proof (cb_step_progs s o [] s1 r1 Hp (Forall_nil _) E) as Hp1.
    destruct r1 as [v|e].
    + destruct (IH s1 s' b B Hv2 Hi1 Hp1 Hl1) as (Hi2 & Hp2 & Hl2 & Hf2); [|exact H|].
      { intros id Hin. specialize (HB id Hin). pose proof (sf_next _ _ Hf1). lia. }
      split; [assumption|]. split; [assumption|]. split; [assumption|eapply step_frame_trans; eassumption].
    + inversion H; subst. split; [assumption|]. split; [assumption|]. split; assumption.
Qed.

(* ---- events do not matter for the invariants -------------------------------------------------------- *)
Lemma add_event_inv s e : sched_inv s -> sched_inv (add_event s e).
Proof. intros [a b c d f g]. constructor; assumption. Qed.
Lemma add_event_live B s e : live_except B s -> live_except B (add_event s e).
Proof. intros H. exact H. Qed.
Lemma add_event_progs s e : progs_valid s -> progs_valid (add_event s e).
Proof. intros H. exact H. Qed.
Lemma add_event_frame s e : step_frame s (add_event s e).
Proof. constructor; auto. Qed.

(* ---- Job._exec ------------------------------------------------------------------------------------------ *)
Lemma job_run_budget j b :
  has_attempts j = true -> 0 < c_max_attempts (j_cfg j) ->
  j_attempts (job_run j b) <= c_max_attempts (j_cfg (job_run j b)).
Proof.
  unfold has_attempts. cbn. destruct (j_mark j); [discriminate|].
  destruct (c_max_attempts (j_cfg j) =? 0) eqn:E; [lia|]. intros H _. lia.
Qed.

Record invoke_frame (s s' : sched) (id : nat) : Prop := {
  if_tz : s_tz s' = s_tz s;
  if_now : s_now s' = s_now s;
  if_max : s_max_exec s' = s_max_exec s;
  if_prio : s_prio s' = s_prio s;
  if_next : (s_next s <= s_next s')%nat;
  if_jobs : forall x, (x < s_next s)%nat -> x <> id -> get_job s' x = get_job s x;
  if_reg : forall x, (x < s_next s)%nat -> In x (s_reg s') -> In x (s_reg s);
  if_job : exists j b, get_job s id = Some j /\ get_job s' id = Some (job_run j b)
}.

Lemma upd_job_inv s id j j' :
  sched_inv s -> get_job s id = Some j -> job_ok j' -> j_tz j' = j_tz j ->
  (0 < c_max_attempts (j_cfg j') -> j_attempts j' <= c_max_attempts (j_cfg j')) ->
  sched_inv (upd_jobs s (update id j' (s_jobs s))) /\
  get_job (upd_jobs s (update id j' (s_jobs s))) id = Some j' /\
  (forall x, x <> id -> get_job (upd_jobs s (update id j' (s_jobs s))) x = get_job s x).
Proof.
  intros [Hb Hk Hrn Hrj Hjo Hbu] Hj Hok Htz Hbud.
  assert (Hsame : lookup id (update id j' (s_jobs s)) = Some j').
  { apply lookup_update_same. unfold get_job in Hj. congruence. }
  assert (Hother : forall x, x <> id -> lookup x (update id j' (s_jobs s)) = lookup x (s_jobs s)).
  { intros x Hx. apply lookup_update_other. congruence. }
  split; [|split; [exact Hsame|exact Hother]].
  constructor; unfold get_job in *; cbn.
  - rewrite update_keys. exact Hb.
  - rewrite update_keys. exact Hk.
  - exact Hrn.
  - intros x Hin. destruct (Nat.eq_dec x id) as [->|Hne]; [eauto|]. rewrite Hother by exact Hne. apply Hrj. exact Hin.
  - intros x jx Hx. destruct (Nat.eq_dec x id) as [->|Hne].
    + rewrite Hsame in Hx. inversion Hx; subst jx. split; [exact Hok|]. rewrite Htz. apply (Hjo id j Hj).
    + rewrite Hother in Hx by exact Hne. apply (Hjo x jx Hx).
  - intros x jx Hx. destruct (Nat.eq_dec x id) as [->|Hne].
    + rewrite Hsame in Hx. inversion Hx; subst jx. exact Hbud.
    + rewrite Hother in Hx by exact Hne. apply (Hbu x jx Hx).
Qed.

Lemma invoke_inv s id B :
  sched_inv s -> progs_valid s -> live_except B s -> (forall x, In x B -> (x < s_next s)%nat) ->
  In id B -> (exists j, get_job s id = Some j /\ has_attempts j = true) ->
  sched_inv (invoke s id) /\ progs_valid (invoke s id) /\ live_except B (invoke s id) /\
  invoke_frame s (invoke s id) id.
Proof.
  intros Hi Hp Hl HB Hin (j & Hj & Hlive). unfold invoke. rewrite Hj.
  set (s0 := add_event s _).
  destruct (run_prog s0 (match lookup id (s_progs s) with Some p => p | None => [] end)) as [s1 praised] eqn:Erun.
  assert (Hpv : Forall cbop_valid (match lookup id (s_progs s) with Some p => p | None => [] end)).
  { destruct (lookup id (s_progs s)) eqn:E; [apply (Hp id); exact E|constructor]. }
  destruct (run_prog_inv _ s0 s1 praised B Hpv (add_event_inv _ _ Hi) (add_event_progs _ _ Hp)
              (add_event_live _ _ _ Hl) HB Erun) as (Hi1 & Hp1 & Hl1 & Hf1).
  assert (Hidlt : (id < s_next s)%nat) by (apply HB; exact Hin).
  assert (Hj1 : get_job s1 id = Some j) by (rewrite (sf_jobs _ _ Hf1) by exact Hidlt; exact Hj).
  rewrite Hj1.
  set (raises := praised || outcome_of j).
  assert (Hok1 : job_ok (job_run j raises)) by (apply job_run_ok; exact (proj1 (si_jobs_ok _ Hi1 id j Hj1))).
  assert (Htz1 : j_tz (job_run j raises) = j_tz j) by reflexivity.
  pose proof (job_run_budget j raises Hlive) as Hbud1.
  destruct (upd_job_inv s1 id j (job_run j raises) Hi1 Hj1 Hok1 Htz1 Hbud1) as (Hi2 & Hg2 & Ho2).
  set (s2 := upd_jobs s1 _) in *.
  assert (Hl2 : live_except B s2).
  { intros x jx Hx HnB Hjx. assert (x <> id) by (intros ->; contradiction).
    rewrite Ho2 in Hjx by assumption. apply (Hl1 x jx); assumption. }
  assert (Hfr : invoke_frame s s2 id).
  { destruct Hf1 as [a1 a2 a3 a4 a5 a6 a7]. constructor; try assumption.
    - intros x Hx Hne. rewrite Ho2 by exact Hne. apply a6. exact Hx.
    - exists j, raises. split; [exact Hj|exact Hg2]. }
  destruct raises.
  - split; [apply add_event_inv; exact Hi2|]. split; [exact Hp1|]. split; [exact Hl2|].
    destruct Hfr as [a1 a2 a3 a4 a5 a6 a7 a8]. constructor; assumption.
  - split; [exact Hi2|]. split; [exact Hp1|]. split; [exact Hl2|exact Hfr].
Qed.

(* ---- running a whole batch -------------------------------------------------------------------------------- *)
Record batch_frame (s s' : sched) (batch : list nat) : Prop := {
  bf_tz : s_tz s' = s_tz s;
  bf_now : s_now s' = s_now s;
  bf_max : s_max_exec s' = s_max_exec s;
  bf_prio : s_prio s' = s_prio s;
  bf_next : (s_next s <= s_next s')%nat;
  bf_jobs : forall x, (x < s_next s)%nat -> ~ In x batch -> get_job s' x = get_job s x;
  bf_reg : forall x, (x < s_next s)%nat -> In x (s_reg s') -> In x (s_reg s);
  bf_ran : forall x, In x batch -> exists j b, get_job s x = Some j /\ get_job s' x = Some (job_run j b)
}.

Lemma invoke_all_inv batch : forall s B,
  sched_inv s -> progs_valid s -> live_except B s -> (forall x, In x B -> (x < s_next s)%nat) ->
  NoDup batch -> (forall x, In x batch -> In x B) ->
  (forall x, In x batch -> exists j, get_job s x = Some j /\ has_attempts j = true) ->
  sched_inv (invoke_all s batch) /\ progs_valid (invoke_all s batch) /\
  live_except B (invoke_all s batch) /\ batch_frame s (invoke_all s batch) batch.
Proof.
  induction batch as [|id rest IH]; intros s B Hi Hp Hl HB Hnd Hsub Hlive; cbn [invoke_all].
  - split; [exact Hi|]. split; [exact Hp|]. split; [exact Hl|]. constructor; auto. intros x [].
  - inversion Hnd as [|? ? Hnotin Hnd']; subst.
    destruct (invoke_inv s id B Hi Hp Hl HB (Hsub id (or_introl eq_refl)) (Hlive id (or_introl eq_refl)))
      as (Hi1 & Hp1 & Hl1 & Hf1).
    set (s1 := invoke s id) in *.
    destruct Hf1 as [a1 a2 a3 a4 a5 a6 a7 a8].
    destruct (IH s1 B Hi1 Hp1 Hl1) as (Hi2 & Hp2 & Hl2 & Hf2).
    { intros x Hx. specialize (HB x Hx). lia. }
    { exact Hnd'. }
    { intros x Hx. apply Hsub. right. exact Hx. }
    { intros x Hx. destruct (Hlive x (or_intror Hx)) as (j & Hj & Hh). exists j. split; [|exact Hh].
      rewrite a6; [exact Hj|apply HB; apply Hsub; right; exact Hx|intros ->; contradiction]. }
    split; [exact Hi2|]. split; [exact Hp2|]. split; [exact Hl2|].
    destruct Hf2 as [b1 b2 b3 b4 b5 b6 b7 b8]. constructor; try congruence; try lia.
    + intros x Hx Hnin. cbn in Hnin. rewrite b6; [apply a6; [exact Hx|intros Heq; apply Hnin; left; congruence]|lia|intros Hr; apply Hnin; right; exact Hr].
    + intros x Hx Hin. apply a7; [exact Hx|]. apply b7; [lia|exact Hin].
    + intros x [<-|Hx].
      * destruct a8 as (j & b & Hj & Hj'). exists j, b. split; [exact Hj|].
        rewrite b6; [exact Hj'|specialize (HB id (Hsub id (or_introl eq_refl))); lia|exact Hnotin].
      * destruct (b8 x Hx) as (j & b & Hj & Hj'). exists j, b. split; [|exact Hj'].
        rewrite <- Hj. symmetry. apply a6; [apply HB; apply Hsub; right; exact Hx|intros ->; contradiction].
Qed.

Lemma not_in_cons' (x id : nat) rest : ~ In x (id :: rest) -> x <> id /\ ~ In x rest.
Proof. cbn. intros H. split; [intros ->; apply H; left; reflexivity|intros Hr; apply H; right; exact Hr]. Qed.

(* ---- the post-run loop -------------------------------------------------------------------------------------- *)
Lemma aware_job_datetime j : job_ok j -> aware (job_datetime j) = tz_aware (j_tz j).
Proof.
  intros Hok. unfold job_datetime. destruct (negb _ && _); [apply Hok|].
  pose proof (pending_index_lt _ _ (jok_pending j Hok)) as Hlt.
  pose proof (nth_wf _ _ _ _ _ (jok_timers j Hok) Hlt) as (_ & _ & H & _). exact H.
Qed.

Lemma resched_all_inv batch : forall s ref,
  sched_inv s -> live_except batch s -> aware ref = tz_aware (s_tz s) ->
  exists s', resched_all s batch ref = (s', Ok tt) /\ sched_inv s' /\ live_inv s' /\
             s_tz s' = s_tz s /\ s_now s' = s_now s /\ s_next s' = s_next s /\ s_progs s' = s_progs s /\
             s_max_exec s' = s_max_exec s /\ s_prio s' = s_prio s /\
             (forall x, ~ In x batch -> get_job s' x = get_job s x) /\
             (forall x, In x (s_reg s') -> In x (s_reg s)) /\
             (forall x, ~ In x batch -> In x (s_reg s) -> In x (s_reg s')).
Proof.
  induction batch as [|id rest IH]; intros s ref Hi Hl Hr; cbn [resched_all].
  - exists s. split; [reflexivity|]. split; [exact Hi|]. split; [exact Hl|]. repeat split; auto.
  - destruct (get_job s id) as [j|] eqn:Hj.
    + destruct (si_jobs_ok _ Hi id j Hj) as [Hok Htz].
      destruct (job_calc_ok j ref Hok) as (j' & Hj' & Hok' & Hcfg & Htz' & _ & Hat & _); [rewrite Htz; exact Hr|].
      rewrite Hj'.
      destruct (upd_job_inv s id j j' Hi Hj Hok' Htz') as (Hi1 & Hg1 & Ho1).
      { rewrite Hcfg, Hat. apply (si_budget _ Hi id j Hj). }
      set (s1 := upd_jobs s (update id j' (s_jobs s))) in *.
      set (s2 := if has_attempts j' then s1 else upd_reg s1 (remove_id id (s_reg s1))).
      assert (Hsub2 : forall x, In x (s_reg s2) -> In x (s_reg s)).
      { subst s2. destruct (has_attempts j'); cbn; [auto|]. intros x Hx. apply remove_id_In in Hx. tauto. }
      assert (Hi2 : sched_inv s2).
      { subst s2. destruct (has_attempts j'); [exact Hi1|].
        apply sched_inv_shrink; [exact Hi1|apply NoDup_filter; apply Hi1|]. intros x Hx. apply remove_id_In in Hx. tauto. }
      assert (Hg2 : forall x, get_job s2 x = get_job s1 x) by (intros x; subst s2; destruct (has_attempts j'); reflexivity).
      assert (Hl2 : live_except rest s2).
      { intros x jx Hx Hnin Hjx. rewrite Hg2 in Hjx. destruct (Nat.eq_dec x id) as [->|Hne].
        - rewrite Hg1 in Hjx. inversion Hjx; subst jx. subst s2. destruct (has_attempts j') eqn:E; [reflexivity|].
          cbn in Hx. apply remove_id_In in Hx. tauto.
        - rewrite Ho1 in Hjx by exact Hne. apply (Hl x jx); [apply Hsub2; exact Hx| |exact Hjx].
          cbn. intros [Heq|Hin]; [congruence|contradiction]. }
      destruct (IH s2 ref Hi2 Hl2) as (s' & Hs' & Hi' & Hl' & H1 & H2 & H3 & H4 & H5 & H6 & H7 & H8 & H9).
      { subst s2. destruct (has_attempts j'); exact Hr. }
      exists s'. split; [exact Hs'|]. split; [exact Hi'|]. split; [exact Hl'|].
      assert (Hf : s_tz s2 = s_tz s /\ s_now s2 = s_now s /\ s_next s2 = s_next s /\ s_progs s2 = s_progs s /\
                   s_max_exec s2 = s_max_exec s /\ s_prio s2 = s_prio s)
        by (subst s2; destruct (has_attempts j'); repeat split; reflexivity).
      destruct Hf as (f1 & f2 & f3 & f4 & f5 & f6).
      repeat split; try congruence.
      * intros x Hnin. apply not_in_cons' in Hnin as [Hne Hnr]. rewrite H7 by exact Hnr. rewrite Hg2. apply Ho1. exact Hne.
      * intros x Hx. apply Hsub2. apply H8. exact Hx.
      * intros x Hnin Hx. apply not_in_cons' in Hnin as [Hne Hnr]. apply H9; [exact Hnr|]. subst s2. destruct (has_attempts j'); cbn; [exact Hx|].
        apply remove_id_In. split; [exact Hx|exact Hne].
    + assert (Hl2 : live_except rest s).
      { intros x jx Hx Hnin Hjx. apply (Hl x jx); try assumption. cbn. intros [Heq|Hin]; [subst; congruence|contradiction]. }
      destruct (IH s ref Hi Hl2 Hr) as (s' & Hs' & Hi' & Hl' & H1 & H2 & H3 & H4 & H5 & H6 & H7 & H8 & H9).
      exists s'. split; [exact Hs'|]. split; [exact Hi'|]. split; [exact Hl'|].
      repeat split; try assumption.
      * intros x Hnin. apply H7. apply not_in_cons' in Hnin as [Hne Hnr]. exact Hnr.
      * intros x Hnin Hx. apply not_in_cons' in Hnin as [Hne Hnr]. apply H9; [exact Hnr|exact Hx].
Qed.

(* ---- sorting and selecting ------------------------------------------------------------------------------------ *)
From Coq Require Import Sorting.Permutation.

Section SortFacts.
  Context {A : Type} (key : A -> prio).
  Lemma ins_desc_perm x l : Permutation (x :: l) (ins_desc key x l).
  Proof.
    induction l as [|y t IH]; cbn; [reflexivity|].
    destruct (qle (key x) (key y) && negb (qle (key y) (key x))); [|reflexivity].
    rewrite perm_swap. constructor. exact IH.
  Qed.
  Lemma sort_desc_perm l : Permutation l (sort_desc key l).
  Proof.
    induction l as [|x t IH]; cbn; [constructor|].
    etransitivity; [|apply ins_desc_perm]. constructor. exact IH.
  Qed.
End SortFacts.

Lemma take_while_idx_incl {A} k (l : list A) x : In x (take_while_idx k l) -> In x l.
Proof.
  revert k. induction l as [|y t IH]; cbn; intros k H; [exact H|].
  destruct (0 <? k); [|contradiction]. destruct H as [H|H]; [left; exact H|right; apply (IH _ H)].
Qed.
Lemma take_while_idx_firstn {A} k (l : list A) : take_while_idx k l = firstn (Z.to_nat k) l.
Proof.
  revert k. induction l as [|y t IH]; intros k; cbn.
  - destruct (Z.to_nat k); reflexivity.
  - destruct (0 <? k) eqn:E.
    + replace (Z.to_nat k) with (S (Z.to_nat (k - 1))) by lia. cbn. f_equal. apply IH.
    + replace (Z.to_nat k) with O by lia. reflexivity.
Qed.
Lemma firstn_subset {A} n (l : list A) x : In x (firstn n l) -> In x l.
Proof.
  revert n. induction l as [|y t IH]; intros n H; destruct n; cbn in *; try contradiction.
  destruct H as [H|H]; [left; exact H|right; apply (IH _ H)].
Qed.
Lemma NoDup_map_firstn {A B} (f : A -> B) n (l : list A) : NoDup (map f l) -> NoDup (map f (firstn n l)).
Proof.
  revert n. induction l as [|y t IH]; intros n H; destruct n; cbn; try constructor.
  - inversion H as [|? ? Hy Ht]; subst. intros Hin. apply Hy. apply in_map_iff in Hin as (z & Hz & Hin).
    apply in_map_iff. exists z. split; [exact Hz|]. apply (firstn_subset n t). exact Hin.
  - inversion H; subst. apply IH. assumption.
Qed.
Lemma NoDup_map_filter {A B} (f : A -> B) g (l : list A) : NoDup (map f l) -> NoDup (map f (filter g l)).
Proof.
  induction l as [|y t IH]; cbn; intros H; [constructor|]. inversion H as [|? ? Hy Ht]; subst.
  destruct (g y); cbn; [|apply IH; exact Ht]. constructor; [|apply IH; exact Ht].
  intros Hin. apply Hy. apply in_map_iff in Hin as (z & Hz & Hin). apply filter_In in Hin as [Hin _].
  apply in_map_iff. eauto.
Qed.

Lemma select_batch_sub mx (prs : list (nat * prio)) :
  NoDup (map fst prs) ->
  NoDup (select_batch mx (sort_desc snd prs)) /\
  (forall x, In x (select_batch mx (sort_desc snd prs)) -> In x (map fst prs)).
Proof.
  intros Hnd. unfold select_batch.
  assert (Hs : NoDup (map fst (sort_desc snd prs))).
  { eapply Permutation_NoDup; [apply Permutation_map; apply sort_desc_perm|exact Hnd]. }
  assert (Hin : forall x, In x (map fst (sort_desc snd prs)) -> In x (map fst prs)).
  { intros x Hx. eapply Permutation_in; [apply Permutation_sym; apply Permutation_map; apply sort_desc_perm|exact Hx]. }
  destruct (mx =? 0).
  - split; [apply NoDup_map_filter; exact Hs|].
    intros x Hx. apply Hin. apply in_map_iff in Hx as (z & Hz & Hx). apply filter_In in Hx as [Hx _]. apply in_map_iff. eauto.
  - rewrite take_while_idx_firstn. split; [apply NoDup_map_filter; apply NoDup_map_firstn; exact Hs|].
    intros x Hx. apply Hin. apply in_map_iff in Hx as (z & Hz & Hx). apply filter_In in Hx as [Hx _].
    apply in_map_iff. exists z. split; [exact Hz|]. apply (firstn_subset _ _ _ Hx).
Qed.

Lemma collect_prios_ok s table order ref n :
  sched_inv s -> (forall x, In x order -> exists j, get_job s x = Some j) -> aware ref = tz_aware (s_tz s) ->
  exists prs evs, collect_prios s table order ref n = Ok (prs, evs) /\ map fst prs = order /\
                  length evs = length order.
Proof.
  intros Hi Hj Hr. induction order as [|id rest IH]; cbn; [exists [], []; auto|].
  destruct (Hj id (or_introl eq_refl)) as (j & Hjid). rewrite Hjid.
  destruct (si_jobs_ok _ Hi id j Hjid) as [Hok Htz].
  unfold job_timedelta. rewrite dt_sub_same by (rewrite (aware_job_datetime j Hok), Htz; symmetry; exact Hr).
  cbn [bind].
  destruct IH as (prs & evs & Hc & Hm & Hl); [intros x Hx; apply Hj; right; exact Hx|].
  rewrite Hc. cbn [bind fst snd]. eexists. eexists. split; [reflexivity|]. cbn. split; congruence.
Qed.

Lemma is_perm_of_spec order reg :
  NoDup reg -> is_perm_of order reg = true ->
  NoDup order /\ (forall x, In x order <-> In x reg).
Proof.
  intros Hnd H. unfold is_perm_of in H. apply andb_prop in H as [H H3]. apply andb_prop in H as [H1 H2].
  apply Nat.eqb_eq in H1. rewrite forallb_forall in H2, H3.
  assert (Ha : forall x, In x order -> In x reg) by (intros x Hx; apply nmem_In; apply H2; exact Hx).
  assert (Hb : forall x, In x reg -> In x order) by (intros x Hx; apply nmem_In; apply H3; exact Hx).
  split; [|intros x; split; auto].
  apply (NoDup_incl_NoDup Hnd); [lia|exact Hb].
Qed.

Lemma aware_dt_now' now tz : aware (dt_now now tz) = tz_aware tz.
Proof. destruct tz; reflexivity. Qed.

(* ---- exec_jobs ---------------------------------------------------------------------------------------------------- *)
Lemma exec_batch_inv s batch ref :
  sched_inv s -> progs_valid s -> live_inv s -> aware ref = tz_aware (s_tz s) ->
  NoDup batch -> (forall x, In x batch -> In x (s_reg s)) ->
  exists s', exec_batch s batch ref = (s', Ok (VInt (Z.of_nat (length batch)))) /\
             sched_inv s' /\ progs_valid s' /\ live_inv s' /\
             s_tz s' = s_tz s /\ s_now s' = s_now s /\ s_max_exec s' = s_max_exec s /\ s_prio s' = s_prio s /\
             (s_next s <= s_next s')%nat /\
             (forall x, (x < s_next s)%nat -> In x (s_reg s') -> In x (s_reg s)) /\
             (forall x, (x < s_next s)%nat -> ~ In x batch -> get_job s' x = get_job s x).
Proof.
  intros Hi Hp Hl Hr Hnd Hsub. unfold exec_batch.
  assert (HB : forall x, In x batch -> (x < s_next s)%nat).
  { intros x Hx. destruct (si_reg_jobs _ Hi x (Hsub x Hx)) as (j & Hj). apply (si_bound _ Hi).
    unfold get_job in Hj. apply lookup_in_keys in Hj. exact Hj. }
  assert (Hlb : live_except batch s) by (intros x j Hx _ Hj; apply (Hl x j Hx); [intros []|exact Hj]).
  assert (Hlive : forall x, In x batch -> exists j, get_job s x = Some j /\ has_attempts j = true).
  { intros x Hx. destruct (si_reg_jobs _ Hi x (Hsub x Hx)) as (j & Hj). exists j. split; [exact Hj|].
    apply (Hl x j (Hsub x Hx)); [intros []|exact Hj]. }
  destruct (invoke_all_inv batch s batch Hi Hp Hlb HB Hnd (fun x H => H) Hlive) as (Hi1 & Hp1 & Hl1 & Hf1).
  destruct Hf1 as [a1 a2 a3 a4 a5 a6 a7 a8].
  destruct (resched_all_inv batch (invoke_all s batch) ref Hi1 Hl1) as (s' & Hs' & Hi' & Hl' & H1 & H2 & H3 & H4 & H5 & H6 & H7 & H8 & H9).
  { rewrite a1. exact Hr. }
  rewrite Hs'. exists s'. split; [reflexivity|]. split; [exact Hi'|]. split.
  { intros id p Hlk. rewrite H4 in Hlk. apply (Hp1 id p Hlk). }
  split; [exact Hl'|]. repeat split; try congruence; try lia.
  - intros x Hx Hin. apply a7; [exact Hx|]. apply H8. exact Hin.
  - intros x Hx Hnin. rewrite H7 by exact Hnin. apply a6; assumption.
Qed.

Theorem exec_jobs_inv s force order table :
  sched_inv s -> progs_valid s -> live_inv s -> is_perm_of order (s_reg s) = true ->
  exists s' n, exec_jobs s force order table = (s', Ok (VInt n)) /\
               sched_inv s' /\ progs_valid s' /\ live_inv s' /\
               s_tz s' = s_tz s /\ s_now s' = s_now s /\ s_max_exec s' = s_max_exec s /\ s_prio s' = s_prio s /\
               (s_next s <= s_next s')%nat /\
               (forall x, (x < s_next s)%nat -> In x (s_reg s') -> In x (s_reg s)).
Proof.
  intros Hi Hp Hl Hperm. unfold exec_jobs. rewrite Hperm. cbn [negb].
  destruct (is_perm_of_spec order (s_reg s) (si_reg_nodup _ Hi) Hperm) as [Hnd Hiff].
  set (ref := dt_now (s_now s) (s_tz s)).
  assert (Hr : aware ref = tz_aware (s_tz s)) by apply aware_dt_now'.
  destruct force.
  - destruct (exec_batch_inv s order ref Hi Hp Hl Hr Hnd (fun x H => proj1 (Hiff x) H))
      as (s' & Hs' & Hi' & Hp' & Hl' & H1 & H2 & H3 & H4 & H5 & H6 & _).
    exists s', (Z.of_nat (length order)). split; [exact Hs'|].
    exact (conj Hi' (conj Hp' (conj Hl' (conj H1 (conj H2 (conj H3 (conj H4 (conj H5 H6)))))))).
  - destruct (collect_prios_ok s table order ref (Z.of_nat (length (s_reg s))) Hi) as (prs & evs & Hc & Hm & _).
    { intros x Hx. apply (si_reg_jobs _ Hi). apply Hiff. exact Hx. }
    { exact Hr. }
    rewrite Hc.
    set (s1 := mkSched _ _ _ _ _ _ _ _ _).
    assert (Hi1 : sched_inv s1) by (destruct Hi; constructor; assumption).
    destruct (select_batch_sub (s_max_exec s) prs) as [Hbn Hbs]; [rewrite Hm; exact Hnd|].
    destruct (exec_batch_inv s1 (select_batch (s_max_exec s) (sort_desc snd prs)) ref Hi1 Hp Hl Hr Hbn)
      as (s' & Hs' & Hi' & Hp' & Hl' & H1 & H2 & H3 & H4 & H5 & H6 & _).
    { intros x Hx. apply Hiff. rewrite <- Hm. apply Hbs. exact Hx. }
    exists s', (Z.of_nat (length (select_batch (s_max_exec s) (sort_desc snd prs)))).
    split; [exact Hs'|].
    exact (conj Hi' (conj Hp' (conj Hl' (conj H1 (conj H2 (conj H3 (conj H4 (conj H5 H6)))))))).
Qed.

(* ---- every top-level operation -------------------------------------------------------------------------------- *)
Definition op_valid (o : op) : Prop :=
  match o with
  | ONow _ => True
  | OCall c prog => cbop_valid c /\ Forall cbop_valid prog
  | OExec _ _ _ => True
  end.

Record good (s : sched) : Prop := {
  g_inv : sched_inv s;
  g_progs : progs_valid s;
  g_live : live_inv s
}.

Lemma clear_events_good s : good s -> good (clear_events s).
Proof. intros [[a b c d e f] g h]. constructor; [constructor; assumption|exact g|exact h]. Qed.

Lemma once_cfg_nonempty ot c : c_timing (once_cfg ot c) <> [].
Proof. destruct ot; cbn; discriminate. Qed.

Lemma schedule_err s c prog s' e :
  cfg_valid c -> c_timing c <> [] -> schedule s c prog = (s', Err e) -> e = SchedulerError.
Proof.
  intros Hv Hne H. unfold schedule in H. destruct (job_create c (s_tz s) (s_now s)) eqn:Ec; inversion H; subst.
  eapply job_create_err; eassumption.
Qed.

Theorem step_good s o s' r :
  good s -> op_valid o -> step s o = (s', r) ->
  good s' /\ s_tz s' = s_tz s /\ (s_next s <= s_next s')%nat /\
  (forall x, (x < s_next s)%nat -> In x (s_reg s') -> In x (s_reg s)) /\
  (* an operation never fails with anything but SchedulerError, except a malformed iteration
     order handed to the model itself *)
  (forall e, r = Err e -> e = SchedulerError \/
             (exists f ord tb, o = OExec f ord tb /\ is_perm_of ord (s_reg s) = false)).
Proof.
  intros Hg Hv H. unfold step in H. apply clear_events_good in Hg.
  set (s0 := clear_events s) in *. destruct Hg as [Hi Hp Hl].
  destruct o as [t|c prog|force order table].
  - inversion H; subst. split; [constructor|].
    + destruct Hi; constructor; assumption.
    + exact Hp.
    + exact Hl.
    + split; [reflexivity|]. split; [apply Nat.le_refl|]. split; [auto|]. intros e He. discriminate.
  - destruct Hv as [Hv1 Hv2].
    destruct (cb_step_inv s0 c prog s' r [] Hv1 Hi Hl (fun x (H : In x []) => match H with end) H) as (Hi' & Hl' & Hf).
    pose proof (cb_step_progs s0 c prog s' r Hp Hv2 H) as Hp'.
    split; [constructor; assumption|]. destruct Hf as [a1 a2 a3 a4 a5 a6 a7].
    split; [exact a1|]. split; [exact a5|]. split; [exact a7|].
    intros e He. left. subst r.
    destruct c as [c|ot c|id|tags any|tags any|]; cbn in H.
    + destruct Hv1 as [Hc1 Hc2]. eapply schedule_err; eassumption.
    + eapply schedule_err; [apply once_cfg_valid; exact Hv1|apply once_cfg_nonempty|exact H].
    + destruct (nmem id _); inversion H; reflexivity.
    + destruct tags as [[|? ?]|]; inversion H.
    + destruct tags as [[|? ?]|]; inversion H.
    + inversion H.
  - destruct (is_perm_of order (s_reg s0)) eqn:Eperm.
    + destruct (exec_jobs_inv s0 force order table Hi Hp Hl Eperm)
        as (s1 & n & Hs1 & Hi' & Hp' & Hl' & H1 & H2 & H3 & H4 & H5 & H6).
      cbn in H. rewrite Hs1 in H. inversion H; subst.
      split; [constructor; assumption|]. split; [exact H1|]. split; [exact H5|]. split; [exact H6|].
      intros e He. discriminate.
    + cbn in H. unfold exec_jobs in H. rewrite Eperm in H. cbn in H. inversion H; subst.
      split; [constructor; assumption|]. split; [reflexivity|]. split; [apply Nat.le_refl|]. split; [auto|].
      intros e He. right. exists force, order, table. split; [reflexivity|exact Eperm].
Qed.

(* ---- construction ----------------------------------------------------------------------------------------------- *)
Lemma create_ctor_jobs_ok l : forall now id js,
  Forall (fun ct => cfg_valid (fst ct)) l -> create_ctor_jobs l now id = Ok js ->
  map fst js = seq id (length l) /\
  Forall2 (fun ct ij => created (fst ct) (snd ct) now (snd ij)) l js.
Proof.
  induction l as [|[c tz] r IH]; intros now id js Hv H; cbn in H.
  - inversion H; subst. split; [reflexivity|constructor].
  - inversion Hv as [|? ? Hv1 Hv2]; subst. apply bind_ok in H as (j & Hj & H). apply bind_ok in H as (rest & Hrest & H).
    inversion H; subst. destruct (IH now (S id) rest Hv2 Hrest) as [Hk Hf]. split; [cbn; f_equal; exact Hk|].
    constructor; [|exact Hf]. cbn. apply job_create_ok; assumption.
Qed.

Theorem sched_init_good tz mx pk ctor now s :
  Forall (fun ct => cfg_valid (fst ct)) ctor -> sched_init tz mx pk ctor now = Ok s -> good s.
Proof.
  intros Hv H. unfold sched_init in H. apply bind_ok in H as (js & Hjs & H).
  destruct (negb (forallb (fun ij => tz_eqb (j_tz (snd ij)) tz) js)) eqn:Etz; [discriminate|].
  apply negb_false_true in Etz. rewrite forallb_forall in Etz. inversion H; subst; clear H.
  destruct (create_ctor_jobs_ok ctor now O js Hv Hjs) as [Hk Hf].
  assert (Hcr : forall id j, lookup id js = Some j -> job_ok j /\ j_tz j = tz /\ j_attempts j = 0).
  { intros id j Hl. assert (Hin : exists ct, In ct ctor /\ created (fst ct) (snd ct) now j).
    { clear -Hf Hl. induction Hf as [|ct ij l l' Hc Hr IH]; cbn in Hl; [discriminate|]. destruct ij as [k v].
      cbn in *. destruct (Nat.eqb k id); [inversion Hl; subst; exists ct; split; [left; reflexivity|exact Hc]|].
      destruct (IH Hl) as (ct' & Hin & Hc'). exists ct'. split; [right; exact Hin|exact Hc']. }
    destruct Hin as (ct & _ & Hc). split; [apply Hc|]. split; [|apply Hc].
    assert (Hinj : In (id, j) js).
    { clear -Hl. induction js as [|[k v] t IH]; cbn in Hl; [discriminate|]. destruct (Nat.eqb k id) eqn:E.
      - apply Nat.eqb_eq in E. inversion Hl; subst. left. reflexivity.
      - right. apply IH. exact Hl. }
    specialize (Etz _ Hinj). cbn in Etz. unfold tz_eqb in Etz. destruct (j_tz j), tz; try discriminate; [|reflexivity].
    f_equal. lia. }
  constructor.
  - constructor; unfold get_job; cbn.
    + intros id Hin. rewrite Hk in Hin. apply in_seq in Hin. rewrite <- (map_length fst js), Hk, seq_length. lia.
    + rewrite Hk. apply seq_NoDup.
    + apply NoDup_map_filter. rewrite Hk. apply seq_NoDup.
    + intros id Hin. apply in_map_iff in Hin as ([k v] & Heq & Hin). apply filter_In in Hin as [Hin _]. cbn in Heq. subst k.
      destruct (lookup id js) eqn:E; [eauto|]. exfalso.
      assert (Hk' : In id (map fst js)) by (apply in_map_iff; exists (id, v); auto).
      clear -E Hk'. induction js as [|[k w] t IH]; cbn in *; [contradiction|]. destruct (Nat.eqb k id) eqn:E2; [discriminate|].
      destruct Hk' as [Heq|Hk']; [subst; rewrite Nat.eqb_refl in E2; discriminate|auto].
    + intros id j Hl. destruct (Hcr id j Hl) as (H1 & H2 & _). split; assumption.
    + intros id j Hl Hm. destruct (Hcr id j Hl) as (_ & _ & H3). lia.
  - intros id p Hl. cbn in Hl. clear -Hl. induction js as [|[k v] t IH]; cbn in Hl; [discriminate|].
    destruct (Nat.eqb k id); [inversion Hl; constructor|auto].
  - intros id j Hin _ Hj. unfold get_job in Hj. cbn in *.
    apply in_map_iff in Hin as ([k v] & Heq & Hin). apply filter_In in Hin as [Hin Hh]. cbn in *. subst k.
    assert (Hv' : lookup id js = Some v).
    { assert (Hnd : NoDup (map fst js)) by (rewrite Hk; apply seq_NoDup).
      clear -Hin Hnd. induction js as [|[k w] t IH]; cbn in *; [contradiction|]. inversion Hnd as [|? ? Hn1 Hn2]; subst.
      destruct Hin as [Heq|Hin].
      - inversion Heq; subst. rewrite Nat.eqb_refl. reflexivity.
      - destruct (Nat.eqb k id) eqn:E; [|auto]. apply Nat.eqb_eq in E. subst k. exfalso. apply Hn1.
        apply in_map_iff. exists (id, v). auto. }
    congruence.
Qed.
