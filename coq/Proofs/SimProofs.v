(* C13, second clause, at the job level (single and batched clock-time jobs, with or without skip_missing):
   two jobs that denote the same schedule - entry by entry the same recurring instants, the same reference,
   the same stop instant - written in different UTC offsets and living on schedulers with different timezones,
   have the same due instant after every execution of any history whose polling instants coincide. *)
From Coq Require Import ZArith List Bool Lia ZifyBool.
From Sv Require Import PyTime Timer Job Occur TimerProofs JobProofs EquivProofs BatchProofs.
Import ListNotations.
Open Scope Z_scope.

Definition tm_sim (a b : timer) : Prop :=
  timer_ok a /\ timer_ok b /\ jt_type a = jt_type b /\ jt_skip a = jt_skip b /\
  same_occ (jt_type a) (jt_timing a) (jt_timing b) /\ utc (jt_next a) = utc (jt_next b).

Lemma tm_sim_calc a b r1 r2 :
  tm_sim a b -> utc r1 = utc r2 ->
  aware r1 = entry_aware' (jt_timing a) -> aware r2 = entry_aware' (jt_timing b) ->
  exists a' b', timer_calc a (Some r1) = Ok a' /\ timer_calc b (Some r2) = Ok b' /\ tm_sim a' b'.
Proof.
  intros (Hok1 & Hok2 & Hty & Hsk & Heq & Hn) Hr Ha1 Ha2.
  destruct (jt_skip a) eqn:Es.
  - destruct (timer_skip_exact a r1 Hok1 Es Ha1) as (t1 & H1 & Ho1 & T1 & G1 & S1 & A1 & B1).
    assert (Es2 : jt_skip b = true) by congruence.
    destruct (timer_skip_exact b r2 Hok2 Es2 Ha2) as (t2 & H2 & Ho2 & T2 & G2 & S2 & A2 & B2).
    exists t1, t2. split; [exact H1|]. split; [exact H2|].
    split; [exact Ho1|]. split; [exact Ho2|]. split; [congruence|]. split; [congruence|].
    split; [rewrite T1, G1, G2; exact Heq|].
    rewrite <- Hty, <- Hn, <- Hr in A2, B2.
    destruct (Z.le_gt_cases (utc r1) (utc (jt_next a) + period_of (jt_type a))) as [Hc|Hc].
    + rewrite (A1 Hc), (A2 Hc). reflexivity.
    + eapply is_next_unique; [apply (B1 Hc)|].
      apply (is_next_equiv (occ (jt_type a) (jt_timing b))); [intros y; symmetry; apply Heq|apply (B2 Hc)].
  - destruct (timer_advance a (Some r1) Hok1 Es) as (t1 & H1 & Ho1 & T1 & G1 & S1 & A1).
    assert (Es2 : jt_skip b = false) by congruence.
    destruct (timer_advance b (Some r2) Hok2 Es2) as (t2 & H2 & Ho2 & T2 & G2 & S2 & A2).
    exists t1, t2. split; [exact H1|]. split; [exact H2|].
    split; [exact Ho1|]. split; [exact Ho2|]. split; [congruence|]. split; [congruence|].
    split; [rewrite T1, G1, G2; exact Heq|]. rewrite A1, A2, Hn, Hty. reflexivity.
Qed.

Definition stop_sim (a b : option datetime) : Prop :=
  match a, b with None, None => True | Some x, Some y => utc x = utc y | _, _ => False end.

Record job_sim (j1 j2 : job) : Prop := {
  js_ok1 : job_ok j1; js_ok2 : job_ok j2;
  js_type : c_type (j_cfg j1) = c_type (j_cfg j2); js_clock : c_type (j_cfg j1) <> CYCLIC;
  js_skip : c_skip (j_cfg j1) = c_skip (j_cfg j2); js_delay : c_delay (j_cfg j1) = c_delay (j_cfg j2);
  js_max : c_max_attempts (j_cfg j1) = c_max_attempts (j_cfg j2);
  js_att : j_attempts j1 = j_attempts j2; js_mark : j_mark j1 = j_mark j2;
  js_start : utc (j_start j1) = utc (j_start j2);
  js_stop : stop_sim (c_stop (j_cfg j1)) (c_stop (j_cfg j2));
  js_timers : Forall2 tm_sim (j_timers j1) (j_timers j2)
}.

Lemma sim_nexts l1 l2 : Forall2 tm_sim l1 l2 -> map utc (map jt_next l1) = map utc (map jt_next l2).
Proof. induction 1 as [|a b t1 t2 Hab Ht IH]; [reflexivity|]. cbn. rewrite IH. f_equal. apply Hab. Qed.

Lemma sim_pending' j1 j2 :
  job_ok j1 -> job_ok j2 -> Forall2 tm_sim (j_timers j1) (j_timers j2) -> j_pending j1 = j_pending j2.
Proof.
  intros O1 O2 HF. pose proof (jok_pending _ O1) as P1. pose proof (jok_pending _ O2) as P2.
  pose proof (sim_nexts _ _ HF) as Hn.
  unfold pending_index in P1, P2.
  destruct (j_timers j1) as [|a t1] eqn:E1; [discriminate|]. destruct (j_timers j2) as [|b t2] eqn:E2; [discriminate|].
  destruct (all_same_awareness (map jt_next (a :: t1))); [|discriminate].
  destruct (all_same_awareness (map jt_next (b :: t2))); [|discriminate].
  injection P1 as Q1. injection P2 as Q2. rewrite <- Q1, <- Q2. cbn [map] in Hn. injection Hn as Hh Ht. rewrite Hh, Ht. reflexivity.
Qed.
Lemma sim_pending j1 j2 : job_sim j1 j2 -> j_pending j1 = j_pending j2.
Proof. intros H. apply sim_pending'; apply H. Qed.

Lemma Forall2_nth2 {A B} (R : A -> B -> Prop) l l' da db k :
  Forall2 R l l' -> (k < length l)%nat -> R (nth k l da) (nth k l' db).
Proof.
  intros H. revert k. induction H as [|x y t t' Hxy Ht IH]; intros k Hk; [cbn in Hk; lia|].
  destruct k; cbn; [exact Hxy|]. apply IH. cbn in Hk. lia.
Qed.
Lemma Forall2_replace {A B} (R : A -> B -> Prop) l l' k x y :
  Forall2 R l l' -> R x y -> Forall2 R (replace_nth k l x) (replace_nth k l' y).
Proof.
  intros H Hxy. revert k. induction H as [|a b t t' Hab Ht IH]; intros k; destruct k; cbn; constructor; auto.
Qed.

Lemma sim_due j1 j2 : job_sim j1 j2 -> utc (job_datetime j1) = utc (job_datetime j2).
Proof.
  intros H. unfold job_datetime. rewrite (js_delay _ _ H), (js_att _ _ H).
  destruct (negb (c_delay (j_cfg j2)) && (j_attempts j2 =? 0)); [apply (js_start _ _ H)|].
  unfold pending_timer. rewrite (sim_pending _ _ H).
  pose proof (pending_index_lt _ _ (jok_pending _ (js_ok1 _ _ H))) as Hlt. rewrite (sim_pending _ _ H) in Hlt.
  apply (Forall2_nth2 _ _ _ dummy_timer dummy_timer _ (js_timers _ _ H) Hlt).
Qed.
Lemma sim_has_attempts j1 j2 : job_sim j1 j2 -> has_attempts j1 = has_attempts j2.
Proof. intros H. unfold has_attempts. rewrite (js_mark _ _ H), (js_max _ _ H), (js_att _ _ H). reflexivity. Qed.

Lemma sim_pending_next j1 j2 :
  job_ok j1 -> job_ok j2 -> Forall2 tm_sim (j_timers j1) (j_timers j2) ->
  utc (jt_next (pending_timer j1)) = utc (jt_next (pending_timer j2)).
Proof.
  intros O1 O2 HF. unfold pending_timer. rewrite (sim_pending' j1 j2 O1 O2 HF).
  pose proof (pending_index_lt _ _ (jok_pending _ O1)) as Hlt. rewrite (sim_pending' j1 j2 O1 O2 HF) in Hlt.
  apply (Forall2_nth2 _ _ _ dummy_timer dummy_timer _ HF Hlt).
Qed.

Lemma Forall2_three {A B A' B'} (R : A -> B -> Prop) (P1 : A -> A' -> Prop) (P2 : B -> B' -> Prop) (R' : A' -> B' -> Prop)
      l1 l2 l1' l2' :
  Forall2 R l1 l2 -> Forall2 P1 l1 l1' -> Forall2 P2 l2 l2' ->
  (forall a b a' b', R a b -> P1 a a' -> P2 b b' -> R' a' b') -> Forall2 R' l1' l2'.
Proof.
  intros HR. revert l1' l2'. induction HR as [|a b t1 t2 Hab Ht IH]; intros l1' l2' H1 H2 Hstep.
  - inversion H1; inversion H2; constructor.
  - inversion H1 as [|? a' ? t1' Ha' Ht1']; subst. inversion H2 as [|? b' ? t2' Hb' Ht2']; subst.
    constructor; [eapply Hstep; eassumption|apply IH; assumption].
Qed.
Lemma Forall2_with {A B} (R : A -> B -> Prop) (P : A -> Prop) (Q : B -> Prop) l1 l2 :
  Forall2 R l1 l2 -> Forall P l1 -> Forall Q l2 -> Forall2 (fun a b => R a b /\ P a /\ Q b) l1 l2.
Proof.
  induction 1 as [|a b t1 t2 Hab Ht IH]; intros HP HQ; constructor.
  - split; [exact Hab|]. split; [exact (Forall_inv HP)|exact (Forall_inv HQ)].
  - apply IH; [exact (Forall_inv_tail HP)|exact (Forall_inv_tail HQ)].
Qed.

(* one rescheduling (BaseJob._calc_next_exec) at polling instants that coincide *)
Theorem job_calc_sim j1 j2 r1 r2 :
  job_sim j1 j2 -> utc r1 = utc r2 -> aware r1 = tz_aware (j_tz j1) -> aware r2 = tz_aware (j_tz j2) ->
  exists j1' j2', job_calc j1 r1 = Ok j1' /\ job_calc j2 r2 = Ok j2' /\ job_sim j1' j2'.
Proof.
  intros H Hr Ha1 Ha2.
  destruct (job_calc_ok j1 r1 (js_ok1 _ _ H) Ha1) as (j1' & Hc1 & Ok1 & Cfg1 & Tz1 & St1 & At1 & _ & _ & Ct1 & Mk1).
  destruct (job_calc_ok j2 r2 (js_ok2 _ _ H) Ha2) as (j2' & Hc2 & Ok2 & Cfg2 & Tz2 & St2 & At2 & _ & _ & Ct2 & Mk2).
  exists j1', j2'. split; [exact Hc1|]. split; [exact Hc2|].
  pose proof (jok_timers _ (js_ok1 _ _ H)) as W1. pose proof (jok_timers _ (js_ok2 _ _ H)) as W2.
  pose proof (js_clock _ _ H) as Hclk. pose proof (js_type _ _ H) as Hty.
  assert (HF : Forall2 tm_sim (j_timers j1') (j_timers j2')).
  { unfold calc_timers in Ct1, Ct2. rewrite <- (js_skip _ _ H), <- (js_delay _ _ H), <- (js_att _ _ H) in Ct2.
    destruct (c_skip (j_cfg j1)) eqn:Esk.
    - apply mapM_ok in Ct1. apply mapM_ok in Ct2.
      pose proof (Forall2_with _ _ _ _ _ (js_timers _ _ H) W1 W2) as HR.
      eapply (Forall2_three _ _ _ _ _ _ _ _ HR Ct1 Ct2).
      intros a b a' b' (Hab & Wa & Wb) Fa Fb. cbv beta in Fa, Fb.
      destruct Wa as (Ta & Sa & Aa & Ra). destruct Wb as (Tb & Sb & Ab & Rb).
      rewrite <- Hty in Tb, Rb.
      destruct (c_type (j_cfg j1)) eqn:Ety; try congruence;
        destruct Ra as [Oa Ea]; destruct Rb as [Ob Eb];
        (rewrite (dt_sub_same (jt_next a) r1) in Fa by congruence; rewrite (dt_sub_same (jt_next b) r2) in Fb by congruence;
         cbn [bind] in Fa, Fb;
         assert (Hd : utc (jt_next a) - utc r1 = utc (jt_next b) - utc r2) by (destruct Hab as (_ & _ & _ & _ & _ & Hn); lia);
         rewrite <- Hd in Fb; destruct (ts_le (utc (jt_next a) - utc r1) 0);
         [ destruct (tm_sim_calc a b r1 r2 Hab Hr) as (a2 & b2 & Ca & Cb & Hs); [congruence|congruence|];
           rewrite Ca in Fa; rewrite Cb in Fb; inversion Fa; inversion Fb; subst; exact Hs
         | inversion Fa; inversion Fb; subst; exact Hab ]).
    - destruct (c_delay (j_cfg j1) || negb (j_attempts j1 =? 1)).
      + pose proof (pending_index_lt _ _ (jok_pending _ (js_ok1 _ _ H))) as Hlt.
        pose proof (Forall2_nth2 _ _ _ dummy_timer dummy_timer _ (js_timers _ _ H) Hlt) as Hp.
        unfold pending_timer in Ct1, Ct2. rewrite <- (sim_pending _ _ H) in Ct2.
        pose proof (Forall2_with _ _ _ _ _ (js_timers _ _ H) W1 W2) as HR.
        pose proof (Forall2_nth2 _ _ _ dummy_timer dummy_timer _ HR Hlt) as (_ & Wa & Wb).
        destruct Wa as (Ta & Sa & Aa & Ra). destruct Wb as (Tb & Sb & Ab & Rb). rewrite <- Hty in Tb, Rb.
        assert (Ea : aware r1 = entry_aware' (jt_timing (nth (j_pending j1) (j_timers j1) dummy_timer)))
          by (destruct (c_type (j_cfg j1)); try congruence; destruct Ra as [_ E]; congruence).
        assert (Eb : aware r2 = entry_aware' (jt_timing (nth (j_pending j1) (j_timers j2) dummy_timer)))
          by (destruct (c_type (j_cfg j1)); try congruence; destruct Rb as [_ E]; congruence).
        destruct (tm_sim_calc _ _ r1 r2 Hp Hr Ea Eb) as (a2 & b2 & Ca & Cb & Hs).
        rewrite Ca in Ct1. rewrite Cb in Ct2. cbn [bind] in Ct1, Ct2. inversion Ct1. inversion Ct2.
        apply Forall2_replace; [apply H|exact Hs].
      + inversion Ct1. inversion Ct2. apply H. }
  constructor; try assumption.
  - rewrite Cfg1, Cfg2. apply H.
  - rewrite Cfg1. apply H.
  - rewrite Cfg1, Cfg2. apply H.
  - rewrite Cfg1, Cfg2. apply H.
  - rewrite Cfg1, Cfg2. apply H.
  - rewrite At1, At2. apply H.
  - rewrite Mk1, Mk2, (js_mark _ _ H). f_equal.
    pose proof (js_stop _ _ H) as Hs. unfold stop_sim in Hs.
    destruct (c_stop (j_cfg j1)) as [e1|], (c_stop (j_cfg j2)) as [e2|]; try contradiction; [|reflexivity].
    rewrite Hs, (sim_pending_next j1' j2' Ok1 Ok2 HF). reflexivity.
  - rewrite St1, St2. apply H.
  - rewrite Cfg1, Cfg2. apply H.
Qed.

Lemma job_run_sim j1 j2 b1 b2 : job_sim j1 j2 -> job_sim (job_run j1 b1) (job_run j2 b2).
Proof.
  intros H. constructor; cbn [job_run j_cfg j_attempts j_mark j_start j_timers]; try apply H.
  - apply job_run_ok; apply H.
  - apply job_run_ok; apply H.
  - rewrite (js_att _ _ H). reflexivity.
Qed.

(* one execution: the callbacks' outcomes may even differ *)
Theorem job_cycle_sim j1 j2 run1 run2 :
  job_sim j1 j2 -> utc (snd run1) = utc (snd run2) ->
  aware (snd run1) = tz_aware (j_tz j1) -> aware (snd run2) = tz_aware (j_tz j2) ->
  exists j1' j2', job_cycle j1 run1 = Ok j1' /\ job_cycle j2 run2 = Ok j2' /\ job_sim j1' j2' /\
                  j_tz j1' = j_tz j1 /\ j_tz j2' = j_tz j2.
Proof.
  intros H Hr Ha1 Ha2. unfold job_cycle.
  destruct (job_calc_sim _ _ (snd run1) (snd run2) (job_run_sim j1 j2 (fst run1) (fst run2) H) Hr Ha1 Ha2)
    as (j1' & j2' & C1 & C2 & Hs).
  exists j1', j2'. split; [exact C1|]. split; [exact C2|]. split; [exact Hs|].
  destruct (job_calc_ok _ _ (js_ok1 _ _ (job_run_sim j1 j2 (fst run1) (fst run2) H)) Ha1) as (x & Hx & _ & _ & Tx & _).
  destruct (job_calc_ok _ _ (js_ok2 _ _ (job_run_sim j1 j2 (fst run1) (fst run2) H)) Ha2) as (y & Hy & _ & _ & Ty & _).
  rewrite C1 in Hx. rewrite C2 in Hy. inversion Hx; inversion Hy; subst. split; assumption.
Qed.

(* any history: the successive due instants of the two jobs are the same list *)
Theorem dues_sim runs1 : forall runs2 j1 j2,
  job_sim j1 j2 ->
  Forall2 (fun a b => utc (snd a) = utc (snd b)) runs1 runs2 ->
  Forall (fun r => aware (snd r) = tz_aware (j_tz j1)) runs1 ->
  Forall (fun r => aware (snd r) = tz_aware (j_tz j2)) runs2 ->
  exists ds, dues j1 runs1 = Ok ds /\ dues j2 runs2 = Ok ds.
Proof.
  induction runs1 as [|r1 t1 IH]; intros runs2 j1 j2 H HF A1 A2.
  - inversion HF; subst. cbn [dues]. rewrite (sim_due _ _ H). eexists; split; reflexivity.
  - inversion HF as [|? r2 ? t2 Hr Ht]; subst.
    pose proof (Forall_inv A1) as Ha1. pose proof (Forall_inv A2) as Ha2.
    destruct (job_cycle_sim j1 j2 r1 r2 H Hr Ha1 Ha2) as (j1' & j2' & C1 & C2 & Hs & T1 & T2).
    cbn [dues]. rewrite C1, C2. cbn [bind].
    destruct (IH t2 j1' j2' Hs Ht) as (ds & D1 & D2).
    + rewrite T1. exact (Forall_inv_tail A1).
    + rewrite T2. exact (Forall_inv_tail A2).
    + rewrite D1, D2. cbn [bind]. rewrite (sim_due _ _ H). eexists; split; reflexivity.
Qed.

(* two scheduling calls that denote the same schedule produce similar jobs *)
Definition cfg_sim (c1 c2 : jobcfg) : Prop :=
  c_type c1 = c_type c2 /\ c_type c1 <> CYCLIC /\ c_skip c1 = c_skip c2 /\ c_delay c1 = c_delay c2 /\
  c_max_attempts c1 = c_max_attempts c2 /\ stop_sim (c_stop c1) (c_stop c2) /\
  Forall2 (same_occ (c_type c1)) (standardize_timing (c_type c1) (c_timing c1)) (standardize_timing (c_type c2) (c_timing c2)).

Theorem created_sim c1 c2 tz1 tz2 now j1 j2 :
  cfg_valid c1 -> cfg_valid c2 -> cfg_sim c1 c2 ->
  utc (match c_start c1 with Some s => s | None => dt_now now tz1 end) =
  utc (match c_start c2 with Some s => s | None => dt_now now tz2 end) ->
  job_create c1 tz1 now = Ok j1 -> job_create c2 tz2 now = Ok j2 -> job_sim j1 j2.
Proof.
  intros V1 V2 (Hty & Hclk & Hsk & Hdl & Hmx & Hst & Htg) Hs C1 C2.
  destruct (job_create_ok c1 tz1 now j1 V1 C1) as [O1 Z1 Ty1 Tg1 Mx1 _ Dl1 Sp1 Sk1 _ _ St1 _ Cn1 Fi1 Mk1].
  destruct (job_create_ok c2 tz2 now j2 V2 C2) as [O2 Z2 Ty2 Tg2 Mx2 _ Dl2 Sp2 Sk2 _ _ St2 _ Cn2 Fi2 Mk2].
  assert (HF : Forall2 tm_sim (j_timers j1) (j_timers j2)).
  { pose proof (jok_timing _ O1) as M1. pose proof (jok_timing _ O2) as M2. rewrite Tg1 in M1. rewrite Tg2 in M2.
    pose proof (jok_timers _ O1) as W1. pose proof (jok_timers _ O2) as W2. rewrite Ty1 in W1. rewrite Ty2, <- Hty in W2.
    rewrite <- Hty in Fi2. rewrite <- M1, <- M2 in Htg. clear M1 M2.
    revert Htg W1 W2 Fi1 Fi2. generalize (j_timers j1) (j_timers j2). intros l1 l2.
    revert l2. induction l1 as [|a t1 IH]; intros l2 Htg W1 W2 F1 F2; destruct l2 as [|b t2]; cbn [map] in Htg; inversion Htg as [|x y lx ly Hso Hrest]; subst; constructor.
    - pose proof (Forall_inv W1) as (Ta & Sa & _ & Ra). pose proof (Forall_inv W2) as (Tb & Sb & _ & Rb).
      pose proof (Forall_inv F1) as Na. pose proof (Forall_inv F2) as Nb. cbv beta in Na, Nb.
      destruct (c_type c1) eqn:Ety; try congruence; destruct Ra as [Oa _]; destruct Rb as [Ob _];
        (split; [exact Oa|]; split; [exact Ob|]; split; [congruence|]; split; [congruence|]; split;
         [rewrite Ta; assumption|];
         eapply is_next_unique; [exact Na|]; rewrite St1, Hs, <- St2;
         eapply is_next_equiv; [|exact Nb]; intros y0; symmetry; apply Hso).
    - apply IH; try assumption; [exact (Forall_inv_tail W1)|exact (Forall_inv_tail W2)|exact (Forall_inv_tail F1)|exact (Forall_inv_tail F2)]. }
  constructor; try assumption.
  - rewrite Ty1, Ty2. exact Hty.
  - rewrite Ty1. exact Hclk.
  - rewrite Sk1, Sk2. exact Hsk.
  - rewrite Dl1, Dl2. exact Hdl.
  - rewrite Mx1, Mx2. exact Hmx.
  - destruct Cn1 as [-> _]. destruct Cn2 as [-> _]. reflexivity.
  - rewrite Mk1, Mk2. unfold stop_sim in Hst.
    destruct (c_stop c1) as [e1|], (c_stop c2) as [e2|]; try contradiction; [|reflexivity].
    rewrite Hst, (sim_pending_next j1 j2 O1 O2 HF). reflexivity.
  - rewrite St1, St2. exact Hs.
  - rewrite Sp1, Sp2. exact Hst.
Qed.

Lemma sim_agree j1 j2 :
  job_sim j1 j2 -> utc (job_datetime j1) = utc (job_datetime j2) /\ has_attempts j1 = has_attempts j2.
Proof. intros H. split; [exact (sim_due j1 j2 H)|exact (sim_has_attempts j1 j2 H)]. Qed.
