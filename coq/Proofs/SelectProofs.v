(* Selection theory of exec_jobs: stable descending sort, cut at max_exec, positive filter
   (C04, C05).  Priorities are rationals num/den with den > 0. *)
From Coq Require Import ZArith List Bool Lia ZifyBool Arith PeanoNat Sorting.Sorted Sorting.Permutation.
From Sv Require Import PyTime Timer Job Sched SchedProofs.
Import ListNotations.
Open Scope Z_scope.

Definition den_pos (p : prio) : Prop := 0 < snd p.

Lemma qle_refl a : qle a a = true.
Proof. unfold qle. lia. Qed.
Lemma qle_trans a b c : den_pos a -> den_pos b -> den_pos c ->
  qle a b = true -> qle b c = true -> qle a c = true.
Proof.
  unfold qle, den_pos. destruct a as [a1 a2], b as [b1 b2], c as [c1 c2]. cbn. intros Ha Hb Hc H1 H2.
  apply Z.leb_le in H1, H2. apply Z.leb_le.
  assert (a1 * b2 * c2 <= b1 * a2 * c2) by nia.
  assert (b1 * c2 * a2 <= c1 * b2 * a2) by nia.
  nia.
Qed.
Lemma qle_total a b : qle a b = true \/ qle b a = true.
Proof. unfold qle. lia. Qed.
Lemma qpos_le a b : den_pos a -> den_pos b -> qpos a = true -> qle a b = true -> qpos b = true.
Proof. unfold qpos, qle, den_pos. destruct a, b; cbn. intros. nia. Qed.

Section Sorted.
  Context {A : Type} (key : A -> prio).
  Definition desc (l : list A) : Prop := StronglySorted (fun a b => qle (key b) (key a) = true) l.
  Definition dens (l : list A) : Prop := Forall (fun a => den_pos (key a)) l.

  Lemma ins_desc_sorted x l : den_pos (key x) -> dens l -> desc l -> desc (ins_desc key x l).
  Proof.
    intros Hx Hd Hs. induction Hs as [|y t Hs IH Hall]; cbn.
    - repeat constructor.
    - inversion Hd as [|? ? Hy Hd']; subst.
      destruct (qle (key x) (key y) && negb (qle (key y) (key x))) eqn:E.
      + apply andb_prop in E as [E1 E2]. constructor; [apply IH; exact Hd'|].
        rewrite Forall_forall in *. intros z Hz.
        apply (Permutation_in z (Permutation_sym (ins_desc_perm key x t))) in Hz.
        destruct Hz as [<-|Hz]; [exact E1|auto].
      + constructor; [constructor; assumption|].
        assert (Hyx : qle (key y) (key x) = true).
        { destruct (qle (key x) (key y)) eqn:E1; cbn in E.
          - apply negb_false_iff in E. exact E.
          - destruct (qle_total (key x) (key y)); congruence. }
        constructor; [exact Hyx|]. rewrite Forall_forall in *. intros z Hz.
        apply (qle_trans _ (key y)); auto.
  Qed.

  Lemma ins_desc_dens x l : den_pos (key x) -> dens l -> dens (ins_desc key x l).
  Proof.
    intros Hx Hd. unfold dens in *. rewrite Forall_forall in *. intros z Hz.
    apply (Permutation_in z (Permutation_sym (ins_desc_perm key x l))) in Hz.
    destruct Hz as [<-|Hz]; auto.
  Qed.

  Lemma sort_desc_sorted l : dens l -> desc (sort_desc key l) /\ dens (sort_desc key l).
  Proof.
    induction l as [|x t IH]; cbn; intros Hd; [split; constructor|].
    inversion Hd as [|? ? Hx Hd']; subst. destruct (IH Hd') as [H1 H2].
    split; [apply ins_desc_sorted; assumption|apply ins_desc_dens; assumption].
  Qed.

  (* everything in the first n is at least as large as everything after *)
  Lemma desc_firstn_skipn n l : desc l -> forall a b, In a (firstn n l) -> In b (skipn n l) ->
    qle (key b) (key a) = true.
  Proof.
    intros H; revert n; induction H as [|y t Hs IH Hall]; intros n a b Ha Hb.
    - destruct n; cbn in *; contradiction.
    - destruct n; cbn in *; [contradiction|].
      destruct Ha as [<-|Ha].
      + rewrite Forall_forall in Hall. apply Hall.
        rewrite <- (firstn_skipn n t). apply in_or_app. right. exact Hb.
      + eapply IH; eassumption.
  Qed.

  Lemma desc_filter f l : desc l -> desc (filter f l).
  Proof.
    induction 1 as [|y t Hs IH Hall]; cbn; [constructor|]. destruct (f y); [|exact IH].
    constructor; [exact IH|]. rewrite Forall_forall in *. intros z Hz. apply filter_In in Hz as [Hz _]. auto.
  Qed.
  Lemma desc_firstn n l : desc l -> desc (firstn n l).
  Proof.
    intros H; revert n; induction H as [|y t Hs IH Hall]; intros n; destruct n; cbn; try constructor; [apply IH|].
    rewrite Forall_forall in *. intros z Hz. apply Hall. apply (firstn_subset _ _ _ Hz).
  Qed.

  (* in a descending list the positive elements form a prefix *)
  Lemma desc_pos_prefix l : dens l -> desc l ->
    filter (fun a => qpos (key a)) l = firstn (length (filter (fun a => qpos (key a)) l)) l.
  Proof.
    intros Hd Hs. induction Hs as [|y t Hs IH Hall]; cbn; [reflexivity|].
    inversion Hd as [|? ? Hy Hd']; subst.
    destruct (qpos (key y)) eqn:E; cbn; [f_equal; apply IH; exact Hd'|].
    assert (Hnone : filter (fun a => qpos (key a)) t = []).
    { assert (Hf : Forall (fun z => qpos (key z) = false) t).
      { rewrite Forall_forall in *. intros z Hz. destruct (qpos (key z)) eqn:Ez; [|reflexivity].
        rewrite (qpos_le (key z) (key y) (Hd' z Hz) Hy Ez (Hall z Hz)) in E. discriminate. }
      clear -Hf. induction Hf as [|z r Hz Hr IHr]; cbn; [reflexivity|]. rewrite Hz. exact IHr. }
    rewrite Hnone. reflexivity.
  Qed.
End Sorted.

Lemma filter_firstn_nil {A} (P : A -> bool) l k : filter P l = [] -> filter P (firstn k l) = [].
Proof.
  revert k. induction l as [|z r IH]; intros k H; destruct k; cbn in *; try reflexivity.
  destruct (P z); [discriminate|]. apply IH. exact H.
Qed.
Lemma filter_firstn_prefix {A} (P : A -> bool) l :
  filter P l = firstn (length (filter P l)) l ->
  forall k, length (filter P (firstn k l)) = Nat.min k (length (filter P l)).
Proof.
  induction l as [|y t IH]; intros Hpre k.
  - destruct k; reflexivity.
  - destruct k; [reflexivity|]. cbn in *. destruct (P y) eqn:Ey; cbn in *.
    + f_equal. apply IH. congruence.
    + destruct (filter P t) as [|z r] eqn:Ef.
      * rewrite (filter_firstn_nil P t k Ef). cbn. lia.
      * exfalso. cbn in Hpre. inversion Hpre; subst z.
        assert (Hin : In y (filter P t)) by (rewrite Ef; left; reflexivity).
        apply filter_In in Hin as [_ Hy]. congruence.
Qed.

Lemma perm_filter {A} (f : A -> bool) l l' : Permutation l l' -> Permutation (filter f l) (filter f l').
Proof.
  induction 1 as [|x l l' Hp IH|x y l|l l' l'' Hp1 IH1 Hp2 IH2]; cbn.
  - constructor.
  - destruct (f x); [constructor|]; assumption.
  - destruct (f x), (f y); try apply perm_swap; try (constructor; apply Permutation_refl); apply Permutation_refl.
  - etransitivity; eassumption.
Qed.

(* ---- the batch chosen by exec_jobs ---------------------------------------------------------------- *)
Definition pr_dens (prs : list (nat * prio)) : Prop := Forall (fun ip => den_pos (snd ip)) prs.
Definition positives (prs : list (nat * prio)) : list (nat * prio) := filter (fun ip => qpos (snd ip)) prs.
Definition chosen (mx : Z) (prs : list (nat * prio)) : list (nat * prio) :=
  filter (fun ip => qpos (snd ip))
         (if mx =? 0 then sort_desc snd prs else take_while_idx mx (sort_desc snd prs)).

Lemma select_batch_chosen mx prs : select_batch mx (sort_desc snd prs) = map fst (chosen mx prs).
Proof. reflexivity. Qed.

(* never a job whose priority is <= 0 *)
Theorem chosen_positive mx prs ip : In ip (chosen mx prs) -> qpos (snd ip) = true.
Proof. unfold chosen. intros H. apply filter_In in H. tauto. Qed.

(* every chosen job was offered *)
Theorem chosen_in mx prs ip : In ip (chosen mx prs) -> In ip prs.
Proof.
  unfold chosen. intros H. apply filter_In in H as [H _].
  destruct (mx =? 0); [|apply take_while_idx_incl in H];
  apply (Permutation_in _ (Permutation_sym (sort_desc_perm snd prs))); exact H.
Qed.

(* no execution limit: exactly the jobs with positive priority *)
Theorem chosen_unlimited prs ip : In ip (chosen 0 prs) <-> In ip prs /\ qpos (snd ip) = true.
Proof.
  unfold chosen. cbn. rewrite filter_In. split; intros [H1 H2]; split; auto.
  - apply (Permutation_in _ (Permutation_sym (sort_desc_perm snd prs))); exact H1.
  - apply (Permutation_in _ (sort_desc_perm snd prs)); exact H1.
Qed.

(* the chosen jobs are run in non-increasing priority order *)
Theorem chosen_sorted mx prs : pr_dens prs -> desc snd (chosen mx prs).
Proof.
  intros Hd. destruct (sort_desc_sorted snd prs Hd) as [Hs _]. unfold chosen.
  apply desc_filter. destruct (mx =? 0); [exact Hs|]. rewrite take_while_idx_firstn. apply desc_firstn. exact Hs.
Qed.

(* top-k: nothing left waiting with positive priority beats a chosen job *)
Theorem chosen_topk mx prs a b :
  pr_dens prs -> 0 < mx -> In a (chosen mx prs) -> In b prs -> ~ In b (chosen mx prs) ->
  qpos (snd b) = true -> qle (snd b) (snd a) = true.
Proof.
  intros Hd Hmx Ha Hb Hnb Hpos. destruct (sort_desc_sorted snd prs Hd) as [Hs _].
  unfold chosen in *. replace (mx =? 0) with false in * by lia. rewrite take_while_idx_firstn in *.
  apply filter_In in Ha as [Ha _].
  assert (Hb' : In b (sort_desc snd prs)) by (apply (Permutation_in _ (sort_desc_perm snd prs)); exact Hb).
  rewrite <- (firstn_skipn (Z.to_nat mx) (sort_desc snd prs)) in Hb'. apply in_app_or in Hb' as [Hb'|Hb'].
  - exfalso. apply Hnb. apply filter_In. split; assumption.
  - eapply (desc_firstn_skipn snd); eassumption.
Qed.

(* how many: min(max_exec, number of positive priorities) *)
Theorem chosen_count mx prs :
  pr_dens prs -> 0 <= mx ->
  length (chosen mx prs) =
    if mx =? 0 then length (positives prs) else Nat.min (Z.to_nat mx) (length (positives prs)).
Proof.
  intros Hd Hmx. destruct (sort_desc_sorted snd prs Hd) as [Hs Hds]. unfold chosen, positives.
  assert (Hperm : length (filter (fun ip => qpos (snd ip)) (sort_desc snd prs)) =
                  length (filter (fun ip => qpos (snd ip)) prs)).
  { apply Permutation_length. apply perm_filter. apply Permutation_sym. apply sort_desc_perm. }
  destruct (mx =? 0) eqn:E; [exact Hperm|].
  rewrite take_while_idx_firstn. rewrite <- Hperm.
  pose proof (desc_pos_prefix snd (sort_desc snd prs) Hds Hs) as Hpre.
  apply filter_firstn_prefix. exact Hpre.
Qed.
