(* C17, trace level: over EVERY history of scheduling calls, deletions (also from inside coroutines)
   and virtual-time runs, no invocation ever starts before its job is due.  The one-step theorems of
   AioProofs.v say what a resumption does; this file carries the "never early" clause through all
   reachable states by a second invariant (every sleeping supervisor wakes at or after its job's due
   time) on top of [aio_inv]. *)
From Coq Require Import ZArith List Bool Lia.
From Sv Require Import PyTime Timer Job Sched Aio JobProofs SchedProofs AioProofs.
Import ListNotations.
Open Scope Z_scope.

Definition start_ok (e : aevent) : Prop :=
  match e with EStart _ t due _ _ => due <= t | _ => True end.
Definition sleep_ok (a : ajob) : Prop :=
  forall w, aj_phase a = PSleep w -> utc (job_datetime (aj_job a)) <= w.
Definition wake_ok (s : aio) : Prop := forall id a, a_get s id = Some a -> sleep_ok a.
Definition trace_ok (s : aio) : Prop := wake_ok s /\ Forall start_ok (a_events s).

Lemma lookup_update_cases {A} x id (v : A) l ax :
  lookup x (update id v l) = Some ax -> ax = v \/ lookup x l = Some ax.
Proof.
  induction l as [|[k w] t IH]; cbn; [discriminate|].
  destruct (Nat.eqb k id) eqn:E; cbn.
  - destruct (Nat.eqb k x); intros H; [inversion H; left; reflexivity|right; exact H].
  - destruct (Nat.eqb k x); [intros H; right; exact H|exact IH].
Qed.

Lemma lookup_snoc_cases {A} x id (v : A) l ax :
  lookup x (l ++ [(id, v)]) = Some ax -> ax = v \/ lookup x l = Some ax.
Proof.
  induction l as [|[k w] t IH]; cbn.
  - destruct (Nat.eqb id x); intros H; [inversion H; left; reflexivity|discriminate].
  - destruct (Nat.eqb k x); [intros H; right; exact H|exact IH].
Qed.

Lemma in_lookup_nodup {A} id (v : A) l : NoDup (map fst l) -> In (id, v) l -> lookup id l = Some v.
Proof.
  induction l as [|[k w] t IH]; cbn; intros Hnd Hin; [contradiction|].
  inversion Hnd as [|? ? Hnotin Hnd']; subst.
  destruct Hin as [Heq|Hin].
  - inversion Heq; subst. rewrite Nat.eqb_refl. reflexivity.
  - destruct (Nat.eqb k id) eqn:E.
    + apply Nat.eqb_eq in E. subst k. exfalso. apply Hnotin. apply (in_map fst) in Hin. exact Hin.
    + apply IH; assumption.
Qed.

Lemma wake_update s id a' reg evs :
  wake_ok s -> sleep_ok a' -> wake_ok (a_set s reg (update id a' (a_jobs s)) evs).
Proof.
  intros Hw Ha x ax Hx. unfold a_get, a_set in Hx. cbn [a_jobs] in Hx.
  apply lookup_update_cases in Hx. destruct Hx as [->|Hx]; [exact Ha|exact (Hw x ax Hx)].
Qed.

Lemma enter_loop_sleep_ok a j ref a2 live : enter_loop a j ref = (a2, live) -> sleep_ok a2.
Proof.
  unfold enter_loop, wake_time. destruct (has_attempts j); intros H; inversion H; subst; intros w Hp;
    cbn [aj_phase aj_job] in *; [inversion Hp; lia|discriminate].
Qed.
Lemma set_phase_cancelled_ok a : sleep_ok (aj_set_phase a PCancelled).
Proof. intros w H. cbn [aj_set_phase aj_phase] in H. discriminate. Qed.
Lemma set_phase_run_ok a e : sleep_ok (aj_set_phase a (PRun e)).
Proof. intros w H. cbn [aj_set_phase aj_phase] in H. discriminate. Qed.
Lemma set_kill_ok a : sleep_ok a -> sleep_ok (aj_set_kill a).
Proof. intros Ha w H. cbn [aj_set_kill aj_phase aj_job] in *. apply Ha. exact H. Qed.

(* ---- deletions ----------------------------------------------------------------------------------------- *)
Lemma a_cancel_trace s id self : trace_ok s -> trace_ok (a_cancel s id self).
Proof.
  intros [Hw He]. unfold a_cancel. destruct (a_get s id) as [a|] eqn:Hg; [|split; assumption].
  pose proof (Hw id a Hg) as Ha.
  destruct (match self with Some x => Nat.eqb x id | None => false end).
  - split; [apply wake_update; [exact Hw|apply set_kill_ok; exact Ha]|exact He].
  - split.
    + apply wake_update; [exact Hw|]. destruct (aj_phase a) eqn:Ep;
        first [apply set_phase_cancelled_ok|exact Ha].
    + unfold a_set; cbn [a_events]. destruct (aj_phase a); try exact He. constructor; [exact I|exact He].
Qed.

Lemma cancel_all_trace sel : forall s self,
  trace_ok s -> trace_ok (fold_left (fun st id => a_cancel st id self) sel s).
Proof.
  induction sel as [|x r IH]; intros s self H; cbn [fold_left]; [exact H|].
  apply IH. apply a_cancel_trace. exact H.
Qed.

Lemma a_op_trace s o self s' r : trace_ok s -> a_op s o self = (s', r) -> trace_ok s'.
Proof.
  intros Ht H. destruct o as [id|tags any|tags any|]; cbn [a_op] in H.
  - destruct (nmem id (a_reg s)); inversion H; subst; [apply a_cancel_trace|]; exact Ht.
  - inversion H; subst. apply cancel_all_trace. exact Ht.
  - inversion H; subst. exact Ht.
  - inversion H; subst. exact Ht.
Qed.

Lemma a_prog_trace p : forall s self s' b, trace_ok s -> a_prog s p self = (s', b) -> trace_ok s'.
Proof.
  induction p as [|o r IH]; intros s self s' b Ht H; cbn [a_prog] in H; [inversion H; subst; exact Ht|].
  destruct (a_op s o (Some self)) as [s1 r1] eqn:E.
  pose proof (a_op_trace _ _ _ _ _ Ht E) as Ht1.
  destruct r1 as [v|e]; [apply (IH _ _ _ _ Ht1 H)|inversion H; subst; exact Ht1].
Qed.

(* ---- scheduling ---------------------------------------------------------------------------------------- *)
Lemma a_schedule_trace s c durs pre post sync s' r :
  trace_ok s -> a_schedule s c durs pre post sync = (s', r) -> trace_ok s'.
Proof.
  intros [Hw He] H. unfold a_schedule in H.
  destruct (job_create c (a_tz s) (a_now s)) as [j|e]; [|inversion H; subst; split; assumption].
  destruct (enter_loop (mkAjob j PDone (a_now s) durs pre post false sync) j (a_now s)) as [a live] eqn:Eel.
  inversion H; subst; clear H. split; [|exact He].
  intros x ax Hx. unfold a_get in Hx. cbn [a_jobs] in Hx.
  apply lookup_snoc_cases in Hx. destruct Hx as [->|Hx]; [exact (enter_loop_sleep_ok _ _ _ _ _ Eel)|exact (Hw x ax Hx)].
Qed.

(* ---- one resumption: the task of [id] may only be resumed once its wake-up instant has come ------------- *)
Definition wake_due (s : aio) (id : nat) : Prop :=
  forall a w, a_get s id = Some a -> aj_phase a = PSleep w -> w <= a_now s.

Lemma frame_events s evs : wake_ok s -> wake_ok (a_set s (a_reg s) (a_jobs s) evs).
Proof. intros Hw x ax Hx. exact (Hw x ax Hx). Qed.

Lemma a_resume_trace s id : trace_ok s -> wake_due s id -> trace_ok (a_resume s id).
Proof.
  intros [Hw He] Hd. unfold a_resume. destruct (a_get s id) as [a|] eqn:Hg; [|split; assumption].
  destruct (aj_phase a) eqn:Ep; try (split; assumption).
  - (* PSleep *)
    destruct (nth (Z.to_nat (j_attempts (aj_job a))) (aj_sync a) false).
    + destruct (job_calc (job_run (aj_job a) true) (dt_now (a_now s) (a_tz s))) as [j2|e]; [|split; assumption].
      destruct (enter_loop a j2 (a_now s)) as [a2 live] eqn:Eel.
      split; [apply wake_update; [exact Hw|exact (enter_loop_sleep_ok _ _ _ _ _ Eel)]|].
      unfold a_set; cbn [a_events]. constructor; [exact I|exact He].
    + set (s0 := a_set s (a_reg s) (a_jobs s) _).
      assert (Ht0 : trace_ok s0).
      { split; [apply frame_events; exact Hw|]. unfold s0, a_set; cbn [a_events]. constructor; [|exact He].
        cbn [start_ok]. pose proof (Hw id a Hg wake Ep). pose proof (Hd a wake Hg Ep). lia. }
      destruct (a_prog s0 (aj_pre a) id) as [s1 praised] eqn:Ep1.
      pose proof (a_prog_trace _ _ _ _ _ Ht0 Ep1) as [Hw1 He1].
      destruct (a_get s1 id) as [a1|] eqn:Hg1; [|split; assumption].
      destruct praised.
      * destruct (job_calc (job_run (aj_job a1) true) (dt_now (a_now s) (a_tz s))) as [j2|e]; [|split; assumption].
        destruct (enter_loop a1 j2 (a_now s)) as [a2 live] eqn:Eel.
        pose proof (enter_loop_sleep_ok _ _ _ _ _ Eel) as Ha2.
        split.
        -- apply wake_update; [exact Hw1|]. destruct (aj_kill a1); [destruct live; [apply set_phase_cancelled_ok|exact Ha2]|exact Ha2].
        -- unfold a_set; cbn [a_events]. constructor; [exact I|exact He1].
      * destruct (aj_kill a1).
        -- split; [apply wake_update; [exact Hw1|apply set_phase_cancelled_ok]|].
           unfold a_set; cbn [a_events]. constructor; [exact I|exact He1].
        -- split; [apply wake_update; [exact Hw1|apply set_phase_run_ok]|exact He1].
  - (* PRun *)
    set (s0 := a_set s (a_reg s) (a_jobs s) _).
    assert (Ht0 : trace_ok s0).
    { split; [apply frame_events; exact Hw|]. unfold s0, a_set; cbn [a_events]. constructor; [exact I|exact He]. }
    destruct (a_prog s0 (aj_post a) id) as [s1 praised] eqn:Ep1.
    pose proof (a_prog_trace _ _ _ _ _ Ht0 Ep1) as [Hw1 He1].
    destruct (a_get s1 id) as [a1|] eqn:Hg1; [|split; assumption].
    cbv zeta.
    destruct (job_calc (job_run (aj_job a1) (praised || outcome_of (aj_job a1))) (dt_now (a_now s) (a_tz s))) as [j2|e]; [|split; assumption].
    destruct (enter_loop a1 j2 (a_now s)) as [a2 live] eqn:Eel.
    pose proof (enter_loop_sleep_ok _ _ _ _ _ Eel) as Ha2.
    split.
    + apply wake_update; [exact Hw1|]. destruct (aj_kill a1); [destruct live; [apply set_phase_cancelled_ok|exact Ha2]|exact Ha2].
    + unfold a_set; cbn [a_events]. destruct (praised || outcome_of (aj_job a1)); [constructor; [exact I|exact He1]|exact He1].
Qed.

(* ---- the loop ------------------------------------------------------------------------------------------ *)
Lemma trace_now s t : trace_ok s -> trace_ok (mkAio (a_tz s) t (a_reg s) (a_jobs s) (a_next s) (a_events s)).
Proof. intros [Hw He]. split; [intros x ax Hx; exact (Hw x ax Hx)|exact He]. Qed.

Lemma a_run_trace fuel : forall s t s' ok,
  aio_inv s -> trace_ok s -> a_run fuel s t = (s', ok) -> trace_ok s'.
Proof.
  induction fuel as [|f IH]; intros s t s' ok Hi Ht H; cbn [a_run] in H; [inversion H; subst; exact Ht|].
  destruct (earliest (a_jobs s) None) as [[id w]|] eqn:Ee.
  - destruct (w <=? t).
    + set (s1 := mkAio (a_tz s) (Z.max (a_now s) w) (a_reg s) (a_jobs s) (a_next s) (a_events s)) in *.
      assert (Hi1 : aio_inv s1) by (apply inv_now; exact Hi).
      assert (Ht1 : trace_ok s1) by (apply trace_now; exact Ht).
      assert (Hd : wake_due s1 id).
      { intros a w' Hg Hp.
        destruct (earliest_active _ _ _ _ Ee) as [Hb|(a' & Hin & Hwk)]; [discriminate|].
        pose proof (in_lookup_nodup _ _ _ (ai_keys s Hi) Hin) as Hl.
        unfold a_get, s1 in Hg. cbn [a_jobs] in Hg. rewrite Hl in Hg. inversion Hg; subst a'.
        unfold wake_of in Hwk. rewrite Hp in Hwk. inversion Hwk; subst. unfold s1; cbn [a_now]. lia. }
      apply (IH _ _ _ _ (a_resume_inv _ id Hi1) (a_resume_trace s1 id Ht1 Hd) H).
    + inversion H; subst. apply trace_now. exact Ht.
  - inversion H; subst. apply trace_now. exact Ht.
Qed.

(* ---- every history ------------------------------------------------------------------------------------- *)
Lemma a_init_trace tz now : trace_ok (a_init tz now).
Proof. split; [intros x ax Hx; discriminate|constructor]. Qed.

Opaque RUN_FUEL.
Theorem a_step_trace s o s' r :
  aio_inv s -> wake_ok s -> atop_valid o -> a_step s o = (s', r) ->
  wake_ok s' /\ Forall start_ok (a_events s').
Proof.
  intros Hi Hw Hv H. unfold a_step in H.
  assert (Hi0 : aio_inv (a_clear s)) by (destruct Hi; constructor; assumption).
  assert (Ht0 : trace_ok (a_clear s)) by (split; [intros x ax Hx; exact (Hw x ax Hx)|constructor]).
  set (s0 := a_clear s) in *.
  assert (Hsettle : forall s1 r1, aio_inv s1 -> trace_ok s1 -> settle (s1, r1) = (s', r) -> trace_ok s').
  { intros s1 r1 H1 Ht1 Hs. unfold settle in Hs. cbn [fst snd] in Hs.
    destruct (a_run RUN_FUEL s1 (a_now s1)) as [s2 ok] eqn:Er. inversion Hs; subst.
    apply (a_run_trace _ _ _ _ _ H1 Ht1 Er). }
  destruct o as [c durs pre post sync|ot c durs pre post sync|o|t].
  - destruct Hv as [Hv1 Hv2]. destruct (a_schedule s0 c durs pre post sync) as [s1 r1] eqn:E.
    destruct (a_schedule_inv s0 c durs pre post sync s1 r1 Hv1 Hi0 E) as (H1 & _).
    apply (Hsettle s1 r1 H1 (a_schedule_trace _ _ _ _ _ _ _ _ Ht0 E) H).
  - destruct (a_schedule s0 (once_cfg ot c) durs pre post sync) as [s1 r1] eqn:E.
    destruct (a_schedule_inv s0 _ durs pre post sync s1 r1 (once_cfg_valid ot c Hv) Hi0 E) as (H1 & _).
    apply (Hsettle s1 r1 H1 (a_schedule_trace _ _ _ _ _ _ _ _ Ht0 E) H).
  - destruct (a_op s0 o None) as [s1 r1] eqn:E.
    destruct (a_op_inv s0 o None s1 r1 Hi0 E) as (H1 & _ & _).
    apply (Hsettle s1 r1 H1 (a_op_trace _ _ _ _ _ Ht0 E) H).
  - destruct (a_run RUN_FUEL s0 t) as [s1 ok] eqn:Er. inversion H; subst.
    apply (a_run_trace _ _ _ _ _ Hi0 Ht0 Er).
Qed.

(* all histories from the empty scheduler: the events of the last operation of ANY history of valid
   operations contain no early start, and every sleeping supervisor is set to wake at or after its
   job's due time *)
Fixpoint a_steps (s : aio) (ops : list atop) : aio :=
  match ops with [] => s | o :: r => a_steps (fst (a_step s o)) r end.

Theorem history_never_early tz now ops :
  Forall atop_valid ops ->
  let s := a_steps (a_init tz now) ops in
  aio_inv s /\ wake_ok s /\ Forall start_ok (a_events s).
Proof.
  intros Hv. cbv zeta.
  assert (G : forall s, aio_inv s -> trace_ok s ->
            aio_inv (a_steps s ops) /\ wake_ok (a_steps s ops) /\ Forall start_ok (a_events (a_steps s ops))).
  { induction Hv as [|o r Ho Hr IH]; intros s Hi [Hw He]; cbn [a_steps]; [auto|].
    destruct (a_step s o) as [s1 r1] eqn:E. cbn [fst].
    destruct (a_step_inv s o s1 r1 Hi Ho E) as (Hi1 & _).
    pose proof (a_step_trace s o s1 r1 Hi Hw Ho E) as Ht1.
    apply IH; assumption. }
  apply G; [apply a_init_inv|apply a_init_trace].
Qed.
