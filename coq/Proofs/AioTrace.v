(* C17, trace level: over EVERY history of scheduling calls, deletions (also from inside coroutines)
   and virtual-time runs, no invocation ever starts before its job is due.  The one-step theorems of
   AioProofs.v say what a resumption does; this file carries the "never early" clause through all
   reachable states by a second invariant (every sleeping supervisor wakes at or after its job's due
   time) on top of [aio_inv]. *)
From Coq Require Import ZArith List Bool Lia.
From Sv Require Import PyTime Timer Job Sched Aio JobProofs SchedProofs AioProofs.
Import ListNotations.
Open Scope Z_scope.

Definition start_ok (e : aevent) : Prop :=
  match e with EStart _ t due _ _ => due <= t | _ => True end.
Definition sleep_ok (a : ajob) : Prop :=
  forall w, aj_phase a = PSleep w -> utc (job_datetime (aj_job a)) <= w.
Definition wake_ok (s : aio) : Prop := forall id a, a_get s id = Some a -> sleep_ok a.
Definition trace_ok (s : aio) : Prop := wake_ok s /\ Forall start_ok (a_events s).

Lemma lookup_update_cases {A} x id (v : A) l ax :
  lookup x (update id v l) = Some ax -> ax = v \/ lookup x l = Some ax.
Proof.
  induction l as [|[k w] t IH]; cbn; [discriminate|].
  destruct (Nat.eqb k id) eqn:E; cbn.
  - destruct (Nat.eqb k x); intros H; [inversion H; left; reflexivity|right; exact H].
  - destruct (Nat.eqb k x); [intros H; right; exact H|exact IH].
Qed.

Lemma lookup_snoc_cases {A} x id (v : A) l ax :
  lookup x (l ++ [(id, v)]) = Some ax -> ax = v \/ lookup x l = Some ax.
Proof.
  induction l as [|[k w] t IH]; cbn.
  - destruct (Nat.eqb id x); intros H; [inversion H; left; reflexivity|discriminate].
  - destruct (Nat.eqb k x); [intros H; right; exact H|exact IH].
Qed.

Lemma in_lookup_nodup {A} id (v : A) l : NoDup (map fst l) -> In (id, v) l -> lookup id l = Some v.
Proof.
  induction l as [|[k w] t IH]; cbn; intros Hnd Hin; [contradiction|].
  inversion Hnd as [|? ? Hnotin Hnd']; subst.
  destruct Hin as [Heq|Hin].
  - inversion Heq; subst. rewrite Nat.eqb_refl. reflexivity.
  - destruct (Nat.eqb k id) eqn:E.
    + apply Nat.eqb_eq in E. subst k. exfalso. apply Hnotin. apply (in_map fst) in Hin. exact Hin.
    + apply IH; assumption.
Qed.

Lemma wake_update s id a' reg evs :
  wake_ok s -> sleep_ok a' -> wake_ok (a_set s reg (update id a' (a_jobs s)) evs).
Proof.
  intros Hw Ha x ax Hx. unfold a_get, a_set in Hx. cbn [a_jobs] in Hx.
  apply lookup_update_cases in Hx. destruct Hx as [->|Hx]; [exact Ha|exact (Hw x ax Hx)].
Qed.

Lemma enter_loop_sleep_ok a j ref a2 live : enter_loop a j ref = (a2, live) -> sleep_ok a2.
Proof.
  unfold enter_loop, wake_time. destruct (has_attempts j); intros H; inversion H; subst; intros w Hp;
    cbn [aj_phase aj_job] in *; [inversion Hp; lia|discriminate].
Qed.
Lemma set_phase_cancelled_ok a : sleep_ok (aj_set_phase a PCancelled).
Proof. intros w H. cbn [aj_set_phase aj_phase] in H. discriminate. Qed.
Lemma set_phase_run_ok a e : sleep_ok (aj_set_phase a (PRun e)).
Proof. intros w H. cbn [aj_set_phase aj_phase] in H. discriminate. Qed.
Lemma set_kill_ok a : sleep_ok a -> sleep_ok (aj_set_kill a).
Proof. intros Ha w H. cbn [aj_set_kill aj_phase aj_job] in *. apply Ha. exact H. Qed.

(* ---- deletions ----------------------------------------------------------------------------------------- *)
Lemma a_cancel_trace s id self : trace_ok s -> trace_ok (a_cancel s id self).
Proof.
  intros [Hw He]. unfold a_cancel. destruct (a_get s id) as [a|] eqn:Hg; [|split; assumption].
  pose proof (Hw id a Hg) as Ha.
  destruct (match self with Some x => Nat.eqb x id | None => false end).
  - split; [apply wake_update; [exact Hw|apply set_kill_ok; exact Ha]|exact He].
  - split.
    + apply wake_update; [exact Hw|]. destruct (aj_phase a) eqn:Ep;
        first [apply set_phase_cancelled_ok|exact Ha].
    + unfold a_set; cbn [a_events]. destruct (aj_phase a); try exact He. constructor; [exact I|exact He].
Qed.

Lemma cancel_all_trace sel : forall s self,
  trace_ok s -> trace_ok (fold_left (fun st id => a_cancel st id self) sel s).
Proof.
  induction sel as [|x r IH]; intros s self H; cbn [fold_left]; [exact H|].
  apply IH. apply a_cancel_trace. exact H.
Qed.

Lemma a_op_trace s o self s' r : trace_ok s -> a_op s o self = (s', r) -> trace_ok s'.
Proof.
  intros Ht H. destruct o as [id|tags any|tags any|]; cbn [a_op] in H.
  - destruct (nmem id (a_reg s)); inversion H; subst; [apply a_cancel_trace|]; exact Ht.
  - inversion H; subst. apply cancel_all_trace. exact Ht.
  - inversion H; subst. exact Ht.
  - inversion H; subst. exact Ht.
Qed.

Lemma a_prog_trace p : forall s self s' b, trace_ok s -> a_prog s p self = (s', b) -> trace_ok s'.
Proof.
  induction p as [|o r IH]; intros s self s' b Ht H; cbn [a_prog] in H; [inversion H; subst; exact Ht|].
  destruct (a_op s o (Some self)) as [s1 r1] eqn:E.
  pose proof (a_op_trace _ _ _ _ _ Ht E) as Ht1.
  destruct r1 as [v|e]; [apply (IH _ _ _ _ Ht1 H)|inversion H; subst; exact Ht1].
Qed.

(* ---- scheduling ---------------------------------------------------------------------------------------- *)
Lemma a_schedule_trace s c durs pre post sync s' r :
  trace_ok s -> a_schedule s c durs pre post sync = (s', r) -> trace_ok s'.
Proof.
  intros [Hw He] H. unfold a_schedule in H.
  destruct (job_create c (a_tz s) (a_now s)) as [j|e]; [|inversion H; subst; split; assumption].
  destruct (enter_loop (mkAjob j PDone (a_now s) durs pre post false sync) j (a_now s)) as [a live] eqn:Eel.
  inversion H; subst; clear H. split; [|exact He].
  intros x ax Hx. unfold a_get in Hx. cbn [a_jobs] in Hx.
  apply lookup_snoc_cases in Hx. destruct Hx as [->|Hx]; [exact (enter_loop_sleep_ok _ _ _ _ _ Eel)|exact (Hw x ax Hx)].
Qed.

(* ---- one resumption: the task of [id] may only be resumed once its wake-up instant has come ------------- *)
Definition wake_due (s : aio) (id : nat) : Prop :=
  forall a w, a_get s id = Some a -> aj_phase a = PSleep w -> w <= a_now s.

Lemma frame_events s evs : wake_ok s -> wake_ok (a_set s (a_reg s) (a_jobs s) evs).
Proof. intros Hw x ax Hx. exact (Hw x ax Hx). Qed.

Lemma a_resume_trace s id : trace_ok s -> wake_due s id -> trace_ok (a_resume s id).
Proof.
  intros [Hw He] Hd. unfold a_resume. destruct (a_get s id) as [a|] eqn:Hg; [|split; assumption].
  destruct (aj_phase a) eqn:Ep; try (split; assumption).
  - (* PSleep *)
    destruct (nth (Z.to_nat (j_attempts (aj_job a))) (aj_sync a) false).
    + destruct (job_calc (job_run (aj_job a) true) (dt_now (a_now s) (a_tz s))) as [j2|e]; [|split; assumption].
      destruct (enter_loop a j2 (a_now s)) as [a2 live] eqn:Eel.
      split; [apply wake_update; [exact Hw|exact (enter_loop_sleep_ok _ _ _ _ _ Eel)]|].
      unfold a_set; cbn [a_events]. constructor; [exact I|exact He].
    + set (s0 := a_set s (a_reg s) (a_jobs s) _).
      assert (Ht0 : trace_ok s0).
      { split; [apply frame_events; exact Hw|]. unfold s0, a_set; cbn [a_events]. constructor; [|exact He].
        cbn [start_ok]. pose proof (Hw id a Hg wake Ep). pose proof (Hd a wake Hg Ep). lia. }
      destruct (a_prog s0 (aj_pre a) id) as [s1 praised] eqn:Ep1.
      pose proof (a_prog_trace _ _ _ _ _ Ht0 Ep1) as [Hw1 He1].
      destruct (a_get s1 id) as [a1|] eqn:Hg1; [|split; assumption].
      destruct praised.
      * destruct (job_calc (job_run (aj_job a1) true) (dt_now (a_now s) (a_tz s))) as [j2|e]; [|split; assumption].
        destruct (enter_loop a1 j2 (a_now s)) as [a2 live] eqn:Eel.
        pose proof (enter_loop_sleep_ok _ _ _ _ _ Eel) as Ha2.
        split.
        -- apply wake_update; [exact Hw1|]. destruct (aj_kill a1); [destruct live; [apply set_phase_cancelled_ok|exact Ha2]|exact Ha2].
        -- unfold a_set; cbn [a_events]. constructor; [exact I|exact He1].
      * destruct (aj_kill a1).
        -- split; [apply wake_update; [exact Hw1|apply set_phase_cancelled_ok]|].
           unfold a_set; cbn [a_events]. constructor; [exact I|exact He1].
        -- split; [apply wake_update; [exact Hw1|apply set_phase_run_ok]|exact He1].
  - (* PRun *)
    set (s0 := a_set s (a_reg s) (a_jobs s) _).
    assert (Ht0 : trace_ok s0).
    { split; [apply frame_events; exact Hw|]. unfold s0, a_set; cbn [a_events]. constructor; [exact I|exact He]. }
    destruct (a_prog s0 (aj_post a) id) as [s1 praised] eqn:Ep1.
    pose proof (a_prog_trace _ _ _ _ _ Ht0 Ep1) as [Hw1 He1].
    destruct (a_get s1 id) as [a1|] eqn:Hg1; [|split; assumption].
    cbv zeta.
    destruct (job_calc (job_run (aj_job a1) (praised || outcome_of (aj_job a1))) (dt_now (a_now s) (a_tz s))) as [j2|e]; [|split; assumption].
    destruct (enter_loop a1 j2 (a_now s)) as [a2 live] eqn:Eel.
    pose proof (enter_loop_sleep_ok _ _ _ _ _ Eel) as Ha2.
    split.
    + apply wake_update; [exact Hw1|]. destruct (aj_kill a1); [destruct live; [apply set_phase_cancelled_ok|exact Ha2]|exact Ha2].
    + unfold a_set; cbn [a_events]. destruct (praised || outcome_of (aj_job a1)); [constructor; [exact I|exact He1]|exact He1].
Qed.

(* ---- the loop ------------------------------------------------------------------------------------------ *)
Lemma trace_now s t : trace_ok s -> trace_ok (mkAio (a_tz s) t (a_reg s) (a_jobs s) (a_next s) (a_events s)).
Proof. intros [Hw He]. split; [intros x ax Hx; exact (Hw x ax Hx)|exact He]. Qed.

Lemma a_run_trace fuel : forall s t s' ok,
  aio_inv s -> trace_ok s -> a_run fuel s t = (s', ok) -> trace_ok s'.
Proof.
  induction fuel as [|f IH]; intros s t s' ok Hi Ht H; cbn [a_run] in H; [inversion H; subst; exact Ht|].
  destruct (earliest (a_jobs s) None) as [[id w]|] eqn:Ee.
  - destruct (w <=? t).
    + set (s1 := mkAio (a_tz s) (Z.max (a_now s) w) (a_reg s) (a_jobs s) (a_next s) (a_events s)) in *.
      assert (Hi1 : aio_inv s1) by (apply inv_now; exact Hi).
      assert (Ht1 : trace_ok s1) by (apply trace_now; exact Ht).
      assert (Hd : wake_due s1 id).
      { intros a w' Hg Hp.
        destruct (earliest_active _ _ _ _ Ee) as [Hb|(a' & Hin & Hwk)]; [discriminate|].
        pose proof (in_lookup_nodup _ _ _ (ai_keys s Hi) Hin) as Hl.
        unfold a_get, s1 in Hg. cbn [a_jobs] in Hg. rewrite Hl in Hg. inversion Hg; subst a'.
        unfold wake_of in Hwk. rewrite Hp in Hwk. inversion Hwk; subst. unfold s1; cbn [a_now]. lia. }
      apply (IH _ _ _ _ (a_resume_inv _ id Hi1) (a_resume_trace s1 id Ht1 Hd) H).
    + inversion H; subst. apply trace_now. exact Ht.
  - inversion H; subst. apply trace_now. exact Ht.
Qed.

(* ---- every history ------------------------------------------------------------------------------------- *)
Lemma a_init_trace tz now : trace_ok (a_init tz now).
Proof. split; [intros x ax Hx; discriminate|constructor]. Qed.

Opaque RUN_FUEL.
Theorem a_step_trace s o s' r :
  aio_inv s -> wake_ok s -> atop_valid o -> a_step s o = (s', r) ->
  wake_ok s' /\ Forall start_ok (a_events s').
Proof.
  intros Hi Hw Hv H. unfold a_step in H.
  assert (Hi0 : aio_inv (a_clear s)) by (destruct Hi; constructor; assumption).
  assert (Ht0 : trace_ok (a_clear s)) by (split; [intros x ax Hx; exact (Hw x ax Hx)|constructor]).
  set (s0 := a_clear s) in *.
  assert (Hsettle : forall s1 r1, aio_inv s1 -> trace_ok s1 -> settle (s1, r1) = (s', r) -> trace_ok s').
  { intros s1 r1 H1 Ht1 Hs. unfold settle in Hs. cbn [fst snd] in Hs.
    destruct (a_run RUN_FUEL s1 (a_now s1)) as [s2 ok] eqn:Er. inversion Hs; subst.
    apply (a_run_trace _ _ _ _ _ H1 Ht1 Er). }
  destruct o as [c durs pre post sync|ot c durs pre post sync|o|t].
  - destruct Hv as [Hv1 Hv2]. destruct (a_schedule s0 c durs pre post sync) as [s1 r1] eqn:E.
    destruct (a_schedule_inv s0 c durs pre post sync s1 r1 Hv1 Hi0 E) as (H1 & _).
    apply (Hsettle s1 r1 H1 (a_schedule_trace _ _ _ _ _ _ _ _ Ht0 E) H).
  - destruct (a_schedule s0 (once_cfg ot c) durs pre post sync) as [s1 r1] eqn:E.
    destruct (a_schedule_inv s0 _ durs pre post sync s1 r1 (once_cfg_valid ot c Hv) Hi0 E) as (H1 & _).
    apply (Hsettle s1 r1 H1 (a_schedule_trace _ _ _ _ _ _ _ _ Ht0 E) H).
  - destruct (a_op s0 o None) as [s1 r1] eqn:E.
    destruct (a_op_inv s0 o None s1 r1 Hi0 E) as (H1 & _ & _).
    apply (Hsettle s1 r1 H1 (a_op_trace _ _ _ _ _ Ht0 E) H).
  - destruct (a_run RUN_FUEL s0 t) as [s1 ok] eqn:Er. inversion H; subst.
    apply (a_run_trace _ _ _ _ _ Hi0 Ht0 Er).
Qed.

(* all histories from the empty scheduler: the events of the last operation of ANY history of valid
   operations contain no early start, and every sleeping supervisor is set to wake at or after its
   job's due time *)
Fixpoint a_steps (s : aio) (ops : list atop) : aio :=
  match ops with [] => s | o :: r => a_steps (fst (a_step s o)) r end.

Theorem history_never_early tz now ops :
  Forall atop_valid ops ->
  let s := a_steps (a_init tz now) ops in
  aio_inv s /\ wake_ok s /\ Forall start_ok (a_events s).
Proof.
  intros Hv. cbv zeta.
  assert (G : forall s, aio_inv s -> trace_ok s ->
            aio_inv (a_steps s ops) /\ wake_ok (a_steps s ops) /\ Forall start_ok (a_events (a_steps s ops))).
  { induction Hv as [|o r Ho Hr IH]; intros s Hi [Hw He]; cbn [a_steps]; [auto|].
    destruct (a_step s o) as [s1 r1] eqn:E. cbn [fst].
    destruct (a_step_inv s o s1 r1 Hi Ho E) as (Hi1 & _).
    pose proof (a_step_trace s o s1 r1 Hi Hw Ho E) as Ht1.
    apply IH; assumption. }
  apply G; [apply a_init_inv|apply a_init_trace].
Qed.

(* ---- no further delay: the loop never runs past a pending wake-up --------------------------------------
   [pending_ok]: the wake-up instant of every suspended task (sleeping supervisor or running coroutine)
   is at or after the loop's current instant.  It holds in every reachable state; hence whenever the loop
   resumes a task it does so exactly AT that task's wake-up instant (which for a sleeping supervisor is
   max(reference, due) by [enter_loop_spec]), never later. *)
Definition pend_ok (a : ajob) (now : Z) : Prop := forall w, wake_of a = Some w -> now <= w.
Definition pending_ok (s : aio) : Prop := forall id a, In (id, a) (a_jobs s) -> pend_ok a (a_now s).

Lemma lookup_In {A} id (v : A) l : lookup id l = Some v -> In (id, v) l.
Proof.
  induction l as [|[k w] t IH]; cbn; [discriminate|].
  destruct (Nat.eqb k id) eqn:E; intros H.
  - apply Nat.eqb_eq in E. inversion H; subst. left; reflexivity.
  - right. apply IH. exact H.
Qed.

Lemma earliest_min l : forall best id w,
  earliest l best = Some (id, w) ->
  (forall bid bw, best = Some (bid, bw) -> w <= bw) /\
  (forall k a w', In (k, a) l -> wake_of a = Some w' -> w <= w').
Proof.
  induction l as [|[k a] r IH]; intros best id w H; cbn [earliest] in H.
  - subst best. split; [intros bid bw Hb; inversion Hb; lia|intros k a w' Hin; contradiction].
  - destruct (wake_of a) as [wa|] eqn:Ew.
    + destruct best as [[bid0 bw0]|].
      * destruct (wa <? bw0) eqn:Elt.
        -- apply Z.ltb_lt in Elt. destruct (IH _ _ _ H) as (Hb & Hr).
           pose proof (Hb k wa eq_refl) as Hwa.
           split; [intros bid bw Hbb; inversion Hbb; subst; lia|].
           intros k' a' w' [Heq|Hin] Hw'; [inversion Heq; subst; rewrite Ew in Hw'; inversion Hw'; subst; exact Hwa|exact (Hr k' a' w' Hin Hw')].
        -- apply Z.ltb_ge in Elt. destruct (IH _ _ _ H) as (Hb & Hr).
           pose proof (Hb bid0 bw0 eq_refl) as Hbw.
           split; [intros bid bw Hbb; inversion Hbb; subst; exact Hbw|].
           intros k' a' w' [Heq|Hin] Hw'; [inversion Heq; subst; rewrite Ew in Hw'; inversion Hw'; subst; lia|exact (Hr k' a' w' Hin Hw')].
      * destruct (IH _ _ _ H) as (Hb & Hr). pose proof (Hb k wa eq_refl) as Hwa.
        split; [intros bid bw Hbb; discriminate|].
        intros k' a' w' [Heq|Hin] Hw'; [inversion Heq; subst; rewrite Ew in Hw'; inversion Hw'; subst; exact Hwa|exact (Hr k' a' w' Hin Hw')].
    + destruct (IH _ _ _ H) as (Hb & Hr). split; [exact Hb|].
      intros k' a' w' [Heq|Hin] Hw'; [inversion Heq; subst; congruence|exact (Hr k' a' w' Hin Hw')].
Qed.

Lemma earliest_none l : forall best,
  earliest l best = None -> best = None /\ (forall k a w', In (k, a) l -> wake_of a <> Some w').
Proof.
  induction l as [|[k a] r IH]; intros best H; cbn [earliest] in H.
  - split; [exact H|intros k a w' Hin; contradiction].
  - destruct (wake_of a) as [wa|] eqn:Ew.
    + exfalso. destruct best as [[bid0 bw0]|].
      * destruct (wa <? bw0); destruct (IH _ H) as (Hb & _); discriminate.
      * destruct (IH _ H) as (Hb & _); discriminate.
    + destruct (IH _ H) as (Hb & Hr). split; [exact Hb|].
      intros k' a' w' [Heq|Hin]; [inversion Heq; subst; congruence|exact (Hr k' a' w' Hin)].
Qed.

Lemma in_update_cases {A} x id (v : A) l ax : In (x, ax) (update id v l) -> ax = v \/ In (x, ax) l.
Proof.
  induction l as [|[k w] t IH]; cbn [update]; [intros H; contradiction|].
  destruct (Nat.eqb k id).
  - intros [Heq|Hin]; [inversion Heq; left; reflexivity|right; right; exact Hin].
  - intros [Heq|Hin]; [right; left; exact Heq|]. destruct (IH Hin) as [->|H]; [left; reflexivity|right; right; exact H].
Qed.
Lemma pending_update s id a' reg evs :
  pending_ok s -> pend_ok a' (a_now s) -> pending_ok (a_set s reg (update id a' (a_jobs s)) evs).
Proof.
  intros Hp Ha x ax Hx. unfold a_set in Hx. cbn [a_jobs] in Hx. unfold a_set; cbn [a_now].
  apply in_update_cases in Hx. destruct Hx as [->|Hx]; [exact Ha|exact (Hp x ax Hx)].
Qed.

Lemma enter_loop_pend a j ref a2 live : enter_loop a j ref = (a2, live) -> pend_ok a2 ref.
Proof.
  unfold enter_loop, wake_time. destruct (has_attempts j); intros H; inversion H; subst; intros w Hp;
    unfold wake_of in Hp; cbn [aj_phase] in Hp; [inversion Hp; lia|discriminate].
Qed.
Lemma pend_cancelled a now : pend_ok (aj_set_phase a PCancelled) now.
Proof. intros w H. unfold wake_of in H. cbn [aj_set_phase aj_phase] in H. discriminate. Qed.
Lemma pend_run a now : pend_ok (aj_set_phase a (PRun (now + dur_of a))) now.
Proof.
  intros w H. unfold wake_of in H. cbn [aj_set_phase aj_phase] in H. inversion H. unfold dur_of. lia.
Qed.
Lemma pend_kill a now : pend_ok a now -> pend_ok (aj_set_kill a) now.
Proof. intros Ha w H. apply Ha. unfold wake_of in *. cbn [aj_set_kill aj_phase] in H. exact H. Qed.

Lemma a_cancel_pending s id self :
  pending_ok s -> pending_ok (a_cancel s id self) /\ a_now (a_cancel s id self) = a_now s.
Proof.
  intros Hp. unfold a_cancel. destruct (a_get s id) as [a|] eqn:Hg; [|split; [exact Hp|reflexivity]].
  pose proof (Hp id a (lookup_In _ _ _ Hg)) as Ha. split; [|reflexivity].
  apply pending_update; [exact Hp|].
  destruct (match self with Some x => Nat.eqb x id | None => false end); [apply pend_kill; exact Ha|].
  destruct (aj_phase a) eqn:Ep; first [apply pend_cancelled|exact Ha].
Qed.

Lemma cancel_all_pending sel : forall s self,
  pending_ok s -> pending_ok (fold_left (fun st id => a_cancel st id self) sel s) /\
                  a_now (fold_left (fun st id => a_cancel st id self) sel s) = a_now s.
Proof.
  induction sel as [|x r IH]; intros s self H; cbn [fold_left]; [split; [exact H|reflexivity]|].
  destruct (a_cancel_pending s x self H) as (H1 & N1).
  destruct (IH _ self H1) as (H2 & N2). split; [exact H2|congruence].
Qed.

Lemma a_op_pending s o self s' r : pending_ok s -> a_op s o self = (s', r) -> pending_ok s' /\ a_now s' = a_now s.
Proof.
  intros Hp H. destruct o as [id|tags any|tags any|]; cbn [a_op] in H.
  - destruct (nmem id (a_reg s)); inversion H; subst; [apply a_cancel_pending; exact Hp|split; [exact Hp|reflexivity]].
  - inversion H; subst. apply cancel_all_pending. exact Hp.
  - inversion H; subst. split; [exact Hp|reflexivity].
  - inversion H; subst. split; [exact Hp|reflexivity].
Qed.

Lemma a_prog_pending p : forall s self s' b,
  pending_ok s -> a_prog s p self = (s', b) -> pending_ok s' /\ a_now s' = a_now s.
Proof.
  induction p as [|o r IH]; intros s self s' b Hp H; cbn [a_prog] in H; [inversion H; subst; split; [exact Hp|reflexivity]|].
  destruct (a_op s o (Some self)) as [s1 r1] eqn:E.
  destruct (a_op_pending _ _ _ _ _ Hp E) as (H1 & N1).
  destruct r1 as [v|e].
  - destruct (IH _ _ _ _ H1 H) as (H2 & N2). split; [exact H2|congruence].
  - inversion H; subst. split; assumption.
Qed.

Lemma a_schedule_pending s c durs pre post sync s' r :
  pending_ok s -> a_schedule s c durs pre post sync = (s', r) -> pending_ok s' /\ a_now s' = a_now s.
Proof.
  intros Hp H. unfold a_schedule in H.
  destruct (job_create c (a_tz s) (a_now s)) as [j|e].
  - destruct (enter_loop (mkAjob j PDone (a_now s) durs pre post false sync) j (a_now s)) as [a live] eqn:Eel.
    inversion H; subst; clear H. split; [|reflexivity].
    intros x ax Hx. cbn [a_jobs] in Hx. cbn [a_now].
    apply in_app_or in Hx. destruct Hx as [Hx|[Heq|[]]]; [exact (Hp x ax Hx)|inversion Heq; subst; exact (enter_loop_pend _ _ _ _ _ Eel)].
  - inversion H; subst. split; [|reflexivity]. intros x ax Hx. exact (Hp x ax Hx).
Qed.

Lemma pending_events s evs : pending_ok s -> pending_ok (a_set s (a_reg s) (a_jobs s) evs).
Proof. intros Hp x ax Hx. exact (Hp x ax Hx). Qed.

Lemma a_resume_pending s id : pending_ok s -> pending_ok (a_resume s id) /\ a_now (a_resume s id) = a_now s.
Proof.
  intros Hp. unfold a_resume. destruct (a_get s id) as [a|] eqn:Hg; [|split; [exact Hp|reflexivity]].
  destruct (aj_phase a) eqn:Ep; try (split; [exact Hp|reflexivity]).
  - destruct (nth (Z.to_nat (j_attempts (aj_job a))) (aj_sync a) false).
    + destruct (job_calc (job_run (aj_job a) true) (dt_now (a_now s) (a_tz s))) as [j2|e]; [|split; [exact Hp|reflexivity]].
      destruct (enter_loop a j2 (a_now s)) as [a2 live] eqn:Eel.
      split; [|reflexivity]. apply pending_update; [exact Hp|exact (enter_loop_pend _ _ _ _ _ Eel)].
    + set (s0 := a_set s (a_reg s) (a_jobs s) _).
      assert (Hp0 : pending_ok s0) by (apply pending_events; exact Hp).
      destruct (a_prog s0 (aj_pre a) id) as [s1 praised] eqn:Ep1.
      destruct (a_prog_pending _ _ _ _ _ Hp0 Ep1) as (Hp1 & N1).
      assert (N : a_now s1 = a_now s) by (rewrite N1; reflexivity).
      destruct (a_get s1 id) as [a1|] eqn:Hg1; [|split; assumption].
      destruct praised.
      * destruct (job_calc (job_run (aj_job a1) true) (dt_now (a_now s) (a_tz s))) as [j2|e]; [|split; assumption].
        destruct (enter_loop a1 j2 (a_now s)) as [a2 live] eqn:Eel.
        pose proof (enter_loop_pend _ _ _ _ _ Eel) as Ha2. rewrite <- N in Ha2.
        split; [|exact N]. apply pending_update; [exact Hp1|].
        destruct (aj_kill a1); [destruct live; [apply pend_cancelled|exact Ha2]|exact Ha2].
      * destruct (aj_kill a1).
        -- split; [|exact N]. apply pending_update; [exact Hp1|apply pend_cancelled].
        -- split; [|exact N]. apply pending_update; [exact Hp1|]. rewrite N. apply pend_run.
  - set (s0 := a_set s (a_reg s) (a_jobs s) _).
    assert (Hp0 : pending_ok s0) by (apply pending_events; exact Hp).
    destruct (a_prog s0 (aj_post a) id) as [s1 praised] eqn:Ep1.
    destruct (a_prog_pending _ _ _ _ _ Hp0 Ep1) as (Hp1 & N1).
    assert (N : a_now s1 = a_now s) by (rewrite N1; reflexivity).
    destruct (a_get s1 id) as [a1|] eqn:Hg1; [|split; assumption].
    cbv zeta.
    destruct (job_calc (job_run (aj_job a1) (praised || outcome_of (aj_job a1))) (dt_now (a_now s) (a_tz s))) as [j2|e]; [|split; assumption].
    destruct (enter_loop a1 j2 (a_now s)) as [a2 live] eqn:Eel.
    pose proof (enter_loop_pend _ _ _ _ _ Eel) as Ha2. rewrite <- N in Ha2.
    split; [|exact N]. apply pending_update; [exact Hp1|].
    destruct (aj_kill a1); [destruct live; [apply pend_cancelled|exact Ha2]|exact Ha2].
Qed.

(* the loop resumes a task exactly at its wake-up instant *)
Theorem resume_at_wake s id w :
  pending_ok s -> earliest (a_jobs s) None = Some (id, w) -> Z.max (a_now s) w = w.
Proof.
  intros Hp He. destruct (earliest_active _ _ _ _ He) as [Hb|(a & Hin & Hw)]; [discriminate|].
  pose proof (Hp id a Hin w Hw). lia.
Qed.

Lemma pending_now s t :
  (forall k a w', In (k, a) (a_jobs s) -> wake_of a = Some w' -> t <= w') ->
  pending_ok (mkAio (a_tz s) t (a_reg s) (a_jobs s) (a_next s) (a_events s)).
Proof. intros H k a Hin w Hw. cbn [a_jobs a_now] in *. exact (H k a w Hin Hw). Qed.

Lemma a_run_pending fuel : forall s t s' ok, pending_ok s -> a_run fuel s t = (s', ok) -> pending_ok s'.
Proof.
  induction fuel as [|f IH]; intros s t s' ok Hp H; cbn [a_run] in H; [inversion H; subst; exact Hp|].
  destruct (earliest (a_jobs s) None) as [[id w]|] eqn:Ee.
  - destruct (earliest_min _ _ _ _ Ee) as (_ & Hmin).
    destruct (w <=? t) eqn:Ewt.
    + set (s1 := mkAio (a_tz s) (Z.max (a_now s) w) (a_reg s) (a_jobs s) (a_next s) (a_events s)) in *.
      assert (Hp1 : pending_ok s1).
      { apply pending_now. intros k a w' Hin Hw'. pose proof (Hp k a Hin w' Hw'). pose proof (Hmin k a w' Hin Hw'). lia. }
      destruct (a_resume_pending s1 id Hp1) as (Hp2 & _).
      apply (IH _ _ _ _ Hp2 H).
    + apply Z.leb_gt in Ewt. inversion H; subst. apply pending_now.
      intros k a w' Hin Hw'. pose proof (Hp k a Hin w' Hw'). pose proof (Hmin k a w' Hin Hw'). lia.
  - destruct (earliest_none _ _ Ee) as (_ & Hnone). inversion H; subst. apply pending_now.
    intros k a w' Hin Hw'. exfalso. exact (Hnone k a w' Hin Hw').
Qed.

Lemma a_init_pending tz now : pending_ok (a_init tz now).
Proof. intros k a Hin. contradiction. Qed.

Theorem a_step_pending s o s' r : pending_ok s -> a_step s o = (s', r) -> pending_ok s'.
Proof.
  intros Hp H. unfold a_step in H.
  assert (Hp0 : pending_ok (a_clear s)) by (intros k a Hin; exact (Hp k a Hin)).
  set (s0 := a_clear s) in *.
  assert (Hsettle : forall s1 r1, pending_ok s1 -> settle (s1, r1) = (s', r) -> pending_ok s').
  { intros s1 r1 H1 Hs. unfold settle in Hs. cbn [fst snd] in Hs.
    destruct (a_run RUN_FUEL s1 (a_now s1)) as [s2 ok] eqn:Er. inversion Hs; subst.
    apply (a_run_pending _ _ _ _ _ H1 Er). }
  destruct o as [c durs pre post sync|ot c durs pre post sync|o|t].
  - destruct (a_schedule s0 c durs pre post sync) as [s1 r1] eqn:E.
    destruct (a_schedule_pending _ _ _ _ _ _ _ _ Hp0 E) as (H1 & _). apply (Hsettle s1 r1 H1 H).
  - destruct (a_schedule s0 (once_cfg ot c) durs pre post sync) as [s1 r1] eqn:E.
    destruct (a_schedule_pending _ _ _ _ _ _ _ _ Hp0 E) as (H1 & _). apply (Hsettle s1 r1 H1 H).
  - destruct (a_op s0 o None) as [s1 r1] eqn:E.
    destruct (a_op_pending _ _ _ _ _ Hp0 E) as (H1 & _). apply (Hsettle s1 r1 H1 H).
  - destruct (a_run RUN_FUEL s0 t) as [s1 ok] eqn:Er. inversion H; subst.
    apply (a_run_pending _ _ _ _ _ Hp0 Er).
Qed.

(* every history (valid or not): no suspended task is ever overdue for resumption, so each resumption
   happens exactly at the task's wake-up instant *)
Theorem history_no_delay tz now ops :
  let s := a_steps (a_init tz now) ops in
  pending_ok s /\ (forall id w, earliest (a_jobs s) None = Some (id, w) -> Z.max (a_now s) w = w).
Proof.
  cbv zeta.
  assert (G : forall s, pending_ok s -> pending_ok (a_steps s ops)).
  { induction ops as [|o r IH]; intros s Hp; cbn [a_steps]; [exact Hp|].
    destruct (a_step s o) as [s1 r1] eqn:E. cbn [fst]. apply IH. apply (a_step_pending _ _ _ _ Hp E). }
  pose proof (G _ (a_init_pending tz now)) as Hp. split; [exact Hp|].
  intros id w He. apply (resume_at_wake _ _ _ Hp He).
Qed.
