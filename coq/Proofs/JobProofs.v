(* Proofs about the job model: creation establishes the job invariant, rescheduling preserves
   it and never raises (C01-C03, C06-C08, C13). *)
From Coq Require Import ZArith List Bool Lia ZifyBool.
From Sv Require Import PyTime Timer Job Occur TimerProofs.
Import ListNotations.
Open Scope Z_scope.

(* ---- small inversion helpers ------------------------------------------------------------ *)
Lemma bind_ok {A B} (r : res A) (f : A -> res B) b :
  bind r f = Ok b -> exists a, r = Ok a /\ f a = Ok b.
Proof. destruct r; cbn; intros H; [eauto|discriminate]. Qed.
Lemma bind_err {A B} (r : res A) (f : A -> res B) e :
  bind r f = Err e -> r = Err e \/ exists a, r = Ok a /\ f a = Err e.
Proof. destruct r; cbn; intros H; [right; eauto|left; inversion H; reflexivity]. Qed.

Lemma mapM_ok {A B} (f : A -> res B) l r :
  mapM f l = Ok r -> Forall2 (fun x y => f x = Ok y) l r.
Proof.
  revert r. induction l as [|x t IH]; cbn; intros r H.
  - inversion H. constructor.
  - apply bind_ok in H as (y & Hy & H). apply bind_ok in H as (ys & Hys & H). inversion H; subst.
    constructor; auto.
Qed.
Lemma mapM_total {A B} (f : A -> res B) l :
  (forall x, In x l -> exists y, f x = Ok y) -> exists r, mapM f l = Ok r.
Proof.
  induction l as [|x t IH]; intros H; cbn; [eauto|].
  destruct (H x (or_introl eq_refl)) as (y & Hy). rewrite Hy. cbn.
  destruct IH as (r & Hr); [intros; apply H; right; assumption|]. rewrite Hr. cbn. eauto.
Qed.
Lemma mapM_err {A B} (f : A -> res B) l e :
  mapM f l = Err e -> exists x, In x l /\ f x = Err e.
Proof.
  induction l as [|x t IH]; cbn; intros H; [discriminate|].
  apply bind_err in H as [H|(y & Hy & H)]; [exists x; auto|].
  apply bind_err in H as [H|(ys & Hys & H)]; [|discriminate].
  destruct (IH H) as (z & Hz & Hfz). exists z; auto.
Qed.

Lemma entry_aware_eq tg : entry_aware tg = entry_aware' tg.
Proof. destruct tg; unfold entry_aware, entry_aware', entry_off, t_aware; reflexivity. Qed.

(* ---- well-formed inputs -------------------------------------------------------------------- *)
(* what Python's own constructors guarantee about a timing entry (dt.time range checks, the
   Weekday classes' values) *)
Definition entry_valid (tg : timing) : Prop :=
  match tg with
  | TCyclic _ => True
  | TTime t => valid_time t
  | TWeekday w t => valid_time t /\ 0 <= w <= 6
  end.
Definition cfg_valid (c : jobcfg) : Prop := Forall entry_valid (c_timing c).

Lemma standardize_valid ty tg : entry_valid tg -> entry_valid (standardize_entry ty tg).
Proof.
  destruct ty, tg; cbn; auto; unfold valid_time, t_replace; cbn; intros; lia.
Qed.

Lemma sane_valid_entry ty tg : entry_sane ty tg = true -> entry_valid tg -> valid_entry ty tg.
Proof. destruct ty, tg; cbn; intros; try discriminate; auto. Qed.

(* ---- the job invariant ------------------------------------------------------------------------ *)
Definition timer_wf (ty : jobtype) (skip aw : bool) (tm : timer) : Prop :=
  jt_type tm = ty /\ jt_skip tm = skip /\ aware (jt_next tm) = aw /\
  match ty with
  | CYCLIC => exists T, jt_timing tm = TCyclic T
  | _ => timer_ok tm /\ entry_aware' (jt_timing tm) = aw
  end.

Record job_ok (j : job) : Prop := {
  jok_timers : Forall (timer_wf (c_type (j_cfg j)) (c_skip (j_cfg j)) (tz_aware (j_tz j))) (j_timers j);
  jok_pending : pending_index (j_timers j) = Ok (j_pending j);
  jok_timing : map jt_timing (j_timers j) = c_timing (j_cfg j);
  jok_start : aware (j_start j) = tz_aware (j_tz j);
  jok_stop : forall e, c_stop (j_cfg j) = Some e -> aware e = tz_aware (j_tz j);
  jok_mark : j_mark j = false -> forall e, c_stop (j_cfg j) = Some e ->
             utc (jt_next (pending_timer j)) <= utc e;
  jok_counts : 0 <= j_failed j <= j_attempts j
}.

Lemma all_same_awareness_of aw l :
  Forall (fun d => aware d = aw) l -> all_same_awareness l = true.
Proof.
  destruct l as [|d r]; [reflexivity|]. intros H. inversion H as [|? ? Hd Hr]; subst. cbn.
  apply forallb_forall. intros x Hx. rewrite Forall_forall in Hr. rewrite (Hr x Hx). apply eqb_reflx.
Qed.

Lemma pending_index_total ty skip aw tms :
  tms <> [] -> Forall (timer_wf ty skip aw) tms ->
  pending_index tms = Ok (argmin (map utc (map jt_next tms))).
Proof.
  intros Hne H. unfold pending_index. destruct tms as [|tm r]; [congruence|].
  rewrite (all_same_awareness_of aw); [reflexivity|].
  rewrite Forall_map. eapply Forall_impl; [|exact H]. intros a (_ & _ & Ha & _). exact Ha.
Qed.

Lemma argmin_from_lt i best bv l : (best < i)%nat -> (argmin_from i best bv l < i + length l)%nat.
Proof.
  revert i best bv. induction l as [|v r IH]; cbn; intros i best bv H; [lia|].
  destruct (v <? bv).
  - specialize (IH (S i) i v). lia.
  - specialize (IH (S i) best bv). lia.
Qed.
Lemma argmin_lt l : l <> [] -> (argmin l < length l)%nat.
Proof.
  destruct l as [|v r]; [congruence|]. intros _. cbn.
  destruct r as [|w r']; [cbn; lia|]. pose proof (argmin_from_lt 1 0 v (w :: r')). cbn in *. lia.
Qed.

Lemma pending_index_lt tms p : pending_index tms = Ok p -> (p < length tms)%nat.
Proof.
  unfold pending_index. destruct tms as [|tm r]; [discriminate|].
  destruct (all_same_awareness _); [|discriminate]. intros H; inversion H; subst.
  pose proof (argmin_lt (map utc (map jt_next (tm :: r)))) as Hl. rewrite !map_length in Hl.
  apply Hl. discriminate.
Qed.

Lemma nth_wf ty skip aw tms p :
  Forall (timer_wf ty skip aw) tms -> (p < length tms)%nat -> timer_wf ty skip aw (nth p tms dummy_timer).
Proof. intros H Hp. rewrite Forall_forall in H. apply H. apply nth_In. exact Hp. Qed.

Lemma past_stop_same stop d aw :
  aware d = aw -> (forall e, stop = Some e -> aware e = aw) ->
  past_stop stop d = Ok (match stop with Some e => utc e <? utc d | None => false end).
Proof.
  intros Hd Hs. unfold past_stop. destruct stop as [e|]; [|reflexivity].
  apply dt_gt_same. rewrite Hd. symmetry. apply Hs. reflexivity.
Qed.

(* ---- creation ------------------------------------------------------------------------------------ *)
Lemma aware_dt_now now tz : aware (dt_now now tz) = tz_aware tz.
Proof. destruct tz; reflexivity. Qed.
Lemma utc_dt_now now tz : utc (dt_now now tz) = now.
Proof. destruct tz; unfold dt_now, utc, oz; cbn [loc off]; lia. Qed.

Lemma set_start_ok start stop tz now s :
  set_start_check_stop start stop tz now = Ok s ->
  s = match start with Some x => x | None => dt_now now tz end /\
  aware s = tz_aware tz /\
  (forall e, stop = Some e -> aware e = tz_aware tz /\ utc s < utc e).
Proof.
  unfold set_start_check_stop. intros H. apply bind_ok in H as (s0 & Hs0 & H).
  assert (Hs : s0 = match start with Some x => x | None => dt_now now tz end /\ aware s0 = tz_aware tz).
  { destruct start as [x|].
    - destruct (xorb (aware x) (tz_aware tz)) eqn:E; [discriminate|]. inversion Hs0; subst.
      split; [reflexivity|]. destruct (aware s0), (tz_aware tz); cbn in E; congruence.
    - inversion Hs0; subst. split; [reflexivity|apply aware_dt_now]. }
  destruct Hs as [Hs1 Hs2].
  destruct stop as [e|].
  - destruct (xorb (aware e) (tz_aware tz)) eqn:E; [discriminate|].
    assert (Hae : aware e = tz_aware tz) by (destruct (aware e), (tz_aware tz); cbn in E; congruence).
    rewrite dt_ge_same in H by congruence. cbn [bind] in H.
    destruct (utc e <=? utc s0) eqn:E2; [discriminate|]. inversion H; subst s.
    split; [assumption|]. split; [assumption|]. intros e' He'. inversion He'; subst e'.
    split; [assumption|lia].
  - inversion H; subst s. split; [assumption|]. split; [assumption|]. intros e He. discriminate.
Qed.

Lemma set_start_err start stop tz now e :
  set_start_check_stop start stop tz now = Err e -> e = SchedulerError.
Proof.
  unfold set_start_check_stop. intros H. apply bind_err in H as [H|(s0 & Hs0 & H)].
  - destruct start as [x|]; [|discriminate]. destruct (xorb _ _); [inversion H; reflexivity|discriminate].
  - assert (Hs2 : aware s0 = tz_aware tz).
    { destruct start as [x|].
      - destruct (xorb (aware x) (tz_aware tz)) eqn:E; [discriminate|]. inversion Hs0; subst.
        destruct (aware s0), (tz_aware tz); cbn in E; congruence.
      - inversion Hs0; subst. apply aware_dt_now. }
    destruct stop as [x|]; [|discriminate].
    destruct (xorb (aware x) (tz_aware tz)) eqn:E; [inversion H; reflexivity|].
    assert (Hae : aware x = tz_aware tz) by (destruct (aware x), (tz_aware tz); cbn in E; congruence).
    rewrite dt_ge_same in H by congruence. cbn [bind] in H.
    destruct (utc x <=? utc s0); [inversion H; reflexivity|discriminate].
Qed.

Lemma timer_init_wf ty tg start skip aw :
  entry_sane ty tg = true -> entry_valid tg -> aware start = aw ->
  (ty <> CYCLIC -> entry_aware' tg = aw) ->
  exists tm, timer_init ty tg start skip = Ok tm /\ timer_wf ty skip aw tm /\ jt_timing tm = tg /\
             (ty <> CYCLIC -> is_next (occ ty tg) (utc start) (utc (jt_next tm))) /\
             (forall T, tg = TCyclic T -> jt_next tm = dt_add start T).
Proof.
  intros Hs Hv Ha Hea.
  destruct (jobtype_eqb ty CYCLIC) eqn:Ety.
  - destruct ty; try discriminate. destruct tg as [T| |]; try discriminate.
    rewrite timer_cyclic_init. eexists; split; [reflexivity|].
    split; [|split; [reflexivity|split; [congruence|intros T' HT; inversion HT; reflexivity]]].
    repeat split; cbn; eauto.
  - assert (Hty : ty <> CYCLIC) by (intros ->; discriminate).
    destruct (timer_init_is_next ty tg start skip Hty (sane_valid_entry _ _ Hs Hv))
      as (tm & Htm & Hok & H1 & H2 & H3 & H4).
    { rewrite Ha. symmetry. apply Hea. exact Hty. }
    exists tm. split; [exact Htm|]. split; [|split; [exact H2|split; [intros _; exact H4|]]].
    + split; [exact H1|]. split; [exact H3|]. split.
      * rewrite (aware_of_off _ (jt_timing tm)); [rewrite H2; apply Hea; exact Hty|apply Hok].
      * destruct ty; try congruence; (split; [exact Hok|rewrite H2; apply Hea; exact Hty]).
    + intros T ->. destruct ty; cbn in Hs; try discriminate; try congruence.
Qed.

Lemma forallb_Forall {A} (f : A -> bool) l : forallb f l = true -> Forall (fun x => f x = true) l.
Proof. rewrite forallb_forall, Forall_forall. auto. Qed.

Lemma negb_false_true b : negb b = false -> b = true.
Proof. destruct b; auto. Qed.

(* facts established by a successful job creation *)
Record created (c : jobcfg) (tz : option Z) (now : Z) (j : job) : Prop := {
  cr_ok : job_ok j;
  cr_tz : j_tz j = tz;
  cr_type : c_type (j_cfg j) = c_type c;
  cr_timing : c_timing (j_cfg j) = standardize_timing (c_type c) (c_timing c);
  cr_max : c_max_attempts (j_cfg j) = c_max_attempts c;
  cr_tags : c_tags (j_cfg j) = c_tags c;
  cr_delay : c_delay (j_cfg j) = c_delay c;
  cr_stop : c_stop (j_cfg j) = c_stop c;
  cr_skip : c_skip (j_cfg j) = c_skip c;
  cr_weight : c_wnum (j_cfg j) = c_wnum c /\ c_wden (j_cfg j) = c_wden c;
  cr_args : c_args (j_cfg j) = c_args c /\ c_kwargs (j_cfg j) = c_kwargs c /\ c_outs (j_cfg j) = c_outs c;
  cr_start : j_start j = match c_start c with Some x => x | None => dt_now now tz end;
  cr_stop_later : forall e, c_stop c = Some e -> utc (j_start j) < utc e;
  cr_counts : j_attempts j = 0 /\ j_failed j = 0;
  cr_first : Forall (fun tm => match c_type c with
                               | CYCLIC => forall T, jt_timing tm = TCyclic T -> jt_next tm = dt_add (j_start j) T
                               | ty => is_next (occ ty (jt_timing tm)) (utc (j_start j)) (utc (jt_next tm))
                               end) (j_timers j);
  cr_mark : j_mark j = match c_stop c with
                       | Some e => utc e <? utc (jt_next (pending_timer j))
                       | None => false
                       end
}.

Lemma timers_created ty skip aw start tgs tms :
  Forall (fun tg => entry_sane ty tg = true) tgs -> Forall entry_valid tgs -> aware start = aw ->
  (ty <> CYCLIC -> Forall (fun tg => entry_aware' tg = aw) tgs) ->
  Forall2 (fun tg tm => timer_init ty tg start skip = Ok tm) tgs tms ->
  Forall2 (fun tg tm => timer_wf ty skip aw tm /\ jt_timing tm = tg /\
                        (ty <> CYCLIC -> is_next (occ ty tg) (utc start) (utc (jt_next tm))) /\
                        (forall T, tg = TCyclic T -> jt_next tm = dt_add start T)) tgs tms.
Proof.
  intros Hsane Hvalid Hs Haw H. induction H as [|tg tm l l' Hx Hrest IH]; [constructor|].
  inversion Hsane as [|? ? Hs1 Hs2]. inversion Hvalid as [|? ? Hv1 Hv2].
  assert (Haw1 : ty <> CYCLIC -> entry_aware' tg = aw) by (intros Hty; specialize (Haw Hty); inversion Haw; assumption).
  assert (Haw2 : ty <> CYCLIC -> Forall (fun tg => entry_aware' tg = aw) l) by (intros Hty; specialize (Haw Hty); inversion Haw; assumption).
  constructor; [|apply IH; assumption].
  destruct (timer_init_wf ty tg start skip aw Hs1 Hv1 Hs Haw1) as (tm' & Htm' & Hwf).
  rewrite Hx in Htm'. injection Htm' as <-. exact Hwf.
Qed.

Theorem job_create_ok c tz now j :
  cfg_valid c -> job_create c tz now = Ok j -> created c tz now j.
Proof.
  intros Hv H. unfold job_create in H.
  remember (c_type c) as ty eqn:Hty0. remember (standardize_timing ty (c_timing c)) as tgs eqn:Htgs0.
  destruct (negb (sane_timing ty tgs)) eqn:E1; [discriminate|]. apply negb_false_true in E1.
  destruct (negb (timing_tz_ok ty tgs tz)) eqn:E2; [discriminate|]. apply negb_false_true in E2.
  destruct (negb (dup_ok ty tgs tz)) eqn:E3; [discriminate|]. apply negb_false_true in E3.
  apply bind_ok in H as (start & Hstart & H). apply bind_ok in H as (tms & Htms & H).
  apply bind_ok in H as (p & Hp & H). apply bind_ok in H as (mk & Hmk & H).
  apply set_start_ok in Hstart as (Hs1 & Hs2 & Hs3).
  unfold sane_timing in E1. apply andb_prop in E1 as [E1 E1'].
  apply forallb_Forall in E1.
  assert (Hvalid : Forall entry_valid tgs).
  { rewrite Htgs0. unfold standardize_timing. rewrite Forall_map. eapply Forall_impl; [|exact Hv].
    intros a Ha. apply standardize_valid. exact Ha. }
  assert (Haw : ty <> CYCLIC -> Forall (fun tg => entry_aware' tg = tz_aware tz) tgs).
  { intros Hty. unfold timing_tz_ok in E2. destruct ty; try congruence;
    apply forallb_Forall in E2; (eapply Forall_impl; [|exact E2]); intros a Ha; cbn in Ha;
    rewrite <- entry_aware_eq; unfold tz_aware; destruct (entry_aware a), tz; cbn in Ha; congruence. }
  apply mapM_ok in Htms.
  pose proof (timers_created ty (c_skip c) (tz_aware tz) start tgs tms E1 Hvalid Hs2 Haw Htms) as Hall.
  assert (Hwf : Forall (timer_wf ty (c_skip c) (tz_aware tz)) tms).
  { clear -Hall. induction Hall as [|? ? ? ? Hh ? IH]; constructor; [apply Hh|assumption]. }
  assert (Htiming : map jt_timing tms = tgs).
  { clear -Hall. induction Hall as [|? ? ? ? (_ & Hh & _) ? IH]; cbn; [reflexivity|]. rewrite Hh, IH. reflexivity. }
  pose proof (pending_index_lt _ _ Hp) as Hplt.
  pose proof (nth_wf _ _ _ _ _ Hwf Hplt) as (_ & _ & Hpaw & _).
  rewrite (past_stop_same _ _ (tz_aware tz)) in Hmk; [|exact Hpaw|intros e He; apply Hs3; exact He].
  inversion Hmk as [Hmk']; clear Hmk.
  inversion H as [Hj]; clear H.
  assert (Hmark : forall e, c_stop c = Some e -> mk = false ->
                            utc (jt_next (nth p tms dummy_timer)) <= utc e).
  { intros e He Hm. rewrite He, Hm in Hmk'. apply Z.ltb_ge in Hmk'. exact Hmk'. }
  assert (Hfirst : Forall (fun tm => match ty with
                               | CYCLIC => forall T, jt_timing tm = TCyclic T -> jt_next tm = dt_add start T
                               | ty' => is_next (occ ty' (jt_timing tm)) (utc start) (utc (jt_next tm))
                               end) tms).
  { clear -Hall. induction Hall as [|tg tm ? ? (Hw & Ht & Hn & Hc) ? IH]; constructor; [|exact IH].
    destruct ty eqn:Ety; try (rewrite Ht; apply Hn; congruence).
    intros T HT. apply Hc. congruence. }
  constructor; cbn;
    try reflexivity; try assumption; try congruence; try (split; reflexivity); try (repeat split; reflexivity).
  - constructor; cbn; try assumption; try lia;
      try solve [intros e He; apply Hs3; exact He
                | unfold pending_timer; cbn; intros Hm e He; apply Hmark; assumption].
  - intros e He; apply Hs3; exact He.
  - rewrite <- Hty0. eapply Forall_impl; [|exact Hfirst]. intros a Ha. destruct ty; exact Ha.
Qed.

(* ---- rescheduling ---------------------------------------------------------------------------------- *)
Lemma timer_calc_wf ty skip aw tm ref :
  timer_wf ty skip aw tm -> aware ref = aw -> (skip = true -> utc (jt_next tm) <= utc ref) ->
  exists tm', timer_calc tm (Some ref) = Ok tm' /\ timer_wf ty skip aw tm' /\ jt_timing tm' = jt_timing tm.
Proof.
  intros (Hty & Hsk & Haw & Hrest) Hr Hdue.
  destruct (jobtype_eqb ty CYCLIC) eqn:Ety.
  - (* cyclic *)
    destruct ty; try discriminate.
    destruct Hrest as (T & HT). destruct tm as [ty' tg nxt sk]. cbn in *. subst ty' tg sk.
    destruct skip.
    + rewrite timer_cyclic_skip. eexists; split; [reflexivity|]. cbn.
      split; [repeat split; cbn; eauto|reflexivity].
    + rewrite timer_cyclic_advance. eexists; split; [reflexivity|]. cbn.
      split; [repeat split; cbn; eauto|reflexivity].
  - assert (Hne : ty <> CYCLIC) by (intros ->; discriminate).
    assert (Hok : timer_ok tm /\ entry_aware' (jt_timing tm) = aw) by (destruct ty; try congruence; exact Hrest).
    destruct Hok as [Hok Hea].
    destruct skip.
    + destruct (timer_skip tm ref Hok Hsk) as (tm' & Htm' & Hok' & H1 & H2 & H3 & H4 & H5 & H6).
      { rewrite Hr. symmetry. exact Hea. }
      { apply Hdue. reflexivity. }
      exists tm'. split; [exact Htm'|]. split; [|exact H2].
      split; [congruence|]. split; [congruence|]. split.
      * rewrite (aware_of_off _ (jt_timing tm')); [rewrite H2; exact Hea|apply Hok'].
      * destruct ty; try congruence; (split; [exact Hok'|rewrite H2; exact Hea]).
    + destruct (timer_advance tm (Some ref) Hok Hsk) as (tm' & Htm' & Hok' & H1 & H2 & H3 & H4).
      exists tm'. split; [exact Htm'|]. split; [|exact H2].
      split; [congruence|]. split; [congruence|]. split.
      * rewrite (aware_of_off _ (jt_timing tm')); [rewrite H2; exact Hea|apply Hok'].
      * destruct ty; try congruence; (split; [exact Hok'|rewrite H2; exact Hea]).
Qed.

Lemma replace_nth_length {A} n (l : list A) x : length (replace_nth n l x) = length l.
Proof. revert n. induction l; destruct n; cbn; auto. Qed.
Lemma replace_nth_Forall {A} (P : A -> Prop) n l x :
  Forall P l -> P x -> Forall P (replace_nth n l x).
Proof.
  revert n. induction l as [|y r IH]; destruct n; cbn; intros Hl Hx; auto; inversion Hl; subst; constructor; auto.
Qed.
Lemma replace_nth_map {A B} (f : A -> B) n l x :
  (n < length l)%nat -> f x = f (nth n l x) -> map f (replace_nth n l x) = map f l.
Proof.
  revert n. induction l as [|y r IH]; destruct n; cbn; intros Hl Hx; try lia; [congruence|].
  f_equal. apply IH; [lia|exact Hx].
Qed.

Lemma pending_nonempty tms p : pending_index tms = Ok p -> tms <> [].
Proof. destruct tms; [discriminate|discriminate]. Qed.

(* the timers after _calc_next_exec, as a relation (used for the value-level theorems) *)
Definition calc_timers (j : job) (ref : datetime) : res (list timer) :=
  if c_skip (j_cfg j) then
    mapM (fun tm => d <- dt_sub (jt_next tm) ref ;;
                    if ts_le d 0 then timer_calc tm (Some ref) else Ok tm) (j_timers j)
  else if c_delay (j_cfg j) || negb (j_attempts j =? 1) then
    (tm' <- timer_calc (pending_timer j) (Some ref) ;;
     Ok (replace_nth (j_pending j) (j_timers j) tm'))
  else Ok (j_timers j).

Lemma job_calc_unfold j ref :
  job_calc j ref =
    (tms <- calc_timers j ref ;;
     p <- pending_index tms ;;
     mk <- past_stop (c_stop (j_cfg j)) (jt_next (nth p tms dummy_timer)) ;;
     Ok (set_timers j tms p (j_mark j || mk))).
Proof. reflexivity. Qed.

Lemma skip_timers_ok ty aw l ref :
  Forall (timer_wf ty true aw) l -> aware ref = aw ->
  exists tms, mapM (fun tm => d <- dt_sub (jt_next tm) ref ;;
                              if ts_le d 0 then timer_calc tm (Some ref) else Ok tm) l = Ok tms /\
              Forall (timer_wf ty true aw) tms /\ map jt_timing tms = map jt_timing l.
Proof.
  intros Hwf Hr. induction Hwf as [|tm r Hw1 Hw2 IH]; cbn; [eexists; split; [reflexivity|split; [constructor|reflexivity]]|].
  pose proof Hw1 as (_ & _ & Haw1 & _).
  rewrite dt_sub_same by congruence. cbn [bind].
  destruct IH as (tms & Htms & Hwf' & Hmap).
  destruct (ts_le (utc (jt_next tm) - utc ref) 0) eqn:Ele.
  - destruct (timer_calc_wf _ _ _ tm ref Hw1 Hr) as (tm' & Htm' & Hwf1 & Htg1).
    { intros _. unfold ts_le in Ele. lia. }
    rewrite Htm'. cbn [bind]. rewrite Htms. cbn [bind]. eexists; split; [reflexivity|]. split; [constructor; assumption|].
    cbn. rewrite Htg1, Hmap. reflexivity.
  - cbn [bind]. rewrite Htms. cbn [bind]. eexists; split; [reflexivity|]. split; [constructor; assumption|]. cbn. rewrite Hmap. reflexivity.
Qed.

Lemma replace_nth_timing n l tm' :
  (n < length l)%nat -> jt_timing tm' = jt_timing (nth n l dummy_timer) ->
  map jt_timing (replace_nth n l tm') = map jt_timing l.
Proof.
  revert n. induction l as [|y r IH]; destruct n; cbn; intros Hl Hx; try lia; [congruence|].
  f_equal. apply IH; [lia|exact Hx].
Qed.

Lemma calc_timers_ok j ref :
  job_ok j -> aware ref = tz_aware (j_tz j) ->
  exists tms, calc_timers j ref = Ok tms /\
              Forall (timer_wf (c_type (j_cfg j)) (c_skip (j_cfg j)) (tz_aware (j_tz j))) tms /\
              map jt_timing tms = map jt_timing (j_timers j).
Proof.
  intros Hok Hr. destruct Hok as [Hwf Hp Htg Hst Hsp Hmk Hc].
  unfold calc_timers. destruct (c_skip (j_cfg j)) eqn:Esk.
  - apply skip_timers_ok; assumption.
  - pose proof (pending_index_lt _ _ Hp) as Hlt.
    destruct (c_delay (j_cfg j) || negb (j_attempts j =? 1)).
    + pose proof (nth_wf _ _ _ _ _ Hwf Hlt) as Hpw. fold (pending_timer j) in Hpw.
      destruct (timer_calc_wf _ _ _ (pending_timer j) ref Hpw Hr) as (tm' & Htm' & Hwf1 & Htg1).
      { discriminate. }
      rewrite Htm'. cbn. eexists; split; [reflexivity|]. split.
      * apply replace_nth_Forall; assumption.
      * apply replace_nth_timing; assumption.
    + eexists; split; [reflexivity|]. split; [assumption|reflexivity].
Qed.

(* _calc_next_exec never raises on a well-formed job and keeps it well formed *)
Theorem job_calc_ok j ref :
  job_ok j -> aware ref = tz_aware (j_tz j) ->
  exists j', job_calc j ref = Ok j' /\ job_ok j' /\
             j_cfg j' = j_cfg j /\ j_tz j' = j_tz j /\ j_start j' = j_start j /\
             j_attempts j' = j_attempts j /\ j_failed j' = j_failed j /\
             (j_mark j = true -> j_mark j' = true) /\
             calc_timers j ref = Ok (j_timers j') /\
             j_mark j' = (j_mark j || match c_stop (j_cfg j) with
                                      | Some e => utc e <? utc (jt_next (pending_timer j'))
                                      | None => false
                                      end).
Proof.
  intros Hok Hr. destruct (calc_timers_ok j ref Hok Hr) as (tms & Htms & Hwf & Hmap).
  rewrite job_calc_unfold, Htms. cbn [bind].
  destruct Hok as [Hwf0 Hp Htg Hst Hsp Hmk Hc].
  assert (Hne : tms <> []).
  { pose proof (pending_nonempty _ _ Hp) as Hne0. intros ->. destruct (j_timers j); [congruence|discriminate]. }
  rewrite (pending_index_total _ _ _ _ Hne Hwf). cbn [bind].
  set (p := argmin (map utc (map jt_next tms))).
  assert (Hplt : (p < length tms)%nat).
  { subst p. pose proof (argmin_lt (map utc (map jt_next tms))) as Hl. rewrite !map_length in Hl. apply Hl.
    destruct tms; [congruence|discriminate]. }
  pose proof (nth_wf _ _ _ _ _ Hwf Hplt) as (_ & _ & Hpaw & _).
  rewrite (past_stop_same _ _ (tz_aware (j_tz j)) Hpaw Hsp). cbn [bind].
  eexists; split; [reflexivity|].
  unfold set_timers; cbn.
  split; [|repeat split; try reflexivity; try (intros ->; reflexivity)].
  constructor; cbn; try assumption.
  - apply (pending_index_total _ _ _ _ Hne Hwf).
  - congruence.
  - unfold pending_timer; cbn. fold p. intros Hm e He. rewrite He in Hm.
    apply orb_false_elim in Hm as [_ Hm]. lia.
Qed.

(* ---- the life of a job: run, then reschedule ---------------------------------------------------- *)
Definition job_cycle (j : job) (run : bool * datetime) : res job :=
  job_calc (job_run j (fst run)) (snd run).
Fixpoint job_cycles (j : job) (runs : list (bool * datetime)) : res job :=
  match runs with
  | [] => Ok j
  | r :: rest => j' <- job_cycle j r ;; job_cycles j' rest
  end.

Lemma job_run_ok j b : job_ok j -> job_ok (job_run j b).
Proof.
  intros [H1 H2 H3 H4 H5 H6 H7]. constructor; cbn; try assumption. destruct b; lia.
Qed.

(* single-timer clock jobs (minutely/hourly/daily/weekly, one entry), delay = True, no skip *)
Definition single_clock (j : job) (tg : timing) : Prop :=
  job_ok j /\ c_type (j_cfg j) <> CYCLIC /\ c_skip (j_cfg j) = false /\ c_delay (j_cfg j) = true /\
  exists tm, j_timers j = [tm] /\ jt_timing tm = tg.

Lemma single_clock_due j tg :
  single_clock j tg ->
  exists tm, j_timers j = [tm] /\ job_datetime j = jt_next tm /\ timer_ok tm /\ jt_timing tm = tg /\
             jt_type tm = c_type (j_cfg j) /\ jt_skip tm = false.
Proof.
  intros (Hok & Hty & Hsk & Hdl & tm & Htm & Htg). exists tm. split; [exact Htm|].
  destruct Hok as [Hwf Hp _ _ _ _ _]. rewrite Htm in *. inversion Hwf as [|? ? (H1 & H2 & H3 & H4) _]; subst.
  assert (Hp0 : j_pending j = O).
  { unfold pending_index in Hp. destruct (all_same_awareness _); inversion Hp. reflexivity. }
  split.
  - unfold job_datetime, pending_timer. rewrite Hdl, Htm, Hp0. reflexivity.
  - destruct (c_type (j_cfg j)); try congruence; destruct H4 as [H4 _];
      (split; [exact H4|]); repeat split; try assumption; congruence.
Qed.

Theorem clock_job_cycle j tg run :
  single_clock j tg -> aware (snd run) = tz_aware (j_tz j) ->
  exists j', job_cycle j run = Ok j' /\ single_clock j' tg /\
             j_cfg j' = j_cfg j /\ j_tz j' = j_tz j /\
             j_attempts j' = j_attempts j + 1 /\
             utc (job_datetime j') = utc (job_datetime j) + period_of (c_type (j_cfg j)).
Proof.
  intros Hs Hr. destruct (single_clock_due j tg Hs) as (tm & Htm & Hdue & Htok & Htg & Htty & Htsk).
  destruct Hs as (Hok & Hty & Hsk & Hdl & _).
  unfold job_cycle.
  pose proof (job_run_ok j (fst run) Hok) as Hok1.
  destruct (job_calc_ok (job_run j (fst run)) (snd run) Hok1 Hr)
    as (j' & Hj' & Hok' & Hcfg & Htz & Hst & Hat & Hfl & _ & Hct & _).
  exists j'. split; [exact Hj'|].
  (* the timers of j' *)
  unfold calc_timers in Hct. cbn [job_run j_cfg j_attempts j_timers] in Hct.
  rewrite Hsk, Hdl in Hct. cbn [orb] in Hct.
  assert (Hp0 : j_pending j = O).
  { destruct Hok as [_ Hp _ _ _ _ _]. rewrite Htm in Hp. unfold pending_index in Hp.
    destruct (all_same_awareness _); inversion Hp. reflexivity. }
  unfold pending_timer in Hct. cbn [job_run j_pending j_timers] in Hct. rewrite Htm, Hp0 in Hct. cbn [nth] in Hct.
  destruct (timer_advance tm (Some (snd run)) Htok Htsk) as (tm' & Htm' & Htok' & H1 & H2 & H3 & H4).
  rewrite Htm' in Hct. cbn in Hct. inversion Hct as [Hct']. symmetry in Hct'.
  assert (Hs' : single_clock j' tg).
  { split; [exact Hok'|]. rewrite Hcfg. cbn. repeat split; try assumption. exists tm'. split; [exact Hct'|congruence]. }
  split; [exact Hs'|].
  destruct (single_clock_due j' tg Hs') as (tm2 & Htm2 & Hdue2 & _).
  rewrite Hct' in Htm2. inversion Htm2; subst tm2.
  repeat split; try assumption.
  - rewrite Hdue2, Hdue, H4, Htty. reflexivity.
Qed.

Theorem clock_job_cycles j tg runs :
  single_clock j tg -> Forall (fun r => aware (snd r) = tz_aware (j_tz j)) runs ->
  exists j', job_cycles j runs = Ok j' /\ single_clock j' tg /\
             j_cfg j' = j_cfg j /\ j_tz j' = j_tz j /\
             j_attempts j' = j_attempts j + Z.of_nat (length runs) /\
             utc (job_datetime j') =
               utc (job_datetime j) + Z.of_nat (length runs) * period_of (c_type (j_cfg j)).
Proof.
  intros Hs Hr. revert j Hs Hr. induction runs as [|r rest IH]; intros j Hs Hr.
  - exists j. split; [reflexivity|]. split; [exact Hs|]. repeat split; try reflexivity; cbn; lia.
  - inversion Hr as [|? ? Hr1 Hr2]; subst.
    destruct (clock_job_cycle j tg r Hs Hr1) as (j1 & Hj1 & Hs1 & Hc1 & Htz1 & Hat1 & Hd1).
    destruct (IH j1 Hs1) as (j' & Hj' & Hs' & Hc' & Htz' & Hat' & Hd').
    { rewrite Htz1. exact Hr2. }
    exists j'. cbn [job_cycles]. rewrite Hj1. cbn [bind]. split; [exact Hj'|]. split; [exact Hs'|].
    rewrite Hc', Hc1 in *. repeat split; try congruence.
    + rewrite Hat', Hat1. cbn [length]. lia.
    + rewrite Hd', Hd1. cbn [length]. lia.
Qed.

(* a freshly created single-entry clock job *)
Theorem created_single_clock c tz now j tg :
  cfg_valid c -> job_create c tz now = Ok j -> c_type c <> CYCLIC -> c_timing c = [tg] ->
  c_skip c = false -> c_delay c = true ->
  let tg' := standardize_entry (c_type c) tg in
  single_clock j tg' /\ j_tz j = tz /\
  is_next (occ (c_type c) tg')
          (utc (match c_start c with Some s => s | None => dt_now now tz end))
          (utc (job_datetime j)) /\
  (forall e, c_stop c = Some e -> j_mark j = false -> utc (job_datetime j) <= utc e).
Proof.
  intros Hv Hc Hty Htg Hsk Hdl tg'.
  pose proof (job_create_ok c tz now j Hv Hc) as Hcr.
  destruct Hcr as [Hok Htz Hcty Hctg _ _ Hcdl Hcstop Hcsk _ _ Hstart _ _ Hfirst Hmark].
  rewrite Htg in Hctg. cbn in Hctg.
  pose proof (jok_timing j Hok) as Hmap. rewrite Hctg in Hmap.
  destruct (j_timers j) as [|tm [|tm2 r]] eqn:Etm; cbn in Hmap; try discriminate.
  inversion Hmap as [Htm].
  assert (Hs : single_clock j tg').
  { split; [exact Hok|]. rewrite Hcty, Hcsk, Hcdl. repeat split; try assumption. exists tm. split; [exact Etm|exact Htm]. }
  split; [exact Hs|]. split; [exact Htz|].
  destruct (single_clock_due j tg' Hs) as (tm' & Htm' & Hdue & _). rewrite Etm in Htm'. inversion Htm'; subst tm'.
  split.
  - inversion Hfirst as [|? ? Hf _]; subst. rewrite Hdue, <- Hstart.
    destruct (c_type c); try congruence; rewrite Htm in Hf; exact Hf.
  - intros e He Hm. rewrite Hdue. pose proof (jok_mark j Hok Hm e) as Hle. rewrite Hcstop in Hle.
    specialize (Hle He). unfold pending_timer in Hle.
    assert (Hp0 : j_pending j = O).
    { pose proof (jok_pending j Hok) as Hp. rewrite Etm in Hp. unfold pending_index in Hp.
      destruct (all_same_awareness _); inversion Hp. reflexivity. }
    rewrite Etm, Hp0 in Hle. exact Hle.
Qed.

(* ---- statements used by Props/C01.v and Props/C02.v ------------------------------------------ *)
Definition clock_type (ty : jobtype) : Prop := ty <> CYCLIC.

(* whole life of a single-entry clock job created by a scheduling call: first due instant is the
   earliest occurrence after the reference, the k-th execution moves it by exactly k periods,
   whatever the polling instants and callback outcomes *)
Theorem clock_job_due_sequence c tz now j tg runs :
  cfg_valid c -> job_create c tz now = Ok j -> clock_type (c_type c) -> c_timing c = [tg] ->
  c_skip c = false -> c_delay c = true ->
  Forall (fun r => aware (snd r) = tz_aware tz) runs ->
  let tg' := standardize_entry (c_type c) tg in
  let ref := utc (match c_start c with Some s => s | None => dt_now now tz end) in
  is_next (occ (c_type c) tg') ref (utc (job_datetime j)) /\
  exists j', job_cycles j runs = Ok j' /\
             j_attempts j' = Z.of_nat (length runs) /\
             utc (job_datetime j') = utc (job_datetime j) + Z.of_nat (length runs) * period_of (c_type c) /\
             occ (c_type c) tg' (utc (job_datetime j')).
Proof.
  intros Hv Hc Hty Htg Hsk Hdl Hr tg' ref.
  destruct (created_single_clock c tz now j tg Hv Hc Hty Htg Hsk Hdl) as (Hs & Htz & Hnext & _).
  split; [exact Hnext|].
  destruct (clock_job_cycles j tg' runs Hs) as (j' & Hj' & Hs' & Hcfg & Htz' & Hat & Hdue).
  { rewrite Htz. exact Hr. }
  pose proof (job_create_ok c tz now j Hv Hc) as Hcr.
  exists j'. split; [exact Hj'|]. split; [rewrite Hat, (proj1 (cr_counts _ _ _ _ Hcr)); lia|].
  split; [rewrite Hdue, (cr_type _ _ _ _ Hcr); reflexivity|].
  destruct (single_clock_due j' tg' Hs') as (tm & _ & Hd & Hok & Htg2 & Hty2 & _).
  rewrite Hd. pose proof (tok_occ tm Hok) as Ho. rewrite Htg2, Hty2, Hcfg, (cr_type _ _ _ _ Hcr) in Ho. exact Ho.
Qed.

Lemma period_pos ty : ty <> CYCLIC -> 0 < period_of ty.
Proof. destruct ty; cbn; unfold MN, HR, D, WK; try congruence; lia. Qed.

(* the reported timedelta is the distance of the reported due instant *)
Theorem job_timedelta_spec j x :
  aware x = aware (job_datetime j) -> job_timedelta j x = Ok (utc (job_datetime j) - utc x).
Proof. intros H. unfold job_timedelta. apply dt_sub_same. congruence. Qed.

(* fields a minutely / hourly job ignores *)
Theorem minutely_ignores_hour_minute now t h m :
  m_next_minutely now (t_replace t (Some h) (Some m)) = m_next_minutely now t.
Proof. reflexivity. Qed.
Theorem hourly_ignores_hour now t h :
  m_next_hourly now (t_replace t (Some h) None) = m_next_hourly now t.
Proof. reflexivity. Qed.
Theorem standardize_same_occurrences ty t x :
  occ ty (standardize_entry ty (TTime t)) x <-> occ ty (TTime t) x.
Proof. destruct ty; cbn; try tauto; unfold occ_minutely, occ_hourly; cbn; tauto. Qed.

(* ---- a rejected creation is always a SchedulerError (C13): never a TypeError ------------------- *)
Theorem job_create_err c tz now e :
  cfg_valid c -> c_timing c <> [] -> job_create c tz now = Err e -> e = SchedulerError.
Proof.
  intros Hv Hne H. unfold job_create in H.
  remember (c_type c) as ty eqn:Hty0. remember (standardize_timing ty (c_timing c)) as tgs eqn:Htgs0.
  destruct (negb (sane_timing ty tgs)) eqn:E1; [inversion H; reflexivity|]. apply negb_false_true in E1.
  destruct (negb (timing_tz_ok ty tgs tz)) eqn:E2; [inversion H; reflexivity|]. apply negb_false_true in E2.
  destruct (negb (dup_ok ty tgs tz)) eqn:E3; [inversion H; reflexivity|].
  apply bind_err in H as [H|(start & Hstart & H)]; [apply set_start_err in H; exact H|].
  apply set_start_ok in Hstart as (Hs1 & Hs2 & Hs3).
  unfold sane_timing in E1. apply andb_prop in E1 as [E1 E1']. apply forallb_Forall in E1.
  assert (Hvalid : Forall entry_valid tgs).
  { rewrite Htgs0. unfold standardize_timing. rewrite Forall_map. eapply Forall_impl; [|exact Hv].
    intros a Ha. apply standardize_valid. exact Ha. }
  assert (Haw : ty <> CYCLIC -> Forall (fun tg => entry_aware' tg = tz_aware tz) tgs).
  { intros Hty. unfold timing_tz_ok in E2. destruct ty; try congruence;
    apply forallb_Forall in E2; (eapply Forall_impl; [|exact E2]); intros a Ha; cbn in Ha;
    rewrite <- entry_aware_eq; unfold tz_aware; destruct (entry_aware a), tz; cbn in Ha; congruence. }
  (* timers are always created *)
  assert (Htot : exists tms, mapM (fun tg => timer_init ty tg start (c_skip c)) tgs = Ok tms).
  { apply mapM_total. intros tg Hin. rewrite Forall_forall in E1, Hvalid.
    destruct (timer_init_wf ty tg start (c_skip c) (tz_aware tz) (E1 tg Hin) (Hvalid tg Hin) Hs2) as (tm & Htm & _).
    - intros Hty. specialize (Haw Hty). rewrite Forall_forall in Haw. apply Haw. exact Hin.
    - eauto. }
  destruct Htot as (tms & Htms). rewrite Htms in H. cbn [bind] in H.
  pose proof (mapM_ok _ _ _ Htms) as Hf2.
  pose proof (timers_created ty (c_skip c) (tz_aware tz) start tgs tms E1 Hvalid Hs2 Haw Hf2) as Hall.
  assert (Hwf : Forall (timer_wf ty (c_skip c) (tz_aware tz)) tms).
  { clear -Hall. induction Hall as [|? ? ? ? Hh ? IH]; constructor; [apply Hh|assumption]. }
  assert (Hne' : tms <> []).
  { intros ->. inversion Hf2 as [Hnil|]. rewrite Htgs0 in Hnil. unfold standardize_timing in Hnil.
    destruct (c_timing c); [congruence|discriminate]. }
  rewrite (pending_index_total _ _ _ _ Hne' Hwf) in H. cbn [bind] in H.
  set (p := argmin (map utc (map jt_next tms))) in H.
  assert (Hplt : (p < length tms)%nat).
  { subst p. pose proof (argmin_lt (map utc (map jt_next tms))) as Hl. rewrite !map_length in Hl. apply Hl.
    destruct tms; [congruence|discriminate]. }
  pose proof (nth_wf _ _ _ _ _ Hwf Hplt) as (_ & _ & Hpaw & _).
  rewrite (past_stop_same _ _ (tz_aware tz)) in H; [|exact Hpaw|intros x Hx; apply Hs3; exact Hx].
  cbn [bind] in H. discriminate.
Qed.
