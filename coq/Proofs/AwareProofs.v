(* C13: naive/aware mixing is rejected up front. *)
From Coq Require Import ZArith List Bool Lia.
From Sv Require Import PyTime Timer Job Sched Occur TimerProofs JobProofs BatchProofs SchedProofs.
Import ListNotations.
Open Scope Z_scope.

(* a scheduling call (or the Job constructor) succeeds only if every time / weekday trigger,
   start and stop has the awareness of the scheduler *)
Theorem created_uniform_awareness c tz now j :
  job_create c tz now = Ok j ->
  (c_type c <> CYCLIC -> forall tg, In tg (c_timing c) -> entry_aware tg = tz_aware tz) /\
  (forall s, c_start c = Some s -> aware s = tz_aware tz) /\
  (forall e, c_stop c = Some e -> aware e = tz_aware tz).
Proof.
  intros Hc. destruct (job_create_checks c tz now j Hc) as (_ & E2 & _).
  unfold job_create in Hc.
  destruct (negb (sane_timing _ _)); [discriminate|]. destruct (negb (timing_tz_ok _ _ _)); [discriminate|].
  destruct (negb (dup_ok _ _ _)); [discriminate|].
  apply bind_ok in Hc as (start & Hstart & _). pose proof Hstart as Hstart'.
  apply set_start_ok in Hstart as (Hs1 & Hs2 & Hs3).
  split; [|split].
  - intros Hty tg Hin. unfold timing_tz_ok in E2.
    assert (Hst : entry_aware (standardize_entry (c_type c) tg) = entry_aware tg) by (destruct (c_type c), tg; reflexivity).
    destruct (c_type c) eqn:Ety; try congruence; rewrite forallb_forall in E2;
      specialize (E2 _ (in_map (standardize_entry _) _ _ Hin)); rewrite Hst in E2;
      unfold tz_aware; destruct (entry_aware tg), tz; cbn in E2; congruence.
  - intros s Hs. rewrite Hs in Hs1. subst start. exact Hs2.
  - intros e He. apply Hs3. exact He.
Qed.

(* conversely a mixed value is rejected by the call itself, with SchedulerError (never TypeError) *)
Theorem mixed_timing_rejected c tz now tg :
  c_type c <> CYCLIC -> In tg (c_timing c) -> entry_aware tg <> tz_aware tz ->
  exists e, job_create c tz now = Err e.
Proof.
  intros Hty Hin Hne. destruct (job_create c tz now) as [j|e] eqn:Hc; [|eauto].
  exfalso. apply Hne. apply (proj1 (created_uniform_awareness c tz now j Hc) Hty tg Hin).
Qed.
Theorem mixed_start_stop_rejected c tz now :
  (exists s, c_start c = Some s /\ aware s <> tz_aware tz) \/ (exists e, c_stop c = Some e /\ aware e <> tz_aware tz) ->
  exists e, job_create c tz now = Err e.
Proof.
  intros H. destruct (job_create c tz now) as [j|e] eqn:Hc; [|eauto]. exfalso.
  destruct (created_uniform_awareness c tz now j Hc) as (_ & H2 & H3).
  destruct H as [(s & Hs & Hn)|(e & He & Hn)]; apply Hn; auto.
Qed.

(* Scheduler(jobs=...) rejects pre-built jobs made for another timezone *)
Theorem ctor_rejects_foreign_tz tz mx pk ctor now s :
  sched_init tz mx pk ctor now = Ok s -> forall id j, get_job s id = Some j -> j_tz j = tz.
Proof.
  intros H id j Hj. unfold sched_init in H. apply bind_ok in H as (js & Hjs & H).
  destruct (negb (forallb _ js)) eqn:E; [discriminate|]. apply negb_false_true in E. rewrite forallb_forall in E.
  inversion H; subst; clear H. unfold get_job in Hj. cbn in Hj.
  assert (Hin : In (id, j) js).
  { clear -Hj. induction js as [|[k v] t IH]; cbn in Hj; [discriminate|]. destruct (Nat.eqb k id) eqn:Ek.
    - apply Nat.eqb_eq in Ek. inversion Hj; subst. left. reflexivity.
    - right. apply IH. exact Hj. }
  specialize (E _ Hin). cbn in E. unfold tz_eqb in E. destruct (j_tz j), tz; try discriminate; [|reflexivity].
  f_equal. lia.
Qed.
