(* Model of scheduler/base/job.py (BaseJob), scheduler/base/job_util.py and the weight of
   scheduler/threading/job.py.  No proofs in this file. *)
From Coq Require Import ZArith List Bool.
From Sv Require Import PyTime Timer.
Import ListNotations.
Open Scope Z_scope.

(* ---- job_util.py ------------------------------------------------------------------ *)
Definition standardize_entry (ty : jobtype) (tg : timing) : timing :=
  match ty, tg with
  | MINUTELY, TTime t => TTime (t_replace t (Some 0) (Some 0))
  | HOURLY, TTime t => TTime (t_replace t (Some 0) None)
  | _, _ => tg
  end.
Definition standardize_timing (ty : jobtype) (l : list timing) : list timing :=
  map (standardize_entry ty) l.

(* sane_timing_types: typeguard is treated as an oracle for "every entry has the Python
   type the job type wants"; the model's own notion is [entry_sane]. *)
Definition entry_sane (ty : jobtype) (tg : timing) : bool :=
  match ty, tg with
  | CYCLIC, TCyclic _ => true
  | (MINUTELY | HOURLY | DAILY), TTime _ => true
  | WEEKLY, TWeekday _ _ => true
  | _, _ => false
  end.
Definition sane_timing (ty : jobtype) (l : list timing) : bool :=
  forallb (entry_sane ty) l &&
  match ty with CYCLIC => Nat.eqb (length l) 1 | _ => true end.

Definition entry_aware (tg : timing) : bool :=
  match tg with TCyclic _ => false | TTime t => t_aware t | TWeekday _ t => t_aware t end.
(* check_timing_tzinfo: true = passes *)
Definition timing_tz_ok (ty : jobtype) (l : list timing) (tz : option Z) : bool :=
  match ty with
  | CYCLIC => true
  | _ => forallb (fun tg => negb (xorb (entry_aware tg) (match tz with Some _ => true | None => false end))) l
  end.

(* are_times_unique(timelist, period) after the fix: instants modulo the period *)
Definition time_key (period : Z) (t : time) : Z := (tod t - oz (t_off t)) mod period.
Definition times_unique (period : Z) (l : list time) : bool := znodup (map (time_key period) l).

(* are_weekday_times_unique: next occurrence after 1970-01-01T00:00 (a Thursday) read in
   the scheduler's tzinfo; the set compares aware values by instant *)
Definition EPOCH1970 : Z := 719162 * D.
Definition weekday_key (tz : option Z) (w : Z) (t : time) : Z :=
  let ref := match tz with Some o => mkDt EPOCH1970 (Some o) | None => mkDt EPOCH1970 None end in
  let ref' := match t_off t with
              | Some o => astimezone ref (Some o)
              | None => match tz with Some _ => astimezone ref None | None => ref end
              end in
  utc (m_next_weekly ref' w t).

Fixpoint times_of (l : list timing) : list time :=
  match l with
  | [] => []
  | TTime t :: r => t :: times_of r
  | TWeekday _ t :: r => t :: times_of r
  | TCyclic _ :: r => times_of r
  end.
Definition weekday_keys (tz : option Z) (l : list timing) : list Z :=
  flat_map (fun tg => match tg with TWeekday w t => [weekday_key tz w t] | _ => [] end) l.

(* check_duplicate_effective_timings: true = passes *)
Definition dup_ok (ty : jobtype) (l : list timing) (tz : option Z) : bool :=
  match ty with
  | WEEKLY => znodup (weekday_keys tz l)
  | CYCLIC => true
  | _ => times_unique (period_of ty) (times_of l)
  end.

(* set_start_check_stop_tzinfo *)
Definition tz_aware (tz : option Z) : bool := match tz with Some _ => true | None => false end.
Definition set_start_check_stop (start stop : option datetime) (tz : option Z) (now : Z) : res datetime :=
  s <- match start with
       | Some s => if xorb (aware s) (tz_aware tz) then Err SchedulerError else Ok s
       | None => Ok (dt_now now tz)
       end ;;
  match stop with
  | Some e =>
      if xorb (aware e) (tz_aware tz) then Err SchedulerError
      else (b <- dt_ge s e ;; if b then Err SchedulerError else Ok s)
  | None => Ok s
  end.

(* ---- the job ------------------------------------------------------------------------ *)
(* rational weight num/den, den > 0 *)
Record jobcfg := mkCfg {
  c_type : jobtype;
  c_timing : list timing;
  c_max_attempts : Z;
  c_tags : list Z;              (* a set: sorted, duplicate free *)
  c_delay : bool;
  c_start : option datetime;
  c_stop : option datetime;
  c_skip : bool;
  c_wnum : Z; c_wden : Z;       (* weight (threading front end) *)
  c_args : list Z;              (* positional arguments, opaque values *)
  c_kwargs : list (Z * Z);      (* keyword mapping, opaque keys and values *)
  c_outs : list bool            (* callback outcome oracle: i-th invocation raises? *)
}.

Record job := mkJob {
  j_cfg : jobcfg;               (* timing is the standardized one *)
  j_tz : option Z;              (* the scheduler tzinfo the job was made for (_tzinfo) *)
  j_start : datetime;
  j_timers : list timer;
  j_pending : nat;              (* index of the pending timer *)
  j_mark : bool;                (* __mark_delete *)
  j_attempts : Z;
  j_failed : Z
}.

(* get_pending_timer: sorted() over the timers' datetimes is stable, the first minimal one wins;
   comparing naive with aware raises TypeError; an empty list raises IndexError *)
Definition pending_index (tms : list timer) : res nat :=
  match tms with
  | [] => Err IndexError
  | _ =>
      let ds := map jt_next tms in
      if all_same_awareness ds then Ok (argmin (map utc ds)) else Err TypeError
  end.

Definition dummy_timer : timer := mkTimer CYCLIC (TCyclic 0) (mkDt 0 None) false.
Definition pending_timer (j : job) : timer := nth (j_pending j) (j_timers j) dummy_timer.

(* stop is not None and pending.datetime > stop *)
Definition past_stop (stop : option datetime) (d : datetime) : res bool :=
  match stop with Some e => dt_gt d e | None => Ok false end.

(* BaseJob.__init__ (+ Job weight) at scripted clock [now] *)
Definition job_create (c : jobcfg) (tz : option Z) (now : Z) : res job :=
  let ty := c_type c in
  let tgs := standardize_timing ty (c_timing c) in
  if negb (sane_timing ty tgs) then Err SchedulerError else
  if negb (timing_tz_ok ty tgs tz) then Err SchedulerError else
  if negb (dup_ok ty tgs tz) then Err SchedulerError else
  start <- set_start_check_stop (c_start c) (c_stop c) tz now ;;
  tms <- mapM (fun tg => timer_init ty tg start (c_skip c)) tgs ;;
  p <- pending_index tms ;;
  mk <- past_stop (c_stop c) (jt_next (nth p tms dummy_timer)) ;;
  Ok (mkJob (mkCfg ty tgs (c_max_attempts c) (c_tags c) (c_delay c) (c_start c) (c_stop c) (c_skip c)
                   (c_wnum c) (c_wden c) (c_args c) (c_kwargs c) (c_outs c))
            tz start tms p mk 0 0).

(* Job.datetime *)
Definition job_datetime (j : job) : datetime :=
  if negb (c_delay (j_cfg j)) && (j_attempts j =? 0) then j_start j else jt_next (pending_timer j).
(* Job.timedelta(dt_stamp) *)
Definition job_timedelta (j : job) (stamp : datetime) : res timedelta := dt_sub (job_datetime j) stamp.

Definition has_attempts (j : job) : bool :=
  if j_mark j then false
  else if c_max_attempts (j_cfg j) =? 0 then true
  else j_attempts j <? c_max_attempts (j_cfg j).

Definition set_timers (j : job) (tms : list timer) (p : nat) (mk : bool) : job :=
  mkJob (j_cfg j) (j_tz j) (j_start j) tms p mk (j_attempts j) (j_failed j).

(* BaseJob._calc_next_exec(ref) (after the delay=False fix) *)
Definition job_calc (j : job) (ref : datetime) : res job :=
  tms <- (if c_skip (j_cfg j) then
            mapM (fun tm => d <- dt_sub (jt_next tm) ref ;;
                            if ts_le d 0 then timer_calc tm (Some ref) else Ok tm) (j_timers j)
          else if c_delay (j_cfg j) || negb (j_attempts j =? 1) then
            (tm' <- timer_calc (pending_timer j) (Some ref) ;;
             Ok (replace_nth (j_pending j) (j_timers j) tm'))
          else Ok (j_timers j)) ;;
  p <- pending_index tms ;;
  mk <- past_stop (c_stop (j_cfg j)) (jt_next (nth p tms dummy_timer)) ;;
  Ok (set_timers j tms p (j_mark j || mk)).

(* Job._exec: one invocation; [raises] is the callback's outcome *)
Definition job_run (j : job) (raises : bool) : job :=
  mkJob (j_cfg j) (j_tz j) (j_start j) (j_timers j) (j_pending j) (j_mark j)
        (j_attempts j + 1) (if raises then j_failed j + 1 else j_failed j).

Definition outcome_of (j : job) : bool := nth (Z.to_nat (j_attempts j)) (c_outs (j_cfg j)) false.
