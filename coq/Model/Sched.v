(* Model of scheduler/threading/scheduler.py: the sequential behaviour of the threading
   Scheduler (one caller thread, n_threads = 1), including callbacks that call back into
   their own scheduler.  No proofs in this file. *)
From Coq Require Import ZArith List Bool.
From Sv Require Import PyTime Timer Job.
Import ListNotations.
Open Scope Z_scope.

(* scheduler/prioritization.py over exact arithmetic: time_delta = overdue_us / 10^6 *)
Definition linear_priority (overdue_us : Z) (wnum wden : Z) : prio :=
  if overdue_us <? 0 then (0, 1) else ((overdue_us + SEC) * wnum, wden * SEC).
Definition constant_priority (overdue_us : Z) (wnum wden : Z) : prio :=
  if overdue_us <? 0 then (0, 1) else (wnum, wden).

Inductive priokind := PLinear | PConst | PTable.

(* ---- tags ------------------------------------------------------------------------------ *)
Definition subsetb (a b : list Z) : bool := forallb (fun x => zmem x b) a.
Definition intersectsb (a b : list Z) : bool := existsb (fun x => zmem x b) a.
(* select_jobs_by_tag's predicate *)
Definition tag_match (tags : list Z) (any : bool) (jobtags : list Z) : bool :=
  if any then intersectsb tags jobtags else subsetb tags jobtags.
(* "tags is None or tags == set()" *)
Definition no_tags (tags : option (list Z)) : bool :=
  match tags with None => true | Some [] => true | Some _ => false end.

(* ---- operations a caller or a callback can perform (everything except exec_jobs) ------- *)
Inductive oncetiming :=
| OnceDt (d : datetime)
| OnceTd (T : timedelta)
| OnceTime (t : time)
| OnceWd (w : Z) (t : time).

Inductive cbop :=
| CSchedule (c : jobcfg)                       (* cyclic/minutely/hourly/daily/weekly *)
| COnce (ot : oncetiming) (c : jobcfg)         (* once(); only args/kwargs/tags/weight/outs of c are used *)
| CDelete (id : nat)
| CDeleteJobs (tags : option (list Z)) (any : bool)
| CGetJobs (tags : option (list Z)) (any : bool)
| CJobs.

(* base/definition.py JOB_TYPE_MAPPING and the two paths of once() *)
Definition once_cfg (ot : oncetiming) (c : jobcfg) : jobcfg :=
  let mk ty tg delay start :=
    mkCfg ty tg 1 (c_tags c) delay start None false (c_wnum c) (c_wden c) (c_args c) (c_kwargs c) (c_outs c) in
  match ot with
  | OnceDt d => mk CYCLIC [TCyclic 0] false (Some d)
  | OnceTd T => mk CYCLIC [TCyclic T] true None
  | OnceTime t => mk DAILY [TTime t] true None
  | OnceWd w t => mk WEEKLY [TWeekday w t] true None
  end.

Inductive value := VNone | VInt (n : Z) | VIds (l : list nat) | VJob (id : nat).

Inductive event :=
| EInvoke (id : nat) (due_utc : Z) (args : list Z) (kwargs : list (Z * Z))
| EPrioCall (id : nat) (overdue_us : Z) (max_exec : Z) (n : Z) (p : prio)
| ELog (id : nat).

Record sched := mkSched {
  s_tz : option Z;
  s_max_exec : Z;
  s_prio : priokind;
  s_reg : list nat;                      (* registered job ids, ascending *)
  s_jobs : list (nat * job);             (* every job object ever created *)
  s_progs : list (nat * list cbop);      (* callback programs *)
  s_next : nat;                          (* id of the next scheduling call *)
  s_now : Z;                             (* scripted clock, utc microseconds *)
  s_events : list event                  (* events of the current operation, newest first *)
}.

Definition upd_reg (s : sched) (r : list nat) : sched :=
  mkSched (s_tz s) (s_max_exec s) (s_prio s) r (s_jobs s) (s_progs s) (s_next s) (s_now s) (s_events s).
Definition upd_jobs (s : sched) (js : list (nat * job)) : sched :=
  mkSched (s_tz s) (s_max_exec s) (s_prio s) (s_reg s) js (s_progs s) (s_next s) (s_now s) (s_events s).
Definition add_event (s : sched) (e : event) : sched :=
  mkSched (s_tz s) (s_max_exec s) (s_prio s) (s_reg s) (s_jobs s) (s_progs s) (s_next s) (s_now s) (e :: s_events s).
Definition set_now (s : sched) (t : Z) : sched :=
  mkSched (s_tz s) (s_max_exec s) (s_prio s) (s_reg s) (s_jobs s) (s_progs s) (s_next s) t (s_events s).
Definition clear_events (s : sched) : sched :=
  mkSched (s_tz s) (s_max_exec s) (s_prio s) (s_reg s) (s_jobs s) (s_progs s) (s_next s) (s_now s) [].

Fixpoint lookup {A} (id : nat) (l : list (nat * A)) : option A :=
  match l with
  | [] => None
  | (k, v) :: t => if Nat.eqb k id then Some v else lookup id t
  end.
Fixpoint update {A} (id : nat) (v : A) (l : list (nat * A)) : list (nat * A) :=
  match l with
  | [] => []
  | (k, w) :: t => if Nat.eqb k id then (k, v) :: t else (k, w) :: update id v t
  end.
Definition remove_id (id : nat) (l : list nat) : list nat := filter (fun k => negb (Nat.eqb k id)) l.
Definition get_job (s : sched) (id : nat) : option job := lookup id (s_jobs s).
Definition job_tags (s : sched) (id : nat) : list Z :=
  match get_job s id with Some j => c_tags (j_cfg j) | None => [] end.

(* a scheduling call: the id is consumed whether or not the call succeeds *)
Definition schedule (s : sched) (c : jobcfg) (prog : list cbop) : sched * res value :=
  let id := s_next s in
  let s1 := mkSched (s_tz s) (s_max_exec s) (s_prio s) (s_reg s) (s_jobs s) (s_progs s) (S id) (s_now s) (s_events s) in
  match job_create c (s_tz s) (s_now s) with
  | Err e => (s1, Err e)
  | Ok j =>
      let s2 := mkSched (s_tz s1) (s_max_exec s1) (s_prio s1)
                        (if has_attempts j then s_reg s1 ++ [id] else s_reg s1)
                        (s_jobs s1 ++ [(id, j)]) (s_progs s1 ++ [(id, prog)]) (s_next s1) (s_now s1) (s_events s1) in
      (s2, Ok (VJob id))
  end.

Definition select_ids (s : sched) (tags : list Z) (any : bool) : list nat :=
  filter (fun id => tag_match tags any (job_tags s id)) (s_reg s).

(* everything except exec_jobs *)
Definition cb_step (s : sched) (o : cbop) (prog : list cbop) : sched * res value :=
  match o with
  | CSchedule c => schedule s c prog
  | COnce ot c => schedule s (once_cfg ot c) prog
  | CDelete id =>
      if nmem id (s_reg s) then (upd_reg s (remove_id id (s_reg s)), Ok VNone)
      else (s, Err SchedulerError)
  | CDeleteJobs tags any =>
      match tags with
      | None | Some [] => (upd_reg s [], Ok (VInt (Z.of_nat (length (s_reg s)))))
      | Some tg =>
          let sel := select_ids s tg any in
          (upd_reg s (filter (fun id => negb (nmem id sel)) (s_reg s)), Ok (VInt (Z.of_nat (length sel))))
      end
  | CGetJobs tags any =>
      match tags with
      | None | Some [] => (s, Ok (VIds (s_reg s)))
      | Some tg => (s, Ok (VIds (select_ids s tg any)))
      end
  | CJobs => (s, Ok (VIds (s_reg s)))
  end.

(* run a callback program; the first operation that raises makes the callback raise *)
Fixpoint run_prog (s : sched) (p : list cbop) : sched * bool :=
  match p with
  | [] => (s, false)
  | o :: r =>
      match cb_step s o [] with
      | (s', Ok _) => run_prog s' r
      | (s', Err _) => (s', true)
      end
  end.

(* Job._exec of job [id] *)
Definition invoke (s : sched) (id : nat) : sched :=
  match get_job s id with
  | None => s
  | Some j =>
      let s0 := add_event s (EInvoke id (utc (job_datetime j)) (c_args (j_cfg j)) (c_kwargs (j_cfg j))) in
      let '(s1, praised) := run_prog s0 (match lookup id (s_progs s) with Some p => p | None => [] end) in
      (* the job object may not be touched by the program, but re-read it to stay faithful *)
      match get_job s1 id with
      | None => s1
      | Some j1 =>
          let raises := praised || outcome_of j1 in
          let s2 := upd_jobs s1 (update id (job_run j1 raises) (s_jobs s1)) in
          if raises then add_event s2 (ELog id) else s2
      end
  end.

Fixpoint invoke_all (s : sched) (batch : list nat) : sched :=
  match batch with [] => s | id :: r => invoke_all (invoke s id) r end.

(* the post-run loop of __exec_jobs (after the tolerant-retire fix) *)
Fixpoint resched_all (s : sched) (batch : list nat) (ref : datetime) : sched * res unit :=
  match batch with
  | [] => (s, Ok tt)
  | id :: r =>
      match get_job s id with
      | None => resched_all s r ref
      | Some j =>
          match job_calc j ref with
          | Err e => (s, Err e)
          | Ok j' =>
              let s1 := upd_jobs s (update id j' (s_jobs s)) in
              let s2 := if has_attempts j' then s1 else upd_reg s1 (remove_id id (s_reg s1)) in
              resched_all s2 r ref
          end
      end
  end.

Definition exec_batch (s : sched) (batch : list nat) (ref : datetime) : sched * res value :=
  let s1 := invoke_all s batch in
  match resched_all s1 batch ref with
  | (s2, Ok _) => (s2, Ok (VInt (Z.of_nat (length batch))))
  | (s2, Err e) => (s2, Err e)
  end.

Definition table_prio (table : list (nat * prio)) (id : nat) : prio :=
  match lookup id table with Some p => p | None => (0, 1) end.

Definition job_prio (s : sched) (table : list (nat * prio)) (id : nat) (j : job) (overdue_us : Z) : prio :=
  match s_prio s with
  | PLinear => linear_priority overdue_us (c_wnum (j_cfg j)) (c_wden (j_cfg j))
  | PConst => constant_priority overdue_us (c_wnum (j_cfg j)) (c_wden (j_cfg j))
  | PTable => table_prio table id
  end.

(* the priority collection loop: one call of the priority function per registered job, in
   the registry's iteration order *)
Fixpoint collect_prios (s : sched) (table : list (nat * prio)) (order : list nat) (ref : datetime) (n : Z)
  : res (list (nat * prio) * list event) :=
  match order with
  | [] => Ok ([], [])
  | id :: r =>
      match get_job s id with
      | None => Err OtherError
      | Some j =>
          d <- job_timedelta j ref ;;
          rest <- collect_prios s table r ref n ;;
          let p := job_prio s table id j (- d) in
          Ok ((id, p) :: fst rest, EPrioCall id (- d) (s_max_exec s) n p :: snd rest)
      end
  end.

Fixpoint take_while_idx {A} (k : Z) (l : list A) : list A :=
  match l with
  | [] => []
  | x :: t => if 0 <? k then x :: take_while_idx (k - 1) t else []
  end.

(* filtered_jobs: index < max_exec (when max_exec <> 0) and priority > 0 *)
Definition select_batch (max_exec : Z) (sorted : list (nat * prio)) : list nat :=
  map fst (filter (fun ip => qpos (snd ip))
                  (if max_exec =? 0 then sorted else take_while_idx max_exec sorted)).

Definition is_perm_of (order reg : list nat) : bool :=
  Nat.eqb (length order) (length reg) && forallb (fun id => nmem id reg) order &&
  forallb (fun id => nmem id order) reg.

(* exec_jobs(force_exec_all).  [order] is the iteration order of the job set (read from the
   implementation: it depends on object hashes), any permutation of the registry. *)
Definition exec_jobs (s : sched) (force : bool) (order : list nat) (table : list (nat * prio)) : sched * res value :=
  if negb (is_perm_of order (s_reg s)) then (s, Err OtherError) else
  let ref := dt_now (s_now s) (s_tz s) in
  if force then exec_batch s order ref
  else
    match collect_prios s table order ref (Z.of_nat (length (s_reg s))) with
    | Err e => (s, Err e)
    | Ok (prs, evs) =>
        let s1 := mkSched (s_tz s) (s_max_exec s) (s_prio s) (s_reg s) (s_jobs s) (s_progs s) (s_next s) (s_now s)
                          (rev evs ++ s_events s) in
        exec_batch s1 (select_batch (s_max_exec s) (sort_desc snd prs)) ref
    end.

(* ---- construction ------------------------------------------------------------------------ *)
(* Scheduler(max_exec, tzinfo, priority_function, jobs={Job(...), ...}); every pre-built job
   carries the tzinfo it was made for *)
Fixpoint create_ctor_jobs (l : list (jobcfg * option Z)) (now : Z) (id : nat) : res (list (nat * job)) :=
  match l with
  | [] => Ok []
  | (c, tz) :: r => j <- job_create c tz now ;; rest <- create_ctor_jobs r now (S id) ;; Ok ((id, j) :: rest)
  end.

Definition tz_eqb (a b : option Z) : bool :=
  match a, b with None, None => true | Some x, Some y => x =? y | _, _ => false end.

Definition sched_init (tz : option Z) (max_exec : Z) (pk : priokind) (ctor : list (jobcfg * option Z)) (now : Z)
  : res sched :=
  js <- create_ctor_jobs ctor now O ;;
  if negb (forallb (fun ij => tz_eqb (j_tz (snd ij)) tz) js) then Err SchedulerError else
  Ok (mkSched tz max_exec pk
              (map fst (filter (fun ij => has_attempts (snd ij)) js))
              js (map (fun ij => (fst ij, [])) js) (length js) now []).

(* ---- top-level operations --------------------------------------------------------------------- *)
Inductive op :=
| ONow (t : Z)
| OCall (o : cbop) (prog : list cbop)
| OExec (force : bool) (order : list nat) (table : list (nat * prio)).

Definition step (s : sched) (o : op) : sched * res value :=
  let s := clear_events s in
  match o with
  | ONow t => (set_now s t, Ok VNone)
  | OCall c prog => cb_step s c prog
  | OExec force order table => exec_jobs s force order table
  end.

Definition run (s : sched) (ops : list op) : sched := fold_left (fun st o => fst (step st o)) ops s.
