(* Model of scheduler/util.py (occurrence arithmetic) and scheduler/base/job_timer.py.
   Hand-written; tied to the source by Tie/TieUtil.v (translator) and by the
   correspondence streams. No proofs in this file. *)
From Coq Require Import ZArith List Bool.
From Sv Require Import PyTime.
Import ListNotations.
Open Scope Z_scope.

(* ---- scheduler/util.py ---------------------------------------------------------- *)
Definition m_days_to_weekday (src dst : Z) : Z := (dst - src - 1) mod 7 + 1.

Definition m_next_daily (now : datetime) (t : time) : datetime :=
  let target := (loc now / D) * D + tod t in
  mkDt (if target - loc now <=? 0 then target + D else target) (off now).
Definition m_next_hourly (now : datetime) (t : time) : datetime :=
  let target := (loc now / HR) * HR + (t_minute t * 60 + t_second t) * SEC + t_micro t in
  mkDt (if target - loc now <=? 0 then target + HR else target) (off now).
Definition m_next_minutely (now : datetime) (t : time) : datetime :=
  let target := (loc now / MN) * MN + t_second t * SEC + t_micro t in
  mkDt (if target - loc now <=? 0 then target + MN else target) (off now).
Definition m_next_weekly (now : datetime) (w : Z) (t : time) : datetime :=
  let days := m_days_to_weekday (dt_weekday now) w in
  let cand := m_next_daily now t in
  if (days =? 7) && (loc cand / D =? loc now / D) then cand
  else mkDt ((loc now / D) * D + tod t + days * D) (off now).

(* ---- job types and timings -------------------------------------------------------- *)
Inductive jobtype := CYCLIC | MINUTELY | HOURLY | DAILY | WEEKLY.
Definition jobtype_eqb (a b : jobtype) : bool :=
  match a, b with
  | CYCLIC, CYCLIC | MINUTELY, MINUTELY | HOURLY, HOURLY | DAILY, DAILY | WEEKLY, WEEKLY => true
  | _, _ => false
  end.
(* one entry of a job's timing list *)
Inductive timing :=
| TCyclic (T : timedelta)
| TTime (t : time)
| TWeekday (w : Z) (t : time).

Definition period_of (ty : jobtype) : Z :=
  match ty with MINUTELY => MN | HOURLY => HR | DAILY => D | WEEKLY => WK | CYCLIC => 0 end.

(* ---- JobTimer ------------------------------------------------------------------------ *)
Record timer := mkTimer { jt_type : jobtype; jt_timing : timing; jt_next : datetime; jt_skip : bool }.
Definition set_next (tm : timer) (d : datetime) : timer :=
  mkTimer (jt_type tm) (jt_timing tm) d (jt_skip tm).

(* the non-cyclic part of calc_next_exec: convert the running instant into the timing's
   offset, then take the next occurrence *)
Definition calc_clock (ty : jobtype) (tg : timing) (cur : datetime) : res datetime :=
  match ty, tg with
  | WEEKLY, TWeekday w t =>
      let cur' := match t_off t with Some o => astimezone cur (Some o) | None => cur end in
      if (0 <=? w) && (w <=? 6) then Ok (m_next_weekly cur' w t) else Err SchedulerError
  | MINUTELY, TTime t =>
      let cur' := if aware cur then astimezone cur (t_off t) else cur in Ok (m_next_minutely cur' t)
  | HOURLY, TTime t =>
      let cur' := if aware cur then astimezone cur (t_off t) else cur in Ok (m_next_hourly cur' t)
  | DAILY, TTime t =>
      let cur' := if aware cur then astimezone cur (t_off t) else cur in Ok (m_next_daily cur' t)
  | _, _ => Err TypeError
  end.

(* JobTimer.calc_next_exec(ref); the recursive call has ref = None and is unrolled *)
Definition timer_calc (tm : timer) (ref : option datetime) : res timer :=
  match jt_type tm, jt_timing tm with
  | CYCLIC, TCyclic T =>
      let base := match ref with
                  | Some r => if jt_skip tm then r else jt_next tm
                  | None => jt_next tm
                  end in
      Ok (set_next tm (dt_add base T))
  | CYCLIC, _ => Err TypeError
  | ty, tg =>
      n1 <- calc_clock ty tg (jt_next tm) ;;
      match ref with
      | Some r =>
          if jt_skip tm then
            (b <- dt_lt n1 r ;;
             if b then (n2 <- calc_clock ty tg r ;; Ok (set_next tm n2)) else Ok (set_next tm n1))
          else Ok (set_next tm n1)
      | None => Ok (set_next tm n1)
      end
  end.

(* JobTimer(job_type, timing, start, skip_missing) *)
Definition timer_init (ty : jobtype) (tg : timing) (start : datetime) (skip : bool) : res timer :=
  timer_calc (mkTimer ty tg start skip) None.
