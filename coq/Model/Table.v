(* Model of the printing helpers (scheduler/base/scheduler_util.py::str_cutoff and the table
   layout of Scheduler.__str__).  Strings are lists of code points.  No proofs here. *)
From Coq Require Import ZArith List Bool.
From Sv Require Import PyTime.
Import ListNotations.
Open Scope Z_scope.

Definition HASH : Z := 35.   (* '#' *)

(* str_cutoff(string, max_length, cut_tail) after the fix *)
Definition m_str_cutoff (s : pystr) (w : Z) (tail : bool) : res pystr :=
  if w <? 1 then Err ValueError
  else if w <? Z.of_nat (length s) then
    Ok (if tail then firstn (Z.to_nat (w - 1)) s ++ [HASH]
        else HASH :: skipn (length s - Z.to_nat (w - 1)) s)
  else Ok s.
