(* Model of the printing code: scheduler/base/scheduler_util.py::str_cutoff,
   scheduler/base/job_util.py::prettify_timedelta, BaseJob._str / __str__ and the table layout of
   Scheduler.__str__ (threading and asyncio).  Strings are lists of code points.

   What CPython itself renders (str(datetime), str(timedelta), tzname(), str(float), format(w,
   '.3g'), the attributes of callables) enters as already-rendered strings: those are CPython's
   functions, not the library's.  The library's own logic is modelled: ONCE vs type name, name vs
   alias, the argument hint, the [:19] slice, the sign/cut of "due in", attempts "a/max|inf",
   abbreviation, alignment, padding, the optional tzinfo column, row order and the job count.
   No proofs here. *)
From Coq Require Import ZArith List Bool.
From Sv Require Import PyTime Timer.
Import ListNotations.
Open Scope Z_scope.

Definition HASH : Z := 35.   (* '#' *)
Definition SP : Z := 32.
Definition NL : Z := 10.
Definition DASH : Z := 45.
Definition COMMA : Z := 44.
Definition DOT : Z := 46.
Definition SLASH : Z := 47.

(* str_cutoff(string, max_length, cut_tail) after the fix *)
Definition m_str_cutoff (s : pystr) (w : Z) (tail : bool) : res pystr :=
  if w <? 1 then Err ValueError
  else if w <? Z.of_nat (length s) then
    Ok (if tail then firstn (Z.to_nat (w - 1)) s ++ [HASH]
        else HASH :: skipn (length s - Z.to_nat (w - 1)) s)
  else Ok s.
(* the widths used by the tables are positive constants *)
Definition cut (s : pystr) (w : nat) (tail : bool) : pystr :=
  match m_str_cutoff s (Z.of_nat w) tail with Ok r => r | Err _ => s end.

(* s.split(c)[0] *)
Fixpoint take_until (c : Z) (s : pystr) : pystr :=
  match s with
  | [] => []
  | x :: r => if x =? c then [] else x :: take_until c r
  end.

(* prettify_timedelta: [abs_str] = str(abs(timedelta)) as rendered by CPython *)
Definition prettify (neg : bool) (abs_str : pystr) : pystr :=
  let res := if neg then DASH :: abs_str else abs_str in
  take_until DOT (take_until COMMA res).

(* decimal rendering of a non-negative integer *)
Fixpoint digits (fuel : nat) (n : Z) : pystr :=
  match fuel with
  | O => []
  | S f => if n <? 10 then [48 + n] else digits f (n / 10) ++ [48 + n mod 10]
  end.
Definition dec (n : Z) : pystr := digits 40 n.

Definition s_inf : pystr := [105; 110; 102].                       (* "inf" *)
Definition s_none : pystr := [78; 111; 110; 101].                   (* "None" *)
Definition s_once : pystr := [79; 78; 67; 69].                      (* "ONCE" *)
Definition type_name (ty : jobtype) : pystr :=
  match ty with
  | CYCLIC => [67; 89; 67; 76; 73; 67]
  | MINUTELY => [77; 73; 78; 85; 84; 69; 76; 89]
  | HOURLY => [72; 79; 85; 82; 76; 89]
  | DAILY => [68; 65; 73; 76; 89]
  | WEEKLY => [87; 69; 69; 75; 76; 89]
  end.

(* what is known about a job when it is printed *)
Record jobview := mkView {
  v_type : jobtype;
  v_max : Z;                       (* max_attempts *)
  v_alias : option pystr;
  v_qualname : option pystr;       (* handle.__qualname__ if it exists *)
  v_typename : pystr;              (* type(handle).__qualname__ *)
  v_code : option bool;            (* has __code__: Some (co_nlocals <> 0) *)
  v_dtstr : pystr;                 (* str(job.datetime) *)
  v_tzname : option pystr;         (* job.datetime.tzname() *)
  v_neg : bool; v_absstr : pystr;  (* sign and str(abs(..)) of the due-in timedelta *)
  v_attempts : Z;
  v_weight : pystr;                (* f"{job.weight}" *)
  v_weight3g : pystr;              (* f"{job.weight:.3g}" *)
  v_due : Z                        (* sort key: the due instant *)
}.

(* BaseJob._str *)
Definition f_args (v : jobview) : pystr :=
  match v_alias v with
  | Some _ => []
  | None => match v_code v with
            | Some true => [40; 46; 46; 41]       (* "(..)" *)
            | Some false => [40; 41]               (* "()" *)
            | None => [40; 63; 41]                 (* "(?)" *)
            end
  end.
Definition handle_name (v : jobview) : pystr :=
  match v_alias v with
  | Some a => a
  | None => match v_qualname v with Some q => q | None => v_typename v end
  end.
Definition row_type (v : jobview) : pystr := if v_max v =? 1 then s_once else type_name (v_type v).
Definition row_dt (v : jobview) : pystr := firstn 19 (v_dtstr v).
Definition row_tz (v : jobview) : pystr := match v_tzname v with Some n => n | None => s_none end.  (* str(None) *)
Definition row_in (v : jobview) : pystr := prettify (v_neg v) (v_absstr v).
Definition row_max (v : jobview) : pystr := if v_max v =? 0 then s_inf else dec (v_max v).

(* Job.__str__ (threading: with weight; asyncio: without) *)
Definition lit (l : list Z) : pystr := l.
Definition job_str (with_weight : bool) (v : jobview) : pystr :=
  row_type v ++ [COMMA; SP] ++ handle_name v ++ f_args v ++
  lit [COMMA; SP; 97; 116; 61] ++ row_dt v ++                     (* ", at=" *)
  lit [COMMA; SP; 116; 122; 61] ++ row_tz v ++                    (* ", tz=" *)
  lit [COMMA; SP; 105; 110; 61] ++ row_in v ++                    (* ", in=" *)
  lit [COMMA; SP; HASH] ++ dec (v_attempts v) ++ [SLASH] ++ row_max v ++
  (if with_weight then lit [COMMA; SP; 119; 61] ++ v_weight3g v else []).   (* ", w=" *)

(* ---- table layout -------------------------------------------------------------------------------- *)
Fixpoint spaces (n : nat) : pystr := match n with O => [] | S k => SP :: spaces k end.
Fixpoint dashes (n : nat) : pystr := match n with O => [] | S k => DASH :: dashes k end.
(* "{:<w}" / "{:>w}": pads, never truncates *)
Definition pad (left : bool) (w : nat) (s : pystr) : pystr :=
  if left then s ++ spaces (w - length s) else spaces (w - length s) ++ s.

(* columns: (left aligned?, width) *)
Definition col := (bool * nat)%type.
Definition COLS_THR : list col := [(true, 8); (true, 16); (true, 19); (true, 12); (false, 9); (false, 13); (false, 6)]%nat.
Definition COLS_AIO : list col := [(true, 8); (true, 16); (true, 19); (true, 12); (false, 9); (false, 13)]%nat.
(* without a scheduler timezone the tzinfo column (index 3) is dropped from the format *)
Definition drop_tz {A} (l : list A) : list A := firstn 3 l ++ skipn 4 l.

Fixpoint fmt_cells (cols : list col) (cells : list pystr) : list pystr :=
  match cols, cells with
  | (l, w) :: cr, c :: r => pad l w c :: fmt_cells cr r
  | _, _ => []
  end.
Fixpoint join_sp (l : list pystr) : pystr :=
  match l with
  | [] => []
  | [x] => x
  | x :: r => x ++ SP :: join_sp r
  end.
Definition fmt_row (cols : list col) (cells : list pystr) : pystr := join_sp (fmt_cells cols cells) ++ [NL].

Definition names_thr : list pystr :=
  [[116; 121; 112; 101];                                                         (* type *)
   [102; 117; 110; 99; 116; 105; 111; 110; 32; 47; 32; 97; 108; 105; 97; 115];   (* function / alias *)
   [100; 117; 101; 32; 97; 116];                                                 (* due at *)
   [116; 122; 105; 110; 102; 111];                                               (* tzinfo *)
   [100; 117; 101; 32; 105; 110];                                                (* due in *)
   [97; 116; 116; 101; 109; 112; 116; 115];                                      (* attempts *)
   [119; 101; 105; 103; 104; 116]].                                              (* weight *)
Definition names_aio : list pystr := firstn 6 names_thr.

(* the entries of one row (Scheduler.__str__) *)
Definition row_cells (with_weight : bool) (v : jobview) : list pystr :=
  [row_type v;
   cut (handle_name v ++ f_args v) 16 false;
   row_dt v;
   cut (match v_tzname v with Some n => n | None => s_none end) 12 false;
   cut (row_in v) 9 true;
   cut (dec (v_attempts v) ++ [SLASH] ++ row_max v) 13 true] ++
  (if with_weight then [cut (v_weight v) 6 true] else []).

(* sorted(self.jobs): ascending due time, stable *)
Fixpoint ins_due (v : jobview) (l : list jobview) : list jobview :=
  match l with
  | [] => [v]
  | y :: t => if v_due y <? v_due v then y :: ins_due v t else v :: l
  end.
Definition sort_due (l : list jobview) : list jobview := fold_right ins_due [] l.

Definition concat_str (l : list pystr) : pystr := fold_right (fun a b => a ++ b) [] l.

(* heading + table; [has_tz] = the scheduler has a timezone; [heading] is the meta line up to and
   including "#jobs=" (it contains CPython-rendered names), the count is appended here *)
Definition table (with_weight : bool) (has_tz : bool) (heading : pystr) (jobs : list jobview) : pystr :=
  let cols := if with_weight then COLS_THR else COLS_AIO in
  let names := if with_weight then names_thr else names_aio in
  let cols' := if has_tz then cols else drop_tz cols in
  (* NB: str.format ignores surplus arguments: all entries are passed, the dropped column's
     placeholder index is simply absent *)
  let pick (cells : list pystr) := if has_tz then cells else drop_tz cells in
  heading ++ dec (Z.of_nat (length jobs)) ++ [NL; NL] ++
  fmt_row cols' (pick names) ++
  fmt_row cols' (pick (map (fun c => dashes (snd c)) cols)) ++
  concat_str (map (fun v => fmt_row cols' (pick (row_cells with_weight v))) (sort_due jobs)).

(* ---- the heading line (Scheduler.__headings + the first line of __str__) -------------------------- *)
Definition dec_int (z : Z) : pystr := if z <? 0 then DASH :: dec (- z) else dec z.
Definition opt_str (o : option pystr) : pystr := match o with Some s => s | None => s_none end.
(* [tz] = check_tzname(tzinfo): None for a naive scheduler; [pname] = the priority function's __name__ (or its type's) *)
Definition heading_thr (mx : Z) (tz : option pystr) (pname : pystr) : pystr :=
  lit [109; 97; 120; 95; 101; 120; 101; 99; 61] ++ (if mx =? 0 then s_inf else dec_int mx) ++        (* "max_exec=" *)
  lit [COMMA; SP; 116; 122; 105; 110; 102; 111; 61] ++ opt_str tz ++                                    (* ", tzinfo=" *)
  lit [COMMA; SP; 112; 114; 105; 111; 114; 105; 116; 121; 95; 102; 117; 110; 99; 116; 105; 111; 110; 61] ++ pname ++
  lit [COMMA; SP; HASH; 106; 111; 98; 115; 61].                                                          (* ", #jobs=" *)
Definition heading_aio (tz : option pystr) : pystr :=
  lit [116; 122; 105; 110; 102; 111; 61] ++ opt_str tz ++ lit [COMMA; SP; HASH; 106; 111; 98; 115; 61].
Definition is_some {A} (o : option A) : bool := match o with Some _ => true | None => false end.
(* str(scheduler) *)
Definition sched_str_thr (mx : Z) (tz : option pystr) (pname : pystr) (jobs : list jobview) : pystr :=
  table true (is_some tz) (heading_thr mx tz pname) jobs.
Definition sched_str_aio (tz : option pystr) (jobs : list jobview) : pystr :=
  table false (is_some tz) (heading_aio tz) jobs.

