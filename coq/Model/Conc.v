(* Concurrency models of the threading scheduler (C14, C15, C16).

   1. Micro-operations: the atomic actions the code's locks define on the shared state (the job
      set under Scheduler.__jobs_lock, each job under its own Job.__lock).  A public operation is
      a short sequence of micro-operations of one thread; an execution of several threads is an
      arbitrary interleaving, i.e. an arbitrary LIST of micro-operations.  The state they act on
      is the state of the sequential model (Model/Sched.v), so every micro-operation is defined
      with the very functions the sequential theorems are about.
        schedule      = MAdd                     delete_job  = MRemove
        delete_jobs   = MDeleteJobs              get_jobs/jobs = MSnapshot
        exec_jobs     = MBegin, MPrio for every job, MSelect, then the workers' MRun for every batch
                        member, then MResched and MRetire for every batch member
   2. The worker pool of __exec_jobs: one FIFO queue, m workers (C16).
   3. Lock acquisition orders (C15: deadlock).
   Atomicity abstraction assumed by 1 and checked by the DST harness: a `with lock:` block that
   performs one access to the job set is atomic w.r.t. other such blocks and w.r.t. the code's
   lock-free single reads (set.copy(), list(set), len(set)).  No proofs in this file. *)
From Coq Require Import ZArith List Bool.
From Sv Require Import PyTime Timer Job Sched.
Import ListNotations.
Open Scope Z_scope.

(* ---- 1. micro-operations ------------------------------------------------------------------------ *)
Inductive mop :=
| MAdd (c : jobcfg)                                   (* any of the five scheduling calls *)
| MOnce (ot : oncetiming) (c : jobcfg)
| MRemove (id : nat)                                  (* delete_job *)
| MDeleteJobs (tags : option (list Z)) (any : bool)
| MSnapshot (tags : option (list Z)) (any : bool)     (* get_jobs(tags, any) / jobs *)
| MBegin (t : nat) (force : bool) (order : list nat)  (* exec_jobs of thread t starts; force: list(jobs) *)
| MPrio (t : nat) (id : nat) (p : option prio)        (* priority of job id, read under the registry lock *)
| MSelect (t : nat)                                   (* sort, cut, filter: thread t's batch *)
| MRun (id : nat) (raises : bool)                     (* a worker: Job._exec; outcome of the callback *)
| MResched (id : nat)                                 (* post-run loop: Job._calc_next_exec(ref) *)
| MRetire (id : nat).                                 (* post-run loop: not has_attempts -> discard *)

(* per calling thread: priorities collected so far / chosen batch *)
Record texec := mkTexec { te_force : bool; te_prios : list (nat * prio); te_batch : option (list nat) }.

Record mstate := mkM { m_s : sched; m_exec : list (nat * texec) }.

Definition m_set_s (m : mstate) (s : sched) : mstate := mkM s (m_exec m).
Definition m_texec (m : mstate) (t : nat) : option texec := lookup t (m_exec m).
Fixpoint upsert {A} (k : nat) (v : A) (l : list (nat * A)) : list (nat * A) :=
  match l with
  | [] => [(k, v)]
  | (k', w) :: r => if Nat.eqb k' k then (k, v) :: r else (k', w) :: upsert k v r
  end.

(* retire: the tolerant discard of the fix *)
Definition retire (s : sched) (id : nat) : sched :=
  match get_job s id with
  | Some j => if has_attempts j then s else upd_reg s (remove_id id (s_reg s))
  | None => s
  end.
Definition resched (s : sched) (id : nat) : sched * res value :=
  match get_job s id with
  | None => (s, Ok VNone)
  | Some j =>
      match job_calc j (dt_now (s_now s) (s_tz s)) with
      | Err e => (s, Err e)
      | Ok j' => (upd_jobs s (update id j' (s_jobs s)), Ok VNone)
      end
  end.

Definition mstep (m : mstate) (o : mop) : mstate * res value :=
  let s := m_s m in
  match o with
  | MAdd c => let '(s', r) := schedule s c [] in (m_set_s m s', r)
  | MOnce ot c => let '(s', r) := schedule s (once_cfg ot c) [] in (m_set_s m s', r)
  | MRemove id => let '(s', r) := cb_step s (CDelete id) [] in (m_set_s m s', r)
  | MDeleteJobs tags any => let '(s', r) := cb_step s (CDeleteJobs tags any) [] in (m_set_s m s', r)
  | MSnapshot tags any => let '(s', r) := cb_step s (CGetJobs tags any) [] in (m_set_s m s', r)
  | MBegin t force order =>
      if force then
        if is_perm_of order (s_reg s) then (mkM s (upsert t (mkTexec true [] (Some order)) (m_exec m)), Ok (VIds order))
        else (m, Err OtherError)
      else (mkM s (upsert t (mkTexec false [] None) (m_exec m)), Ok VNone)
  | MPrio t id p =>
      match m_texec m t, get_job s id with
      | Some te, Some j =>
          if nmem id (s_reg s) && negb (nmem id (map fst (te_prios te))) then
            match job_timedelta j (dt_now (s_now s) (s_tz s)) with
            | Err e => (m, Err e)
            | Ok d =>
                let pr := match p with
                          | Some v => v           (* user priority function: value supplied *)
                          | None => job_prio s [] id j (- d)
                          end in
                (mkM s (upsert t (mkTexec (te_force te) (te_prios te ++ [(id, pr)]) (te_batch te)) (m_exec m)),
                 Ok (VInt (- d)))
            end
          else (m, Err OtherError)
      | _, _ => (m, Err OtherError)
      end
  | MSelect t =>
      match m_texec m t with
      | Some te =>
          let batch := select_batch (s_max_exec s) (sort_desc snd (te_prios te)) in
          (mkM s (upsert t (mkTexec (te_force te) (te_prios te) (Some batch)) (m_exec m)), Ok (VIds batch))
      | None => (m, Err OtherError)
      end
  | MRun id raises =>
      match get_job s id with
      | Some j => (m_set_s m (upd_jobs s (update id (job_run j raises) (s_jobs s))), Ok VNone)
      | None => (m, Err OtherError)
      end
  | MResched id => let '(s', r) := resched s id in (m_set_s m s', r)
  | MRetire id => (m_set_s m (retire s id), Ok VNone)
  end.

Definition mrun (m : mstate) (ops : list mop) : mstate := fold_left (fun st o => fst (mstep st o)) ops m.
Definition m_init (s : sched) : mstate := mkM s [].

(* ---- 2. the worker pool of __exec_jobs ------------------------------------------------------------- *)
Inductive wstate := WIdle | WRun (id : nat) | WExit.
Record pool := mkPool { p_queue : list nat; p_workers : list wstate; p_done : list nat }.

Definition pool_init (batch : list nat) (n_threads : nat) : pool :=
  mkPool batch (repeat WIdle (match n_threads with O => length batch | S _ => n_threads end)) [].

(* worker w performs its next action: take the next job (or find the queue empty and exit), or
   finish the job it is running *)
Definition pool_step (p : pool) (w : nat) : pool :=
  match nth_error (p_workers p) w with
  | Some WIdle =>
      match p_queue p with
      | [] => mkPool [] (replace_nth w (p_workers p) WExit) (p_done p)
      | id :: q => mkPool q (replace_nth w (p_workers p) (WRun id)) (p_done p)
      end
  | Some (WRun id) => mkPool (p_queue p) (replace_nth w (p_workers p) WIdle) (id :: p_done p)
  | _ => p
  end.
Definition pool_run (p : pool) (sched_ : list nat) : pool := fold_left pool_step sched_ p.

Definition running (p : pool) : list nat :=
  flat_map (fun w => match w with WRun id => [id] | _ => [] end) (p_workers p).
Definition all_exited (p : pool) : bool :=
  forallb (fun w => match w with WExit => true | _ => false end) (p_workers p).

(* ---- 3. lock acquisition (deadlock) ----------------------------------------------------------------- *)
(* lock 0 = the registry lock, lock (S k) = the lock of job k.  A thread's plan is the list of
   (acquire l | release l) actions it still has to perform; RLocks are re-entrant. *)
Inductive lact := Acq (l : nat) | Rel (l : nat).
Record lthread := mkLT { lt_plan : list lact }.
Record lstate := mkLS { ls_owner : list (nat * (nat * nat));    (* lock -> (owner thread, count) *)
                        ls_threads : list lthread }.

Definition lock_owner (s : lstate) (l : nat) : option (nat * nat) := lookup l (ls_owner s).
Definition can_step (s : lstate) (t : nat) : bool :=
  match nth_error (ls_threads s) t with
  | Some th =>
      match lt_plan th with
      | [] => false
      | Acq l :: _ => match lock_owner s l with
                      | Some (o, c) => Nat.eqb o t || Nat.eqb c 0
                      | None => true
                      end
      | Rel _ :: _ => true
      end
  | None => false
  end.
Definition lstep (s : lstate) (t : nat) : lstate :=
  if negb (can_step s t) then s else
  match nth_error (ls_threads s) t with
  | Some th =>
      match lt_plan th with
      | Acq l :: r =>
          let c := match lock_owner s l with Some (_, c) => c | None => O end in
          mkLS (upsert l (t, S c) (ls_owner s)) (replace_nth t (ls_threads s) (mkLT r))
      | Rel l :: r =>
          let c := match lock_owner s l with Some (_, c) => c | None => O end in
          mkLS (upsert l (t, pred c) (ls_owner s)) (replace_nth t (ls_threads s) (mkLT r))
      | [] => s
      end
  | None => s
  end.
Definition finished (s : lstate) : bool := forallb (fun th => match lt_plan th with [] => true | _ => false end) (ls_threads s).
(* deadlock: somebody still has work, nobody can move *)
Definition deadlocked (s : lstate) : bool :=
  negb (finished s) && forallb (fun t => negb (can_step s t)) (seq 0 (length (ls_threads s))).

(* a callback running job k's _exec holds lock (S k); inside it:
   - a registry operation (get_jobs, delete_job, schedule, ...) takes and releases lock 0
   - printing the scheduler takes lock 0, then every job's lock in turn, releasing each *)
Definition plan_registry_op (k : nat) : list lact := [Acq (S k); Acq 0; Rel 0; Rel (S k)]%nat.
Definition plan_print (k : nat) (jobs : list nat) : list lact :=
  ([Acq (S k); Acq 0] ++ flat_map (fun j => [Acq (S j); Rel (S j)]) jobs ++ [Rel 0; Rel (S k)])%nat.
