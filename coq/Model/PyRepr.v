(* How values of the hand-written model are presented to the GENERATED code (Tie lemmas):
   the model's job type / timing entry / timer as the translator's target types.  No proofs. *)
From Coq Require Import ZArith List Bool.
From Sv Require Import PyTime Timer Job.
Import ListNotations.
Open Scope Z_scope.

Definition py_type (ty : jobtype) : pyjobtype :=
  match ty with CYCLIC => JT_CYCLIC | MINUTELY => JT_MINUTELY | HOURLY => JT_HOURLY | DAILY => JT_DAILY | WEEKLY => JT_WEEKLY end.
Definition py_timing (tg : timing) : pytiming :=
  match tg with TCyclic T => PTdelta T | TTime t => PTtime t | TWeekday w t => PTweekday (mkWd w t) end.
Definition py_of_timer (tm : timer) : pytimer :=
  mkPyTimer (py_type (jt_type tm)) (py_timing (jt_timing tm)) (jt_next tm) (jt_skip tm).
Definition py_res (r : res timer) : res pytimer := match r with Ok tm => Ok (py_of_timer tm) | Err e => Err e end.

Definition py_of_job (j : job) : pyjobstate :=
  mkPyJobState (j_mark j) (c_max_attempts (j_cfg j)) (j_attempts j) (j_failed j) (c_delay (j_cfg j)) (c_skip (j_cfg j)) (j_start j)
               (c_stop (j_cfg j)) (j_tz j) (map py_of_timer (j_timers j)) (j_pending j).
Definition py_res_job (r : res job) : res pyjobstate := match r with Ok j => Ok (py_of_job j) | Err e => Err e end.
