(* Model of scheduler/asyncio/scheduler.py + scheduler/asyncio/job.py as a discrete-event
   system in virtual time.  One supervising coroutine per job:

       reference = now
       while job.has_attempts_remaining:
           await sleep(job.timedelta(reference))      (<= 0: resumes at the same instant)
           await job._exec()                          (the coroutine: scripted duration)
           reference = now ; job._calc_next_exec(reference)
       else: unregister (dict.pop(job, None))
   delete_job pops the entry and cancels the task; CancelledError is swallowed.

   The job inside is the SAME model as for the threading scheduler (Model/Job.v).
   Modelled, not verified: the asyncio event loop (timer order, task cancellation).  No proofs here. *)
From Coq Require Import ZArith List Bool.
From Sv Require Import PyTime Timer Job Sched.
Import ListNotations.
Open Scope Z_scope.

Inductive phase :=
| PSleep (wake : Z)           (* suspended in sleep() until [wake] *)
| PRun (endt : Z)             (* the job's coroutine is suspended until [endt] *)
| PDone                       (* supervisor returned normally; entry removed *)
| PCancelled.                 (* task cancelled by delete_job(s) *)

(* what a coroutine does besides taking time: operations on its own scheduler, before the
   suspension ([pre]) and after it ([post]) *)
Inductive aop :=
| ADelete (id : nat)
| ADeleteJobs (tags : option (list Z)) (any : bool)
| AGetJobs (tags : option (list Z)) (any : bool)
| AJobs.

Record ajob := mkAjob {
  aj_job : job;
  aj_phase : phase;
  aj_ref : Z;                  (* the supervisor's reference instant *)
  aj_durs : list Z;            (* scripted duration of the k-th invocation (0 after the list) *)
  aj_pre : list aop;
  aj_post : list aop;
  aj_kill : bool;              (* cancel() was requested while the task was running its own step *)
  aj_sync : list bool          (* the k-th CALL of the handle raises before any coroutine exists *)
}.

Inductive aevent :=
| EStart (id : nat) (t : Z) (due_utc : Z) (args : list Z) (kwargs : list (Z * Z))
| EEnd (id : nat) (t : Z)
| ECancelled (id : nat) (t : Z)       (* a suspended invocation was cancelled *)
| ELogA (id : nat).

Record aio := mkAio {
  a_tz : option Z;
  a_now : Z;
  a_reg : list nat;                    (* keys of Scheduler._jobs *)
  a_jobs : list (nat * ajob);
  a_next : nat;
  a_events : list aevent               (* newest first *)
}.

Definition a_set (s : aio) (reg : list nat) (jobs : list (nat * ajob)) (evs : list aevent) : aio :=
  mkAio (a_tz s) (a_now s) reg jobs (a_next s) evs.
Definition a_get (s : aio) (id : nat) : option ajob := lookup id (a_jobs s).
Definition aj_set_phase (a : ajob) (p : phase) : ajob :=
  mkAjob (aj_job a) p (aj_ref a) (aj_durs a) (aj_pre a) (aj_post a) (aj_kill a) (aj_sync a).
Definition aj_set_kill (a : ajob) : ajob :=
  mkAjob (aj_job a) (aj_phase a) (aj_ref a) (aj_durs a) (aj_pre a) (aj_post a) true (aj_sync a).

(* the instant at which sleep(job.timedelta(reference)) resumes: never before the due time,
   never before the reference *)
Definition wake_time (ref due : Z) : Z := Z.max ref due.

Definition dur_of (a : ajob) : Z := Z.max 0 (nth (Z.to_nat (j_attempts (aj_job a))) (aj_durs a) 0).

(* entering the while loop with reference [ref] *)
Definition enter_loop (a : ajob) (j : job) (ref : Z) : ajob * bool :=
  if has_attempts j
  then (mkAjob j (PSleep (wake_time ref (utc (job_datetime j)))) ref (aj_durs a) (aj_pre a) (aj_post a) (aj_kill a) (aj_sync a), true)
  else (mkAjob j PDone ref (aj_durs a) (aj_pre a) (aj_post a) (aj_kill a) (aj_sync a), false).

(* a scheduling call at the current instant; [running] = the task has already started *)
Definition a_schedule (s : aio) (c : jobcfg) (durs : list Z) (pre post : list aop) (sync : list bool) : aio * res value :=
  let id := a_next s in
  let s1 := mkAio (a_tz s) (a_now s) (a_reg s) (a_jobs s) (S id) (a_events s) in
  match job_create c (a_tz s) (a_now s) with
  | Err e => (s1, Err e)
  | Ok j =>
      let '(a, live) := enter_loop (mkAjob j PDone (a_now s) durs pre post false sync) j (a_now s) in
      (mkAio (a_tz s) (a_now s) (if live then a_reg s ++ [id] else a_reg s) (a_jobs s ++ [(id, a)]) (S id) (a_events s),
       Ok (VJob id))
  end.

(* delete_job: pop + cancel.  A task suspended in sleep()/in its coroutine is cancelled at once;
   the task that is executing right now ([self]) only notes the request. *)
Definition a_cancel (s : aio) (id : nat) (self : option nat) : aio :=
  match a_get s id with
  | None => s
  | Some a =>
      let is_self := match self with Some x => Nat.eqb x id | None => false end in
      let a' := if is_self then aj_set_kill a
                else match aj_phase a with
                     | PSleep _ => aj_set_phase a PCancelled
                     | PRun _ => aj_set_phase a PCancelled
                     | _ => a
                     end in
      let evs := if is_self then a_events s
                 else match aj_phase a with
                      | PRun _ => ECancelled id (a_now s) :: a_events s
                      | _ => a_events s
                      end in
      a_set s (remove_id id (a_reg s)) (update id a' (a_jobs s)) evs
  end.

Definition a_job_tags (s : aio) (id : nat) : list Z :=
  match a_get s id with Some a => c_tags (j_cfg (aj_job a)) | None => [] end.
Definition a_select (s : aio) (tags : list Z) (any : bool) : list nat :=
  filter (fun id => tag_match tags any (a_job_tags s id)) (a_reg s).

Definition a_op (s : aio) (o : aop) (self : option nat) : aio * res value :=
  match o with
  | ADelete id =>
      if nmem id (a_reg s) then (a_cancel s id self, Ok VNone) else (s, Err SchedulerError)
  | ADeleteJobs tags any =>
      let sel := match tags with None | Some [] => a_reg s | Some tg => a_select s tg any end in
      (fold_left (fun st id => a_cancel st id self) sel s, Ok (VInt (Z.of_nat (length sel))))
  | AGetJobs tags any =>
      (s, Ok (VIds (match tags with None | Some [] => a_reg s | Some tg => a_select s tg any end)))
  | AJobs => (s, Ok (VIds (a_reg s)))
  end.

(* operations performed by a coroutine; the first one that raises makes the coroutine raise *)
Fixpoint a_prog (s : aio) (p : list aop) (self : nat) : aio * bool :=
  match p with
  | [] => (s, false)
  | o :: r =>
      match a_op s o (Some self) with
      | (s', Ok _) => a_prog s' r self
      | (s', Err _) => (s', true)
      end
  end.

(* the task of job [id] resumes at the current instant *)
Definition a_resume (s : aio) (id : nat) : aio :=
  match a_get s id with
  | None => s
  | Some a =>
      let now := a_now s in
      match aj_phase a with
      | PSleep _ =>
          (* _exec: call the handle, run until its first suspension *)
          let j := aj_job a in
          if nth (Z.to_nat (j_attempts j)) (aj_sync a) false then
            (* the call itself raises: contained, counted, logged; rescheduled at once *)
            match job_calc (job_run j true) (dt_now now (a_tz s)) with
            | Err _ => s
            | Ok j2 =>
                let '(a2, live) := enter_loop a j2 now in
                a_set s (if live then a_reg s else remove_id id (a_reg s)) (update id a2 (a_jobs s))
                      (ELogA id :: a_events s)
            end
          else
          let s0 := a_set s (a_reg s) (a_jobs s) (EStart id now (utc (job_datetime j)) (c_args (j_cfg j)) (c_kwargs (j_cfg j)) :: a_events s) in
          let '(s1, praised) := a_prog s0 (aj_pre a) id in
          match a_get s1 id with
          | None => s1
          | Some a1 =>
              if praised then
                (* the coroutine raised before suspending: counted, logged, rescheduled at once *)
                let j1 := job_run (aj_job a1) true in
                match job_calc j1 (dt_now now (a_tz s)) with
                | Err _ => s1
                | Ok j2 =>
                    let '(a2, live) := enter_loop a1 j2 now in
                    let a3 := if aj_kill a1 then (if live then aj_set_phase a2 PCancelled else a2) else a2 in
                    a_set s1 (if live then a_reg s1 else remove_id id (a_reg s1)) (update id a3 (a_jobs s1))
                          (ELogA id :: a_events s1)
                end
              else if aj_kill a1 then
                (* deleted itself, then suspends: CancelledError at the await *)
                a_set s1 (a_reg s1) (update id (aj_set_phase a1 PCancelled) (a_jobs s1)) (ECancelled id now :: a_events s1)
              else a_set s1 (a_reg s1) (update id (aj_set_phase a1 (PRun (now + dur_of a1))) (a_jobs s1)) (a_events s1)
          end
      | PRun _ =>
          let s0 := a_set s (a_reg s) (a_jobs s) (EEnd id now :: a_events s) in
          let '(s1, praised) := a_prog s0 (aj_post a) id in
          match a_get s1 id with
          | None => s1
          | Some a1 =>
              let raises := praised || outcome_of (aj_job a1) in
              let j1 := job_run (aj_job a1) raises in
              match job_calc j1 (dt_now now (a_tz s)) with
              | Err _ => s1
              | Ok j2 =>
                  let '(a2, live) := enter_loop a1 j2 now in
                  let a3 := if aj_kill a1 then (if live then aj_set_phase a2 PCancelled else a2) else a2 in
                  a_set s1 (if live then a_reg s1 else remove_id id (a_reg s1)) (update id a3 (a_jobs s1))
                        (if raises then ELogA id :: a_events s1 else a_events s1)
              end
          end
      | _ => s
      end
  end.

(* the earliest pending wake-up (ties: smallest id) *)
Definition wake_of (a : ajob) : option Z :=
  match aj_phase a with PSleep w => Some w | PRun e => Some e | _ => None end.
Fixpoint earliest (l : list (nat * ajob)) (best : option (nat * Z)) : option (nat * Z) :=
  match l with
  | [] => best
  | (id, a) :: r =>
      match wake_of a, best with
      | Some w, Some (_, bw) => if w <? bw then earliest r (Some (id, w)) else earliest r best
      | Some w, None => earliest r (Some (id, w))
      | None, _ => earliest r best
      end
  end.

(* run the loop until virtual time [t]; [fuel] bounds the number of task resumptions *)
Fixpoint a_run (fuel : nat) (s : aio) (t : Z) : aio * bool :=
  match fuel with
  | O => (s, false)
  | S f =>
      match earliest (a_jobs s) None with
      | Some (id, w) =>
          if w <=? t then
            let s1 := mkAio (a_tz s) (Z.max (a_now s) w) (a_reg s) (a_jobs s) (a_next s) (a_events s) in
            a_run f (a_resume s1 id) t
          else (mkAio (a_tz s) (Z.max (a_now s) t) (a_reg s) (a_jobs s) (a_next s) (a_events s), true)
      | None => (mkAio (a_tz s) (Z.max (a_now s) t) (a_reg s) (a_jobs s) (a_next s) (a_events s), true)
      end
  end.

(* bound on the number of task resumptions of one run (a zero-interval unlimited job would spin
   forever, in the model as in the real event loop) *)
Definition RUN_FUEL : nat := Z.to_nat 50000.

Inductive atop :=
| TSchedule (c : jobcfg) (durs : list Z) (pre post : list aop) (sync : list bool)
| TOnce (ot : oncetiming) (c : jobcfg) (durs : list Z) (pre post : list aop) (sync : list bool)
| TOp (o : aop)
| TRun (t : Z).

Definition a_clear (s : aio) : aio := mkAio (a_tz s) (a_now s) (a_reg s) (a_jobs s) (a_next s) [].

(* after every operation the loop runs until nothing is due at the current instant *)
Definition settle (sr : aio * res value) : aio * res value :=
  let '(s', ok) := a_run RUN_FUEL (fst sr) (a_now (fst sr)) in
  (s', if ok then snd sr else Err OtherError).

Definition a_step (s : aio) (o : atop) : aio * res value :=
  let s := a_clear s in
  match o with
  | TSchedule c durs pre post sync => settle (a_schedule s c durs pre post sync)
  | TOnce ot c durs pre post sync => settle (a_schedule s (once_cfg ot c) durs pre post sync)
  | TOp o => settle (a_op s o None)
  | TRun t => let '(s', ok) := a_run RUN_FUEL s t in (s', if ok then Ok VNone else Err OtherError)
  end.

Definition a_init (tz : option Z) (now : Z) : aio := mkAio tz now [] [] O [].

(* ---- same-instant ties (used by the correspondence harness only, no theorem is about it) -----------
   The order in which the event loop resumes two tasks that become runnable at the same instant is
   implementation defined.  [a_step_ties s o] mirrors a_step and reports whether, at any resumption, another
   task was runnable at the very same instant. *)
Definition other_same_wake (l : list (nat * ajob)) (id : nat) (w : Z) : bool :=
  existsb (fun ia => negb (Nat.eqb (fst ia) id) && match wake_of (snd ia) with Some w' => w' =? w | None => false end) l.
Fixpoint a_run_ties (fuel : nat) (s : aio) (t : Z) : bool :=
  match fuel with
  | O => false
  | S f =>
      match earliest (a_jobs s) None with
      | Some (id, w) =>
          if w <=? t then
            let s1 := mkAio (a_tz s) (Z.max (a_now s) w) (a_reg s) (a_jobs s) (a_next s) (a_events s) in
            other_same_wake (a_jobs s) id w || a_run_ties f (a_resume s1 id) t
          else false
      | None => false
      end
  end.
Definition a_step_ties (s : aio) (o : atop) : bool :=
  let s := a_clear s in
  match o with
  | TSchedule c durs pre post sync => let s' := fst (a_schedule s c durs pre post sync) in a_run_ties RUN_FUEL s' (a_now s')
  | TOnce ot c durs pre post sync => let s' := fst (a_schedule s (once_cfg ot c) durs pre post sync) in a_run_ties RUN_FUEL s' (a_now s')
  | TOp o => let s' := fst (a_op s o None) in a_run_ties RUN_FUEL s' (a_now s')
  | TRun t => a_run_ties RUN_FUEL s t
  end.
