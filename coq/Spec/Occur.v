(* Specification layer: what the property texts say, independent of the model's code.
   Instants are integers (UTC microseconds). *)
From Coq Require Import ZArith List Bool.
From Sv Require Import PyTime Timer.
Import ListNotations.
Open Scope Z_scope.

(* x is the earliest instant strictly after ref that satisfies P *)
Definition is_next (P : Z -> Prop) (ref x : Z) : Prop :=
  ref < x /\ P x /\ forall y, ref < y -> y < x -> ~ P y.

(* wall-clock reading of instant x in the fixed offset o *)
Definition reading (o : option Z) (x : Z) : Z := x + oz o.

(* occurrence sets of the clock triggers: the reading in the timing's own offset has the
   requested second(+microsecond) / minute and second / hour, minute and second *)
Definition occ_minutely (t : time) (x : Z) : Prop :=
  reading (t_off t) x mod MN = t_second t * SEC + t_micro t.
Definition occ_hourly (t : time) (x : Z) : Prop :=
  reading (t_off t) x mod HR = (t_minute t * 60 + t_second t) * SEC + t_micro t.
Definition occ_daily (t : time) (x : Z) : Prop :=
  reading (t_off t) x mod D = tod t.
(* weekday (0 = Monday) and time of day, read in the trigger's offset *)
Definition occ_weekly (w : Z) (t : time) (x : Z) : Prop :=
  reading (t_off t) x mod D = tod t /\ (reading (t_off t) x / D) mod 7 = w.

Definition occ (ty : jobtype) (tg : timing) (x : Z) : Prop :=
  match ty, tg with
  | MINUTELY, TTime t => occ_minutely t x
  | HOURLY, TTime t => occ_hourly t x
  | DAILY, TTime t => occ_daily t x
  | WEEKLY, TWeekday w t => occ_weekly w t x
  | _, _ => False
  end.

(* cyclic occurrences of reference s and interval T *)
Definition occ_cyclic (s T : Z) (k : Z) : Z := s + k * T.

(* a timing entry is well formed for its job type *)
Definition valid_entry (ty : jobtype) (tg : timing) : Prop :=
  match ty, tg with
  | (MINUTELY | HOURLY | DAILY), TTime t => valid_time t
  | WEEKLY, TWeekday w t => valid_time t /\ 0 <= w <= 6
  | CYCLIC, TCyclic T => True
  | _, _ => False
  end.

Lemma is_next_unique P ref x y : is_next P ref x -> is_next P ref y -> x = y.
Proof.
  intros (Hx1 & Hx2 & Hx3) (Hy1 & Hy2 & Hy3).
  destruct (Z.lt_trichotomy x y) as [H | [H | H]]; [|assumption|].
  - exfalso. exact (Hy3 x Hx1 H Hx2).
  - exfalso. exact (Hx3 y Hy1 H Hy2).
Qed.
