(* C03: cyclic jobs keep the drift-free cadence start + k*interval; one-shots are exact.
   Only statements closed by [exact]; proofs are in Proofs/CyclicProofs.v. *)
From Coq Require Import ZArith List Bool.
From Sv Require Import PyTime Timer Job Sched Occur TimerProofs JobProofs CyclicProofs.
Import ListNotations.
Open Scope Z_scope.

(* After n executions -- at arbitrary polling instants [runs], with arbitrary callback outcomes,
   lateness never accumulating -- the job is planned for s + (n+1)*T; with the deprecated
   delay=False the first execution is planned for s itself, then s+T, s+2T, ...  So the k-th
   execution always belongs to exactly s + k*T (k counted from 1, resp. from 0). *)
Theorem C03_cyclic_cadence : forall c tz now j T runs,
  cfg_valid c -> job_create c tz now = Ok j -> c_type c = CYCLIC -> c_timing c = [TCyclic T] ->
  c_skip c = false -> Forall (fun r => aware (snd r) = tz_aware tz) runs ->
  let s := utc (match c_start c with Some s => s | None => dt_now now tz end) in
  exists j', job_cycles j runs = Ok j' /\
             j_attempts j' = Z.of_nat (length runs) /\
             utc (job_datetime j') = s + (Z.of_nat (length runs) + if c_delay c then 1 else 0) * T.
Proof. exact cyclic_cadence. Qed.

(* once(datetime): due exactly at that datetime, one attempt *)
Theorem C03_once_datetime : forall c0 d tz now j,
  job_create (once_cfg (OnceDt d) c0) tz now = Ok j -> job_datetime j = d /\ c_max_attempts (j_cfg j) = 1.
Proof. exact once_datetime_exact. Qed.

(* once(timedelta): exactly that long after the creation instant *)
Theorem C03_once_timedelta : forall c0 T tz now j,
  job_create (once_cfg (OnceTd T) c0) tz now = Ok j ->
  utc (job_datetime j) = now + T /\ c_max_attempts (j_cfg j) = 1.
Proof. exact once_timedelta_exact. Qed.

(* once(time) / once(weekday trigger): the next such occurrence after the creation instant *)
Theorem C03_once_time : forall c0 t tz now j,
  valid_time t -> job_create (once_cfg (OnceTime t) c0) tz now = Ok j ->
  is_next (occ_daily t) now (utc (job_datetime j)) /\ c_max_attempts (j_cfg j) = 1.
Proof. exact once_time_is_next. Qed.
Theorem C03_once_weekday : forall c0 w t tz now j,
  valid_time t -> 0 <= w <= 6 -> job_create (once_cfg (OnceWd w t) c0) tz now = Ok j ->
  is_next (occ_weekly w t) now (utc (job_datetime j)) /\ c_max_attempts (j_cfg j) = 1.
Proof. exact once_weekday_is_next. Qed.

(* non-vacuity: T = 10 s, delay=False, three executions polled late and irregularly *)
Example C03_example :
  let c := mkCfg CYCLIC [TCyclic 10000000] 0 [] false (Some (mkDt 63871324200000000 None)) None false 1 1 [] [] [] in
  exists j, job_create c None 63871324300000000 = Ok j /\ utc (job_datetime j) = 63871324200000000 /\
  exists j', job_cycles j [(false, mkDt 63871324300000000 None); (true, mkDt 63871324999999999 None);
                           (false, mkDt 63871325000000000 None)] = Ok j' /\
             utc (job_datetime j') = 63871324230000000.
Proof.
  cbv zeta. eexists. split; [vm_compute; reflexivity|]. split; [vm_compute; reflexivity|].
  eexists. split; [vm_compute; reflexivity|]. vm_compute; reflexivity.
Qed.

Print Assumptions C03_cyclic_cadence.
Print Assumptions C03_once_datetime.
Print Assumptions C03_once_timedelta.
Print Assumptions C03_once_time.
Print Assumptions C03_once_weekday.
