(* C05: under max_exec the highest-priority overdue jobs run, in priority order.
   Only statements closed by [exact]; proofs are in Proofs/. *)
From Coq Require Import ZArith List Bool.
From Sv Require Import PyTime Timer Job Sched Occur JobProofs SchedProofs SelectProofs SchedFacts.
Import ListNotations.
Open Scope Z_scope.

(* The theorems hold for an ARBITRARY priority assignment [prs] (any deterministic user function,
   negative, zero and equal values included); priorities are exact rationals num/den, den > 0. *)

(* how many run: min(max_exec, number of jobs with priority > 0) *)
Theorem C05_count : forall mx prs,
  pr_dens prs -> 0 <= mx ->
  length (chosen mx prs) =
    if mx =? 0 then length (positives prs) else Nat.min (Z.to_nat mx) (length (positives prs)).
Proof. exact chosen_count. Qed.

(* none of them has a lower priority than any job left waiting *)
Theorem C05_top_k : forall mx prs a b,
  pr_dens prs -> 0 < mx -> In a (chosen mx prs) -> In b prs -> ~ In b (chosen mx prs) ->
  qpos (snd b) = true -> qle (snd b) (snd a) = true.
Proof. exact chosen_topk. Qed.

(* never a job whose priority is <= 0; only jobs that were offered *)
Theorem C05_positive_only : forall mx prs ip, In ip (chosen mx prs) -> qpos (snd ip) = true.
Proof. exact chosen_positive. Qed.
Theorem C05_only_registered : forall mx prs ip, In ip (chosen mx prs) -> In ip prs.
Proof. exact chosen_in. Qed.

(* with a single worker they run in non-increasing priority order (the batch is run in list
   order: C04_invokes_exactly_batch) *)
Theorem C05_order : forall mx prs, pr_dens prs -> desc snd (chosen mx prs).
Proof. exact chosen_sorted. Qed.

(* the priority function is evaluated once per registered job, in iteration order, with
   (now - due, the job, max_exec, number of registered jobs) *)
Theorem C05_priority_calls : forall s table order n,
  sched_inv s -> (forall x, In x order -> exists j, get_job s x = Some j) ->
  collect_prios s table order (exec_ref s) n = Ok (prios_spec s table order, prio_events s table order n).
Proof. exact collect_prios_spec. Qed.

(* the built-in functions over exact arithmetic (time_delta = overdue_us / 10^6) *)
Theorem C05_linear_value : forall od wn wd, 0 <= od -> linear_priority od wn wd = ((od + SEC) * wn, wd * SEC).
Proof. exact linear_priority_value. Qed.
Theorem C05_linear_before_due : forall od wn wd, od < 0 -> linear_priority od wn wd = (0, 1).
Proof. exact linear_priority_before. Qed.
Theorem C05_constant_positive : forall od wn wd,
  qpos (constant_priority od wn wd) = true <-> 0 <= od /\ 0 < wn.
Proof. exact constant_priority_positive. Qed.
(* among equally late jobs the heavier, among equal weights the later one goes first *)
Theorem C05_heavier_first : forall od wn1 wn2 wd,
  0 <= od -> 0 < wd -> wn1 < wn2 -> qle (linear_priority od wn2 wd) (linear_priority od wn1 wd) = false.
Proof. exact linear_strict_weight. Qed.
Theorem C05_later_first : forall od1 od2 wn wd,
  0 <= od1 < od2 -> 0 < wd -> 0 < wn -> qle (linear_priority od2 wn wd) (linear_priority od1 wn wd) = false.
Proof. exact linear_strict_lateness. Qed.

(* non-vacuity: priorities 3, -1, 3, 0, 5/2 (ties, negative, zero) with max_exec = 2: the first
   3 and the second 3 in original order; with max_exec = 4: 3, 3, 5/2 *)
Example C05_example :
  let prs := [(0%nat, (3, 1)); (1%nat, (-1, 1)); (2%nat, (3, 1)); (3%nat, (0, 1)); (4%nat, (5, 2))] in
  map fst (chosen 2 prs) = [0; 2]%nat /\ map fst (chosen 4 prs) = [0; 2; 4]%nat /\
  map fst (chosen 0 prs) = [0; 2; 4]%nat.
Proof. vm_compute. repeat split. Qed.

Print Assumptions C05_count.
Print Assumptions C05_top_k.
Print Assumptions C05_order.
Print Assumptions C05_priority_calls.
Print Assumptions C05_heavier_first.
