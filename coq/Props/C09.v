(* C09: a batched job fires on the union of its times; equivalent times are rejected.
   Only statements closed by [exact]; proofs are in Proofs/. *)
From Coq Require Import ZArith List Bool.
From Sv Require Import PyTime Timer Job Sched Occur JobProofs EquivProofs BatchProofs SchedProofs SchedFacts.
Import ListNotations.
Open Scope Z_scope.

(* a freshly created clock job (any number of entries, each with its own offset) satisfies the
   batch invariant relative to its reference instant *)
Theorem C09_created_batch : forall c tz now j,
  cfg_valid c -> job_create c tz now = Ok j -> c_type c <> CYCLIC -> c_skip c = false -> c_delay c = true ->
  batch_inv (utc (match c_start c with Some s => s | None => dt_now now tz end)) j.
Proof. exact created_batch. Qed.

(* the successive due times, over any number of executions at arbitrary polling instants, are
   chained by "is the next occurrence of the union after": ascending, no omission, no repetition *)
Theorem C09_due_times_enumerate_union : forall runs L j,
  batch_inv L j -> Forall (fun r => aware (snd r) = tz_aware (j_tz j)) runs ->
  exists ds, dues j runs = Ok ds /\ length ds = S (length runs) /\
             chain (union_occ (c_type (j_cfg j)) (c_timing (j_cfg j))) L ds.
Proof. exact batch_due_enumerates_union. Qed.

(* one exec_jobs call invokes a job at most once even if several of its times are overdue: the
   batch of a call is duplicate free (its members are job ids) *)
Theorem C09_at_most_once_per_call : forall mx prs,
  NoDup (map fst prs) ->
  NoDup (select_batch mx (sort_desc snd prs)) /\
  (forall x, In x (select_batch mx (sort_desc snd prs)) -> In x (map fst prs)).
Proof. exact select_batch_sub. Qed.

(* the duplicate check accepts a list iff its entries denote pairwise different recurring
   instants -- whatever offsets, weekdays or ignored hour/minute fields they are written with *)
Theorem C09_dup_check_times : forall ty tgs tz,
  (ty = MINUTELY \/ ty = HOURLY \/ ty = DAILY) -> Forall (std_time ty) tgs ->
  (dup_ok ty tgs tz = true <-> ForallOrdPairs (fun a b => ~ same_occ ty a b) tgs).
Proof. exact dup_ok_times. Qed.
Theorem C09_dup_check_weekly : forall tgs tz,
  Forall (std_weekday tz) tgs ->
  (dup_ok WEEKLY tgs tz = true <-> ForallOrdPairs (fun a b => ~ same_occ WEEKLY a b) tgs).
Proof. exact dup_ok_weekly. Qed.
(* ... and a rejected list is rejected with SchedulerError before the job exists *)
Theorem C09_rejected_with_scheduler_error : forall c tz now e,
  cfg_valid c -> c_timing c <> [] -> job_create c tz now = Err e -> e = SchedulerError.
Proof. exact job_create_err. Qed.

(* non-vacuity: daily [12:00+01:00, 11:00Z] is rejected (same instants), [12:00+01:00, 14:00-01:00]
   is accepted and fires at 11:00Z then 15:00Z *)
Example C09_example :
  let t1 := mkTime 12 0 0 0 (Some 3600000000) in
  let t2 := mkTime 11 0 0 0 (Some 0) in
  let t3 := mkTime 14 0 0 0 (Some (-3600000000)) in
  let mk l := mkCfg DAILY l 0 [] true None None false 1 1 [] [] [] in
  job_create (mk [TTime t1; TTime t2]) (Some 0) 63871324200000000 = Err SchedulerError /\
  exists j, job_create (mk [TTime t1; TTime t3]) (Some 0) 63871324200000000 = Ok j /\
            exists ds, dues j [(false, mkDt 63871400000000000 (Some 0))] = Ok ds /\
                       nth 1 ds 0 - nth 0 ds 0 = 4 * HR.
Proof.
  cbv zeta. split; [vm_compute; reflexivity|]. eexists. split; [vm_compute; reflexivity|].
  eexists. split; vm_compute; reflexivity.
Qed.

Print Assumptions C09_created_batch.
Print Assumptions C09_due_times_enumerate_union.
Print Assumptions C09_at_most_once_per_call.
Print Assumptions C09_dup_check_times.
Print Assumptions C09_dup_check_weekly.
