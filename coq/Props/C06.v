(* C06: a job never runs more often than max_attempts and is retired when exhausted.
   Only statements closed by [exact]; proofs are in Proofs/. *)
From Coq Require Import ZArith List Bool.
From Sv Require Import PyTime Timer Job Sched Occur JobProofs CyclicProofs SchedProofs SelectProofs SchedFacts.
Import ListNotations.
Open Scope Z_scope.

(* every state reachable by any history of valid operations (scheduling calls of all kinds,
   deletions, queries, polls incl. forced ones, clock advances, failing callbacks, callbacks that
   use the scheduler) satisfies the invariants *)
Theorem C06_reachable_good : forall ops s, good s -> Forall op_valid ops -> good (run s ops).
Proof. exact run_good. Qed.
Theorem C06_initial_good : forall tz mx pk ctor now s,
  Forall (fun ct => cfg_valid (fst ct)) ctor -> sched_init tz mx pk ctor now = Ok s -> good s.
Proof. exact sched_init_good. Qed.

(* in a good state: every job object ever created respects its budget (at most n invocations
   over its whole life: the attempts counter is incremented exactly once per invocation), and
   failed_attempts never exceeds attempts *)
Theorem C06_budget : forall s id j,
  good s -> get_job s id = Some j -> 0 < c_max_attempts (j_cfg j) ->
  j_attempts j <= c_max_attempts (j_cfg j) /\ 0 <= j_failed j <= j_attempts j.
Proof. exact any_job_budget. Qed.

(* ... and a job that is still registered has attempts left: so the exec_jobs call that performs
   the n-th invocation is the one that removes it (the state after that call is good again) *)
Theorem C06_registered_has_attempts : forall s id j,
  good s -> In id (s_reg s) -> get_job s id = Some j ->
  has_attempts j = true /\
  (0 < c_max_attempts (j_cfg j) -> j_attempts j < c_max_attempts (j_cfg j)) /\
  (forall e, c_stop (j_cfg j) = Some e -> utc (jt_next (pending_timer j)) <= utc e).
Proof. exact registered_job_facts. Qed.

(* a job that left the job set never reappears *)
Theorem C06_never_reappears : forall ops s x,
  good s -> Forall op_valid ops -> (x < s_next s)%nat -> ~ In x (s_reg s) -> ~ In x (s_reg (run s ops)).
Proof. exact never_reappears. Qed.

(* every operation keeps the state good; nothing but SchedulerError is ever raised *)
Theorem C06_step : forall s o s' r,
  good s -> op_valid o -> step s o = (s', r) ->
  good s' /\ s_tz s' = s_tz s /\ (s_next s <= s_next s')%nat /\
  (forall x, (x < s_next s)%nat -> In x (s_reg s') -> In x (s_reg s)) /\
  (forall e, r = Err e -> e = SchedulerError \/
             (exists f ord tb, o = OExec f ord tb /\ is_perm_of ord (s_reg s) = false)).
Proof. exact step_good. Qed.

(* once(): max_attempts = 1 on every path *)
Theorem C06_once_is_one_shot : forall ot c, c_max_attempts (once_cfg ot c) = 1.
Proof. intros ot c. destruct ot; reflexivity. Qed.

(* max_attempts = 0 is never exhausted by running *)
Theorem C06_unlimited : forall j, c_max_attempts (j_cfg j) = 0 -> j_mark j = false -> has_attempts j = true.
Proof. intros j H0 Hm. unfold has_attempts. rewrite Hm, H0. reflexivity. Qed.

(* non-vacuity: a max_attempts=2 job polled three times (the second poll forced): it runs twice,
   is gone after the second call and stays gone *)
Example C06_example :
  let c := mkCfg CYCLIC [TCyclic 5] 2 [] true None None false 1 1 [] [] [true; false] in
  exists s0, sched_init None 0 PLinear [] 1000 = Ok s0 /\
  let s1 := run s0 [OCall (CSchedule c) []; ONow 1005; OExec false [0%nat] []] in
  let s2 := run s1 [OExec true [0%nat] []] in
  let s3 := run s2 [ONow 2000; OExec false [] []] in
  s_reg s1 = [0%nat] /\ s_reg s2 = [] /\ s_reg s3 = [] /\
  option_map j_attempts (get_job s3 0%nat) = Some 2 /\ option_map j_failed (get_job s3 0%nat) = Some 1.
Proof. cbv zeta. eexists. split; [vm_compute; reflexivity|]. vm_compute. repeat split. Qed.

Print Assumptions C06_reachable_good.
Print Assumptions C06_initial_good.
Print Assumptions C06_budget.
Print Assumptions C06_registered_has_attempts.
Print Assumptions C06_never_reappears.
Print Assumptions C06_step.
