(* C10: a failing callback is contained, counted and logged; other jobs are unaffected.
   Only statements closed by [exact]; proofs are in Proofs/. *)
From Coq Require Import ZArith List Bool.
From Sv Require Import PyTime Timer Job Sched Occur JobProofs SchedProofs SelectProofs SchedFacts.
Import ListNotations.
Open Scope Z_scope.

(* whatever the callbacks do (the outcome oracle c_outs and the callback programs are arbitrary),
   exec_jobs returns normally with a count and leaves a good state: no exception propagates, the
   whole batch is run and rescheduled *)
Theorem C10_exec_never_raises : forall s force order table,
  sched_inv s -> progs_valid s -> live_inv s -> is_perm_of order (s_reg s) = true ->
  exists s' n, exec_jobs s force order table = (s', Ok (VInt n)) /\
               sched_inv s' /\ progs_valid s' /\ live_inv s' /\
               s_tz s' = s_tz s /\ s_now s' = s_now s /\ s_max_exec s' = s_max_exec s /\ s_prio s' = s_prio s /\
               (s_next s <= s_next s')%nat /\
               (forall x, (x < s_next s)%nat -> In x (s_reg s') -> In x (s_reg s)).
Proof. exact exec_jobs_inv. Qed.

(* a failure never prevents the other selected jobs from running: the batch is invoked completely *)
Theorem C10_batch_runs_completely : forall s batch ref s' r,
  (forall x, In x batch -> In x (map fst (s_jobs s))) ->
  exec_batch s batch ref = (s', r) ->
  inv_ids (s_events s') = rev batch ++ inv_ids (s_events s).
Proof. exact exec_batch_invokes. Qed.

(* each invocation counts the attempt; a raising one additionally counts the failure and emits
   exactly one error record; a succeeding one emits none *)
Theorem C10_counted_and_logged : forall s id j,
  get_job s id = Some j ->
  (exists j1 b, get_job (invoke s id) id = Some (job_run j1 b) /\
                log_ids (s_events (invoke s id)) = (if b then [id] else []) ++ log_ids (s_events s)) \/
  (get_job (invoke s id) id = None /\ log_ids (s_events (invoke s id)) = log_ids (s_events s)).
Proof. exact invoke_logs. Qed.
Theorem C10_run_outcomes : forall j,
  job_run j true = set_failed (job_run j false) (j_failed j + 1) /\
  j_attempts (job_run j true) = j_attempts j + 1 /\ j_attempts (job_run j false) = j_attempts j + 1 /\
  j_failed (job_run j true) = j_failed j + 1 /\ j_failed (job_run j false) = j_failed j.
Proof. exact job_run_outcomes. Qed.

(* the failing job is rescheduled or retired exactly as if the run had succeeded: rescheduling,
   remaining attempts and the due time never read the failure counter *)
Theorem C10_reschedule_ignores_failure : forall j f ref,
  job_calc (set_failed j f) ref =
    match job_calc j ref with Ok j' => Ok (set_failed j' f) | Err e => Err e end.
Proof. exact job_calc_ignores_failed. Qed.
Theorem C10_attempts_ignore_failure : forall j f, has_attempts (set_failed j f) = has_attempts j.
Proof. exact has_attempts_ignores_failed. Qed.
Theorem C10_due_ignores_failure : forall j f, job_datetime (set_failed j f) = job_datetime j.
Proof. exact job_datetime_ignores_failed. Qed.

(* failed_attempts never exceeds attempts (every reachable state) *)
Theorem C10_failed_le_attempts : forall s id j,
  good s -> get_job s id = Some j -> 0 < c_max_attempts (j_cfg j) ->
  j_attempts j <= c_max_attempts (j_cfg j) /\ 0 <= j_failed j <= j_attempts j.
Proof. exact any_job_budget. Qed.

(* non-vacuity: a batch of three, the first one raising: all three run, one record is logged *)
Example C10_example :
  let mk outs := mkCfg CYCLIC [TCyclic 5] 0 [] true None None false 1 1 [] [] outs in
  exists s0, sched_init None 0 PLinear [] 1000 = Ok s0 /\
  let s1 := run s0 [OCall (CSchedule (mk [true])) []; OCall (CSchedule (mk [])) []; OCall (CSchedule (mk [])) [];
                    ONow 1005] in
  exists s2, exec_jobs s1 false [0; 1; 2]%nat [] = (s2, Ok (VInt 3)) /\
             inv_ids (s_events s2) = [2; 1; 0]%nat /\ log_ids (s_events s2) = [0%nat] /\
             option_map j_failed (get_job s2 0%nat) = Some 1 /\ option_map j_attempts (get_job s2 0%nat) = Some 1.
Proof. cbv zeta. eexists. split; [vm_compute; reflexivity|]. eexists. split; [vm_compute; reflexivity|]. vm_compute. repeat split. Qed.

Print Assumptions C10_exec_never_raises.
Print Assumptions C10_batch_runs_completely.
Print Assumptions C10_counted_and_logged.
Print Assumptions C10_reschedule_ignores_failure.
Print Assumptions C10_failed_le_attempts.
