(* C17: the asyncio scheduler runs each job at its due times, never early, independently.
   Only statements closed by [exact]; proofs are in Proofs/AioProofs.v. *)
From Coq Require Import ZArith List Bool.
From Sv Require Import PyTime Timer Job Sched Aio Occur TimerProofs JobProofs SchedProofs AioProofs AioTrace.
Import ListNotations.
Open Scope Z_scope.

(* the supervisor resumes at max(reference, due): never before the job is due, and without further
   delay once it is (reference = the end of the previous invocation, or the creation instant) *)
Theorem C17_wake_time : forall ref due,
  due <= wake_time ref due /\ ref <= wake_time ref due /\
  (ref <= due -> wake_time ref due = due) /\ (due <= ref -> wake_time ref due = ref).
Proof. exact wake_time_spec. Qed.
Theorem C17_enter_loop : forall a j ref,
  enter_loop a j ref =
    if has_attempts j
    then (mkAjob j (PSleep (Z.max ref (utc (job_datetime j)))) ref (aj_durs a) (aj_pre a) (aj_post a) (aj_kill a) (aj_sync a), true)
    else (mkAjob j PDone ref (aj_durs a) (aj_pre a) (aj_post a) (aj_kill a) (aj_sync a), false).
Proof. exact enter_loop_spec. Qed.

(* when the supervisor wakes the coroutine starts at that very instant, with the scheduled arguments *)
Theorem C17_invocation_starts : forall s id a w,
  a_get s id = Some a -> aj_phase a = PSleep w -> aj_pre a = [] -> aj_kill a = false ->
  nth (Z.to_nat (j_attempts (aj_job a))) (aj_sync a) false = false ->
  a_resume s id =
    a_set s (a_reg s) (update id (aj_set_phase a (PRun (a_now s + dur_of a))) (a_jobs s))
          (EStart id (a_now s) (utc (job_datetime (aj_job a))) (c_args (j_cfg (aj_job a))) (c_kwargs (j_cfg (aj_job a)))
           :: a_events s).
Proof. exact resume_starts_invocation. Qed.

(* when the coroutine returns, the job is counted and rescheduled by the SAME job_cycle the theorems
   C01-C09 are about, with the completion instant as the reference -- so due times, attempt limits,
   stop, batching and skip_missing behave exactly as in the threading scheduler; then the supervisor
   sleeps until max(completion, next due), or finishes and unregisters the job *)
Theorem C17_invocation_finishes : forall s id a e,
  aio_inv s -> a_get s id = Some a -> aj_phase a = PRun e -> aj_post a = [] -> aj_kill a = false ->
  let raises := outcome_of (aj_job a) in
  exists j', job_cycle (aj_job a) (raises, dt_now (a_now s) (a_tz s)) = Ok j' /\
    a_resume s id =
      a_set s (if has_attempts j' then a_reg s else remove_id id (a_reg s))
            (update id (mkAjob j' (if has_attempts j' then PSleep (Z.max (a_now s) (utc (job_datetime j'))) else PDone)
                               (a_now s) (aj_durs a) (aj_pre a) (aj_post a) false (aj_sync a)) (a_jobs s))
            ((if raises then [ELogA id] else []) ++ EEnd id (a_now s) :: a_events s).
Proof. exact resume_finishes_invocation. Qed.

(* jobs run independently: a slow or failing coroutine changes no other job's record *)
Theorem C17_independent : forall s id a x,
  a_get s id = Some a -> aj_pre a = [] -> aj_post a = [] -> x <> id -> a_get (a_resume s id) x = a_get s x.
Proof. exact resume_touches_only_itself. Qed.

(* every reachable state is well formed, whatever the coroutines do and however long the loop runs *)
Theorem C17_invariant : forall s o s' r,
  aio_inv s -> atop_valid o -> a_step s o = (s', r) ->
  aio_inv s' /\ (forall e, r = Err e -> e = SchedulerError \/ e = OtherError).
Proof. exact a_step_inv. Qed.

(* never early, over EVERY history: whatever scheduling calls, deletions (also from inside coroutines)
   and virtual-time runs came before, an operation on a well-formed state records no invocation that
   starts before the due time of its job, and leaves every sleeping supervisor set to wake at or
   after its job's due time (the second invariant, [wake_ok]) *)
Theorem C17_never_early_step : forall s o s' r,
  aio_inv s -> wake_ok s -> atop_valid o -> a_step s o = (s', r) ->
  wake_ok s' /\ Forall (fun e => match e with EStart _ t due _ _ => due <= t | _ => True end) (a_events s').
Proof. exact a_step_trace. Qed.
Theorem C17_never_early_history : forall tz now ops,
  Forall atop_valid ops ->
  let s := a_steps (a_init tz now) ops in
  aio_inv s /\ wake_ok s /\
  Forall (fun e => match e with EStart _ t due _ _ => due <= t | _ => True end) (a_events s).
Proof. exact history_never_early. Qed.

(* without further delay, over EVERY history: no suspended task (sleeping supervisor or running coroutine) is ever
   overdue for resumption - its wake-up instant is at or after the loop's current instant in every reachable state -
   ([pending_ok s] = forall id a, In (id, a) (a_jobs s) -> forall w, wake_of a = Some w -> a_now s <= w),
   so whenever the loop resumes a task it does so exactly AT that task's wake-up instant, which for a sleeping
   supervisor is max(reference, due) by C17_enter_loop: start_k = max(due_k, end_(k-1)) *)
Theorem C17_no_delay_step : forall s o s' r,
  pending_ok s -> a_step s o = (s', r) -> pending_ok s'.
Proof. exact a_step_pending. Qed.
Theorem C17_no_delay_history : forall tz now ops,
  let s := a_steps (a_init tz now) ops in
  pending_ok s /\
  (forall id w, earliest (a_jobs s) None = Some (id, w) -> Z.max (a_now s) w = w).
Proof. exact history_no_delay. Qed.

(* non-vacuity: cyclic 5 s, durations 1 s, 7 s, 0 s: starts at 6, 11, max(16, 18) = 18 *)
Example C17_example :
  let c := mkCfg CYCLIC [TCyclic 5000000] 3 [] true None None false 1 1 [] [] [] in
  let s1 := fst (a_step (a_init None 1000000) (TSchedule c [1000000; 7000000; 0] [] [] [])) in
  let s2 := fst (a_step s1 (TRun 30000000)) in
  map (fun e => match e with EStart _ t _ _ _ => t | EEnd _ t => - t | _ => 0 end) (rev (a_events s2)) =
    [6000000; -7000000; 11000000; -18000000; 18000000; -18000000] /\ a_reg s2 = [].
Proof. vm_compute. split; reflexivity. Qed.

Print Assumptions C17_wake_time.
Print Assumptions C17_invocation_starts.
Print Assumptions C17_invocation_finishes.
Print Assumptions C17_independent.
Print Assumptions C17_invariant.
Print Assumptions C17_never_early_step.
Print Assumptions C17_never_early_history.
Print Assumptions C17_no_delay_step.
Print Assumptions C17_no_delay_history.
