(* C15: callbacks may use their own scheduler: no deadlock, exec_jobs finishes its batch.
   Only statements closed by [exact]; proofs are in Proofs/. *)
From Coq Require Import ZArith List Bool.
From Sv Require Import PyTime Timer Job Sched Conc Occur JobProofs SchedProofs SelectProofs SchedFacts ConcProofs.
Import ListNotations.
Open Scope Z_scope.

(* one worker (the default): for ANY callback programs built from public operations other than
   exec_jobs -- query, schedule, delete other jobs, delete the own job, clear the scheduler --
   exec_jobs returns normally, the whole batch is invoked and rescheduled, the state stays good *)
Theorem C15_exec_completes : forall s force order table,
  sched_inv s -> progs_valid s -> live_inv s -> is_perm_of order (s_reg s) = true ->
  exists s' n, exec_jobs s force order table = (s', Ok (VInt n)) /\
               sched_inv s' /\ progs_valid s' /\ live_inv s' /\
               s_tz s' = s_tz s /\ s_now s' = s_now s /\ s_max_exec s' = s_max_exec s /\ s_prio s' = s_prio s /\
               (s_next s <= s_next s')%nat /\
               (forall x, (x < s_next s)%nat -> In x (s_reg s') -> In x (s_reg s)).
Proof. exact exec_jobs_inv. Qed.
Theorem C15_batch_fixed_before_callbacks : forall s batch ref s' r,
  (forall x, In x batch -> In x (map fst (s_jobs s))) ->
  exec_batch s batch ref = (s', r) ->
  inv_ids (s_events s') = rev batch ++ inv_ids (s_events s).
Proof. exact exec_batch_invokes. Qed.
(* jobs scheduled from a callback are registered but not run in the same call (the batch is chosen
   before any callback runs: above); jobs deleted from a callback stay deleted: an id that left the
   job set is never re-added by the same or any later operation *)
Theorem C15_deleted_stays_deleted : forall ops s x,
  good s -> Forall op_valid ops -> (x < s_next s)%nat -> ~ In x (s_reg s) -> ~ In x (s_reg (run s ops)).
Proof. exact never_reappears. Qed.

(* no deadlock with one worker: the running thread is the only lock holder, whatever it acquires *)
Theorem C15_single_worker_never_blocks : forall s,
  length (ls_threads s) = 1%nat -> only_owner s 0 ->
  (finished s = false -> can_step s 0 = true) /\ only_owner (lstep s 0) 0 /\
  length (ls_threads (lstep s 0)) = 1%nat.
Proof. exact single_worker_never_blocks. Qed.

(* with several workers the claim is FALSE on the pinned tree as soon as one callback prints the
   scheduler while another one uses it (lock-order inversion).  Known finding
   C15/print-deadlock-multi-worker, witnessed on the implementation by the DST harness. *)
Theorem C15_multi_worker_print_deadlock_refuted :
  let s0 := mkLS [] [mkLT (plan_print 0 [0; 1]%nat); mkLT (plan_registry_op 1)] in
  deadlocked (fold_left lstep [0; 1; 0; 0; 0; 1]%nat s0) = true.
Proof. exact printing_and_registry_op_deadlock_refuted. Qed.

Print Assumptions C15_exec_completes.
Print Assumptions C15_batch_fixed_before_callbacks.
Print Assumptions C15_deleted_stays_deleted.
Print Assumptions C15_single_worker_never_blocks.
Print Assumptions C15_multi_worker_print_deadlock_refuted.
