(* C11: the job set is exactly: scheduled minus deleted minus retired.
   Only statements closed by [exact]; proofs are in Proofs/. *)
From Coq Require Import ZArith List Bool.
From Sv Require Import PyTime Timer Job Sched Occur JobProofs SchedProofs SelectProofs SchedFacts.
Import ListNotations.
Open Scope Z_scope.

(* a scheduling call: the new job (fresh id) enters the set iff it can still run; nothing else changes *)
Theorem C11_schedule_adds : forall s c prog j,
  job_create c (s_tz s) (s_now s) = Ok j ->
  exists s', schedule s c prog = (s', Ok (VJob (s_next s))) /\
             get_job s' (s_next s) = (if nmem (s_next s) (map fst (s_jobs s)) then get_job s (s_next s) else Some j) /\
             s_reg s' = (if has_attempts j then s_reg s ++ [s_next s] else s_reg s).
Proof. exact schedule_registers_iff. Qed.

(* a scheduling call that raises registers nothing and creates nothing *)
Theorem C11_rejected_call_is_identity : forall s c prog s' e,
  schedule s c prog = (s', Err e) -> s_reg s' = s_reg s /\ s_jobs s' = s_jobs s.
Proof. exact schedule_rejected_identity. Qed.

(* delete_job: removes exactly that job, or raises SchedulerError and changes nothing *)
Theorem C11_delete_job : forall s id,
  cb_step s (CDelete id) [] =
    if nmem id (s_reg s) then (upd_reg s (remove_id id (s_reg s)), Ok VNone) else (s, Err SchedulerError).
Proof. exact delete_job_spec. Qed.
Theorem C11_remove_exact : forall x id l, In x (remove_id id l) <-> In x l /\ x <> id.
Proof. exact remove_id_In. Qed.

(* delete_jobs: removes exactly the selection and returns its size *)
Theorem C11_delete_jobs : forall s tags any,
  let sel := if no_tags tags then s_reg s
             else filter (fun id => tag_match (match tags with Some t => t | None => [] end) any (job_tags s id)) (s_reg s) in
  exists s', cb_step s (CDeleteJobs tags any) [] = (s', Ok (VInt (Z.of_nat (length sel)))) /\
             s_jobs s' = s_jobs s /\
             (forall id, In id (s_reg s') <-> In id (s_reg s) /\ ~ In id sel).
Proof. exact delete_jobs_spec. Qed.

(* jobs / get_jobs report the set and change nothing (the value returned is a fresh list: the
   snapshot clause is tied by the correspondence, which clears every returned set) *)
Theorem C11_jobs : forall s, cb_step s CJobs [] = (s, Ok (VIds (s_reg s))).
Proof. exact jobs_spec. Qed.
Theorem C11_get_jobs : forall s tags any,
  cb_step s (CGetJobs tags any) [] =
    (s, Ok (VIds (if no_tags tags then s_reg s
                  else filter (fun id => tag_match (match tags with Some t => t | None => [] end) any (job_tags s id)) (s_reg s)))).
Proof. exact get_jobs_spec. Qed.

(* exec_jobs only removes (retires) old members and may add jobs scheduled by callbacks; any
   other operation never re-adds an old id: a job that left the set never reappears *)
Theorem C11_step_frame : forall s o s' r,
  good s -> op_valid o -> step s o = (s', r) ->
  good s' /\ s_tz s' = s_tz s /\ (s_next s <= s_next s')%nat /\
  (forall x, (x < s_next s)%nat -> In x (s_reg s') -> In x (s_reg s)) /\
  (forall e, r = Err e -> e = SchedulerError \/
             (exists f ord tb, o = OExec f ord tb /\ is_perm_of ord (s_reg s) = false)).
Proof. exact step_good. Qed.
Theorem C11_never_reappears : forall ops s x,
  good s -> Forall op_valid ops -> (x < s_next s)%nat -> ~ In x (s_reg s) -> ~ In x (s_reg (run s ops)).
Proof. exact never_reappears. Qed.
(* the members are exactly the jobs that can still run (retired = not a member) *)
Theorem C11_members_can_run : forall s id j,
  good s -> In id (s_reg s) -> get_job s id = Some j ->
  has_attempts j = true /\
  (0 < c_max_attempts (j_cfg j) -> j_attempts j < c_max_attempts (j_cfg j)) /\
  (forall e, c_stop (j_cfg j) = Some e -> utc (jt_next (pending_timer j)) <= utc e).
Proof. exact registered_job_facts. Qed.

Example C11_example :
  let c := mkCfg CYCLIC [TCyclic 5] 1 [1] true None None false 1 1 [] [] [] in
  let bad := mkCfg DAILY [TTime (mkTime 1 0 0 0 (Some 0))] 0 [] true None None false 1 1 [] [] [] in
  exists s0, sched_init None 0 PLinear [] 1000 = Ok s0 /\
  let s1 := run s0 [OCall (CSchedule c) []; OCall (CSchedule bad) []; OCall (CSchedule c) []; OCall (CDelete 0%nat) [];
                    OCall (CDelete 0%nat) []; ONow 2000; OExec false [2%nat] []] in
  s_reg s1 = [] /\ s_next s1 = 3%nat /\ length (s_jobs s1) = 2%nat.
Proof. cbv zeta. eexists. split; [vm_compute; reflexivity|]. vm_compute. repeat split. Qed.

Print Assumptions C11_schedule_adds.
Print Assumptions C11_rejected_call_is_identity.
Print Assumptions C11_delete_jobs.
Print Assumptions C11_step_frame.
Print Assumptions C11_never_reappears.
