(* C16: parallel workers run each selected job once; exec_jobs returns when all are done.
   Only statements closed by [exact]; proofs are in Proofs/ConcProofs.v. *)
From Coq Require Import ZArith List Bool Sorting.Permutation.
From Sv Require Import PyTime Timer Job Sched Conc Occur JobProofs SchedProofs ConcProofs.
Import ListNotations.
Open Scope Z_scope.

(* the worker pool of __exec_jobs (one FIFO queue, m workers, m = batch size when n_threads = 0):
   for EVERY worker count and EVERY interleaving of the workers ([sched_] is an arbitrary list of
   worker indices) *)
Theorem C16_pool_any_schedule : forall batch n_threads sched_,
  let p := pool_run (pool_init batch n_threads) sched_ in
  let m := match n_threads with O => length batch | S _ => n_threads end in
  Permutation batch (p_queue p ++ running p ++ p_done p) /\          (* each selected job in exactly one place *)
  (length (running p) <= m)%nat /\                                     (* at most m callbacks at the same time *)
  (NoDup batch -> NoDup (running p) /\ NoDup (p_done p)) /\            (* never twice; never overlapping itself *)
  (all_exited p = true -> Permutation batch (p_done p)).               (* workers joined => every job done, once *)
Proof. exact pool_any_schedule. Qed.

(* n_threads = 0: all selected callbacks CAN run simultaneously *)
Theorem C16_unlimited_all_overlap : forall batch,
  running (pool_run (pool_init batch 0) (seq 0 (length batch))) = batch.
Proof. exact pool_unlimited_all_overlap. Qed.

(* attempts (and failures) afterwards are those of sequential execution: the result of running a
   duplicate-free batch does not depend on the order in which the workers ran it *)
Theorem C16_final_state_schedule_independent : forall l l' js x,
  NoDup l -> Permutation l l' -> lookup x (apply_runs js l) = lookup x (apply_runs js l').
Proof. exact final_state_schedule_independent. Qed.
Theorem C16_each_once : forall l js x,
  NoDup l ->
  lookup x (apply_runs js l) =
    if nmem x l then option_map (fun j => job_run j (outcome_of j)) (lookup x js) else lookup x js.
Proof. exact apply_runs_spec. Qed.

(* the batch handed to the pool is duplicate free (C14_once_per_call / C09_at_most_once_per_call) *)

Example C16_example :
  let p := pool_run (pool_init [7; 8; 9]%nat 2) [0; 1; 0; 1; 0; 0; 0; 1]%nat in
  p_done p = [9; 8; 7]%nat /\ all_exited p = true.
Proof. vm_compute. split; reflexivity. Qed.

Print Assumptions C16_pool_any_schedule.
Print Assumptions C16_unlimited_all_overlap.
Print Assumptions C16_final_state_schedule_independent.
Print Assumptions C16_each_once.
