(* C19: callbacks receive exactly the arguments given, insulated from later mutation.
   Only statements closed by [exact]; proofs are in Proofs/. *)
From Coq Require Import ZArith List Bool.
From Sv Require Import PyTime Timer Job Sched Occur JobProofs SchedProofs SelectProofs SchedFacts.
Import ListNotations.
Open Scope Z_scope.

(* In the model a job OWNS its positional arguments, keyword mapping and tag set as values: this is
   the abstract specification ("the scheduler keeps its own copy").  That the implementation
   refines it -- i.e. that mutating the caller's dict / set, or the set returned by the tags
   property, has no effect -- is what the correspondence checks: the harness mutates all three
   after every scheduling call and the model's observations must still match. *)

(* the values stored are the ones given to the scheduling call ... *)
Theorem C19_stored_as_given : forall c tz now j,
  cfg_valid c -> job_create c tz now = Ok j ->
  c_args (j_cfg j) = c_args c /\ c_kwargs (j_cfg j) = c_kwargs c /\ c_outs (j_cfg j) = c_outs c.
Proof. intros c tz now j Hv Hc. exact (cr_args _ _ _ _ (job_create_ok c tz now j Hv Hc)). Qed.
Theorem C19_once_passes_arguments : forall ot c,
  c_args (once_cfg ot c) = c_args c /\ c_kwargs (once_cfg ot c) = c_kwargs c /\ c_tags (once_cfg ot c) = c_tags c.
Proof. intros ot c. destruct ot; repeat split. Qed.
(* ... no operation ever changes them (running and rescheduling keep the configuration) ... *)
Theorem C19_run_keeps_cfg : forall j b, j_cfg (job_run j b) = j_cfg j.
Proof. exact job_run_cfg. Qed.
Theorem C19_calc_keeps_cfg : forall j ref j', job_calc j ref = Ok j' -> j_cfg j' = j_cfg j.
Proof. exact job_calc_cfg. Qed.
(* ... and every invocation passes exactly them, and nothing else *)
Theorem C19_invocation_arguments : forall s id j,
  get_job s id = Some j ->
  invoke s id =
    (let s0 := add_event s (EInvoke id (utc (job_datetime j)) (c_args (j_cfg j)) (c_kwargs (j_cfg j))) in
     let '(s1, praised) := run_prog s0 (match lookup id (s_progs s) with Some p => p | None => [] end) in
     match get_job s1 id with
     | None => s1
     | Some j1 =>
         let raises := praised || outcome_of j1 in
         let s2 := upd_jobs s1 (update id (job_run j1 raises) (s_jobs s1)) in
         if raises then add_event s2 (ELog id) else s2
     end).
Proof. exact invoke_unfold. Qed.

Example C19_example :
  let c := mkCfg CYCLIC [TCyclic 5] 0 [7] true None None false 1 1 [4; 2] [(1, 10); (3, 30)] [] in
  exists s0, sched_init None 0 PLinear [] 1000 = Ok s0 /\
  let s1 := run s0 [OCall (CSchedule c) []; ONow 1005; OExec false [0%nat] []; ONow 1010; OExec false [0%nat] []] in
  s_events s1 = [EInvoke 0 1010 [4; 2] [(1, 10); (3, 30)]; EPrioCall 0 0 0 1 (1000000, 1000000)].
Proof. cbv zeta. eexists. split; [vm_compute; reflexivity|]. vm_compute. reflexivity. Qed.

Print Assumptions C19_stored_as_given.
Print Assumptions C19_run_keeps_cfg.
Print Assumptions C19_calc_keeps_cfg.
Print Assumptions C19_invocation_arguments.
