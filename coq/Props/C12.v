(* C12: tag selection returns and deletes exactly the matching jobs.
   Only statements closed by [exact]; proofs are in Proofs/. *)
From Coq Require Import ZArith List Bool.
From Sv Require Import PyTime Timer Job Sched Occur JobProofs SchedProofs SelectProofs SchedFacts.
Import ListNotations.
Open Scope Z_scope.

(* any_tag false: the job's tag set contains all given tags; any_tag true: at least one *)
Theorem C12_all_tags : forall tags jobtags,
  tag_match tags false jobtags = true <-> (forall t, In t tags -> In t jobtags).
Proof. exact tag_match_all. Qed.
Theorem C12_any_tag : forall tags jobtags,
  tag_match tags true jobtags = true <-> (exists t, In t tags /\ In t jobtags).
Proof. exact tag_match_any. Qed.

(* get_jobs: exactly the registered jobs that match; None or empty means all *)
Theorem C12_get_jobs : forall s tags any,
  cb_step s (CGetJobs tags any) [] =
    (s, Ok (VIds (if no_tags tags then s_reg s
                  else filter (fun id => tag_match (match tags with Some t => t | None => [] end) any (job_tags s id)) (s_reg s)))).
Proof. exact get_jobs_spec. Qed.

(* delete_jobs removes exactly that selection and nothing else *)
Theorem C12_delete_jobs : forall s tags any,
  let sel := if no_tags tags then s_reg s
             else filter (fun id => tag_match (match tags with Some t => t | None => [] end) any (job_tags s id)) (s_reg s) in
  exists s', cb_step s (CDeleteJobs tags any) [] = (s', Ok (VInt (Z.of_nat (length sel)))) /\
             s_jobs s' = s_jobs s /\
             (forall id, In id (s_reg s') <-> In id (s_reg s) /\ ~ In id sel).
Proof. exact delete_jobs_spec. Qed.

(* the tags a job is selected by are the ones given when it was scheduled -- for once() on every
   timing path (in the model a tag argument IS a set: the iterable kinds set, frozenset, list,
   tuple, generator, dict keys x four once() timings x two front ends are tied exhaustively by the
   correspondence stream "oncetags") *)
Theorem C12_tags_kept : forall c tz now j, cfg_valid c -> job_create c tz now = Ok j -> c_tags (j_cfg j) = c_tags c.
Proof. intros c tz now j Hv Hc. exact (cr_tags _ _ _ _ (job_create_ok c tz now j Hv Hc)). Qed.
Theorem C12_once_tags : forall ot c, c_tags (once_cfg ot c) = c_tags c.
Proof. intros ot c. destruct ot; reflexivity. Qed.

Example C12_example :
  let mk tags := mkCfg CYCLIC [TCyclic 5] 0 tags true None None false 1 1 [] [] [] in
  exists s0, sched_init None 0 PLinear [] 1000 = Ok s0 /\
  let s1 := run s0 [OCall (CSchedule (mk [1; 2])) []; OCall (COnce (OnceTd 9) (mk [2; 3])) []; OCall (CSchedule (mk [])) []] in
  snd (cb_step s1 (CGetJobs (Some [2]) false) []) = Ok (VIds [0; 1]%nat) /\
  snd (cb_step s1 (CGetJobs (Some [1; 3]) false) []) = Ok (VIds []) /\
  snd (cb_step s1 (CGetJobs (Some [1; 3]) true) []) = Ok (VIds [0; 1]%nat) /\
  snd (cb_step s1 (CGetJobs (Some []) true) []) = Ok (VIds [0; 1; 2]%nat) /\
  s_reg (fst (cb_step s1 (CDeleteJobs (Some [3]) false) [])) = [0; 2]%nat.
Proof. cbv zeta. eexists. split; [vm_compute; reflexivity|]. vm_compute. repeat split. Qed.

Print Assumptions C12_all_tags.
Print Assumptions C12_any_tag.
Print Assumptions C12_get_jobs.
Print Assumptions C12_delete_jobs.
Print Assumptions C12_tags_kept.
