(* C14: concurrent use from several threads is linearizable; the job set stays intact.
   Only statements closed by [exact]; proofs are in Proofs/ConcProofs.v.

   The model: a concurrent execution is an arbitrary list of micro-operations (Model/Conc.v), the
   atomic actions the code's locks define.  Every public operation other than exec_jobs IS one
   micro-operation (its linearization point); exec_jobs consists of its choice (MBegin, one MPrio
   per registered job, MSelect) and, per job it ran, MResched/MRetire -- the two atomic points of
   the property.  Quantifying over all lists = all interleavings of any number of threads. *)
From Coq Require Import ZArith List Bool.
From Sv Require Import PyTime Timer Job Sched Conc Occur JobProofs SchedProofs ConcProofs.
Import ListNotations.
Open Scope Z_scope.

(* no call fails with an internal error, the shared state stays well formed under every
   interleaving, and no micro-operation re-adds an old job id *)
Theorem C14_every_interleaving_step : forall m o m' r,
  wf (m_s m) -> mop_valid o -> mstep m o = (m', r) ->
  wf (m_s m') /\ s_tz (m_s m') = s_tz (m_s m) /\ (s_next (m_s m) <= s_next (m_s m'))%nat /\
  (forall x, (x < s_next (m_s m))%nat -> In x (s_reg (m_s m')) -> In x (s_reg (m_s m))) /\
  (forall e, r = Err e -> e = SchedulerError \/ e = OtherError).
Proof. exact mstep_wf. Qed.
Theorem C14_every_interleaving : forall ops m, wf (m_s m) -> Forall mop_valid ops -> wf (m_s (mrun m ops)).
Proof. exact mrun_wf. Qed.

(* a deleted (or retired) job is never resurrected *)
Theorem C14_never_resurrected : forall ops m x,
  wf (m_s m) -> Forall mop_valid ops -> (x < s_next (m_s m))%nat -> ~ In x (s_reg (m_s m)) ->
  ~ In x (s_reg (m_s (mrun m ops))).
Proof. exact mrun_never_resurrected. Qed.

(* a job is invoked at most once per exec_jobs call: every call's batch is duplicate free and made
   of jobs whose priority that call has read (jobs registered at that moment) *)
Theorem C14_once_per_call : forall m o m' r,
  wf (m_s m) -> mexec_ok m -> mstep m o = (m', r) -> mexec_ok m'.
Proof. exact mstep_exec_ok. Qed.

(* ... nor chosen by an exec_jobs call that started after the deletion returned *)
Theorem C14_not_chosen_after_delete : forall m o m' r t x,
  wf (m_s m) -> mop_valid o -> mexec_ok m -> (x < s_next (m_s m))%nat -> ~ In x (s_reg (m_s m)) ->
  not_seen m t x -> mstep m o = (m', r) -> not_seen m' t x.
Proof. exact mstep_not_chosen. Qed.

(* "never beyond its attempt budget" is FALSE on the pinned tree when two exec_jobs calls overlap:
   both choose the job before either retires it.  Known finding C14/overlapping-exec-budget; the
   partial form (calls that do not overlap on the job) is the sequential theorem C06_budget. *)
Theorem C14_attempt_budget_refuted :
  let c := mkCfg CYCLIC [TCyclic 5] 1 [] true None None false 1 1 [] [] [] in
  exists s0, sched_init None 0 PLinear [] 1000 = Ok s0 /\
  let m0 := m_init (run s0 [OCall (CSchedule c) []; ONow 2000]) in
  let m1 := mrun m0 [MBegin 0 false []; MPrio 0 0 None; MSelect 0;
                     MBegin 1 false []; MPrio 1 0 None; MSelect 1;
                     MRun 0 false; MRun 0 false;
                     MResched 0; MRetire 0; MResched 0; MRetire 0]%nat in
  option_map j_attempts (get_job (m_s m1) 0%nat) = Some 2 /\
  option_map (fun j => c_max_attempts (j_cfg j)) (get_job (m_s m1) 0%nat) = Some 1 /\
  s_reg (m_s m1) = [].
Proof. exact overlapping_exec_budget_refuted. Qed.

Print Assumptions C14_every_interleaving_step.
Print Assumptions C14_every_interleaving.
Print Assumptions C14_never_resurrected.
Print Assumptions C14_once_per_call.
Print Assumptions C14_not_chosen_after_delete.
Print Assumptions C14_attempt_budget_refuted.
