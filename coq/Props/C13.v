(* C13: naive/aware mixing is rejected up front; aware schedules depend only on instants.
   Only statements closed by [exact]; proofs are in Proofs/. *)
From Coq Require Import ZArith List Bool Lia.
From Sv Require Import PyTime Timer Job Sched Occur TimerProofs JobProofs EquivProofs BatchProofs SchedProofs AwareProofs SchedFacts SimProofs.
Import ListNotations.
Open Scope Z_scope.

(* a scheduling call / Job constructor succeeds only with uniform awareness ... *)
Theorem C13_created_uniform : forall c tz now j,
  job_create c tz now = Ok j ->
  (c_type c <> CYCLIC -> forall tg, In tg (c_timing c) -> entry_aware tg = tz_aware tz) /\
  (forall s, c_start c = Some s -> aware s = tz_aware tz) /\
  (forall e, c_stop c = Some e -> aware e = tz_aware tz).
Proof. exact created_uniform_awareness. Qed.
(* ... every violation is rejected by the call itself ... *)
Theorem C13_mixed_timing_rejected : forall c tz now tg,
  c_type c <> CYCLIC -> In tg (c_timing c) -> entry_aware tg <> tz_aware tz ->
  exists e, job_create c tz now = Err e.
Proof. exact mixed_timing_rejected. Qed.
Theorem C13_mixed_start_stop_rejected : forall c tz now,
  (exists s, c_start c = Some s /\ aware s <> tz_aware tz) \/ (exists e, c_stop c = Some e /\ aware e <> tz_aware tz) ->
  exists e, job_create c tz now = Err e.
Proof. exact mixed_start_stop_rejected. Qed.
(* ... with SchedulerError, never TypeError (the model's datetime operations DO return TypeError on
   mixing, so this is not vacuous) *)
Theorem C13_rejection_is_scheduler_error : forall c tz now e,
  cfg_valid c -> c_timing c <> [] -> job_create c tz now = Err e -> e = SchedulerError.
Proof. exact job_create_err. Qed.
Theorem C13_mixing_raises_type_error : forall a b, aware a <> aware b -> dt_keys a b = Err TypeError.
Proof. exact dt_keys_mixed. Qed.
(* the constructor rejects pre-built jobs made for another timezone *)
Theorem C13_ctor_same_tz : forall tz mx pk ctor now s,
  sched_init tz mx pk ctor now = Ok s -> forall id j, get_job s id = Some j -> j_tz j = tz.
Proof. exact ctor_rejects_foreign_tz. Qed.

(* so exec_jobs (any operation, any reachable state) never fails on a naive/aware comparison *)
Theorem C13_no_type_error_ever : forall s o s' r,
  good s -> op_valid o -> step s o = (s', r) ->
  good s' /\ s_tz s' = s_tz s /\ (s_next s <= s_next s')%nat /\
  (forall x, (x < s_next s)%nat -> In x (s_reg s') -> In x (s_reg s)) /\
  (forall e, r = Err e -> e = SchedulerError \/
             (exists f ord tb, o = OExec f ord tb /\ is_perm_of ord (s_reg s) = false)).
Proof. exact step_good. Qed.

(* the instants at which a job fires depend only on the instants denoted: same recurring
   instants + same reference instant => same first due instant ... *)
Theorem C13_offset_invariance_first : forall ty tg1 tg2 s1 s2 skip,
  ty <> CYCLIC -> valid_entry ty tg1 -> valid_entry ty tg2 ->
  aware s1 = entry_aware' tg1 -> aware s2 = entry_aware' tg2 ->
  same_occ ty tg1 tg2 -> utc s1 = utc s2 ->
  exists tm1 tm2, timer_init ty tg1 s1 skip = Ok tm1 /\ timer_init ty tg2 s2 skip = Ok tm2 /\
                  timer_ok tm1 /\ timer_ok tm2 /\ utc (jt_next tm1) = utc (jt_next tm2).
Proof. exact offset_invariance_init. Qed.
(* ... and the same after every rescheduling, with or without skip_missing, whatever offset the
   polling instant (the scheduler's timezone) is written in *)
Theorem C13_offset_invariance_step : forall tm1 tm2 r1 r2,
  timer_ok tm1 -> timer_ok tm2 -> jt_type tm1 = jt_type tm2 -> jt_skip tm1 = jt_skip tm2 ->
  same_occ (jt_type tm1) (jt_timing tm1) (jt_timing tm2) ->
  utc (jt_next tm1) = utc (jt_next tm2) -> utc r1 = utc r2 ->
  aware r1 = entry_aware' (jt_timing tm1) -> aware r2 = entry_aware' (jt_timing tm2) ->
  exists tm1' tm2', timer_calc tm1 (Some r1) = Ok tm1' /\ timer_calc tm2 (Some r2) = Ok tm2' /\
                    timer_ok tm1' /\ timer_ok tm2' /\ utc (jt_next tm1') = utc (jt_next tm2').
Proof. exact offset_invariance_calc. Qed.
(* when two written entries denote the same recurring instants *)
Theorem C13_same_instants_daily : forall t1 t2,
  valid_time t1 -> valid_time t2 ->
  (same_occ DAILY (TTime t1) (TTime t2) <-> (tod t1 - oz (t_off t1)) mod D = (tod t2 - oz (t_off t2)) mod D).
Proof. exact same_occ_daily. Qed.
Theorem C13_same_instants_weekly : forall w1 t1 w2 t2,
  valid_time t1 -> valid_time t2 -> 0 <= w1 <= 6 -> 0 <= w2 <= 6 ->
  (same_occ WEEKLY (TWeekday w1 t1) (TWeekday w2 t2) <->
   (w1 * D + tod t1 - oz (t_off t1)) mod WK = (w2 * D + tod t2 - oz (t_off t2)) mod WK).
Proof. exact same_occ_weekly. Qed.
(* cyclic timers use the instant arithmetic of datetime + timedelta only *)
Theorem C13_cyclic_instant : forall d T, utc (dt_add d T) = utc d + T.
Proof. exact utc_dt_add. Qed.

(* Job level (single and batched clock-time jobs, with or without skip_missing, with or without stop): two
   scheduling calls that denote the same schedule - entry by entry the same recurring instants, the same
   reference and stop instants - written in different UTC offsets, on schedulers with different timezones,
   produce jobs that stay similar through every execution of any history whose polling instants coincide, so
   their successive due instants are the same list (the callbacks' outcomes may even differ). *)
Theorem C13_same_schedule_created : forall c1 c2 tz1 tz2 now j1 j2,
  cfg_valid c1 -> cfg_valid c2 -> cfg_sim c1 c2 ->
  utc (match c_start c1 with Some s => s | None => dt_now now tz1 end) =
  utc (match c_start c2 with Some s => s | None => dt_now now tz2 end) ->
  job_create c1 tz1 now = Ok j1 -> job_create c2 tz2 now = Ok j2 -> job_sim j1 j2.
Proof. exact created_sim. Qed.
Theorem C13_same_schedule_step : forall j1 j2 run1 run2,
  job_sim j1 j2 -> utc (snd run1) = utc (snd run2) ->
  aware (snd run1) = tz_aware (j_tz j1) -> aware (snd run2) = tz_aware (j_tz j2) ->
  exists j1' j2', job_cycle j1 run1 = Ok j1' /\ job_cycle j2 run2 = Ok j2' /\ job_sim j1' j2' /\
                  j_tz j1' = j_tz j1 /\ j_tz j2' = j_tz j2.
Proof. exact job_cycle_sim. Qed.
Theorem C13_same_schedule_same_instants : forall runs1 runs2 j1 j2,
  job_sim j1 j2 ->
  Forall2 (fun a b => utc (snd a) = utc (snd b)) runs1 runs2 ->
  Forall (fun r => aware (snd r) = tz_aware (j_tz j1)) runs1 ->
  Forall (fun r => aware (snd r) = tz_aware (j_tz j2)) runs2 ->
  exists ds, dues j1 runs1 = Ok ds /\ dues j2 runs2 = Ok ds.
Proof. exact dues_sim. Qed.
Theorem C13_similar_jobs_agree : forall j1 j2,
  job_sim j1 j2 -> utc (job_datetime j1) = utc (job_datetime j2) /\ has_attempts j1 = has_attempts j2.
Proof. exact sim_agree. Qed.

(* non-vacuity: Monday 23:30 -02:00 and Tuesday 06:30 +05:00 are the same weekly instants *)
Example C13_example :
  same_occ WEEKLY (TWeekday 0 (mkTime 23 30 0 0 (Some (-7200000000)))) (TWeekday 1 (mkTime 6 30 0 0 (Some 18000000000))).
Proof. apply same_occ_weekly; unfold valid_time, SEC; cbn; try lia; try (vm_compute; reflexivity). Qed.

(* non-vacuity of the job-level statement: the same weekly schedule written for a -02:00 and for a +05:00 scheduler *)
Example C13_same_schedule_example :
  let c1 := mkCfg WEEKLY [TWeekday 0 (mkTime 23 30 0 0 (Some (-7200000000)))] 0 [] true None None false 1 1 [] [] [] in
  let c2 := mkCfg WEEKLY [TWeekday 1 (mkTime 6 30 0 0 (Some 18000000000))] 0 [] true None None false 1 1 [] [] [] in
  exists j1 j2, job_create c1 (Some (-7200000000)) 63871324200000000 = Ok j1 /\
                job_create c2 (Some 18000000000) 63871324200000000 = Ok j2 /\ job_sim j1 j2.
Proof.
  cbv zeta. eexists. eexists. split; [vm_compute; reflexivity|]. split; [vm_compute; reflexivity|].
  eapply (created_sim
            (mkCfg WEEKLY [TWeekday 0 (mkTime 23 30 0 0 (Some (-7200000000)))] 0 [] true None None false 1 1 [] [] [])
            (mkCfg WEEKLY [TWeekday 1 (mkTime 6 30 0 0 (Some 18000000000))] 0 [] true None None false 1 1 [] [] [])
            (Some (-7200000000)) (Some 18000000000) 63871324200000000).
  - repeat constructor; cbn; unfold valid_time; cbn; lia.
  - repeat constructor; cbn; unfold valid_time; cbn; lia.
  - unfold cfg_sim. cbn [c_type c_skip c_delay c_max_attempts c_stop c_timing standardize_timing map standardize_entry stop_sim].
    repeat split; try discriminate. constructor; [exact C13_example|constructor].
  - cbn [c_start]. rewrite !utc_dt_now. reflexivity.
  - vm_compute; reflexivity.
  - vm_compute; reflexivity.
Qed.

Print Assumptions C13_created_uniform.
Print Assumptions C13_same_schedule_created.
Print Assumptions C13_same_schedule_step.
Print Assumptions C13_same_schedule_same_instants.
Print Assumptions C13_rejection_is_scheduler_error.
Print Assumptions C13_no_type_error_ever.
Print Assumptions C13_offset_invariance_first.
Print Assumptions C13_offset_invariance_step.
Print Assumptions C13_same_instants_weekly.
