(* C13: naive/aware mixing is rejected up front; aware schedules depend only on instants.
   Only statements closed by [exact]; proofs are in Proofs/. *)
From Coq Require Import ZArith List Bool Lia.
From Sv Require Import PyTime Timer Job Sched Occur TimerProofs JobProofs EquivProofs BatchProofs SchedProofs AwareProofs SchedFacts.
Import ListNotations.
Open Scope Z_scope.

(* a scheduling call / Job constructor succeeds only with uniform awareness ... *)
Theorem C13_created_uniform : forall c tz now j,
  job_create c tz now = Ok j ->
  (c_type c <> CYCLIC -> forall tg, In tg (c_timing c) -> entry_aware tg = tz_aware tz) /\
  (forall s, c_start c = Some s -> aware s = tz_aware tz) /\
  (forall e, c_stop c = Some e -> aware e = tz_aware tz).
Proof. exact created_uniform_awareness. Qed.
(* ... every violation is rejected by the call itself ... *)
Theorem C13_mixed_timing_rejected : forall c tz now tg,
  c_type c <> CYCLIC -> In tg (c_timing c) -> entry_aware tg <> tz_aware tz ->
  exists e, job_create c tz now = Err e.
Proof. exact mixed_timing_rejected. Qed.
Theorem C13_mixed_start_stop_rejected : forall c tz now,
  (exists s, c_start c = Some s /\ aware s <> tz_aware tz) \/ (exists e, c_stop c = Some e /\ aware e <> tz_aware tz) ->
  exists e, job_create c tz now = Err e.
Proof. exact mixed_start_stop_rejected. Qed.
(* ... with SchedulerError, never TypeError (the model's datetime operations DO return TypeError on
   mixing, so this is not vacuous) *)
Theorem C13_rejection_is_scheduler_error : forall c tz now e,
  cfg_valid c -> c_timing c <> [] -> job_create c tz now = Err e -> e = SchedulerError.
Proof. exact job_create_err. Qed.
Theorem C13_mixing_raises_type_error : forall a b, aware a <> aware b -> dt_keys a b = Err TypeError.
Proof. exact dt_keys_mixed. Qed.
(* the constructor rejects pre-built jobs made for another timezone *)
Theorem C13_ctor_same_tz : forall tz mx pk ctor now s,
  sched_init tz mx pk ctor now = Ok s -> forall id j, get_job s id = Some j -> j_tz j = tz.
Proof. exact ctor_rejects_foreign_tz. Qed.

(* so exec_jobs (any operation, any reachable state) never fails on a naive/aware comparison *)
Theorem C13_no_type_error_ever : forall s o s' r,
  good s -> op_valid o -> step s o = (s', r) ->
  good s' /\ s_tz s' = s_tz s /\ (s_next s <= s_next s')%nat /\
  (forall x, (x < s_next s)%nat -> In x (s_reg s') -> In x (s_reg s)) /\
  (forall e, r = Err e -> e = SchedulerError \/
             (exists f ord tb, o = OExec f ord tb /\ is_perm_of ord (s_reg s) = false)).
Proof. exact step_good. Qed.

(* the instants at which a job fires depend only on the instants denoted: same recurring
   instants + same reference instant => same first due instant ... *)
Theorem C13_offset_invariance_first : forall ty tg1 tg2 s1 s2 skip,
  ty <> CYCLIC -> valid_entry ty tg1 -> valid_entry ty tg2 ->
  aware s1 = entry_aware' tg1 -> aware s2 = entry_aware' tg2 ->
  same_occ ty tg1 tg2 -> utc s1 = utc s2 ->
  exists tm1 tm2, timer_init ty tg1 s1 skip = Ok tm1 /\ timer_init ty tg2 s2 skip = Ok tm2 /\
                  timer_ok tm1 /\ timer_ok tm2 /\ utc (jt_next tm1) = utc (jt_next tm2).
Proof. exact offset_invariance_init. Qed.
(* ... and the same after every rescheduling, with or without skip_missing, whatever offset the
   polling instant (the scheduler's timezone) is written in *)
Theorem C13_offset_invariance_step : forall tm1 tm2 r1 r2,
  timer_ok tm1 -> timer_ok tm2 -> jt_type tm1 = jt_type tm2 -> jt_skip tm1 = jt_skip tm2 ->
  same_occ (jt_type tm1) (jt_timing tm1) (jt_timing tm2) ->
  utc (jt_next tm1) = utc (jt_next tm2) -> utc r1 = utc r2 ->
  aware r1 = entry_aware' (jt_timing tm1) -> aware r2 = entry_aware' (jt_timing tm2) ->
  exists tm1' tm2', timer_calc tm1 (Some r1) = Ok tm1' /\ timer_calc tm2 (Some r2) = Ok tm2' /\
                    timer_ok tm1' /\ timer_ok tm2' /\ utc (jt_next tm1') = utc (jt_next tm2').
Proof. exact offset_invariance_calc. Qed.
(* when two written entries denote the same recurring instants *)
Theorem C13_same_instants_daily : forall t1 t2,
  valid_time t1 -> valid_time t2 ->
  (same_occ DAILY (TTime t1) (TTime t2) <-> (tod t1 - oz (t_off t1)) mod D = (tod t2 - oz (t_off t2)) mod D).
Proof. exact same_occ_daily. Qed.
Theorem C13_same_instants_weekly : forall w1 t1 w2 t2,
  valid_time t1 -> valid_time t2 -> 0 <= w1 <= 6 -> 0 <= w2 <= 6 ->
  (same_occ WEEKLY (TWeekday w1 t1) (TWeekday w2 t2) <->
   (w1 * D + tod t1 - oz (t_off t1)) mod WK = (w2 * D + tod t2 - oz (t_off t2)) mod WK).
Proof. exact same_occ_weekly. Qed.
(* cyclic timers use the instant arithmetic of datetime + timedelta only *)
Theorem C13_cyclic_instant : forall d T, utc (dt_add d T) = utc d + T.
Proof. exact utc_dt_add. Qed.

(* non-vacuity: Monday 23:30 -02:00 and Tuesday 06:30 +05:00 are the same weekly instants *)
Example C13_example :
  same_occ WEEKLY (TWeekday 0 (mkTime 23 30 0 0 (Some (-7200000000)))) (TWeekday 1 (mkTime 6 30 0 0 (Some 18000000000))).
Proof. apply same_occ_weekly; unfold valid_time, SEC; cbn; try lia; try (vm_compute; reflexivity). Qed.

Print Assumptions C13_created_uniform.
Print Assumptions C13_rejection_is_scheduler_error.
Print Assumptions C13_no_type_error_ever.
Print Assumptions C13_offset_invariance_first.
Print Assumptions C13_offset_invariance_step.
Print Assumptions C13_same_instants_weekly.
