(* C02: weekly jobs are due exactly at the requested weekday and time, every 7 days.
   Only statements closed by [exact]; proofs are in Proofs/. *)
From Coq Require Import ZArith List Bool.
From Sv Require Import PyTime Timer Job Occur TimerProofs JobProofs.
Import ListNotations.
Open Scope Z_scope.

(* the distance in days to a target weekday is in 1..7 and lands on the target (all 49 pairs) *)
Theorem C02_days_to_weekday : forall src dst,
  0 <= src <= 6 -> 0 <= dst <= 6 ->
  1 <= m_days_to_weekday src dst <= 7 /\ (src + m_days_to_weekday src dst) mod 7 = dst.
Proof. exact days_to_weekday_range. Qed.

(* next_weekday_time_occurrence: earliest instant strictly after the reference whose weekday
   and time of day, read in the trigger's own offset, match *)
Theorem C02_next_weekly_is_next : forall now w t,
  valid_time t -> 0 <= w <= 6 -> off now = t_off t ->
  is_next (occ_weekly w t) (utc now) (utc (m_next_weekly now w t)).
Proof. exact next_weekly_is_next. Qed.

(* the timer: conversion into the trigger's offset first, for any start in any offset *)
Theorem C02_first_due : forall w t start skip,
  valid_entry WEEKLY (TWeekday w t) -> aware start = entry_aware' (TWeekday w t) ->
  exists tm, timer_init WEEKLY (TWeekday w t) start skip = Ok tm /\ timer_ok tm /\
             jt_type tm = WEEKLY /\ jt_timing tm = TWeekday w t /\ jt_skip tm = skip /\
             is_next (occ WEEKLY (TWeekday w t)) (utc start) (utc (jt_next tm)).
Proof. intros w t start skip. apply timer_init_is_next. discriminate. Qed.

(* successive due times are exactly seven days apart *)
Theorem C02_advance_7_days : forall tm ref,
  timer_ok tm -> jt_skip tm = false -> jt_type tm = WEEKLY ->
  exists tm', timer_calc tm ref = Ok tm' /\ timer_ok tm' /\
              utc (jt_next tm') = utc (jt_next tm) + 7 * D.
Proof.
  intros tm ref Hok Hs Hty. destruct (timer_advance tm ref Hok Hs) as (tm' & H1 & H2 & _ & _ & _ & H3).
  exists tm'. rewrite Hty in H3. exact (conj H1 (conj H2 H3)).
Qed.

(* same weekday: today if the time is still ahead, exactly one week later otherwise *)
Theorem C02_same_weekday : forall now w t,
  valid_time t -> 0 <= w <= 6 -> dt_weekday now = w ->
  let today := (loc now / D) * D in
  loc (m_next_weekly now w t) = if loc now - today <? tod t then today + tod t else today + tod t + 7 * D.
Proof. exact next_weekly_same_weekday. Qed.

(* the job as scheduled, any number of executions at arbitrary polling instants *)
Theorem C02_job_due_sequence : forall c tz now j w t runs,
  cfg_valid c -> job_create c tz now = Ok j -> c_type c = WEEKLY -> c_timing c = [TWeekday w t] ->
  c_skip c = false -> c_delay c = true ->
  Forall (fun r => aware (snd r) = tz_aware tz) runs ->
  let ref := utc (match c_start c with Some s => s | None => dt_now now tz end) in
  is_next (occ_weekly w t) ref (utc (job_datetime j)) /\
  exists j', job_cycles j runs = Ok j' /\
             j_attempts j' = Z.of_nat (length runs) /\
             utc (job_datetime j') = utc (job_datetime j) + Z.of_nat (length runs) * (7 * D) /\
             occ_weekly w t (utc (job_datetime j')).
Proof.
  intros c tz now j w t runs Hv Hc Hty Htg Hsk Hdl Hr.
  assert (Hct : clock_type (c_type c)) by (rewrite Hty; discriminate).
  pose proof (clock_job_due_sequence c tz now j (TWeekday w t) runs Hv Hc Hct Htg Hsk Hdl Hr) as H.
  rewrite Hty in H. exact H.
Qed.

(* the weekday() factory and the seven trigger classes carry value and time unchanged: in the
   model a trigger IS the pair (value, time); the classes are tied by the correspondence. *)

(* non-vacuity: Sunday 00:00 +14:00 scheduled from a reference three days earlier *)
Example C02_example :
  let t := mkTime 0 0 0 0 (Some 50400000000) in
  let c := mkCfg WEEKLY [TWeekday 6 t] 0 [] true None None false 1 1 [] [] [] in
  exists j, job_create c (Some 0) 63871324200000000 = Ok j /\
            utc (job_datetime j) = 63871581600000000.
Proof. vm_compute. eexists; split; reflexivity. Qed.

Print Assumptions C02_days_to_weekday.
Print Assumptions C02_next_weekly_is_next.
Print Assumptions C02_first_due.
Print Assumptions C02_advance_7_days.
Print Assumptions C02_same_weekday.
Print Assumptions C02_job_due_sequence.
