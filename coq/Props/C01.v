(* C01: minutely/hourly/daily jobs are due exactly at the matching clock instants.
   This file contains only statements closed by [exact]; the proofs are in Proofs/. *)
From Coq Require Import ZArith List Bool.
From Sv Require Import PyTime Timer Job Occur TimerProofs JobProofs.
Import ListNotations.
Open Scope Z_scope.

(* first due time: the earliest instant strictly after the reference whose reading in the
   timing's own offset matches (any valid time of day, any reference, any offsets) *)
Theorem C01_first_due : forall ty tg start skip,
  ty <> CYCLIC -> valid_entry ty tg -> aware start = entry_aware' tg ->
  exists tm, timer_init ty tg start skip = Ok tm /\ timer_ok tm /\
             jt_type tm = ty /\ jt_timing tm = tg /\ jt_skip tm = skip /\
             is_next (occ ty tg) (utc start) (utc (jt_next tm)).
Proof. exact timer_init_is_next. Qed.

(* each execution moves the due time to the next such instant, exactly one period later *)
Theorem C01_advance_exact : forall tm ref,
  timer_ok tm -> jt_skip tm = false ->
  exists tm', timer_calc tm ref = Ok tm' /\ timer_ok tm' /\
              jt_type tm' = jt_type tm /\ jt_timing tm' = jt_timing tm /\ jt_skip tm' = jt_skip tm /\
              utc (jt_next tm') = utc (jt_next tm) + period_of (jt_type tm).
Proof. exact timer_advance. Qed.

(* the job as scheduled: any number k of successive executions at arbitrary instants *)
Theorem C01_job_due_sequence : forall c tz now j tg runs,
  cfg_valid c -> job_create c tz now = Ok j -> clock_type (c_type c) -> c_timing c = [tg] ->
  c_skip c = false -> c_delay c = true ->
  Forall (fun r => aware (snd r) = tz_aware tz) runs ->
  let tg' := standardize_entry (c_type c) tg in
  let ref := utc (match c_start c with Some s => s | None => dt_now now tz end) in
  is_next (occ (c_type c) tg') ref (utc (job_datetime j)) /\
  exists j', job_cycles j runs = Ok j' /\
             j_attempts j' = Z.of_nat (length runs) /\
             utc (job_datetime j') = utc (job_datetime j) + Z.of_nat (length runs) * period_of (c_type c) /\
             occ (c_type c) tg' (utc (job_datetime j')).
Proof. exact clock_job_due_sequence. Qed.

(* strictly later than the occurrence just consumed *)
Theorem C01_period_positive : forall ty, ty <> CYCLIC -> 0 < period_of ty.
Proof. exact period_pos. Qed.

(* Job.timedelta(x) denotes the reported due instant *)
Theorem C01_reported_timedelta : forall j x,
  aware x = aware (job_datetime j) -> job_timedelta j x = Ok (utc (job_datetime j) - utc x).
Proof. exact job_timedelta_spec. Qed.

(* hour/minute fields that minutely/hourly jobs ignore *)
Theorem C01_minutely_ignores : forall now t h m,
  m_next_minutely now (t_replace t (Some h) (Some m)) = m_next_minutely now t.
Proof. exact minutely_ignores_hour_minute. Qed.
Theorem C01_hourly_ignores : forall now t h,
  m_next_hourly now (t_replace t (Some h) None) = m_next_hourly now t.
Proof. exact hourly_ignores_hour. Qed.
Theorem C01_standardize_same_occurrences : forall ty t x,
  occ ty (standardize_entry ty (TTime t)) x <-> occ ty (TTime t) x.
Proof. exact standardize_same_occurrences. Qed.

(* non-vacuity: a concrete daily job, aware start in +05:30, timing in -09:30 *)
Example C01_example :
  let t := mkTime 23 59 59 999999 (Some (- 34200000000)) in
  let c := mkCfg DAILY [TTime t] 0 [] true (Some (mkDt 63845020800000000 (Some 19800000000))) None false 1 1 [] [] [] in
  exists j, job_create c (Some 0) 63845000000000000 = Ok j /\
            utc (job_datetime j) = 63845054999999999.
Proof. vm_compute. eexists; split; reflexivity. Qed.

Print Assumptions C01_first_due.
Print Assumptions C01_advance_exact.
Print Assumptions C01_job_due_sequence.
Print Assumptions C01_reported_timedelta.
Print Assumptions C01_standardize_same_occurrences.
