(* C08: missed occurrences are caught up one per call, or collapsed with skip_missing.
   Only statements closed by [exact]; proofs are in Proofs/. *)
From Coq Require Import ZArith List Bool.
From Sv Require Import PyTime Timer Job Sched Occur TimerProofs JobProofs CyclicProofs BatchProofs SkipProofs.
From Coq Require Import Lia.
Import ListNotations.
Open Scope Z_scope.

(* Without skip_missing no planned occurrence is lost: however late or rarely the job is polled
   ([runs] is an arbitrary list of polling instants), each execution consumes exactly the oldest
   outstanding occurrence, so after n executions the due time is the first one plus n periods. *)
Theorem C08_no_skip_clock : forall c tz now j tg runs,
  cfg_valid c -> job_create c tz now = Ok j -> clock_type (c_type c) -> c_timing c = [tg] ->
  c_skip c = false -> c_delay c = true ->
  Forall (fun r => aware (snd r) = tz_aware tz) runs ->
  let tg' := standardize_entry (c_type c) tg in
  let ref := utc (match c_start c with Some s => s | None => dt_now now tz end) in
  is_next (occ (c_type c) tg') ref (utc (job_datetime j)) /\
  exists j', job_cycles j runs = Ok j' /\
             j_attempts j' = Z.of_nat (length runs) /\
             utc (job_datetime j') = utc (job_datetime j) + Z.of_nat (length runs) * period_of (c_type c) /\
             occ (c_type c) tg' (utc (job_datetime j')).
Proof. exact clock_job_due_sequence. Qed.

Theorem C08_no_skip_cyclic : forall c tz now j T runs,
  cfg_valid c -> job_create c tz now = Ok j -> c_type c = CYCLIC -> c_timing c = [TCyclic T] ->
  c_skip c = false -> Forall (fun r => aware (snd r) = tz_aware tz) runs ->
  let s := utc (match c_start c with Some s => s | None => dt_now now tz end) in
  exists j', job_cycles j runs = Ok j' /\
             j_attempts j' = Z.of_nat (length runs) /\
             utc (job_datetime j') = s + (Z.of_nat (length runs) + if c_delay c then 1 else 0) * T.
Proof. exact cyclic_cadence. Qed.

(* With skip_missing, rescheduling a due timer after an execution at instant r yields one of
   its occurrences, not earlier than r, strictly later than the occurrence consumed, and no
   occurrence lies strictly between r and it. *)
Theorem C08_skip_clock : forall tm r,
  timer_ok tm -> jt_skip tm = true -> aware r = entry_aware' (jt_timing tm) ->
  utc (jt_next tm) <= utc r ->
  exists tm', timer_calc tm (Some r) = Ok tm' /\ timer_ok tm' /\
              jt_type tm' = jt_type tm /\ jt_timing tm' = jt_timing tm /\ jt_skip tm' = jt_skip tm /\
              utc r <= utc (jt_next tm') /\
              utc (jt_next tm) < utc (jt_next tm') /\
              (forall y, utc r < y -> y < utc (jt_next tm') -> ~ occ (jt_type tm) (jt_timing tm) y).
Proof. exact timer_skip. Qed.

(* cyclic jobs: exactly r + interval *)
Theorem C08_skip_cyclic : forall T nxt r,
  timer_calc (mkTimer CYCLIC (TCyclic T) nxt true) (Some r) = Ok (mkTimer CYCLIC (TCyclic T) (dt_add r T) true).
Proof. exact timer_cyclic_skip. Qed.

(* job level, cyclic: whenever the job's timer is not in the future at the execution instant r
   (always the case when a delay=True job is invoked by a non-forced poll) the next due time is
   exactly r + interval.  This is the PARTIAL form of the property's parenthetical claim: *)
Theorem C08_skip_cyclic_job_partial : forall j T nxt r,
  job_ok j -> c_type (j_cfg j) = CYCLIC -> c_skip (j_cfg j) = true ->
  j_timers j = [mkTimer CYCLIC (TCyclic T) nxt true] -> aware r = tz_aware (j_tz j) ->
  utc nxt <= utc r -> 0 < j_attempts j ->
  exists j', job_calc j r = Ok j' /\ utc (job_datetime j') = utc r + T.
Proof. exact cyclic_skip_job. Qed.
(* ... the full claim ("for cyclic jobs it is exactly t + interval" after EVERY invocation) is
   false for the deprecated delay=False option: the first invocation consumes `start` while the
   timer already stands at start + T, which is left alone if it is still ahead of t.
   Known finding C08/cyclic-skip-nodelay, replayed on the implementation by the check. *)
Theorem C08_skip_cyclic_nodelay_refuted :
  exists c now r j j',
    c_type c = CYCLIC /\ c_skip c = true /\ c_delay c = false /\
    job_create c None now = Ok j /\ utc (job_datetime j) <= utc r /\
    job_cycle j (false, r) = Ok j' /\ utc (job_datetime j') <> utc r + 10.
Proof.
  exists (mkCfg CYCLIC [TCyclic 10] 0 [] false (Some (mkDt 1000 None)) None true 1 1 [] [] []), 1000, (mkDt 1003 None).
  eexists. eexists. split; [reflexivity|]. split; [reflexivity|]. split; [reflexivity|].
  split; [vm_compute; reflexivity|]. split; [vm_compute; discriminate|]. split; [vm_compute; reflexivity|].
  vm_compute. discriminate.
Qed.

(* the job level (single and batched): with skip_missing every timer that is not in the future
   is re-based, the others are untouched, and the job stays well formed (never raises) *)
Theorem C08_job_calc_total : forall j ref,
  job_ok j -> aware ref = tz_aware (j_tz j) ->
  exists j', job_calc j ref = Ok j' /\ job_ok j' /\
             j_cfg j' = j_cfg j /\ j_tz j' = j_tz j /\ j_start j' = j_start j /\
             j_attempts j' = j_attempts j /\ j_failed j' = j_failed j /\
             (j_mark j = true -> j_mark j' = true) /\
             calc_timers j ref = Ok (j_timers j') /\
             j_mark j' = (j_mark j || match c_stop (j_cfg j) with
                                      | Some e => utc e <? utc (jt_next (pending_timer j'))
                                      | None => false
                                      end).
Proof. exact job_calc_ok. Qed.

(* Job level, single AND batched clock-time jobs with skip_missing: after an execution at instant r (whatever
   the backlog) the new due time is an occurrence of one of the job's entries, never earlier than r, strictly
   later than the due time consumed, and NO entry has an occurrence strictly between r and it.  The invariant
   [skip_inv] (every timer is the next occurrence of its entry after some instant <= the last execution)
   holds for a freshly scheduled job and travels through every execution. *)
Theorem C08_skip_job : forall L j b r,
  skip_inv L j -> aware r = tz_aware (j_tz j) -> L <= utc r ->
  let ty := c_type (j_cfg j) in
  exists j', job_cycle j (b, r) = Ok j' /\ skip_inv (utc r) j' /\
             j_cfg j' = j_cfg j /\ j_tz j' = j_tz j /\ j_attempts j' = j_attempts j + 1 /\
             utc r <= utc (job_datetime j') /\
             (utc (job_datetime j) <= utc r -> utc (job_datetime j) < utc (job_datetime j')) /\
             union_occ ty (c_timing (j_cfg j)) (utc (job_datetime j')) /\
             (forall tg y, In tg (c_timing (j_cfg j)) -> utc r < y -> y < utc (job_datetime j') -> ~ occ ty tg y).
Proof. exact skip_cycle. Qed.
Theorem C08_skip_created : forall c tz now j,
  cfg_valid c -> job_create c tz now = Ok j -> c_type c <> CYCLIC -> c_skip c = true -> c_delay c = true ->
  skip_inv (utc (match c_start c with Some s => s | None => dt_now now tz end)) j.
Proof. exact created_skip. Qed.
(* any history of executions at non-decreasing instants (the scheduler's clock) *)
Theorem C08_skip_history : forall runs L j,
  skip_inv L j -> Forall (fun r => aware (snd r) = tz_aware (j_tz j)) runs -> nondecreasing L runs ->
  exists j', job_cycles j runs = Ok j' /\ skip_inv (last_instant L runs) j' /\
             j_cfg j' = j_cfg j /\ j_tz j' = j_tz j /\ j_attempts j' = j_attempts j + Z.of_nat (length runs) /\
             (runs <> [] -> last_instant L runs <= utc (job_datetime j')).
Proof. exact skip_cycles. Qed.
(* non-vacuity: a daily job with two entries (08:00, 20:00), skip_missing, satisfies the invariant *)
Example C08_skip_batched_example :
  let c := mkCfg DAILY [TTime (mkTime 8 0 0 0 None); TTime (mkTime 20 0 0 0 None)] 0 [] true None None true 1 1 [] [] [] in
  exists j, job_create c None 63871324200000000 = Ok j /\ skip_inv 63871324200000000 j.
Proof.
  cbv zeta. eexists. split; [vm_compute; reflexivity|].
  match goal with |- skip_inv _ ?j =>
    apply (created_skip (mkCfg DAILY [TTime (mkTime 8 0 0 0 None); TTime (mkTime 20 0 0 0 None)] 0 [] true None None true 1 1 [] [] [])
                        None 63871324200000000 j) end.
  - repeat constructor; cbn; unfold valid_time; cbn; lia.
  - vm_compute; reflexivity.
  - discriminate.
  - reflexivity.
  - reflexivity.
Qed.

(* non-vacuity: hourly job xx:30, skip_missing, polled 5 h 10 min after its first due instant *)
Example C08_example :
  let t := mkTime 0 30 0 0 None in
  exists tm tm', timer_init HOURLY (TTime t) (mkDt 63871324200000000 None) true = Ok tm /\
    timer_calc tm (Some (mkDt (63871324200000000 + 5 * HR + 600000000) None)) = Ok tm' /\
    utc (jt_next tm') = 63871345800000000 /\ utc (jt_next tm') = utc (jt_next tm) + 5 * HR.
Proof. cbv zeta. do 2 eexists. split; [vm_compute; reflexivity|]. split; [vm_compute; reflexivity|]. split; vm_compute; reflexivity. Qed.

Print Assumptions C08_no_skip_clock.
Print Assumptions C08_no_skip_cyclic.
Print Assumptions C08_skip_clock.
Print Assumptions C08_skip_cyclic.
Print Assumptions C08_job_calc_total.
Print Assumptions C08_skip_cyclic_job_partial.
Print Assumptions C08_skip_job.
Print Assumptions C08_skip_created.
Print Assumptions C08_skip_history.
Print Assumptions C08_skip_cyclic_nodelay_refuted.
