(* C07: no execution is planned outside a job's start..stop window.
   Only statements closed by [exact]; proofs are in Proofs/. *)
From Coq Require Import ZArith List Bool.
From Sv Require Import PyTime Timer Job Sched Occur JobProofs CyclicProofs SchedProofs SelectProofs SchedFacts.
Import ListNotations.
Open Scope Z_scope.

(* in every reachable state (C06_reachable_good, which covers jobs registered through the
   scheduling calls AND handed to the constructor) a registered job's planned instant is <= stop;
   callbacks are only invoked for registered jobs (C04), for exactly that instant *)
Theorem C07_registered_due_le_stop : forall s id j e,
  good s -> In id (s_reg s) -> get_job s id = Some j -> c_stop (j_cfg j) = Some e ->
  (c_delay (j_cfg j) = true \/ 0 < j_attempts j) ->
  utc (job_datetime j) <= utc e.
Proof. exact registered_due_le_stop. Qed.
(* the delay=False first execution is planned for start, and start < stop *)
Theorem C07_start_before_stop : forall c tz now j e,
  cfg_valid c -> job_create c tz now = Ok j -> c_stop c = Some e -> utc (j_start j) < utc e.
Proof. intros c tz now j e Hv Hc He. exact (cr_stop_later _ _ _ _ (job_create_ok c tz now j Hv Hc) e He). Qed.

(* the job is removed by the call after which its next due time would exceed stop: rescheduling
   marks it, a marked job has no attempts left, and the post-run loop keeps only jobs with
   attempts (good state after every call) *)
Theorem C07_rescheduling_marks_past_stop : forall j ref,
  job_ok j -> aware ref = tz_aware (j_tz j) ->
  exists j', job_calc j ref = Ok j' /\ job_ok j' /\
             j_cfg j' = j_cfg j /\ j_tz j' = j_tz j /\ j_start j' = j_start j /\
             j_attempts j' = j_attempts j /\ j_failed j' = j_failed j /\
             (j_mark j = true -> j_mark j' = true) /\
             calc_timers j ref = Ok (j_timers j') /\
             j_mark j' = (j_mark j || match c_stop (j_cfg j) with
                                      | Some e => utc e <? utc (jt_next (pending_timer j'))
                                      | None => false
                                      end).
Proof. exact job_calc_ok. Qed.

(* a job whose first due time already exceeds stop is never registered (so never invoked) *)
Theorem C07_first_due_past_stop : forall c tz now j e,
  cfg_valid c -> job_create c tz now = Ok j -> c_stop c = Some e ->
  utc e < utc (jt_next (pending_timer j)) -> has_attempts j = false.
Proof. exact past_stop_cannot_run. Qed.
Theorem C07_registers_iff_can_run : forall s c prog j,
  job_create c (s_tz s) (s_now s) = Ok j ->
  exists s', schedule s c prog = (s', Ok (VJob (s_next s))) /\
             get_job s' (s_next s) = (if nmem (s_next s) (map fst (s_jobs s)) then get_job s (s_next s) else Some j) /\
             s_reg s' = (if has_attempts j then s_reg s ++ [s_next s] else s_reg s).
Proof. exact schedule_registers_iff. Qed.

(* no due time precedes start: the first due instant of a clock job is strictly after it, a
   cyclic job's is start + interval (interval >= 0 is the property's quantifier) *)
Theorem C07_first_due_after_start : forall ty tg start skip,
  ty <> CYCLIC -> valid_entry ty tg -> aware start = TimerProofs.entry_aware' tg ->
  exists tm, timer_init ty tg start skip = Ok tm /\ TimerProofs.timer_ok tm /\
             jt_type tm = ty /\ jt_timing tm = tg /\ jt_skip tm = skip /\
             is_next (occ ty tg) (utc start) (utc (jt_next tm)).
Proof. exact TimerProofs.timer_init_is_next. Qed.

(* a stop that is not later than start (or than the creation time) is rejected *)
Theorem C07_stop_not_later_rejected : forall start e tz now,
  (forall s, start = Some s -> aware s = tz_aware tz) -> aware e = tz_aware tz ->
  utc e <= utc (match start with Some s => s | None => dt_now now tz end) ->
  set_start_check_stop start (Some e) tz now = Err SchedulerError.
Proof. exact stop_not_later_rejected. Qed.

(* non-vacuity: cyclic 10 us, stop exactly on the third occurrence: runs at 10, 20, 30, gone after *)
Example C07_example :
  let c := mkCfg CYCLIC [TCyclic 10] 0 [] true (Some (mkDt 1000 None)) (Some (mkDt 1030 None)) false 1 1 [] [] [] in
  exists s0, sched_init None 0 PLinear [] 1000 = Ok s0 /\
  let s1 := run s0 [OCall (CSchedule c) []; ONow 1100; OExec false [0%nat] []; OExec false [0%nat] []] in
  let s2 := run s1 [OExec false [0%nat] []] in
  s_reg s1 = [0%nat] /\ s_reg s2 = [] /\ option_map j_attempts (get_job s2 0%nat) = Some 3.
Proof. cbv zeta. eexists. split; [vm_compute; reflexivity|]. vm_compute. repeat split. Qed.

Print Assumptions C07_registered_due_le_stop.
Print Assumptions C07_start_before_stop.
Print Assumptions C07_rescheduling_marks_past_stop.
Print Assumptions C07_first_due_past_stop.
Print Assumptions C07_registers_iff_can_run.
Print Assumptions C07_stop_not_later_rejected.
