(* C20: printing a scheduler or job never fails and yields a well-formed, sorted table.
   Only statements closed by [exact]; proofs are in Proofs/TableProofs.v. *)
From Coq Require Import ZArith List Bool Sorting.Sorted Sorting.Permutation.
From Sv Require Import PyTime Timer Table TableProofs.
Import ListNotations.
Open Scope Z_scope.

(* the abbreviation helper, for ALL strings and widths >= 1: the result has length min(len, w) *)
Theorem C20_str_cutoff_length : forall s w tail,
  1 <= w -> exists r, m_str_cutoff s w tail = Ok r /\ Z.of_nat (length r) = Z.min (Z.of_nat (length s)) w.
Proof. exact str_cutoff_total. Qed.
(* a string that fits is shown unchanged *)
Theorem C20_str_cutoff_fits : forall s w tail,
  1 <= w -> Z.of_nat (length s) <= w -> m_str_cutoff s w tail = Ok s.
Proof. exact str_cutoff_fits. Qed.
(* an over-long one keeps w-1 characters (from the front or from the back) plus the '#' marker *)
Theorem C20_str_cutoff_marker : forall s w tail,
  1 <= w -> w < Z.of_nat (length s) ->
  m_str_cutoff s w tail =
    Ok (if tail then firstn (Z.to_nat (w - 1)) s ++ [HASH] else HASH :: skipn (length s - Z.to_nat (w - 1)) s).
Proof. exact str_cutoff_marker. Qed.
Theorem C20_str_cutoff_rejects : forall s w tail, w < 1 -> m_str_cutoff s w tail = Err ValueError.
Proof. exact str_cutoff_rejects. Qed.

(* every table row is exactly as wide as the header row -- for arbitrary cell contents (aliases,
   names, weights, attempt counts, timezone names, due distances of any length), with and without
   the tzinfo column, threading and asyncio table *)
Theorem C20_row_width_eq_header : forall (with_weight has_tz : bool) v,
  length (fmt_row (cols_of with_weight has_tz) (pick_of has_tz (row_cells with_weight v))) =
  length (fmt_row (cols_of with_weight has_tz) (pick_of has_tz (if with_weight then names_thr else names_aio))).
Proof. exact row_width_eq_header. Qed.
Theorem C20_cell_unchanged_if_fits : forall s w tail, (1 <= w)%nat -> (length s <= w)%nat -> cut s w tail = s.
Proof. exact cell_unchanged_if_fits. Qed.
Theorem C20_cell_cut_to_width : forall s w tail, (1 <= w)%nat -> (w < length s)%nat -> length (cut s w tail) = w.
Proof. exact cell_cut_to_width. Qed.

(* the table: heading with the true job count, header, dashes, exactly one row per registered job
   in ascending due-time order *)
Theorem C20_table_structure : forall (with_weight has_tz : bool) heading jobs,
  exists rows,
    table with_weight has_tz heading jobs =
      heading ++ dec (Z.of_nat (length jobs)) ++ [NL; NL] ++
      fmt_row (cols_of with_weight has_tz) (pick_of has_tz (if with_weight then names_thr else names_aio)) ++
      fmt_row (cols_of with_weight has_tz) (pick_of has_tz (map (fun c : col => dashes (snd c)) (if with_weight then COLS_THR else COLS_AIO))) ++
      concat_str (map (fun v => fmt_row (cols_of with_weight has_tz) (pick_of has_tz (row_cells with_weight v))) rows) /\
    Permutation jobs rows /\ length rows = length jobs /\
    StronglySorted (fun a b => v_due a <= v_due b) rows.
Proof. exact table_structure. Qed.
(* str(scheduler) itself, both front ends: the meta line of Scheduler.__headings (max_exec / tzinfo / priority function
   name; "#jobs=" followed by the true count) and the table *)
Theorem C20_scheduler_str : forall mx tz pname jobs,
  (exists rows,
    sched_str_thr mx tz pname jobs =
      heading_thr mx tz pname ++ dec (Z.of_nat (length jobs)) ++ [NL; NL] ++
      fmt_row (cols_of true (is_some tz)) (pick_of (is_some tz) names_thr) ++
      fmt_row (cols_of true (is_some tz)) (pick_of (is_some tz) (map (fun c : col => dashes (snd c)) COLS_THR)) ++
      concat_str (map (fun v => fmt_row (cols_of true (is_some tz)) (pick_of (is_some tz) (row_cells true v))) rows) /\
    Permutation jobs rows /\ length rows = length jobs /\
    StronglySorted (fun a b => v_due a <= v_due b) rows) /\
  (exists rows,
    sched_str_aio tz jobs =
      heading_aio tz ++ dec (Z.of_nat (length jobs)) ++ [NL; NL] ++
      fmt_row (cols_of false (is_some tz)) (pick_of (is_some tz) names_aio) ++
      fmt_row (cols_of false (is_some tz)) (pick_of (is_some tz) (map (fun c : col => dashes (snd c)) COLS_AIO)) ++
      concat_str (map (fun v => fmt_row (cols_of false (is_some tz)) (pick_of (is_some tz) (row_cells false v))) rows) /\
    Permutation jobs rows /\ length rows = length jobs /\
    StronglySorted (fun a b => v_due a <= v_due b) rows).
Proof. exact sched_str_structure. Qed.
Theorem C20_count_rendering_exact : forall n, 0 <= n < 10 ^ 40 -> undigits 0 (dec n) = n.
Proof. exact dec_correct. Qed.

(* "never raises": in the model printing is a total function of the job view; the view's fields
   that come from the callable (qualified name if any, type name, code object if any) are read by
   the harness with hasattr/getattr for every callable kind of the property (def, lambda, builtin,
   bound/static/class method, functools.partial, callable instance, class; for the priority
   function likewise) and the implementation's str()/repr() is executed on each: that part is
   exhaustive testing of a finite table, not proof. *)
Theorem C20_name_never_missing : forall v,
  handle_name v = match v_alias v with
                  | Some a => a
                  | None => match v_qualname v with Some q => q | None => v_typename v end
                  end.
Proof. reflexivity. Qed.

Example C20_example :
  m_str_cutoff [97; 98; 99] 1 false = Ok [HASH] /\
  m_str_cutoff [97; 98; 99; 100; 101] 3 true = Ok [97; 98; HASH] /\
  m_str_cutoff [97; 98; 99; 100; 101] 3 false = Ok [HASH; 100; 101].
Proof. vm_compute. repeat split. Qed.

Print Assumptions C20_str_cutoff_length.
Print Assumptions C20_str_cutoff_marker.
Print Assumptions C20_row_width_eq_header.
Print Assumptions C20_table_structure.
Print Assumptions C20_scheduler_str.
Print Assumptions C20_count_rendering_exact.
