(* C04: exec_jobs runs every due job exactly once, nothing early, and reports the count.
   Only statements closed by [exact]; proofs are in Proofs/. *)
From Coq Require Import ZArith List Bool.
From Sv Require Import PyTime Timer Job Sched Occur JobProofs SchedProofs SelectProofs SchedFacts.
Import ListNotations.
Open Scope Z_scope.

(* default priority function: positive exactly for jobs of positive weight whose due time is not
   later than now (overdue by 0 included, one microsecond early excluded) *)
Theorem C04_linear_positive_iff_due : forall od wn wd,
  0 < wd -> (qpos (linear_priority od wn wd) = true <-> 0 <= od /\ 0 < wn).
Proof. exact linear_priority_positive. Qed.

(* what exec_jobs does on any reachable state, for any iteration order of the job set: one
   priority per registered job from (now - due), then the chosen batch is run *)
Theorem C04_exec_jobs_unfold : forall s order table,
  good s -> is_perm_of order (s_reg s) = true ->
  let prs := prios_spec s table order in
  let n := Z.of_nat (length (s_reg s)) in
  exec_jobs s false order table =
    exec_batch (mkSched (s_tz s) (s_max_exec s) (s_prio s) (s_reg s) (s_jobs s) (s_progs s) (s_next s) (s_now s)
                        (rev (prio_events s table order n) ++ s_events s))
               (map fst (chosen (s_max_exec s) prs)) (exec_ref s).
Proof. exact exec_jobs_unfold. Qed.

(* no execution limit: the batch is exactly the set of jobs with positive priority *)
Theorem C04_batch_is_positive_set : forall prs ip,
  In ip (chosen 0 prs) <-> In ip prs /\ qpos (snd ip) = true.
Proof. exact chosen_unlimited. Qed.

(* one call invokes exactly its batch: each member once, in order, nothing else *)
Theorem C04_invokes_exactly_batch : forall s batch ref s' r,
  (forall x, In x batch -> In x (map fst (s_jobs s))) ->
  exec_batch s batch ref = (s', r) ->
  inv_ids (s_events s') = rev batch ++ inv_ids (s_events s).
Proof. exact exec_batch_invokes. Qed.

(* it returns the number of callbacks it invoked, never raises, and keeps the state well formed *)
Theorem C04_returns_count : forall s batch ref,
  sched_inv s -> progs_valid s -> live_inv s -> aware ref = tz_aware (s_tz s) ->
  NoDup batch -> (forall x, In x batch -> In x (s_reg s)) ->
  exists s', exec_batch s batch ref = (s', Ok (VInt (Z.of_nat (length batch)))) /\
             sched_inv s' /\ progs_valid s' /\ live_inv s' /\
             s_tz s' = s_tz s /\ s_now s' = s_now s /\ s_max_exec s' = s_max_exec s /\ s_prio s' = s_prio s /\
             (s_next s <= s_next s')%nat /\
             (forall x, (x < s_next s)%nat -> In x (s_reg s') -> In x (s_reg s)) /\
             (forall x, (x < s_next s)%nat -> ~ In x batch -> get_job s' x = get_job s x).
Proof. exact exec_batch_inv. Qed.

(* a call at a moment when nothing is due changes no job and no due time *)
Theorem C04_nothing_due_is_identity : forall s order table,
  good s -> is_perm_of order (s_reg s) = true ->
  chosen (s_max_exec s) (prios_spec s table order) = [] ->
  exists s', exec_jobs s false order table = (s', Ok (VInt 0)) /\
             s_jobs s' = s_jobs s /\ s_reg s' = s_reg s /\ inv_ids (s_events s') = inv_ids (s_events s).
Proof. exact exec_nothing_due. Qed.

(* force_exec_all: every registered job, regardless of due time and execution limit *)
Theorem C04_force_runs_all : forall s order table,
  is_perm_of order (s_reg s) = true -> exec_jobs s true order table = exec_batch s order (exec_ref s).
Proof. exact exec_jobs_force_unfold. Qed.

(* non-vacuity: three jobs, one due exactly now (overdue 0), one due in 1 microsecond, one of
   weight 0 that is overdue: exactly the first one runs and the call returns 1 *)
Example C04_example :
  let mk T w := mkCfg CYCLIC [TCyclic T] 0 [] true None None false w 1 [] [] [] in
  exists s0, sched_init None 0 PLinear [] 1000000 = Ok s0 /\
  let s3 := run s0 [OCall (CSchedule (mk 5 1)) []; OCall (CSchedule (mk 6 1)) []; OCall (CSchedule (mk 1 0)) [];
                    ONow 1000005] in
  exists s4, exec_jobs s3 false [0; 1; 2]%nat [] = (s4, Ok (VInt 1)) /\ inv_ids (s_events s4) = [0%nat].
Proof. cbv zeta. eexists. split; [vm_compute; reflexivity|]. eexists. split; vm_compute; reflexivity. Qed.

Print Assumptions C04_linear_positive_iff_due.
Print Assumptions C04_exec_jobs_unfold.
Print Assumptions C04_batch_is_positive_set.
Print Assumptions C04_invokes_exactly_batch.
Print Assumptions C04_returns_count.
Print Assumptions C04_nothing_due_is_identity.
Print Assumptions C04_force_runs_all.
