(* C18: asyncio: deletion cancels for good, finished jobs vanish, no task ends in error.
   Only statements closed by [exact]; proofs are in Proofs/AioProofs.v and Proofs/AioDead.v. *)
From Coq Require Import ZArith List Bool.
From Sv Require Import PyTime Timer Job Sched Aio Occur TimerProofs JobProofs SchedProofs AioProofs AioTrace AioDead.
Import ListNotations.
Open Scope Z_scope.

(* delete_job of a registered job: the entry leaves the job set and a suspended supervisor
   (sleeping, or inside its coroutine) becomes cancelled at once *)
Theorem C18_delete_cancels : forall s id a,
  a_get s id = Some a -> In id (a_reg s) ->
  let s' := fst (a_op s (ADelete id) None) in
  snd (a_op s (ADelete id) None) = Ok VNone /\ ~ In id (a_reg s') /\
  exists a', a_get s' id = Some a' /\ aj_job a' = aj_job a /\
             (active (aj_phase a) -> aj_phase a' = PCancelled).
Proof. exact delete_cancels. Qed.

(* ... for good: a cancelled (or finished) supervisor is never resumed -- the loop only ever picks
   suspended tasks, and resuming a non-suspended one is the identity *)
Theorem C18_loop_resumes_only_suspended : forall s id w,
  earliest (a_jobs s) None = Some (id, w) -> exists a, In (id, a) (a_jobs s) /\ active (aj_phase a).
Proof. exact loop_resumes_only_active. Qed.
Theorem C18_cancelled_never_resumes : forall s id a,
  a_get s id = Some a -> ~ active (aj_phase a) -> a_resume s id = s.
Proof. exact finished_never_resumes. Qed.

(* deleting a job that is not registered raises SchedulerError and changes nothing *)
Theorem C18_delete_missing_raises : forall s id self,
  ~ In id (a_reg s) -> a_op s (ADelete id) self = (s, Err SchedulerError).
Proof. exact delete_missing_raises. Qed.

(* jobs that used up their attempts or passed their stop disappear on their own, and the job set
   only contains live supervisors: invariant of every reachable state (any sequence of scheduling,
   deletion -- by reference, by tags, all; before, between, during runs, from inside the job's own
   coroutine -- and passage of virtual time) *)
Theorem C18_invariant : forall s o s' r,
  aio_inv s -> atop_valid o -> a_step s o = (s', r) ->
  aio_inv s' /\ (forall e, r = Err e -> e = SchedulerError \/ e = OtherError).
Proof. exact a_step_inv. Qed.
Theorem C18_initial : forall tz now, aio_inv (a_init tz now).
Proof. exact a_init_inv. Qed.
Theorem C18_registered_are_alive : forall s id,
  aio_inv s -> In id (a_reg s) -> exists a, a_get s id = Some a /\ active (aj_phase a) /\ aj_kill a = false.
Proof. intros s id Hi. exact (ai_reg s Hi id). Qed.
Theorem C18_finishing_unregisters : forall a j ref,
  has_attempts j = false -> enter_loop a j ref = (mkAjob j PDone ref (aj_durs a) (aj_pre a) (aj_post a) (aj_kill a) (aj_sync a), false).
Proof. intros a j ref H. rewrite enter_loop_spec, H. reflexivity. Qed.

(* "no task ends in error": in the model a supervisor has no failing transition -- every resumption
   of a well-formed state yields a well-formed state (a_resume_inv; rescheduling is total by
   job_calc_ok).  That the REAL tasks end without an unretrieved exception, and that creating the
   scheduler without a running loop raises SchedulerError, is observed by the harness (loop
   exception handler, task.exception() of every supervising task) on every history. *)
Theorem C18_resume_total : forall s id, aio_inv s -> aio_inv (a_resume s id).
Proof. exact a_resume_inv. Qed.

(* non-vacuity: a job on its last attempt deletes itself from inside its coroutine *)
Example C18_example :
  let c := mkCfg CYCLIC [TCyclic 5000000] 1 [] true None None false 1 1 [] [] [] in
  let s1 := fst (a_step (a_init None 1000000) (TSchedule c [2000000] [] [ADelete 0%nat] [])) in
  let s2 := fst (a_step s1 (TRun 30000000)) in
  a_reg s1 = [0%nat] /\ a_reg s2 = [] /\
  option_map (fun a => j_attempts (aj_job a)) (a_get s2 0%nat) = Some 1 /\
  snd (a_step s2 (TOp (ADelete 0%nat))) = Err SchedulerError.
Proof. vm_compute. repeat split. Qed.

(* never started again, over EVERY later history: a job whose supervising task is cancelled or finished
   ([dead] = its record exists and its phase is neither sleeping nor running) stays so through any sequence of
   scheduling calls, deletions (also from inside other jobs' coroutines) and virtual-time runs, valid or not, and
   none of these operations records a start of it; deleting a suspended job makes it dead at once *)
Theorem C18_delete_makes_dead : forall s id a,
  a_get s id = Some a -> active (aj_phase a) -> dead (a_cancel s id None) id.
Proof. exact cancel_makes_dead. Qed.
Theorem C18_dead_step : forall s o s' r id,
  dead s id -> a_step s o = (s', r) ->
  dead s' id /\ Forall (fun e => match e with EStart x _ _ _ _ => x <> id | _ => True end) (a_events s').
Proof. exact a_step_dead. Qed.
Theorem C18_dead_never_started : forall s id ops,
  dead s id ->
  Forall (fun s' => dead s' id /\
                    Forall (fun e => match e with EStart x _ _ _ _ => x <> id | _ => True end) (a_events s'))
         (a_trace s ops).
Proof. exact dead_never_started. Qed.

(* the job set loses no live job: in every reachable state (any history, valid operations or not) a job whose
   supervisor is suspended - sleeping or inside its coroutine - and has not been asked to die is in the job set;
   with C18_registered_are_alive the job set is EXACTLY the set of live supervisors *)
Theorem C18_live_step : forall s o s' r, live_reg s -> a_step s o = (s', r) -> live_reg s'.
Proof. exact a_step_live. Qed.
Theorem C18_live_history : forall tz now ops,
  forall id a, a_get (a_steps (a_init tz now) ops) id = Some a ->
  active (aj_phase a) -> aj_kill a = false -> In id (a_reg (a_steps (a_init tz now) ops)).
Proof. exact history_live. Qed.

(* non-vacuity of [dead]: the self-deleted job of C18_example is dead afterwards, and stays unstarted through a later
   scheduling call and a long run *)
Example C18_dead_reachable :
  let c := mkCfg CYCLIC [TCyclic 5000000] 1 [] true None None false 1 1 [] [] [] in
  let s1 := fst (a_step (a_init None 1000000) (TSchedule c [2000000] [] [ADelete 0%nat] [])) in
  let s2 := fst (a_step s1 (TRun 30000000)) in
  dead s2 0%nat.
Proof. vm_compute. eexists. split; [reflexivity|]. vm_compute. tauto. Qed.

Print Assumptions C18_delete_cancels.
Print Assumptions C18_loop_resumes_only_suspended.
Print Assumptions C18_cancelled_never_resumes.
Print Assumptions C18_invariant.
Print Assumptions C18_resume_total.
Print Assumptions C18_delete_makes_dead.
Print Assumptions C18_dead_step.
Print Assumptions C18_dead_never_started.
Print Assumptions C18_live_step.
Print Assumptions C18_live_history.
