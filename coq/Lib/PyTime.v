(* PyTime: integer-microsecond model of the part of CPython's datetime module that
   DigonIO/scheduler uses (datetime, time, timedelta, fixed-offset tzinfo), plus the
   result monad used for Python exceptions.  This file is also the target library of
   the Python->Gallina translator (translator/py2v.py): every combinator the
   generated code mentions is defined here.

   Modelled, not verified: CPython itself.  The meaning given here is validated on
   every run by the "pytime" correspondence stream (harness/streams.py).  *)
From Coq Require Import ZArith List Bool.
Import ListNotations.
Open Scope Z_scope.

Definition SEC : Z := 1000000.
Definition MN : Z := 60000000.
Definition HR : Z := 3600000000.
Definition D : Z := 86400000000.
Definition WK : Z := 604800000000.

(* ---- exceptions / result monad ------------------------------------------------ *)
Inductive exn := SchedulerError | TypeError | AttributeError | ValueError | IndexError | OtherError.
Inductive res (A : Type) := Ok (a : A) | Err (e : exn).
Arguments Ok {A} a. Arguments Err {A} e.
Definition bind {A B} (r : res A) (f : A -> res B) : res B :=
  match r with Ok a => f a | Err e => Err e end.
Notation "x <- r ;; k" := (bind r (fun x => k)) (at level 61, r at next level, right associativity).

Definition exn_eqb (a b : exn) : bool :=
  match a, b with
  | SchedulerError, SchedulerError | TypeError, TypeError | AttributeError, AttributeError
  | ValueError, ValueError | IndexError, IndexError | OtherError, OtherError => true
  | _, _ => false
  end.

Definition is_ok {A} (r : res A) : bool := match r with Ok _ => true | Err _ => false end.

(* ---- values ------------------------------------------------------------------- *)
(* datetime.time with an optional FIXED utc offset (microseconds) *)
Record time := mkTime { t_hour : Z; t_minute : Z; t_second : Z; t_micro : Z; t_off : option Z }.
(* datetime.datetime: local clock reading in microseconds since 0001-01-01T00:00 and
   an optional fixed utc offset; None = naive *)
Record datetime := mkDt { loc : Z; off : option Z }.
Definition timedelta := Z.

Definition valid_time (t : time) : Prop :=
  0 <= t_hour t < 24 /\ 0 <= t_minute t < 60 /\ 0 <= t_second t < 60 /\ 0 <= t_micro t < SEC.
Definition valid_timeb (t : time) : bool :=
  (0 <=? t_hour t) && (t_hour t <? 24) && (0 <=? t_minute t) && (t_minute t <? 60) &&
  (0 <=? t_second t) && (t_second t <? 60) && (0 <=? t_micro t) && (t_micro t <? SEC).

(* time of day in microseconds *)
Definition tod (t : time) : Z := ((t_hour t * 60 + t_minute t) * 60 + t_second t) * SEC + t_micro t.

Definition oz (o : option Z) : Z := match o with Some v => v | None => 0 end.
Definition aware (d : datetime) : bool := match off d with Some _ => true | None => false end.
Definition t_aware (t : time) : bool := match t_off t with Some _ => true | None => false end.
(* the instant denoted (for naive values: the local reading itself) *)
Definition utc (d : datetime) : Z := loc d - oz (off d).

(* ---- field access ------------------------------------------------------------- *)
Definition dt_hour (d : datetime) := (loc d mod D) / HR.
Definition dt_minute (d : datetime) := (loc d mod HR) / MN.
Definition dt_second (d : datetime) := (loc d mod MN) / SEC.
Definition dt_micro (d : datetime) := loc d mod SEC.
Definition dflt (o : option Z) (x : Z) := match o with Some v => v | None => x end.

(* datetime.replace(hour=, minute=, second=, microsecond=); None = keyword absent.
   The date part and tzinfo are kept. *)
Definition dt_replace (d : datetime) (h m s u : option Z) : datetime :=
  mkDt ((loc d / D) * D
        + ((dflt h (dt_hour d) * 60 + dflt m (dt_minute d)) * 60 + dflt s (dt_second d)) * SEC
        + dflt u (dt_micro d)) (off d).
(* time.replace(hour=, minute=) *)
Definition t_replace (t : time) (h m : option Z) : time :=
  mkTime (dflt h (t_hour t)) (dflt m (t_minute t)) (t_second t) (t_micro t) (t_off t).

Definition dt_weekday (d : datetime) : Z := (loc d / D) mod 7.   (* 0001-01-01 is a Monday *)
Definition dt_date (d : datetime) : Z := loc d / D.

(* ---- arithmetic and comparison -------------------------------------------------- *)
Definition dt_add (d : datetime) (t : timedelta) : datetime := mkDt (loc d + t) (off d).
Definition td_make (days hours minutes : Z) : timedelta := days * D + hours * HR + minutes * MN.

(* comparison keys; mixing naive and aware raises TypeError, as in CPython *)
Definition dt_keys (a b : datetime) : res (Z * Z) :=
  match off a, off b with
  | None, None => Ok (loc a, loc b)
  | Some oa, Some ob => Ok (loc a - oa, loc b - ob)
  | _, _ => Err TypeError
  end.
Definition dt_sub (a b : datetime) : res timedelta := k <- dt_keys a b ;; Ok (fst k - snd k).
Definition dt_lt (a b : datetime) : res bool := k <- dt_keys a b ;; Ok (fst k <? snd k).
Definition dt_le (a b : datetime) : res bool := k <- dt_keys a b ;; Ok (fst k <=? snd k).
Definition dt_gt (a b : datetime) : res bool := k <- dt_keys a b ;; Ok (snd k <? fst k).
Definition dt_ge (a b : datetime) : res bool := k <- dt_keys a b ;; Ok (snd k <=? fst k).
(* == never raises: naive and aware are simply unequal *)
Definition dt_eqb (a b : datetime) : bool :=
  match off a, off b with
  | None, None => loc a =? loc b
  | Some oa, Some ob => (loc a - oa) =? (loc b - ob)
  | _, _ => false
  end.

(* timedelta.total_seconds() compared with an integer literal: exact when scaled *)
Definition ts_le (t : timedelta) (c : Z) : bool := t <=? c * SEC.
Definition ts_lt (t : timedelta) (c : Z) : bool := t <? c * SEC.

(* astimezone(tz).  Harness runs with TZ=UTC, so "system local time" is offset 0:
   naive values are read as UTC, and astimezone(None) yields an aware UTC value.
   Neither case is reachable once the scheduler's awareness checks passed. *)
Definition astimezone (d : datetime) (tz : option Z) : datetime :=
  let u := utc d in
  match tz with
  | Some o => mkDt (u + o) (Some o)
  | None => mkDt u (Some 0)
  end.

(* datetime.now(tz) for the scripted clock [now] (utc microseconds) *)
Definition dt_now (now : Z) (tz : option Z) : datetime :=
  match tz with Some o => mkDt (now + o) (Some o) | None => mkDt now None end.

(* bool(x.tzinfo) xor bool(tzinfo) *)
Definition awareness_differs (a b : bool) : bool := xorb a b.

(* ---- generic list helpers used by several models ------------------------------ *)
Fixpoint mapM {A B} (f : A -> res B) (l : list A) : res (list B) :=
  match l with
  | [] => Ok []
  | x :: t => y <- f x ;; ys <- mapM f t ;; Ok (y :: ys)
  end.

Fixpoint zmem (x : Z) (l : list Z) : bool :=
  match l with [] => false | y :: t => (x =? y) || zmem x t end.
Fixpoint nmem (x : nat) (l : list nat) : bool :=
  match l with [] => false | y :: t => Nat.eqb x y || nmem x t end.
Fixpoint zdedup (l : list Z) : list Z :=
  match l with [] => [] | x :: t => if zmem x t then zdedup t else x :: zdedup t end.
(* len(set(l)) == len(l) *)
Fixpoint znodup (l : list Z) : bool :=
  match l with [] => true | x :: t => negb (zmem x t) && znodup t end.

(* ---- further combinators used only by translated code ----------------------------- *)
Record weekday := mkWd { wd_value : Z; wd_time : time }.
(* dt.timedelta(days=, hours=, minutes=, seconds=, microseconds=) *)
Definition td_make5 (days hours minutes seconds micros : Z) : timedelta :=
  days * D + hours * HR + minutes * MN + seconds * SEC + micros.

(* Python floats inside the priority functions, over exact rationals num/den (den > 0).
   IEEE rounding is modelled, not verified. *)
Definition pyfloat := (Z * Z)%type.
Definition fl_of_int (n : Z) : pyfloat := (n, 1).
Definition fl_add_int (a : pyfloat) (n : Z) : pyfloat := (fst a + n * snd a, snd a).
Definition fl_mul (a b : pyfloat) : pyfloat := (fst a * fst b, snd a * snd b).
Definition fl_lt_int (a : pyfloat) (n : Z) : bool := fst a <? n * snd a.
Record pyjob := mkPyJob { pj_weight : pyfloat }.

(* Python str as a list of code points; s[lo:hi] with Python's treatment of absent,
   negative and out-of-range bounds *)
Definition pystr := list Z.
Definition slice_bound (len : Z) (b : option Z) (dflt : Z) : Z :=
  match b with
  | None => dflt
  | Some v => let v' := if v <? 0 then v + len else v in
              if v' <? 0 then 0 else if len <? v' then len else v'
  end.
Definition py_slice (s : pystr) (lo hi : option Z) : pystr :=
  let len := Z.of_nat (length s) in
  let a := slice_bound len lo 0 in
  let b := slice_bound len hi len in
  firstn (Z.to_nat (b - a)) (skipn (Z.to_nat a) s).

(* ---- objects with state, as the method translator sees them ------------------------- *)
Inductive pyjobtype := JT_CYCLIC | JT_MINUTELY | JT_HOURLY | JT_DAILY | JT_WEEKLY.
Definition pyjobtype_eqb (a b : pyjobtype) : bool :=
  match a, b with
  | JT_CYCLIC, JT_CYCLIC | JT_MINUTELY, JT_MINUTELY | JT_HOURLY, JT_HOURLY | JT_DAILY, JT_DAILY
  | JT_WEEKLY, JT_WEEKLY => true
  | _, _ => false
  end.
(* TimingJobTimerUnion; typing.cast() does nothing at run time, a wrong variant fails on first use *)
Inductive pytiming := PTdelta (d : timedelta) | PTtime (t : time) | PTweekday (w : weekday).
Definition as_timedelta (x : pytiming) : res timedelta := match x with PTdelta d => Ok d | _ => Err TypeError end.
Definition as_time (x : pytiming) : res time := match x with PTtime t => Ok t | _ => Err AttributeError end.
Definition as_weekday (x : pytiming) : res weekday := match x with PTweekday w => Ok w | _ => Err AttributeError end.
(* JobTimer *)
Record pytimer := mkPyTimer { pt_type : pyjobtype; pt_timing : pytiming; pt_next : datetime; pt_skip : bool }.
Definition set_pt_next (s : pytimer) (d : datetime) : pytimer := mkPyTimer (pt_type s) (pt_timing s) d (pt_skip s).
Definition set_pt_timing (s : pytimer) (t : pytiming) : pytimer := mkPyTimer (pt_type s) t (pt_next s) (pt_skip s).
Definition opt_is_some {A} (o : option A) : bool := match o with Some _ => true | None => false end.
Definition set_pt_type (s : pytimer) (k : pyjobtype) : pytimer := mkPyTimer k (pt_timing s) (pt_next s) (pt_skip s).
Definition set_pt_skip (s : pytimer) (b : bool) : pytimer := mkPyTimer (pt_type s) (pt_timing s) (pt_next s) b.
(* the object before __init__ has assigned its fields (every field is assigned before it is read) *)
Definition blank_pytimer : pytimer := mkPyTimer JT_CYCLIC (PTdelta 0) (mkDt 0 None) false.

(* sort key of a datetime inside one awareness class *)
Definition all_same_awareness (l : list datetime) : bool :=
  match l with
  | [] => true
  | d :: r => forallb (fun x => Bool.eqb (aware x) (aware d)) r
  end.

(* index of the first minimal element *)
Fixpoint argmin_from (i best : nat) (bestv : Z) (l : list Z) : nat :=
  match l with
  | [] => best
  | v :: r => if v <? bestv then argmin_from (S i) i v r else argmin_from (S i) best bestv r
  end.
Definition argmin (l : list Z) : nat :=
  match l with [] => O | v :: r => argmin_from 1 O v r end.


Fixpoint replace_nth {A} (n : nat) (l : list A) (x : A) : list A :=
  match l, n with
  | [], _ => []
  | _ :: r, O => x :: r
  | y :: r, S n' => y :: replace_nth n' r x
  end.


Definition py_nth (i : nat) (l : list pytimer) : pytimer := nth i l blank_pytimer.
(* get_pending_timer (recognised by template): a dict in list order, sorted() by the timers' datetimes
   is stable so the first minimal one wins; comparing naive with aware values raises TypeError (whenever
   both kinds occur some comparison is mixed); [0] of an empty list raises IndexError.
   The result is presented as the INDEX of the chosen timer. *)
Definition py_pending_index (tms : list pytimer) : res nat :=
  match tms with
  | [] => Err IndexError
  | _ => let ds := map pt_next tms in
         if all_same_awareness ds then Ok (argmin (map utc ds)) else Err TypeError
  end.

(* the scheduling-related state of a BaseJob; __pending_timer is the element pj_pending of pj_timers *)
Record pyjobstate := mkPyJobState {
  pj_mark_delete : bool; pj_max_attempts : Z; pj_attempts : Z; pj_failed_attempts : Z; pj_delay : bool; pj_skip_missing : bool; pj_start : datetime; pj_stop : option datetime; pj_tzinfo : option Z; pj_timers : list pytimer; pj_pending : nat }.
Definition set_pj_mark_delete (s : pyjobstate) (v : bool) : pyjobstate := mkPyJobState v (pj_max_attempts s) (pj_attempts s) (pj_failed_attempts s) (pj_delay s) (pj_skip_missing s) (pj_start s) (pj_stop s) (pj_tzinfo s) (pj_timers s) (pj_pending s).
Definition set_pj_max_attempts (s : pyjobstate) (v : Z) : pyjobstate := mkPyJobState (pj_mark_delete s) v (pj_attempts s) (pj_failed_attempts s) (pj_delay s) (pj_skip_missing s) (pj_start s) (pj_stop s) (pj_tzinfo s) (pj_timers s) (pj_pending s).
Definition set_pj_attempts (s : pyjobstate) (v : Z) : pyjobstate := mkPyJobState (pj_mark_delete s) (pj_max_attempts s) v (pj_failed_attempts s) (pj_delay s) (pj_skip_missing s) (pj_start s) (pj_stop s) (pj_tzinfo s) (pj_timers s) (pj_pending s).
Definition set_pj_failed_attempts (s : pyjobstate) (v : Z) : pyjobstate := mkPyJobState (pj_mark_delete s) (pj_max_attempts s) (pj_attempts s) v (pj_delay s) (pj_skip_missing s) (pj_start s) (pj_stop s) (pj_tzinfo s) (pj_timers s) (pj_pending s).
Definition set_pj_delay (s : pyjobstate) (v : bool) : pyjobstate := mkPyJobState (pj_mark_delete s) (pj_max_attempts s) (pj_attempts s) (pj_failed_attempts s) v (pj_skip_missing s) (pj_start s) (pj_stop s) (pj_tzinfo s) (pj_timers s) (pj_pending s).
Definition set_pj_skip_missing (s : pyjobstate) (v : bool) : pyjobstate := mkPyJobState (pj_mark_delete s) (pj_max_attempts s) (pj_attempts s) (pj_failed_attempts s) (pj_delay s) v (pj_start s) (pj_stop s) (pj_tzinfo s) (pj_timers s) (pj_pending s).
Definition set_pj_start (s : pyjobstate) (v : datetime) : pyjobstate := mkPyJobState (pj_mark_delete s) (pj_max_attempts s) (pj_attempts s) (pj_failed_attempts s) (pj_delay s) (pj_skip_missing s) v (pj_stop s) (pj_tzinfo s) (pj_timers s) (pj_pending s).
Definition set_pj_stop (s : pyjobstate) (v : option datetime) : pyjobstate := mkPyJobState (pj_mark_delete s) (pj_max_attempts s) (pj_attempts s) (pj_failed_attempts s) (pj_delay s) (pj_skip_missing s) (pj_start s) v (pj_tzinfo s) (pj_timers s) (pj_pending s).
Definition set_pj_tzinfo (s : pyjobstate) (v : option Z) : pyjobstate := mkPyJobState (pj_mark_delete s) (pj_max_attempts s) (pj_attempts s) (pj_failed_attempts s) (pj_delay s) (pj_skip_missing s) (pj_start s) (pj_stop s) v (pj_timers s) (pj_pending s).
Definition set_pj_timers (s : pyjobstate) (v : list pytimer) : pyjobstate := mkPyJobState (pj_mark_delete s) (pj_max_attempts s) (pj_attempts s) (pj_failed_attempts s) (pj_delay s) (pj_skip_missing s) (pj_start s) (pj_stop s) (pj_tzinfo s) v (pj_pending s).
Definition set_pj_pending (s : pyjobstate) (v : nat) : pyjobstate := mkPyJobState (pj_mark_delete s) (pj_max_attempts s) (pj_attempts s) (pj_failed_attempts s) (pj_delay s) (pj_skip_missing s) (pj_start s) (pj_stop s) (pj_tzinfo s) (pj_timers s) v.
(* the object before __init__ has assigned its fields (every modelled field is assigned before it is read) *)
Definition blank_pyjobstate : pyjobstate := mkPyJobState false 0 0 0 true false (mkDt 0 None) None None [] O.
(* sane_timing_types (recognised by template): typeguard's check_type of the timing list against the list type of the
   job type, exactly one entry for CYCLIC; any TypeError becomes SchedulerError.  typeguard itself is an oracle. *)
Definition py_entry_sane (k : pyjobtype) (x : pytiming) : bool :=
  match k, x with
  | JT_CYCLIC, PTdelta _ => true
  | (JT_MINUTELY | JT_HOURLY | JT_DAILY), PTtime _ => true
  | JT_WEEKLY, PTweekday _ => true
  | _, _ => false
  end.
Definition py_sane_timing_types (k : pyjobtype) (l : list pytiming) : res unit :=
  if forallb (py_entry_sane k) l && (match k with JT_CYCLIC => Nat.eqb (length l) 1 | _ => true end)
  then Ok tt else Err SchedulerError.

(* ---- loops, sets and optionals as the function translator sees them -------------------- *)
(* for x in l: body   where body only tests and raises *)
Fixpoint for_each {A} (l : list A) (f : A -> res unit) : res unit :=
  match l with [] => Ok tt | x :: r => bind (f x) (fun _ => for_each r f) end.
(* datetime(1970, 1, 1) in local microseconds since 0001-01-01 *)
Definition epoch1970 : Z := 719162 * D.
(* a set of datetimes: equality is dt_eqb (instants for aware values, fields for naive ones) *)
Fixpoint dt_mem (x : datetime) (l : list datetime) : bool :=
  match l with [] => false | y :: t => dt_eqb x y || dt_mem x t end.
Fixpoint dt_dedup (l : list datetime) : list datetime :=
  match l with [] => [] | x :: t => if dt_mem x t then dt_dedup t else x :: dt_dedup t end.
(* set[str]: duplicate-free lists of tag identifiers *)
Definition zset_inter (a b : list Z) : list Z := filter (fun x => zmem x b) a.
Definition zset_subset (a b : list Z) : bool := forallb (fun x => zmem x b) a.
Definition is_nil {A} (l : list A) : bool := match l with [] => true | _ => false end.
(* the part of a job select_jobs_by_tag looks at *)
Record pytagjob := mkPyTagJob { ptj_id : nat; ptj_tags : list Z }.

(* ---- rational priorities ------------------------------------------------------------ *)
Definition prio := (Z * Z)%type.           (* num / den, den > 0 *)
Definition qle (a b : prio) : bool := fst a * snd b <=? fst b * snd a.
Definition qpos (a : prio) : bool := 0 <? fst a.

(* ---- stable descending sort (sorted(..., reverse=True)) ------------------------------ *)
Section Sort.
  Context {A : Type} (key : A -> prio).
  (* insert x in front of l: x goes before the first element with a strictly smaller key *)
  Fixpoint ins_desc (x : A) (l : list A) : list A :=
    match l with
    | [] => [x]
    | y :: t => if qle (key x) (key y) && negb (qle (key y) (key x)) then y :: ins_desc x t
                else x :: l
    end.
  (* elements are inserted from the right so that equal keys keep their original order *)
  Definition sort_desc (l : list A) : list A := fold_right ins_desc [] l.
End Sort.


(* ---- the threading Scheduler's selection, as the translator sees it --------------------------- *)
(* a Job object: identity, scheduling state, weight *)
Record pyjobobj := mkPyJobObj { jo_id : nat; jo_state : pyjobstate; jo_weight : pyfloat }.
Record pysched := mkPySched { ps_max_exec : Z; ps_tzinfo : option Z; ps_jobs : list pyjobobj }.
(* - timedelta.total_seconds() as a Python float (exact rational) *)
Definition fl_neg_tsec (d : timedelta) : pyfloat := (- d, SEC).
Definition fl_gt_int (a : pyfloat) (n : Z) : bool := n * snd a <? fst a.
(* a dict keyed by Job objects (identity), built by one insertion per element of a set: an association list *)
Fixpoint py_dict_get (d : list (pyjobobj * pyfloat)) (k : pyjobobj) : res pyfloat :=
  match d with
  | [] => Err OtherError                      (* KeyError *)
  | (k', v) :: r => if Nat.eqb (jo_id k') (jo_id k) then Ok v else py_dict_get r k
  end.
(* sorted(d, key=d.get, reverse=True): the keys, stable, descending by value *)
Definition py_sorted_desc (d : list (pyjobobj * pyfloat)) : list pyjobobj := map fst (sort_desc snd d).
(* [x for idx, x in enumerate(l) if c(idx, x)] with a condition that may raise *)
Fixpoint filterM_idx {A} (f : Z -> A -> res bool) (i : Z) (l : list A) : res (list A) :=
  match l with
  | [] => Ok []
  | x :: r => bind (f i x) (fun b => bind (filterM_idx f (i + 1) r) (fun r' => Ok (if b then x :: r' else r')))
  end.

(* ---- once(): the timing union and the keyword arguments handed to __schedule ------------------- *)
Inductive pyonce := PO_datetime (d : datetime) | PO_timedelta (T : timedelta) | PO_time (t : time) | PO_weekday (w : weekday).
(* the keywords the model has a value for (handle, args, kwargs, tags, alias, weight pass through unmodelled) *)
Record pyschedcall := mkSchedCall { sk_type : pyjobtype; sk_timing : pytiming; sk_max_attempts : Z;
                                    sk_delay : bool; sk_start : option datetime }.
(* a once() timing that is not a datetime, used as a job timing *)
Definition once_as_timing (x : pyonce) : res pytiming :=
  match x with
  | PO_timedelta T => Ok (PTdelta T) | PO_time t => Ok (PTtime t) | PO_weekday w => Ok (PTweekday w)
  | PO_datetime _ => Err TypeError
  end.

(* ---- the job set of the threading Scheduler as the registry translator sees it: jobs by identity ---- *)
Definition tagjob_mem (x : pytagjob) (l : list pytagjob) : bool := existsb (fun y => Nat.eqb (ptj_id y) (ptj_id x)) l.
Definition tagjob_remove (x : pytagjob) (l : list pytagjob) : list pytagjob := filter (fun y => negb (Nat.eqb (ptj_id y) (ptj_id x))) l.
Definition tagjob_diff (a b : list pytagjob) : list pytagjob := filter (fun y => negb (tagjob_mem y b)) a.

(* ---- Job objects by identity: a heap of their scheduling states, and a set of identities -------------- *)
Fixpoint heap_get (h : list (nat * pyjobstate)) (id : nat) : res pyjobstate :=
  match h with
  | [] => Err OtherError
  | (k, v) :: t => if Nat.eqb k id then Ok v else heap_get t id
  end.
Fixpoint heap_set (h : list (nat * pyjobstate)) (id : nat) (v : pyjobstate) : list (nat * pyjobstate) :=
  match h with
  | [] => []
  | (k, w) :: t => if Nat.eqb k id then (k, v) :: t else (k, w) :: heap_set t id v
  end.
Definition idset_discard (id : nat) (l : list nat) : list nat := filter (fun k => negb (Nat.eqb k id)) l.
(* for x in l: state = body(state, x), stopping at the first exception *)
Fixpoint foldM {S A} (f : S -> A -> res S) (l : list A) (s : S) : res S :=
  match l with [] => Ok s | x :: r => bind (f s x) (foldM f r) end.

(* the five scheduling methods of a Scheduler *)
Inductive pymethod := M_cyclic | M_minutely | M_hourly | M_daily | M_weekly.

(* ---- the supervising coroutine of the asyncio Scheduler, between two suspension points -------------------- *)
(* what the coroutine does next: suspend in asyncio.sleep(d) (then run the job's coroutine), or leave the loop *)
Inductive supstep := SupSleep (d : timedelta) (reference : datetime) | SupDone.
