(* Extraction of the executable models for the correspondence checks.
   Only ExtrOcamlBasic is used: bool, option, unit, list, prod, sumbool... map to OCaml's
   own types; nat, positive and Z stay the extracted inductives. *)
From Coq Require Extraction ExtrOcamlBasic.
From Sv Require Import PyTime Timer Job Sched Table Aio Conc.
Extraction "model.ml" step sched_init run job_datetime has_attempts utc
  m_next_daily m_next_hourly m_next_minutely m_next_weekly m_days_to_weekday
  timer_init timer_calc job_create job_calc dup_ok table sched_str_thr sched_str_aio job_str m_str_cutoff a_step a_step_ties a_init mstep m_init clear_events pool_run pool_init running all_exited lstep deadlocked finished.
