(* Tie: JobTimer.calc_next_exec and BaseJob.has_attempts_remaining as GENERATED from /repo's current
   source equal the hand-written model (Model/Timer.v, Model/Job.v).  Re-proved on every run. *)
From Coq Require Import ZArith List Bool Lia ZifyBool.
From Sv Require Import PyTime Timer Job Occur PyRepr.
From Gen Require Import GenOccur GenTimer TieOccur TieWeekly.
Import ListNotations.
Open Scope Z_scope.

Lemma tie_calc_clock ty tg cur :
  ty <> CYCLIC -> valid_entry ty tg ->
  GenTimer.calc_next_exec_none (mkPyTimer (py_type ty) (py_timing tg) cur false) =
    match calc_clock ty tg cur with Ok n => Ok (mkPyTimer (py_type ty) (py_timing tg) n false) | Err e => Err e end
  /\
  GenTimer.calc_next_exec_none (mkPyTimer (py_type ty) (py_timing tg) cur true) =
    match calc_clock ty tg cur with Ok n => Ok (mkPyTimer (py_type ty) (py_timing tg) n true) | Err e => Err e end.
Proof.
  intros Hty Hv. destruct ty; try congruence; destruct tg as [T|t|w t]; cbn in Hv; try contradiction;
    unfold GenTimer.calc_next_exec_none, calc_clock, GenTimer.job_next_daylike_mapping; cbn [py_type py_timing pt_type pt_timing pt_next pt_skip
      pyjobtype_eqb as_time as_weekday as_timedelta bind set_pt_next wd_time wd_value].
  - rewrite !tie_minutely by assumption. unfold aware, opt_is_some. destruct (off cur); cbn; split; reflexivity.
  - rewrite !tie_hourly by assumption. unfold aware, opt_is_some. destruct (off cur); cbn; split; reflexivity.
  - rewrite !tie_daily by assumption. unfold aware, opt_is_some. destruct (off cur); cbn; split; reflexivity.
  - destruct Hv as [Hv Hw].
    assert (Hb : (0 <=? w) && (w <=? 6) = true) by lia. rewrite Hb.
    rewrite !(tie_weekly _ (mkWd w t) t) by (cbn; assumption). cbn [wd_value].
    unfold opt_is_some. destruct (t_off t); cbn; split; reflexivity.
Qed.

(* JobTimer.calc_next_exec(ref) = Model.timer_calc *)
Theorem tie_timer_calc tm ref :
  entry_sane (jt_type tm) (jt_timing tm) = true -> valid_entry (jt_type tm) (jt_timing tm) ->
  GenTimer.calc_next_exec (py_of_timer tm) ref = py_res (timer_calc tm ref).
Proof.
  intros Hs Hv. destruct tm as [ty tg nxt sk]. cbn [jt_type jt_timing jt_next jt_skip] in *.
  destruct (jobtype_eqb ty CYCLIC) eqn:Ec.
  - destruct ty; try discriminate. destruct tg as [T| |]; try discriminate.
    unfold GenTimer.calc_next_exec, timer_calc, py_of_timer. cbn. destruct ref as [r|]; destruct sk; reflexivity.
  - assert (Hty : ty <> CYCLIC) by (intros ->; discriminate).
    destruct (tie_calc_clock ty tg nxt Hty Hv) as [Hf Ht].
    unfold timer_calc, py_of_timer. cbn [jt_type jt_timing jt_next jt_skip].
    (* the generated code for the four non-cyclic shapes *)
    destruct ty; try congruence; destruct tg as [T|t|w t]; cbn in Hv, Hs; try contradiction; try discriminate;
      unfold GenTimer.calc_next_exec, GenTimer.job_next_daylike_mapping, calc_clock;
      cbn [py_type py_timing pt_type pt_timing pt_next pt_skip pyjobtype_eqb
        as_time as_weekday as_timedelta bind set_pt_next wd_time wd_value].
    + (* minutely *)
      pose proof (fun r => tie_calc_clock MINUTELY (TTime t) r Hty Hv) as Hr. cbn [py_type py_timing] in Hr.
      rewrite !tie_minutely by assumption. unfold aware, opt_is_some.
      destruct (off nxt); cbn [bind pt_next pt_skip set_pt_next]; destruct ref as [r|]; try reflexivity;
        destruct sk; cbn [bind]; try reflexivity;
        (match goal with |- context [dt_lt ?a ?b] => destruct (dt_lt a b) as [[|]|e] end); cbn [bind]; try reflexivity;
        unfold set_pt_next; cbn [pt_type pt_timing pt_next pt_skip]; rewrite (proj2 (Hr r));
        unfold calc_clock, py_res, py_of_timer, set_next, aware; cbn; reflexivity.
    + (* hourly *)
      pose proof (fun r => tie_calc_clock HOURLY (TTime t) r Hty Hv) as Hr. cbn [py_type py_timing] in Hr.
      rewrite !tie_hourly by assumption. unfold aware, opt_is_some.
      destruct (off nxt); cbn [bind pt_next pt_skip set_pt_next]; destruct ref as [r|]; try reflexivity;
        destruct sk; cbn [bind]; try reflexivity;
        (match goal with |- context [dt_lt ?a ?b] => destruct (dt_lt a b) as [[|]|e] end); cbn [bind]; try reflexivity;
        unfold set_pt_next; cbn [pt_type pt_timing pt_next pt_skip]; rewrite (proj2 (Hr r));
        unfold calc_clock, py_res, py_of_timer, set_next, aware; cbn; reflexivity.
    + (* daily *)
      pose proof (fun r => tie_calc_clock DAILY (TTime t) r Hty Hv) as Hr. cbn [py_type py_timing] in Hr.
      rewrite !tie_daily by assumption. unfold aware, opt_is_some.
      destruct (off nxt); cbn [bind pt_next pt_skip set_pt_next]; destruct ref as [r|]; try reflexivity;
        destruct sk; cbn [bind]; try reflexivity;
        (match goal with |- context [dt_lt ?a ?b] => destruct (dt_lt a b) as [[|]|e] end); cbn [bind]; try reflexivity;
        unfold set_pt_next; cbn [pt_type pt_timing pt_next pt_skip]; rewrite (proj2 (Hr r));
        unfold calc_clock, py_res, py_of_timer, set_next, aware; cbn; reflexivity.
    + (* weekly *)
      pose proof (fun r => tie_calc_clock WEEKLY (TWeekday w t) r Hty Hv) as Hr. cbn [py_type py_timing] in Hr.
      destruct Hv as [Hv Hw]. assert (Hb : (0 <=? w) && (w <=? 6) = true) by lia. rewrite Hb.
      rewrite !(tie_weekly _ (mkWd w t) t) by (cbn; assumption). cbn [wd_value]. unfold opt_is_some.
      destruct (t_off t) eqn:Eo; cbn [bind pt_next pt_skip set_pt_next]; destruct ref as [r|]; try reflexivity;
        destruct sk; cbn [bind]; try reflexivity;
        (match goal with |- context [dt_lt ?a ?b] => destruct (dt_lt a b) as [[|]|e] end); cbn [bind]; try reflexivity;
        unfold set_pt_next; cbn [pt_type pt_timing pt_next pt_skip]; rewrite (proj2 (Hr r));
        unfold calc_clock, py_res, py_of_timer, set_next; rewrite Hb, ?Eo; cbn; reflexivity.
Qed.

Lemma bind_ok_id {A} (x : res A) : bind x (fun s => Ok s) = x.
Proof. destruct x; reflexivity. Qed.
(* the unrolled recursive call is the method itself without a reference *)
Lemma calc_next_exec_None self : GenTimer.calc_next_exec self None = GenTimer.calc_next_exec_none self.
Proof.
  unfold GenTimer.calc_next_exec, GenTimer.calc_next_exec_none.
  repeat (cbn [bind]; match goal with
    | |- context [if ?c then _ else _] => destruct c
    | |- context [bind ?x _] => destruct x
    end); reflexivity.
Qed.

(* JobTimer(job_type, timing, start, skip_missing) = Model.timer_init *)
Theorem tie_jobtimer_new ty tg start skip :
  entry_sane ty tg = true -> valid_entry ty tg ->
  GenTimer.jobtimer_new (py_type ty) (py_timing tg) start skip = py_res (timer_init ty tg start skip).
Proof.
  intros Hs Hv. unfold GenTimer.jobtimer_new, GenTimer.jobtimer_init, timer_init.
  unfold set_pt_type, set_pt_timing, set_pt_skip, blank_pytimer. unfold set_pt_next at 1. cbn [pt_type pt_timing pt_next pt_skip].
  pose proof (tie_timer_calc (mkTimer ty tg start skip) None Hs Hv) as H. unfold py_of_timer in H. cbn [jt_type jt_timing jt_next jt_skip] in H.
  rewrite <- H, calc_next_exec_None.
  apply bind_ok_id.
Qed.
Lemma tie_jobtimer_datetime tm : GenTimer.jobtimer_datetime (py_of_timer tm) = Ok (jt_next tm).
Proof. reflexivity. Qed.
Lemma tie_jobtimer_timedelta tm stamp : GenTimer.jobtimer_timedelta (py_of_timer tm) stamp = dt_sub (jt_next tm) stamp.
Proof. unfold GenTimer.jobtimer_timedelta, py_of_timer. cbn [pt_next]. destruct (dt_sub (jt_next tm) stamp); reflexivity. Qed.
