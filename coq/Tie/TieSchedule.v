(* Tie, composed: one scheduling call.  `__schedule` of both front ends is recognised by template (create the job with
   the scheduler's tzinfo; register it iff it has attempts remaining; return it); its two steps are GENERATED code:
   BaseJob.__init__ (GenJobInit.basejob_new) and BaseJob.has_attempts_remaining.  Together they compute exactly
   Model/Sched.v's schedule: same error and untouched registry on rejection, otherwise the fresh id, the created job
   and registration iff the generated has_attempts_remaining says so.  Re-proved on every run. *)
From Coq Require Import ZArith List Bool Lia.
From Sv Require Import PyTime Timer Job Sched Occur PyRepr.
From Gen Require Import GenOccur GenDup GenTimer GenJobState GenJobUtil GenJobInit TieJob TieJobInit.
Import ListNotations.
Open Scope Z_scope.

Definition gen_schedule (s : sched) (c : jobcfg) : res (pyjobstate * bool) :=
  bind (GenJobInit.basejob_new (s_now s) (py_type (c_type c)) (map py_timing (c_timing c)) (c_max_attempts c) (c_delay c)
                               (c_start c) (c_stop c) (c_skip c) (s_tz s))
       (fun pj => bind (GenJobState.has_attempts_remaining pj) (fun b => Ok (pj, b))).

Theorem tie_schedule_composed s c prog :
  forallb (entry_sane (c_type c)) (c_timing c) = true -> Forall (valid_entry (c_type c)) (c_timing c) ->
  match gen_schedule s c with
  | Err e => snd (schedule s c prog) = Err e /\
             s_reg (fst (schedule s c prog)) = s_reg s /\ s_jobs (fst (schedule s c prog)) = s_jobs s
  | Ok (pj, registered) =>
      exists j, pj = py_of_job j /\
                snd (schedule s c prog) = Ok (VJob (s_next s)) /\
                s_reg (fst (schedule s c prog)) = (if registered then s_reg s ++ [s_next s] else s_reg s) /\
                s_jobs (fst (schedule s c prog)) = s_jobs s ++ [(s_next s, j)]
  end.
Proof.
  intros Hs Hv. unfold gen_schedule. rewrite (tie_basejob_new c (s_tz s) (s_now s) Hs Hv).
  unfold schedule. destruct (job_create c (s_tz s) (s_now s)) as [j|e]; cbn [py_res_job bind].
  - rewrite tie_has_attempts. cbn [bind]. exists j. cbn. repeat split; reflexivity.
  - cbn. repeat split; reflexivity.
Qed.
