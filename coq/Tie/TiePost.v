(* Tie: the post-run loop of the threading Scheduler.__exec_jobs (reschedule every batch member, retire the ones
   without attempts left) as GENERATED from /repo's current source equals Model/Sched.v's resched_all, on every
   state whose jobs satisfy the job invariant.  The hand-over to the workers is recognised by template (its
   meaning is Model/Conc.v's worker pool).  Re-proved on every run. *)
From Coq Require Import ZArith List Bool Lia.
From Sv Require Import PyTime Timer Job Sched Occur PyRepr TimerProofs JobProofs SchedProofs.
From Gen Require Import GenOccur GenTimer GenJobState GenPost TieOccur TieWeekly TieTimer TieJob.
Import ListNotations.
Open Scope Z_scope.

Definition heapof (s : sched) : list (nat * pyjobstate) := map (fun ij => (fst ij, py_of_job (snd ij))) (s_jobs s).

Lemma valid_sane' ty tg : valid_entry ty tg -> entry_sane ty tg = true.
Proof. destruct ty, tg; cbn; intros H; try contradiction; reflexivity. Qed.
Lemma job_ok_sane j : job_ok j -> timers_sane j.
Proof.
  intros Hok. unfold timers_sane. eapply Forall_impl; [|exact (jok_timers _ Hok)].
  intros tm (Hty & _ & _ & Hw). unfold timer_sane. rewrite Hty in *.
  destruct (c_type (j_cfg j)); [destruct Hw as (T & ->); split; [reflexivity|exact I]| | | |];
    destruct Hw as [Hk _]; pose proof (tok_valid _ Hk) as Hv; rewrite Hty in Hv; (split; [apply valid_sane'|]; exact Hv).
Qed.

Lemma heap_get_of l id :
  heap_get (map (fun ij : nat * job => (fst ij, py_of_job (snd ij))) l) id =
  match lookup id l with Some j => Ok (py_of_job j) | None => Err OtherError end.
Proof. induction l as [|[k v] t IH]; [reflexivity|]. cbn. destruct (Nat.eqb k id); [reflexivity|exact IH]. Qed.
Lemma heap_set_of l id j' :
  heap_set (map (fun ij : nat * job => (fst ij, py_of_job (snd ij))) l) id (py_of_job j') =
  map (fun ij => (fst ij, py_of_job (snd ij))) (update id j' l).
Proof. induction l as [|[k v] t IH]; [reflexivity|]. cbn. destruct (Nat.eqb k id); cbn; [reflexivity|]. rewrite IH. reflexivity. Qed.

Definition jobs_good (s : sched) (ref : datetime) : Prop :=
  Forall (fun ij => job_ok (snd ij) /\ aware ref = tz_aware (j_tz (snd ij))) (s_jobs s).

Lemma lookup_in {A} id (l : list (nat * A)) v : lookup id l = Some v -> In (id, v) l.
Proof.
  induction l as [|[k w] t IH]; cbn; [discriminate|]. destruct (Nat.eqb k id) eqn:E.
  - intros H; inversion H; subst. apply Nat.eqb_eq in E. subst. left. reflexivity.
  - intros H. right. apply IH. exact H.
Qed.
Lemma update_forall {A} (P : nat * A -> Prop) id v l :
  Forall P l -> (forall k, P (k, v)) -> Forall P (update id v l).
Proof.
  intros H Hv. induction H as [|[k w] t Hx Ht IH]; cbn; [constructor|].
  destruct (Nat.eqb k id); constructor; auto.
Qed.

Theorem tie_post_loop batch s ref :
  jobs_good s ref -> Forall (fun id => get_job s id <> None) batch ->
  GenPost.sched_post_loop (heapof s) (s_reg s) batch ref =
    match resched_all s batch ref with
    | (s', Ok _) => Ok (heapof s', s_reg s', Z.of_nat (length batch))
    | (_, Err e) => Err e
    end.
Proof.
  unfold GenPost.sched_post_loop. intros Hg0 Hp0.
  match goal with |- bind (foldM ?f _ _) _ = _ => set (F := f) end.
  assert (H : forall b s, jobs_good s ref -> Forall (fun id => get_job s id <> None) b ->
    foldM F b (heapof s, s_reg s) =
    match resched_all s b ref with
    | (s', Ok _) => Ok (heapof s', s_reg s')
    | (_, Err e) => Err e
    end).
  { clear. induction b as [|id r IH]; intros s Hg Hp; [reflexivity|].
    pose proof (Forall_inv Hp) as Hid. pose proof (Forall_inv_tail Hp) as Hr.
    cbn [foldM resched_all]. unfold F at 1. unfold heapof in *. rewrite heap_get_of. unfold get_job in *.
    destruct (lookup id (s_jobs s)) as [j|] eqn:Ej; [|contradiction]. cbn [bind].
    unfold jobs_good in Hg. rewrite Forall_forall in Hg. destruct (Hg _ (lookup_in _ _ _ Ej)) as [Hok Haw]. cbn [snd] in Hok, Haw.
    rewrite (tie_job_calc j ref (job_ok_sane j Hok)).
    destruct (job_calc_ok j ref Hok Haw) as (j' & Hc & Hok' & _ & Htz' & _).
    rewrite Hc. cbn [py_res_job bind]. cbv zeta. rewrite heap_set_of, heap_get_of.
    rewrite (lookup_update_same id j' (s_jobs s)) by congruence. cbn [bind].
    rewrite tie_has_attempts. cbn [bind].
    set (s1 := upd_jobs s (update id j' (s_jobs s))).
    assert (Hg1 : forall s2, s_jobs s2 = s_jobs s1 -> jobs_good s2 ref).
    { intros s2 E. unfold jobs_good. rewrite E. cbn [s1 upd_jobs s_jobs]. apply update_forall.
      - apply Forall_forall. exact Hg.
      - intros k. cbn [snd]. split; [exact Hok'|rewrite Htz'; exact Haw]. }
    assert (Hp1 : forall s2, s_jobs s2 = s_jobs s1 -> Forall (fun id0 => lookup id0 (s_jobs s2) <> None) r).
    { intros s2 E. rewrite E. cbn [s1 upd_jobs s_jobs]. eapply Forall_impl; [|exact Hr]. intros k Hk.
      destruct (Nat.eq_dec id k) as [<-|Hne]; [rewrite lookup_update_same; congruence|rewrite lookup_update_other; assumption]. }
    destruct (has_attempts j'); cbn [negb].
    - exact (IH s1 (Hg1 s1 eq_refl) (Hp1 s1 eq_refl)).
    - exact (IH (upd_reg s1 (remove_id id (s_reg s1))) (Hg1 _ eq_refl) (Hp1 _ eq_refl)). }
  rewrite (H batch s Hg0 Hp0). destruct (resched_all s batch ref) as [s' [u|e]]; reflexivity.
Qed.
