(* The properties as theorems about the code GENERATED from /repo's current source on this run: each theorem
   composes a Tie equality (Gen.f = Model.f) with the property theorem proved about the model, so its statement
   mentions generated definitions only (modules Gen...), model types as data, and the specification (Occur.v). *)
From Coq Require Import ZArith List Bool Lia ZifyBool.
From Sv Require Import PyTime Timer Job Occur PyRepr TimerProofs JobProofs.
From Gen Require Import GenOccur GenDup GenTimer GenJobState GenJobUtil GenJobInit
  TieOccur TieWeekly TieDup TieTimer TieJob TieJobUtil TieJobInit.
Import ListNotations.
Open Scope Z_scope.

Lemma valid_sane ty tg : valid_entry ty tg -> entry_sane ty tg = true.
Proof. destruct ty, tg; cbn; intros H; try contradiction; reflexivity. Qed.

(* C01/C02: JobTimer(job_type, timing, start, skip) of the current source is due at the earliest matching
   instant strictly after start *)
Theorem gen_first_due ty tg start skip :
  ty <> CYCLIC -> valid_entry ty tg -> aware start = entry_aware' tg ->
  exists s, GenTimer.jobtimer_new (py_type ty) (py_timing tg) start skip = Ok s /\
            is_next (occ ty tg) (utc start) (utc (pt_next s)).
Proof.
  intros Hty Hv Ha. destruct (timer_init_is_next ty tg start skip Hty Hv Ha) as (tm & Hi & _ & _ & _ & _ & Hn).
  rewrite (tie_jobtimer_new ty tg start skip (valid_sane _ _ Hv) Hv), Hi. eexists; split; [reflexivity|exact Hn].
Qed.

(* C01/C02: JobTimer.calc_next_exec of the current source moves a due time exactly one period on *)
Theorem gen_advance tm ref :
  timer_ok tm -> jt_skip tm = false ->
  exists s, GenTimer.calc_next_exec (py_of_timer tm) ref = Ok s /\
            utc (pt_next s) = utc (jt_next tm) + period_of (jt_type tm) /\
            pt_type s = pt_type (py_of_timer tm) /\ pt_timing s = pt_timing (py_of_timer tm).
Proof.
  intros Hok Hs. destruct (timer_advance tm ref Hok Hs) as (tm' & Hc & _ & Ht & Hg & _ & Hu).
  rewrite (tie_timer_calc tm ref (valid_sane _ _ (tok_valid _ Hok)) (tok_valid _ Hok)), Hc.
  eexists; split; [reflexivity|]. unfold py_of_timer; cbn [pt_next pt_type pt_timing]. rewrite Ht, Hg. auto.
Qed.

(* C08: with skip_missing the generated calc_next_exec never lands before the reference, always moves
   forward and skips no occurrence after the reference *)
Theorem gen_skip tm r :
  timer_ok tm -> jt_skip tm = true -> aware r = entry_aware' (jt_timing tm) -> utc (jt_next tm) <= utc r ->
  exists s, GenTimer.calc_next_exec (py_of_timer tm) (Some r) = Ok s /\
            utc r <= utc (pt_next s) /\ utc (jt_next tm) < utc (pt_next s) /\
            (forall y, utc r < y -> y < utc (pt_next s) -> ~ occ (jt_type tm) (jt_timing tm) y).
Proof.
  intros Hok Hs Ha Hd. destruct (timer_skip tm r Hok Hs Ha Hd) as (tm' & Hc & _ & _ & _ & _ & H1 & H2 & H3).
  rewrite (tie_timer_calc tm (Some r) (valid_sane _ _ (tok_valid _ Hok)) (tok_valid _ Hok)), Hc.
  eexists; split; [reflexivity|]. unfold py_of_timer; cbn [pt_next]. auto.
Qed.

(* C03/C07/C09/C13: BaseJob.__init__ of the current source either builds exactly the job the model builds -
   for which `created` lists what holds (first due times, stop flag, awareness, counters) - or raises
   SchedulerError and nothing else *)
Definition cfg_typed (c : jobcfg) : Prop :=
  forallb (entry_sane (c_type c)) (c_timing c) = true /\ Forall (valid_entry (c_type c)) (c_timing c).
Lemma cfg_typed_valid c : cfg_typed c -> cfg_valid c.
Proof.
  intros [_ Hv]. unfold cfg_valid. eapply Forall_impl; [|exact Hv]. intros tg. destruct (c_type c), tg; cbn; tauto.
Qed.

Theorem gen_init_ok c tz now s :
  cfg_typed c ->
  GenJobInit.basejob_new now (py_type (c_type c)) (map py_timing (c_timing c)) (c_max_attempts c) (c_delay c)
                         (c_start c) (c_stop c) (c_skip c) tz = Ok s ->
  exists j, s = py_of_job j /\ created c tz now j.
Proof.
  intros Ht H. rewrite (tie_basejob_new c tz now (proj1 Ht) (proj2 Ht)) in H.
  destruct (job_create c tz now) as [j|e] eqn:E; cbn in H; [|discriminate]. inversion H; subst.
  exists j. split; [reflexivity|]. apply job_create_ok; [apply cfg_typed_valid; exact Ht|exact E].
Qed.
Theorem gen_init_err c tz now e :
  cfg_typed c -> c_timing c <> [] ->
  GenJobInit.basejob_new now (py_type (c_type c)) (map py_timing (c_timing c)) (c_max_attempts c) (c_delay c)
                         (c_start c) (c_stop c) (c_skip c) tz = Err e ->
  e = SchedulerError.
Proof.
  intros Ht Hne H. rewrite (tie_basejob_new c tz now (proj1 Ht) (proj2 Ht)) in H.
  destruct (job_create c tz now) as [j|e'] eqn:E; cbn in H; [discriminate|]. inversion H; subst.
  eapply job_create_err; [apply cfg_typed_valid; exact Ht|exact Hne|exact E].
Qed.

(* C06/C07/C08/C09: BaseJob._calc_next_exec of the current source on any job satisfying the job invariant *)
Lemma job_ok_timers_sane j : job_ok j -> timers_sane j.
Proof.
  intros Hok. unfold timers_sane. eapply Forall_impl; [|exact (jok_timers _ Hok)].
  intros tm (Hty & _ & _ & Hw). unfold timer_sane. rewrite Hty in *.
  destruct (c_type (j_cfg j)).
  - destruct Hw as (T & ->). split; [reflexivity|exact I].
  - destruct Hw as [Hk _]. pose proof (tok_valid _ Hk) as Hv. rewrite Hty in Hv. split; [apply valid_sane|]; exact Hv.
  - destruct Hw as [Hk _]. pose proof (tok_valid _ Hk) as Hv. rewrite Hty in Hv. split; [apply valid_sane|]; exact Hv.
  - destruct Hw as [Hk _]. pose proof (tok_valid _ Hk) as Hv. rewrite Hty in Hv. split; [apply valid_sane|]; exact Hv.
  - destruct Hw as [Hk _]. pose proof (tok_valid _ Hk) as Hv. rewrite Hty in Hv. split; [apply valid_sane|]; exact Hv.
Qed.

Theorem gen_calc_ok j ref :
  job_ok j -> aware ref = tz_aware (j_tz j) ->
  exists j', GenJobState.job_calc_next_exec (py_of_job j) ref = Ok (py_of_job j') /\ job_ok j' /\
             j_cfg j' = j_cfg j /\ j_attempts j' = j_attempts j /\
             (j_mark j = true -> j_mark j' = true) /\
             j_mark j' = (j_mark j || match c_stop (j_cfg j) with
                                      | Some e => utc e <? utc (jt_next (pending_timer j'))
                                      | None => false
                                      end).
Proof.
  intros Hok Hr. destruct (job_calc_ok j ref Hok Hr) as (j' & Hc & Hok' & Hcfg & _ & _ & Ha & _ & Hm & _ & Hmk).
  exists j'. rewrite (tie_job_calc j ref (job_ok_timers_sane j Hok)), Hc. cbn [py_res_job]. auto 10.
Qed.

(* C06/C07: what the generated has_attempts_remaining answers *)
Theorem gen_has_attempts j :
  GenJobState.has_attempts_remaining (py_of_job j) =
    Ok (negb (j_mark j) && ((c_max_attempts (j_cfg j) =? 0) || (j_attempts j <? c_max_attempts (j_cfg j)))).
Proof.
  rewrite tie_has_attempts. unfold has_attempts. destruct (j_mark j); [reflexivity|].
  destruct (c_max_attempts (j_cfg j) =? 0); reflexivity.
Qed.

(* C10 on the generated Job._exec of both front ends: whatever the callback does, the call returns normally, attempts
   grows by one, failed_attempts grows by one exactly when the callback raised, nothing else of the job changes; so
   failed_attempts <= attempts is preserved *)
Theorem gen_exec_counts j raises :
  exists pj, GenJobState.thr_job_exec (py_of_job j) raises = Ok pj /\
             GenJobState.aio_job_exec (py_of_job j) raises = Ok pj /\
             pj_attempts pj = j_attempts j + 1 /\
             pj_failed_attempts pj = j_failed j + (if raises then 1 else 0) /\
             pj = py_of_job (job_run j raises) /\
             (j_failed j <= j_attempts j -> pj_failed_attempts pj <= pj_attempts pj).
Proof.
  exists (py_of_job (job_run j raises)). rewrite tie_thr_job_exec, tie_aio_job_exec.
  repeat split; try reflexivity; destruct raises; cbn; lia.
Qed.

Print Assumptions gen_first_due.
Print Assumptions gen_advance.
Print Assumptions gen_skip.
Print Assumptions gen_init_ok.
Print Assumptions gen_init_err.
Print Assumptions gen_calc_ok.
Print Assumptions gen_has_attempts.
Print Assumptions gen_exec_counts.
