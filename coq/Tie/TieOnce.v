(* Tie: Scheduler.once() of both front ends (dispatch on the type of the timing, keywords handed to __schedule)
   and JOB_TYPE_MAPPING as GENERATED from /repo's current source equal Model/Sched.v's once_cfg.
   Re-proved on every run. *)
From Coq Require Import ZArith List Bool.
From Sv Require Import PyTime Timer Job Sched PyRepr.
From Gen Require Import GenOnce.
Import ListNotations.
Open Scope Z_scope.

Definition py_once (ot : oncetiming) : pyonce :=
  match ot with
  | OnceDt d => PO_datetime d | OnceTd T => PO_timedelta T | OnceTime t => PO_time t | OnceWd w t => PO_weekday (mkWd w t)
  end.
(* the keyword arguments of the model's once_cfg; its timing list has exactly one entry *)
Definition call_of_cfg (c : jobcfg) : option pyschedcall :=
  match c_timing c with
  | [tg] => Some (mkSchedCall (py_type (c_type c)) (py_timing tg) (c_max_attempts c) (c_delay c) (c_start c))
  | _ => None
  end.

Theorem tie_thr_once ot c : option_map Ok (call_of_cfg (once_cfg ot c)) = Some (GenOnce.thr_once_call (py_once ot)).
Proof. destruct ot; reflexivity. Qed.
Theorem tie_aio_once ot c : option_map Ok (call_of_cfg (once_cfg ot c)) = Some (GenOnce.aio_once_call (py_once ot)).
Proof. destruct ot; reflexivity. Qed.
(* and nothing else of the configuration is touched by once_cfg: a one-shot never has a stop or skip_missing *)
Lemma tie_once_rest ot c : c_stop (once_cfg ot c) = None /\ c_skip (once_cfg ot c) = false /\ c_max_attempts (once_cfg ot c) = 1.
Proof. destruct ot; repeat split; reflexivity. Qed.

(* cyclic / minutely / hourly / daily / weekly hand their own job type (and the caller's timing, handle and keyword
   arguments, unchanged) to __schedule *)
Definition method_of (ty : jobtype) : pymethod :=
  match ty with CYCLIC => M_cyclic | MINUTELY => M_minutely | HOURLY => M_hourly | DAILY => M_daily | WEEKLY => M_weekly end.
Theorem tie_thr_schedule_type ty : GenOnce.thr_schedule_type (method_of ty) = py_type ty.
Proof. destruct ty; reflexivity. Qed.
Theorem tie_aio_schedule_type ty : GenOnce.aio_schedule_type (method_of ty) = py_type ty.
Proof. destruct ty; reflexivity. Qed.
