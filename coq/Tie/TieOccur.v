(* Tie lemmas: the functions GENERATED from /repo's current source by translator/py2v.py
   are equal to the hand-written model the theorems are about.  Re-proved on every run. *)
From Coq Require Import ZArith List Bool Lia ZifyBool.
From Sv Require Import PyTime Timer Job Sched Table.
From Gen Require Import GenOccur.
Import ListNotations.
Open Scope Z_scope.
Ltac Zify.zify_post_hook ::= Z.to_euclidean_division_equations.

Ltac tie_unfold :=
  cbv beta delta [GenOccur.days_to_weekday GenOccur.next_daily_occurrence GenOccur.next_hourly_occurrence
    GenOccur.next_minutely_occurrence GenOccur.next_weekday_time_occurrence
    m_next_daily m_next_hourly m_next_minutely m_next_weekly m_days_to_weekday
    dt_replace dt_add dt_sub dt_keys td_make td_make5 ts_le ts_lt dt_weekday dt_date
    dt_hour dt_minute dt_second dt_micro dflt tod valid_time D HR MN SEC bind fst snd] in *;
  cbn [loc off wd_value wd_time] in *.
Ltac tie_cases :=
  repeat match goal with
  | |- context [match off ?d with _ => _ end] => destruct (off d) eqn:?; cbn [loc off bind fst snd] in *
  | |- context [if ?c then _ else _] => let E := fresh "E" in destruct c eqn:E; cbn [loc off bind fst snd] in *
  | H : context [if ?c then _ else _] |- _ => let E := fresh "E" in destruct c eqn:E; cbn [loc off bind fst snd] in *
  end.
Ltac tie := intros; tie_unfold; tie_cases;
  try reflexivity; try (f_equal; f_equal; lia); try (f_equal; lia); try (exfalso; lia); try lia.

Lemma tie_daily now t : valid_time t -> GenOccur.next_daily_occurrence now t = Ok (m_next_daily now t).
Proof. tie. Qed.
Lemma tie_hourly now t : valid_time t -> GenOccur.next_hourly_occurrence now t = Ok (m_next_hourly now t).
Proof. tie. Qed.
Lemma tie_minutely now t : valid_time t -> GenOccur.next_minutely_occurrence now t = Ok (m_next_minutely now t).
Proof. tie. Qed.
