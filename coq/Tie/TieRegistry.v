(* Tie: delete_job, delete_jobs, get_jobs and jobs of the threading Scheduler as GENERATED from /repo's current
   source have exactly the effect on the job set, and the result, of Model/Sched.v's cb_step.
   Re-proved on every run. *)
From Coq Require Import ZArith List Bool Lia.
From Sv Require Import PyTime Timer Job Sched.
From Gen Require Import GenSelect GenRegistry TieSelect.
Import ListNotations.
Open Scope Z_scope.

(* the model's registry (ids) presented as a set of Job objects: identity and tags *)
Definition tj (s : sched) (id : nat) : pytagjob := mkPyTagJob id (job_tags s id).
Definition regof (s : sched) : list pytagjob := map (tj s) (s_reg s).

Lemma job_tags_upd_reg s l id : job_tags (upd_reg s l) id = job_tags s id.
Proof. reflexivity. Qed.
Lemma regof_upd_reg s l : regof (upd_reg s l) = map (tj s) l.
Proof. reflexivity. Qed.

Lemma mem_map s x l : tagjob_mem (tj s x) (map (tj s) l) = nmem x l.
Proof.
  unfold tagjob_mem. induction l as [|y t IH]; [reflexivity|]. cbn [map existsb nmem].
  rewrite IH. cbn [ptj_id tj]. rewrite Nat.eqb_sym. reflexivity.
Qed.
Lemma filter_map_tj s (p : nat -> bool) (q : pytagjob -> bool) l :
  (forall id, q (tj s id) = p id) -> filter q (map (tj s) l) = map (tj s) (filter p l).
Proof.
  intros H. induction l as [|y t IH]; [reflexivity|]. cbn [map filter]. rewrite H. destruct (p y); cbn [map]; rewrite IH; reflexivity.
Qed.

Theorem tie_reg_delete_job s id :
  GenRegistry.reg_delete_job (regof s) (tj s id) =
    match cb_step s (CDelete id) [] with
    | (s', Ok _) => Ok (regof s', tt)
    | (_, Err e) => Err e
    end.
Proof.
  unfold GenRegistry.reg_delete_job. cbn [cb_step].
  replace (tagjob_mem (tj s id) (regof s)) with (nmem id (s_reg s)) by (symmetry; apply mem_map).
  destruct (nmem id (s_reg s)); [|reflexivity].
  rewrite regof_upd_reg. unfold regof, tagjob_remove, remove_id.
  rewrite (filter_map_tj s (fun k => negb (Nat.eqb k id))); [reflexivity|]. intros k. reflexivity.
Qed.

Lemma select_tie s tg any :
  GenSelect.select_jobs_by_tag (regof s) tg any = Ok (map (tj s) (select_ids s tg any)).
Proof.
  rewrite tie_select_jobs_by_tag. unfold regof, select_ids. f_equal.
  apply filter_map_tj. intros id. reflexivity.
Qed.

Theorem tie_reg_delete_jobs s tags any :
  GenRegistry.reg_delete_jobs (regof s) tags any =
    match cb_step s (CDeleteJobs tags any) [] with
    | (s', Ok (VInt n)) => Ok (regof s', n)
    | (_, Ok _) => Err OtherError
    | (_, Err e) => Err e
    end.
Proof.
  unfold GenRegistry.reg_delete_jobs. cbn [cb_step].
  destruct tags as [[|t0 tg]|]; cbn [is_nil].
  - unfold regof at 1. rewrite map_length. reflexivity.
  - rewrite select_tie. cbn [bind]. rewrite regof_upd_reg, map_length. f_equal. f_equal.
    unfold tagjob_diff, regof. apply filter_map_tj. intros id. rewrite mem_map. reflexivity.
  - unfold regof at 1. rewrite map_length. reflexivity.
Qed.

Theorem tie_reg_get_jobs s tags any :
  GenRegistry.reg_get_jobs (regof s) tags any =
    match cb_step s (CGetJobs tags any) [] with
    | (s', Ok (VIds l)) => Ok (regof s', map (tj s) l)
    | (_, Ok _) => Err OtherError
    | (_, Err e) => Err e
    end.
Proof.
  unfold GenRegistry.reg_get_jobs. cbn [cb_step].
  destruct tags as [[|t0 tg]|]; cbn [is_nil]; try reflexivity.
  rewrite select_tie. reflexivity.
Qed.

Theorem tie_reg_jobs s :
  GenRegistry.reg_jobs (regof s) = match cb_step s CJobs [] with (s', Ok (VIds l)) => Ok (regof s', map (tj s) l) | _ => Err OtherError end.
Proof. reflexivity. Qed.
