(* Tie: delete_job, delete_jobs, get_jobs and jobs of the threading Scheduler as GENERATED from /repo's current
   source have exactly the effect on the job set, and the result, of Model/Sched.v's cb_step.
   Re-proved on every run. *)
From Coq Require Import ZArith List Bool Lia.
From Sv Require Import PyTime Timer Job Sched.
From Gen Require Import GenSelect GenRegistry TieSelect.
Import ListNotations.
Open Scope Z_scope.

(* the model's registry (ids) presented as a set of Job objects: identity and tags *)
Definition tj (s : sched) (id : nat) : pytagjob := mkPyTagJob id (job_tags s id).
Definition regof (s : sched) : list pytagjob := map (tj s) (s_reg s).

Lemma job_tags_upd_reg s l id : job_tags (upd_reg s l) id = job_tags s id.
Proof. reflexivity. Qed.
Lemma regof_upd_reg s l : regof (upd_reg s l) = map (tj s) l.
Proof. reflexivity. Qed.

Lemma mem_map s x l : tagjob_mem (tj s x) (map (tj s) l) = nmem x l.
Proof.
  unfold tagjob_mem. induction l as [|y t IH]; [reflexivity|]. cbn [map existsb nmem].
  rewrite IH. cbn [ptj_id tj]. rewrite Nat.eqb_sym. reflexivity.
Qed.
Lemma filter_map_tj s (p : nat -> bool) (q : pytagjob -> bool) l :
  (forall id, q (tj s id) = p id) -> filter q (map (tj s) l) = map (tj s) (filter p l).
Proof.
  intros H. induction l as [|y t IH]; [reflexivity|]. cbn [map filter]. rewrite H. destruct (p y); cbn [map]; rewrite IH; reflexivity.
Qed.

Theorem tie_reg_delete_job s id :
  GenRegistry.reg_delete_job (regof s) (tj s id) =
    match cb_step s (CDelete id) [] with
    | (s', Ok _) => Ok (regof s', tt)
    | (_, Err e) => Err e
    end.
Proof.
  unfold GenRegistry.reg_delete_job. cbn [cb_step].
  replace (tagjob_mem (tj s id) (regof s)) with (nmem id (s_reg s)) by (symmetry; apply mem_map).
  destruct (nmem id (s_reg s)); [|reflexivity].
  rewrite regof_upd_reg. unfold regof, tagjob_remove, remove_id.
  rewrite (filter_map_tj s (fun k => negb (Nat.eqb k id))); [reflexivity|]. intros k. reflexivity.
Qed.

Lemma select_tie s tg any :
  GenSelect.select_jobs_by_tag (regof s) tg any = Ok (map (tj s) (select_ids s tg any)).
Proof.
  rewrite tie_select_jobs_by_tag. unfold regof, select_ids. f_equal.
  apply filter_map_tj. intros id. reflexivity.
Qed.

Theorem tie_reg_delete_jobs s tags any :
  GenRegistry.reg_delete_jobs (regof s) tags any =
    match cb_step s (CDeleteJobs tags any) [] with
    | (s', Ok (VInt n)) => Ok (regof s', n)
    | (_, Ok _) => Err OtherError
    | (_, Err e) => Err e
    end.
Proof.
  unfold GenRegistry.reg_delete_jobs. cbn [cb_step].
  destruct tags as [[|t0 tg]|]; cbn [is_nil].
  - unfold regof at 1. rewrite map_length. reflexivity.
  - rewrite select_tie. cbn [bind]. rewrite regof_upd_reg, map_length. f_equal. f_equal.
    unfold tagjob_diff, regof. apply filter_map_tj. intros id. rewrite mem_map. reflexivity.
  - unfold regof at 1. rewrite map_length. reflexivity.
Qed.

Theorem tie_reg_get_jobs s tags any :
  GenRegistry.reg_get_jobs (regof s) tags any =
    match cb_step s (CGetJobs tags any) [] with
    | (s', Ok (VIds l)) => Ok (regof s', map (tj s) l)
    | (_, Ok _) => Err OtherError
    | (_, Err e) => Err e
    end.
Proof.
  unfold GenRegistry.reg_get_jobs. cbn [cb_step].
  destruct tags as [[|t0 tg]|]; cbn [is_nil]; try reflexivity.
  rewrite select_tie. reflexivity.
Qed.

Theorem tie_reg_jobs s :
  GenRegistry.reg_jobs (regof s) = match cb_step s CJobs [] with (s', Ok (VIds l)) => Ok (regof s', map (tj s) l) | _ => Err OtherError end.
Proof. reflexivity. Qed.

(* ---- asyncio front end: Scheduler._jobs is a dict Job -> Task ------------------------------------------- *)
From Sv Require Import Aio SchedProofs AioProofs.

Definition atj (s : aio) (id : nat) : pytagjob := mkPyTagJob id (a_job_tags s id).
Definition aregof (s : aio) : list pytagjob := map (atj s) (a_reg s).

Lemma aio_delete_job_spec jobs cancels job :
  GenRegistry.aio_delete_job jobs cancels job =
    if tagjob_mem job jobs then Ok (tagjob_remove job jobs, cancels ++ [ptj_id job]) else Err SchedulerError.
Proof. unfold GenRegistry.aio_delete_job. destruct (tagjob_mem job jobs); reflexivity. Qed.

Lemma a_cancel_tags s id self x : a_job_tags (a_cancel s id self) x = a_job_tags s x.
Proof.
  unfold a_cancel. destruct (a_get s id) as [a|] eqn:Hg; [|reflexivity].
  unfold a_job_tags, a_get, a_set. cbn [a_jobs].
  destruct (Nat.eq_dec id x) as [->|Hne].
  - rewrite lookup_update_same by (unfold a_get in Hg; congruence). unfold a_get in Hg. rewrite Hg.
    destruct (match self with Some x0 => Nat.eqb x0 x | None => false end); [reflexivity|]. destruct (aj_phase a); reflexivity.
  - rewrite lookup_update_other by exact Hne. reflexivity.
Qed.
Lemma a_cancel_reg s id self : aio_inv s -> In id (a_reg s) -> a_reg (a_cancel s id self) = remove_id id (a_reg s).
Proof.
  intros Hi Hin. destruct (ai_reg s Hi id Hin) as (a & Ha & _). unfold a_cancel. rewrite Ha. reflexivity.
Qed.
Lemma amem_map s x l : tagjob_mem (atj s x) (map (atj s) l) = nmem x l.
Proof.
  unfold tagjob_mem. induction l as [|y t IH]; [reflexivity|]. cbn [map existsb nmem].
  rewrite IH. cbn [ptj_id atj]. rewrite Nat.eqb_sym. reflexivity.
Qed.
Lemma afilter_map s (p : nat -> bool) (q : pytagjob -> bool) l :
  (forall id, q (atj s id) = p id) -> filter q (map (atj s) l) = map (atj s) (filter p l).
Proof.
  intros H. induction l as [|y t IH]; [reflexivity|]. cbn [map filter]. rewrite H. destruct (p y); cbn [map]; rewrite IH; reflexivity.
Qed.
Lemma aregof_cancel s id self : aio_inv s -> In id (a_reg s) ->
  aregof (a_cancel s id self) = tagjob_remove (atj s id) (aregof s).
Proof.
  intros Hi Hin. unfold aregof. rewrite (a_cancel_reg s id self Hi Hin).
  unfold tagjob_remove, remove_id. rewrite (afilter_map s (fun k => negb (Nat.eqb k id))) by (intros k; reflexivity).
  apply map_ext. intros x. unfold atj. rewrite a_cancel_tags. reflexivity.
Qed.

Theorem tie_aio_delete_job s id self c :
  aio_inv s ->
  GenRegistry.aio_delete_job (aregof s) c (atj s id) =
    match a_op s (ADelete id) self with
    | (s', Ok _) => Ok (aregof s', c ++ [id])
    | (_, Err e) => Err e
    end.
Proof.
  intros Hi. rewrite aio_delete_job_spec. cbn [a_op]. unfold aregof at 1. rewrite amem_map.
  destruct (nmem id (a_reg s)) eqn:E; [|reflexivity].
  apply nmem_In in E. rewrite (aregof_cancel s id self Hi E). reflexivity.
Qed.

(* deleting a selection: one pop + cancel per selected job, in the selection's order *)
Lemma aio_delete_fold self sel : forall s c,
  aio_inv s -> NoDup sel -> (forall x, In x sel -> In x (a_reg s)) ->
  forall tagsof, (forall x, tagsof x = a_job_tags s x) ->
  foldM (fun st job => GenRegistry.aio_delete_job (fst st) (snd st) job) (map (fun id => mkPyTagJob id (tagsof id)) sel) (aregof s, c) =
    Ok (aregof (fold_left (fun st id => a_cancel st id self) sel s), c ++ sel).
Proof.
  induction sel as [|id r IH]; intros s c Hi Hnd Hsub tagsof Ht.
  - cbn. rewrite app_nil_r. reflexivity.
  - cbn [map foldM fold_left fst snd]. rewrite (Ht id). change (mkPyTagJob id (a_job_tags s id)) with (atj s id).
    rewrite (tie_aio_delete_job s id self c Hi). cbn [a_op].
    assert (Hin : In id (a_reg s)) by (apply Hsub; left; reflexivity).
    assert (Hm : nmem id (a_reg s) = true) by (apply nmem_In; exact Hin). rewrite Hm. cbn [bind ptj_id].
    destruct (a_cancel_inv s id self Hi) as (Hi' & _ & _).
    inversion Hnd as [|? ? Hnotin Hnd']; subst.
    rewrite (IH (a_cancel s id self) (c ++ [id]) Hi' Hnd').
    + rewrite <- app_assoc. reflexivity.
    + intros x Hx. rewrite (a_cancel_reg s id self Hi Hin). apply remove_id_In. split; [apply Hsub; right; exact Hx|].
      intros ->. contradiction.
    + intros x. rewrite a_cancel_tags. apply Ht.
Qed.

Theorem tie_aio_delete_jobs s tags any self :
  aio_inv s ->
  GenRegistry.aio_delete_jobs (aregof s) [] tags any =
    match a_op s (ADeleteJobs tags any) self with
    | (s', Ok (VInt n)) =>
        Ok (aregof s', match tags with None | Some [] => a_reg s | Some tg => a_select s tg any end, n)
    | (_, Ok _) => Err OtherError
    | (_, Err e) => Err e
    end.
Proof.
  intros Hi. unfold GenRegistry.aio_delete_jobs. cbv zeta. cbn [a_op].
  assert (Hall : forall sel, NoDup sel -> (forall x, In x sel -> In x (a_reg s)) ->
     bind (foldM (fun st job => GenRegistry.aio_delete_job (fst st) (snd st) job) (map (atj s) sel) (aregof s, []))
          (fun st => Ok (fst st, snd st, Z.of_nat (length (map (atj s) sel)))) =
     Ok (aregof (fold_left (fun st id => a_cancel st id self) sel s), sel, Z.of_nat (length sel))).
  { intros sel Hnd Hsub. change (map (atj s) sel) with (map (fun id => mkPyTagJob id (a_job_tags s id)) sel).
    rewrite (aio_delete_fold self sel s [] Hi Hnd Hsub (a_job_tags s) (fun x => eq_refl)).
    cbn [bind fst snd app]. rewrite map_length. reflexivity. }
  destruct tags as [[|t0 tg]|]; cbn [is_nil].
  - apply (Hall (a_reg s)); [apply Hi|auto].
  - assert (Hs : GenSelect.select_jobs_by_tag (aregof s) (t0 :: tg) any = Ok (map (atj s) (a_select s (t0 :: tg) any))).
    { rewrite tie_select_jobs_by_tag. unfold aregof, a_select. f_equal. apply afilter_map. intros id. reflexivity. }
    rewrite Hs. cbn [bind]. apply Hall.
    + unfold a_select. apply NoDup_filter. apply Hi.
    + intros x Hx. unfold a_select in Hx. apply filter_In in Hx. tauto.
  - apply (Hall (a_reg s)); [apply Hi|auto].
Qed.

Theorem tie_aio_get_jobs s tags any c self :
  GenRegistry.aio_get_jobs (aregof s) c tags any =
    match a_op s (AGetJobs tags any) self with
    | (s', Ok (VIds l)) => Ok (aregof s', c, map (atj s) l)
    | (_, Ok _) => Err OtherError
    | (_, Err e) => Err e
    end.
Proof.
  unfold GenRegistry.aio_get_jobs. cbn [a_op]. destruct tags as [[|t0 tg]|]; cbn [is_nil]; try reflexivity.
  rewrite tie_select_jobs_by_tag. cbn [bind]. unfold aregof, a_select. do 3 f_equal. apply afilter_map. intros id. reflexivity.
Qed.
