(* Tie: BaseJob._str (the eight strings a job shows in str(job) and in the scheduler's table), prettify_timedelta and
   the names of the JobType members, as READ from /repo's current source, equal Model/Table.v's row.
   Re-proved on every run. *)
From Coq Require Import ZArith List Bool Lia.
From Sv Require Import PyTime Timer Job Sched Table PyRepr TableProofs.
From Gen Require Import GenStr GenTable GenStrRow TieStr TieTable.
Import ListNotations.
Open Scope Z_scope.

Theorem tie_type_name ty : gen_type_name (py_type ty) = type_name ty.
Proof. destruct ty; reflexivity. Qed.

Theorem tie_prettify neg s : gen_prettify neg s = prettify neg s.
Proof. destruct neg; reflexivity. Qed.

Theorem tie_f_args v : gen_f_args v = f_args v.
Proof. unfold gen_f_args, f_args. destruct (v_alias v); [reflexivity|]. destruct (v_code v) as [[|]|]; reflexivity. Qed.

(* the tuple BaseJob._str returns *)
Theorem tie_str_row v :
  gen_str_row v =
  [row_type v; handle_name v; f_args v; row_dt v; row_tz v; row_in v; dec (v_attempts v); row_max v].
Proof.
  unfold gen_str_row, row_type, handle_name, row_dt, row_tz, row_in, row_max.
  rewrite tie_type_name, tie_f_args, tie_prettify.
  destruct (v_max v =? 1); destruct (v_alias v); destruct (v_max v =? 0); reflexivity.
Qed.

(* str(job): BaseJob.__str__ formats the tuple; the threading Job appends the weight; the asyncio Job inherits *)
Theorem tie_thr_job_str v : gen_thr_job_str (gen_str_row v) (v_weight3g v) = job_str true v.
Proof.
  rewrite tie_str_row. unfold gen_thr_job_str, gen_base_str, job_str, lit. cbn [nth].
  repeat rewrite <- app_assoc. reflexivity.
Qed.
Theorem tie_aio_job_str v : gen_aio_job_str (gen_str_row v) = job_str false v.
Proof.
  rewrite tie_str_row. unfold gen_aio_job_str, gen_base_str, job_str, lit. cbn [nth].
  rewrite app_nil_r. repeat rewrite <- app_assoc. reflexivity.
Qed.

(* composed with TieTable.v: the cells of a table row, computed from the translated _str() by the translated layout *)
Theorem tie_thr_table_row v : GenTable.thr_entries (gen_str_row v) (v_weight v) = row_cells true v.
Proof. rewrite tie_str_row. exact (tie_thr_entries v). Qed.
Theorem tie_aio_table_row v w : GenTable.aio_entries (gen_str_row v) w = row_cells false v.
Proof. rewrite tie_str_row. exact (tie_aio_entries v w). Qed.

(* C20 restated on the GENERATED layout: a row rendered from the translated _str() through the translated columns,
   cell expressions and tz-drop slice is exactly as wide as the header row rendered from the translated names *)
Definition gen_drop {A} (p : nat * nat) (l : list A) : list A := firstn (fst p) l ++ skipn (snd p) l.
Theorem gen_thr_row_width (has_tz : bool) v :
  let cols := if has_tz then GenTable.thr_cols else gen_drop GenTable.thr_tz_drop GenTable.thr_cols in
  let pick := fun l : list pystr => if has_tz then l else gen_drop GenTable.thr_tz_drop l in
  length (fmt_row cols (pick (GenTable.thr_entries (gen_str_row v) (v_weight v)))) =
  length (fmt_row cols (pick GenTable.thr_names)).
Proof.
  cbv zeta. rewrite tie_thr_table_row, tie_thr_cols, tie_thr_names.
  pose proof (TableProofs.row_width_eq_header true has_tz v) as H.
  unfold TableProofs.cols_of, TableProofs.pick_of in H. destruct has_tz; exact H.
Qed.
Theorem gen_aio_row_width (has_tz : bool) v w :
  let cols := if has_tz then GenTable.aio_cols else gen_drop GenTable.aio_tz_drop GenTable.aio_cols in
  let pick := fun l : list pystr => if has_tz then l else gen_drop GenTable.aio_tz_drop l in
  length (fmt_row cols (pick (GenTable.aio_entries (gen_str_row v) w))) =
  length (fmt_row cols (pick GenTable.aio_names)).
Proof.
  cbv zeta. rewrite tie_aio_table_row, tie_aio_cols, tie_aio_names.
  pose proof (TableProofs.row_width_eq_header false has_tz v) as H.
  unfold TableProofs.cols_of, TableProofs.pick_of in H. destruct has_tz; exact H.
Qed.
