(* Tie: BaseJob.has_attempts_remaining, .datetime, .timedelta and ._calc_next_exec as GENERATED from /repo's
   current source equal the hand-written model (Model/Job.v).  Re-proved on every run. *)
From Coq Require Import ZArith List Bool Lia ZifyBool.
From Sv Require Import PyTime Timer Job Occur PyRepr.
From Gen Require Import GenOccur GenTimer GenJobState TieOccur TieWeekly TieTimer.
Import ListNotations.
Open Scope Z_scope.

(* BaseJob.has_attempts_remaining = Model.has_attempts *)
Theorem tie_has_attempts j : GenJobState.has_attempts_remaining (py_of_job j) = Ok (has_attempts j).
Proof.
  unfold GenJobState.has_attempts_remaining, has_attempts, py_of_job. cbn [pj_mark_delete pj_max_attempts pj_attempts].
  destruct (j_mark j); [reflexivity|]. destruct (c_max_attempts (j_cfg j) =? 0); reflexivity.
Qed.

Lemma py_nth_map i l : py_nth i (map py_of_timer l) = py_of_timer (nth i l dummy_timer).
Proof. unfold py_nth. change blank_pytimer with (py_of_timer dummy_timer). apply map_nth. Qed.

(* BaseJob.datetime = Model.job_datetime *)
Theorem tie_job_datetime j : GenJobState.job_datetime (py_of_job j) = Ok (Job.job_datetime j).
Proof.
  unfold GenJobState.job_datetime, Job.job_datetime, py_of_job, pending_timer.
  cbn [pj_delay pj_attempts pj_start pj_timers pj_pending]. rewrite py_nth_map.
  destruct (c_delay (j_cfg j)); cbn [negb bind andb]; [reflexivity|]. destruct (j_attempts j =? 0); reflexivity.
Qed.

(* BaseJob.timedelta(dt_stamp) = Model.job_timedelta; without an argument the clock is read in the job's tzinfo *)
Theorem tie_job_timedelta j now stamp :
  GenJobState.job_timedelta (py_of_job j) now stamp =
    Job.job_timedelta j (match stamp with Some s => s | None => dt_now now (j_tz j) end).
Proof.
  unfold GenJobState.job_timedelta, Job.job_timedelta, Job.job_datetime, py_of_job, pending_timer.
  cbn [pj_delay pj_attempts pj_start pj_timers pj_pending pj_tzinfo]. rewrite py_nth_map.
  destruct stamp as [s|]; destruct (c_delay (j_cfg j)); cbn [negb bind andb]; rewrite ?tie_jobtimer_timedelta;
    try (destruct (j_attempts j =? 0); cbn [bind]);
    match goal with |- context [dt_sub ?a ?b] => destruct (dt_sub a b) end; reflexivity.
Qed.

(* ---- BaseJob._calc_next_exec ------------------------------------------------------------------------ *)
Definition timer_sane (tm : timer) : Prop :=
  entry_sane (jt_type tm) (jt_timing tm) = true /\ valid_entry (jt_type tm) (jt_timing tm).
Definition timers_sane (j : job) : Prop := Forall timer_sane (j_timers j).

Lemma py_pending_index_map tms : py_pending_index (map py_of_timer tms) = pending_index tms.
Proof.
  unfold py_pending_index, pending_index. destruct tms as [|tm r]; [reflexivity|].
  cbv zeta. rewrite !map_map. reflexivity.
Qed.
Lemma replace_nth_map p tms tm' :
  replace_nth p (map py_of_timer tms) (py_of_timer tm') = map py_of_timer (replace_nth p tms tm').
Proof. revert p. induction tms as [|x r IH]; intros [|p]; cbn; try reflexivity. rewrite IH. reflexivity. Qed.
Lemma nth_timer_sane p tms : Forall timer_sane tms -> timer_sane (nth p tms dummy_timer).
Proof.
  intros H. destruct (nth_in_or_default p tms dummy_timer) as [Hin| ->].
  - rewrite Forall_forall in H. apply H. exact Hin.
  - split; [reflexivity|exact I].
Qed.

(* the part every branch of the method ends with: re-select the pending timer, compare with stop *)
Definition gen_tail (self : pyjobstate) : res pyjobstate :=
  bind (py_pending_index (pj_timers self)) (fun t =>
    let self := set_pj_pending self t in
    match pj_stop self with
    | Some stop_v =>
        bind (bind (GenTimer.jobtimer_datetime (py_nth (pj_pending self) (pj_timers self)))
                   (fun p => bind (dt_gt p stop_v) (fun c => Ok c)))
             (fun b => if b then (let self := set_pj_mark_delete self true in Ok self) else Ok self)
    | None => Ok self
    end).
Definition model_tail (j : job) (tms : list timer) : res job :=
  p <- pending_index tms ;;
  mk <- past_stop (c_stop (j_cfg j)) (jt_next (nth p tms dummy_timer)) ;;
  Ok (set_timers j tms p (j_mark j || mk)).

Lemma gen_tail_eq j tms :
  gen_tail (set_pj_timers (py_of_job j) (map py_of_timer tms)) = py_res_job (model_tail j tms).
Proof.
  unfold gen_tail, model_tail, set_pj_timers, py_of_job.
  cbn [pj_timers pj_mark_delete pj_max_attempts pj_attempts pj_delay pj_skip_missing pj_start pj_stop pj_tzinfo pj_pending].
  rewrite py_pending_index_map. destruct (pending_index tms) as [p|e]; cbn [bind]; [|reflexivity].
  unfold set_pj_pending, past_stop.
  cbn [pj_timers pj_mark_delete pj_max_attempts pj_attempts pj_delay pj_skip_missing pj_start pj_stop pj_tzinfo pj_pending].
  destruct (c_stop (j_cfg j)) as [st|] eqn:Est; cbn [bind].
  - rewrite py_nth_map, tie_jobtimer_datetime. cbn [bind].
    destruct (dt_gt (jt_next (nth p tms dummy_timer)) st) as [[|]|e]; cbn [bind]; try reflexivity.
    + unfold set_pj_mark_delete, py_res_job, py_of_job, set_timers. cbn. rewrite orb_true_r, ?Est. reflexivity.
    + unfold py_res_job, py_of_job, set_timers. cbn. rewrite orb_false_r, ?Est. reflexivity.
  - unfold py_res_job, py_of_job, set_timers. cbn. rewrite orb_false_r, ?Est. reflexivity.
Qed.

Lemma mapM_skip_tie ref tms :
  Forall timer_sane tms ->
  mapM (fun timer => bind (GenTimer.jobtimer_datetime timer) (fun p => bind (dt_sub p ref) (fun d =>
          if ts_le d 0 then GenTimer.calc_next_exec timer (Some ref) else Ok timer))) (map py_of_timer tms) =
  match mapM (fun tm => d <- dt_sub (jt_next tm) ref ;; if ts_le d 0 then timer_calc tm (Some ref) else Ok tm) tms with
  | Ok l => Ok (map py_of_timer l)
  | Err e => Err e
  end.
Proof.
  induction 1 as [|tm r [Hs Hv] Hr IH]; [reflexivity|].
  cbn [map mapM]. rewrite tie_jobtimer_datetime. cbn [bind].
  destruct (dt_sub (jt_next tm) ref) as [d|e]; cbn [bind]; [|reflexivity].
  destruct (ts_le d 0).
  - rewrite (tie_timer_calc tm (Some ref) Hs Hv). destruct (timer_calc tm (Some ref)) as [tm'|e]; cbn [py_res bind]; [|reflexivity].
    rewrite IH. destruct (mapM _ r); reflexivity.
  - cbn [bind]. rewrite IH. destruct (mapM _ r); reflexivity.
Qed.

Theorem tie_job_calc j ref :
  timers_sane j -> GenJobState.job_calc_next_exec (py_of_job j) ref = py_res_job (job_calc j ref).
Proof.
  intros Hok. unfold GenJobState.job_calc_next_exec, job_calc.
  change (pj_skip_missing (py_of_job j)) with (c_skip (j_cfg j)).
  change (pj_delay (py_of_job j)) with (c_delay (j_cfg j)).
  change (pj_attempts (py_of_job j)) with (j_attempts j).
  change (pj_timers (py_of_job j)) with (map py_of_timer (j_timers j)).
  change (pj_pending (py_of_job j)) with (j_pending j).
  destruct (c_skip (j_cfg j)).
  - rewrite (mapM_skip_tie ref (j_timers j) Hok).
    destruct (mapM _ (j_timers j)) as [l|e]; cbn [bind]; [|reflexivity].
    apply (gen_tail_eq j l).
  - destruct (c_delay (j_cfg j) || negb (j_attempts j =? 1)).
    + rewrite py_nth_map. unfold pending_timer.
      destruct (nth_timer_sane (j_pending j) (j_timers j) Hok) as [Hs Hv].
      rewrite (tie_timer_calc _ (Some ref) Hs Hv).
      destruct (timer_calc (nth (j_pending j) (j_timers j) dummy_timer) (Some ref)) as [tm'|e]; cbn [py_res bind]; [|reflexivity].
      rewrite replace_nth_map. apply (gen_tail_eq j (replace_nth (j_pending j) (j_timers j) tm')).
    + cbn [bind]. apply (gen_tail_eq j (j_timers j)).
Qed.

(* Job._exec of both front ends = Model.job_run: attempts always counted, failures counted, nothing else touched;
   the callback's outcome (does it raise an Exception subclass) is the parameter *)
Theorem tie_thr_job_exec j raises : GenJobState.thr_job_exec (py_of_job j) raises = Ok (py_of_job (job_run j raises)).
Proof. unfold GenJobState.thr_job_exec, job_run, py_of_job. destruct raises; reflexivity. Qed.
Theorem tie_aio_job_exec j raises : GenJobState.aio_job_exec (py_of_job j) raises = Ok (py_of_job (job_run j raises)).
Proof. unfold GenJobState.aio_job_exec, job_run, py_of_job. destruct raises; reflexivity. Qed.
