(* Tie, composed: one whole non-forced call of the threading Scheduler.exec_jobs.  The GENERATED selection
   (GenSched.sched_exec_select: priorities, sort, cut at max_exec, positive filter), the run of the batch (the worker
   hand-over is recognised by template, its meaning is the model's invoke_all; the body of Job._exec is tied in
   TieJob.v) and the GENERATED post-run loop (GenPost.sched_post_loop) together compute exactly Model/Sched.v's
   exec_jobs, on every state satisfying the scheduler invariant, for every iteration order of the job set and every
   priority table.  Re-proved on every run. *)
From Coq Require Import ZArith List Bool Lia.
From Sv Require Import PyTime Timer Job Sched Occur PyRepr TimerProofs JobProofs SchedProofs.
From Gen Require Import GenOccur GenTimer GenJobState GenSched GenPost TieOccur TieWeekly TieTimer TieJob TieSched TiePost.
Import ListNotations.
Open Scope Z_scope.

Lemma in_lookup {A} (l : list (nat * A)) id v :
  NoDup (map fst l) -> In (id, v) l -> lookup id l = Some v.
Proof.
  induction l as [|[k w] t IH]; cbn; intros Hnd Hin; [contradiction|].
  inversion Hnd as [|? ? Hnot Hnd']; subst. destruct Hin as [Heq|Hin].
  - inversion Heq; subst. rewrite Nat.eqb_refl. reflexivity.
  - destruct (Nat.eqb k id) eqn:E.
    + apply Nat.eqb_eq in E. subst. exfalso. apply Hnot. apply in_map_iff. exists (id, v). split; [reflexivity|exact Hin].
    + apply IH; assumption.
Qed.

Lemma inv_jobs_good s ref : sched_inv s -> aware ref = tz_aware (s_tz s) -> jobs_good s ref.
Proof.
  intros Hi Hr. unfold jobs_good. apply Forall_forall. intros [id j] Hin. cbn [snd].
  destruct (si_jobs_ok _ Hi id j (in_lookup _ _ _ (si_keys_nodup _ Hi) Hin)) as [Hok Htz].
  split; [exact Hok|]. rewrite Htz. exact Hr.
Qed.

(* the state in which the batch runs: the priority-function calls have been logged *)
Definition with_prio_events (s : sched) (evs : list event) : sched :=
  mkSched (s_tz s) (s_max_exec s) (s_prio s) (s_reg s) (s_jobs s) (s_progs s) (s_next s) (s_now s) (rev evs ++ s_events s).

Theorem tie_exec_jobs_composed s order table :
  sched_inv s -> progs_valid s -> live_inv s -> is_perm_of order (s_reg s) = true ->
  exists prs evs s',
    let ref := dt_now (s_now s) (s_tz s) in
    let batch := select_batch (s_max_exec s) (sort_desc snd prs) in
    let s1 := invoke_all (with_prio_events s evs) batch in
    (* 1. the generated selection yields the batch and the reference instant *)
    GenSched.sched_exec_select (py_of_sched s order) (s_now s) (prio_fn_of s table) false = Ok (map (objof s) batch, ref) /\
    (* 2. the generated post-run loop, started on the state the callbacks left, ends in the model's final state *)
    GenPost.sched_post_loop (heapof s1) (s_reg s1) batch ref = Ok (heapof s', s_reg s', Z.of_nat (length batch)) /\
    (* 3. which is the whole call of the model *)
    exec_jobs s false order table = (s', Ok (VInt (Z.of_nat (length batch)))).
Proof.
  intros Hi Hp Hl Hperm.
  destruct (is_perm_of_spec order (s_reg s) (si_reg_nodup _ Hi) Hperm) as [Hnd Hiff].
  set (ref := dt_now (s_now s) (s_tz s)).
  assert (Hr : aware ref = tz_aware (s_tz s)) by apply aware_dt_now'.
  assert (Hjobs : forall x, In x order -> exists j, get_job s x = Some j).
  { intros x Hx. apply (si_reg_jobs _ Hi). apply Hiff. exact Hx. }
  assert (Hlen : length order = length (s_reg s)).
  { unfold is_perm_of in Hperm. apply andb_prop in Hperm as [H _]. apply andb_prop in H as [H _]. apply Nat.eqb_eq in H. exact H. }
  destruct (collect_prios_ok s table order ref (Z.of_nat (length (s_reg s))) Hi Hjobs Hr) as (prs & evs & Hc & Hm & _).
  set (batch := select_batch (s_max_exec s) (sort_desc snd prs)).
  set (s0 := with_prio_events s evs).
  assert (Hi0 : sched_inv s0) by (destruct Hi; constructor; assumption).
  destruct (select_batch_sub (s_max_exec s) prs) as [Hbn Hbs]; [rewrite Hm; exact Hnd|]. fold batch in Hbn, Hbs.
  assert (Hsub : forall x, In x batch -> In x (s_reg s0)).
  { intros x Hx. apply Hiff. rewrite <- Hm. apply Hbs. exact Hx. }
  (* the batch runs *)
  assert (HB : forall x, In x batch -> (x < s_next s0)%nat).
  { intros x Hx. destruct (si_reg_jobs _ Hi0 x (Hsub x Hx)) as (j & Hj). apply (si_bound _ Hi0).
    unfold get_job in Hj. apply lookup_in_keys in Hj. exact Hj. }
  assert (Hlb : live_except batch s0) by (intros x j Hx _ Hj; apply (Hl x j Hx); [intros []|exact Hj]).
  assert (Hlive : forall x, In x batch -> exists j, get_job s0 x = Some j /\ has_attempts j = true).
  { intros x Hx. destruct (si_reg_jobs _ Hi0 x (Hsub x Hx)) as (j & Hj). exists j. split; [exact Hj|].
    apply (Hl x j (Hsub x Hx)); [intros []|exact Hj]. }
  destruct (invoke_all_inv batch s0 batch Hi0 Hp Hlb HB Hbn (fun x H => H) Hlive) as (Hi1 & _ & _ & Hf1).
  set (s1 := invoke_all s0 batch) in *.
  assert (Hr1 : aware ref = tz_aware (s_tz s1)) by (rewrite (bf_tz _ _ _ Hf1); exact Hr).
  assert (Hpresent : Forall (fun id => get_job s1 id <> None) batch).
  { apply Forall_forall. intros x Hx. destruct (bf_ran _ _ _ Hf1 x Hx) as (j & b & _ & Hj). rewrite Hj. discriminate. }
  pose proof (tie_post_loop batch s1 ref (inv_jobs_good s1 ref Hi1 Hr1) Hpresent) as Hpost.
  (* the model's call *)
  assert (Hexec : exec_jobs s false order table = exec_batch s0 batch ref).
  { unfold exec_jobs. rewrite Hperm. cbn [negb]. fold ref. rewrite Hc. reflexivity. }
  unfold exec_batch in Hexec. fold s1 in Hexec.
  destruct (resched_all s1 batch ref) as [s' [v|e]] eqn:Ers.
  - exists prs, evs, s'. cbv zeta. fold ref batch s0 s1.
    split; [|split; [exact Hpost|exact Hexec]].
    pose proof (tie_exec_select s order table Hnd) as Hsel. fold ref in Hsel.
    rewrite Hlen in Hsel. rewrite Hc in Hsel. apply Hsel.
    apply Forall_forall. intros x Hx. destruct (Hjobs x Hx) as (j & Hj). unfold has_job. rewrite Hj. discriminate.
  - (* the post-run loop cannot fail on a good state *)
    exfalso.
    destruct (resched_all_inv batch s1 ref Hi1) as (s'' & Hs'' & _).
    + destruct (invoke_all_inv batch s0 batch Hi0 Hp Hlb HB Hbn (fun x H => H) Hlive) as (_ & _ & Hl1 & _). exact Hl1.
    + exact Hr1.
    + fold s1 in Hs''. rewrite Ers in Hs''. discriminate.
Qed.
