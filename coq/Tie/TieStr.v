(* Tie lemmas: the functions GENERATED from /repo's current source by translator/py2v.py
   are equal to the hand-written model the theorems are about.  Re-proved on every run. *)
From Coq Require Import ZArith List Bool Lia ZifyBool.
From Sv Require Import PyTime Timer Job Sched Table.
From Gen Require Import GenStr.
Import ListNotations.
Open Scope Z_scope.
Ltac Zify.zify_post_hook ::= Z.to_euclidean_division_equations.

(* str_cutoff *)
Lemma firstn_all2' {A} (l : list A) n : (length l <= n)%nat -> firstn n l = l.
Proof. apply firstn_all2. Qed.
Lemma slice_bound_in len v d : 0 <= v <= len -> slice_bound len (Some v) d = v.
Proof.
  unfold slice_bound. intros H. cbv zeta. assert (E1 : (v <? 0) = false) by lia.
  rewrite E1. rewrite E1. assert (E2 : (len <? v) = false) by lia. rewrite E2. reflexivity.
Qed.
Lemma tie_str_cutoff s w tail : GenStr.str_cutoff s w tail = m_str_cutoff s w tail.
Proof.
  unfold GenStr.str_cutoff, m_str_cutoff, py_slice, HASH.
  destruct (w <? 1) eqn:E1; [reflexivity|]. cbv zeta.
  rewrite Z.gtb_ltb. destruct (w <? Z.of_nat (length s)) eqn:E2; [|reflexivity].
  rewrite !slice_bound_in by lia. cbn [slice_bound].
  f_equal. destruct tail.
  - rewrite Z.sub_0_r. reflexivity.
  - cbn [app]. f_equal.
    replace (Z.to_nat (Z.of_nat (length s) - (w - 1))) with (length s - Z.to_nat (w - 1))%nat by lia.
    apply firstn_all2. rewrite skipn_length. lia.
Qed.
Lemma tie_str_cutoff_default : GenStr.str_cutoff_default_cut_tail = false.
Proof. reflexivity. Qed.
