(* Tie, composed: one scheduling call of the asyncio front end.  `__schedule` is recognised by template (create the job
   with the scheduler's tzinfo, start its supervising task, register it); the job's constructor (GenJobInit.basejob_new)
   and the first segment of the supervising coroutine (GenSupervisor.sup_enter: loop head up to the first sleep) are
   GENERATED code.  Together they compute exactly Model/Aio.v's a_schedule: same error and untouched registry on
   rejection, otherwise the fresh id, the created job, the phase the supervisor enters (sleeping until the due instant,
   or done) and registration iff the job can still run.  Re-proved on every run. *)
From Coq Require Import ZArith List Bool Lia.
From Sv Require Import PyTime Timer Job Sched Aio Occur PyRepr TimerProofs JobProofs SchedProofs.
From Gen Require Import GenOccur GenDup GenTimer GenJobState GenJobUtil GenJobInit GenSupervisor TieJob TieJobInit TieSupervisor.
Import ListNotations.
Open Scope Z_scope.

Theorem tie_aio_schedule_composed s c durs pre post sync :
  cfg_valid c ->
  forallb (entry_sane (c_type c)) (c_timing c) = true -> Forall (valid_entry (c_type c)) (c_timing c) ->
  match GenJobInit.basejob_new (a_now s) (py_type (c_type c)) (map py_timing (c_timing c)) (c_max_attempts c) (c_delay c)
                               (c_start c) (c_stop c) (c_skip c) (a_tz s) with
  | Err e => snd (a_schedule s c durs pre post sync) = Err e /\
             a_reg (fst (a_schedule s c durs pre post sync)) = a_reg s /\
             a_jobs (fst (a_schedule s c durs pre post sync)) = a_jobs s
  | Ok pj =>
      exists j st a,
        pj = py_of_job j /\
        GenSupervisor.sup_enter (a_tz s) pj (a_now s) = Ok st /\
        snd (a_schedule s c durs pre post sync) = Ok (VJob (a_next s)) /\
        a_jobs (fst (a_schedule s c durs pre post sync)) = a_jobs s ++ [(a_next s, a)] /\
        aj_job a = j /\ aj_phase a = phase_of st /\
        a_reg (fst (a_schedule s c durs pre post sync)) = (if has_attempts j then a_reg s ++ [a_next s] else a_reg s)
  end.
Proof.
  intros Hcv Hs Hv. rewrite (tie_basejob_new c (a_tz s) (a_now s) Hs Hv).
  unfold a_schedule. destruct (job_create c (a_tz s) (a_now s)) as [j|e] eqn:Ec; cbn [py_res_job].
  - pose proof (job_create_ok c (a_tz s) (a_now s) j Hcv Ec) as Hcr.
    set (a0 := mkAjob j PDone (a_now s) durs pre post false sync).
    destruct (tie_sup_enter a0 j (a_tz s) (a_now s) (cr_ok _ _ _ _ Hcr) (cr_tz _ _ _ _ Hcr)) as (st & Hst & Hph & Hlive).
    destruct (enter_loop a0 j (a_now s)) as [a live] eqn:Eel. cbn [fst snd] in *.
    exists j, st, a. split; [reflexivity|]. split; [exact Hst|]. split; [reflexivity|]. split; [reflexivity|].
    split; [|split; [exact Hph|rewrite <- Hlive; reflexivity]].
    unfold enter_loop in Eel. destruct (has_attempts j); inversion Eel; reflexivity.
  - cbn. repeat split; reflexivity.
Qed.
