(* Tie: BaseJob.__init__ as GENERATED from /repo's current source equals Model/Job.v's job_create, for every
   configuration whose timing entries have the Python type their job type wants (the typeguard assumption)
   and are valid datetime.time values.  Re-proved on every run. *)
From Coq Require Import ZArith List Bool Lia ZifyBool.
From Sv Require Import PyTime Timer Job Occur PyRepr.
From Gen Require Import GenOccur GenDup GenTimer GenJobState GenJobUtil GenJobInit TieOccur TieWeekly TieDup TieTimer TieJob TieJobUtil.
Import ListNotations.
Open Scope Z_scope.

Lemma forallb_map {A B} (f : A -> B) (p : B -> bool) l : forallb p (map f l) = forallb (fun x => p (f x)) l.
Proof. induction l as [|x r IH]; [reflexivity|]. cbn. rewrite IH. reflexivity. Qed.
Lemma std_sane ty tg : entry_sane ty tg = true -> entry_sane ty (standardize_entry ty tg) = true.
Proof. destruct ty, tg; cbn; congruence. Qed.
Lemma std_valid ty tg : valid_entry ty tg -> valid_entry ty (standardize_entry ty tg).
Proof.
  destruct ty, tg; cbn; try tauto; unfold valid_time, t_replace; cbn; intros H; repeat split; try lia; try apply H.
Qed.
Lemma py_entry_sane_eq ty tg : py_entry_sane (py_type ty) (py_timing tg) = entry_sane ty tg.
Proof. destruct ty, tg; reflexivity. Qed.
Lemma py_sane_eq ty l :
  py_sane_timing_types (py_type ty) (map py_timing l) = if sane_timing ty l then Ok tt else Err SchedulerError.
Proof.
  unfold py_sane_timing_types, sane_timing. rewrite forallb_map, map_length.
  assert (E : forallb (fun x => py_entry_sane (py_type ty) (py_timing x)) l = forallb (entry_sane ty) l)
    by (apply forallb_ext_in'; intros; apply py_entry_sane_eq).
  rewrite E. destruct ty; reflexivity.
Qed.
Lemma mapM_new_tie ty start skip tgs :
  forallb (entry_sane ty) tgs = true -> Forall (valid_entry ty) tgs ->
  mapM (fun tim => bind (GenTimer.jobtimer_new (py_type ty) tim start skip) (fun o => Ok o)) (map py_timing tgs) =
  match mapM (fun tg => timer_init ty tg start skip) tgs with Ok l => Ok (map py_of_timer l) | Err e => Err e end.
Proof.
  intros Hs Hv. induction Hv as [|tg r Hv1 Hr IH]; [reflexivity|].
  cbn [forallb] in Hs. apply andb_true_iff in Hs as [Hs1 Hs2].
  cbn [map mapM]. rewrite (tie_jobtimer_new ty tg start skip Hs1 Hv1).
  destruct (timer_init ty tg start skip) as [tm|e]; cbn [py_res bind]; [|reflexivity].
  rewrite (IH Hs2). destruct (mapM _ r); reflexivity.
Qed.

(* call-by-need: the chain of field assignments of __init__ shares the state it updates *)
Ltac norm_state :=
  lazy beta iota delta [set_pj_start set_pj_max_attempts set_pj_delay set_pj_stop set_pj_skip_missing set_pj_tzinfo
    set_pj_mark_delete set_pj_attempts set_pj_failed_attempts set_pj_timers set_pj_pending blank_pyjobstate
    pj_mark_delete pj_max_attempts pj_attempts pj_failed_attempts pj_delay pj_skip_missing pj_start pj_stop pj_tzinfo pj_timers pj_pending].

Theorem tie_basejob_new c tz now :
  forallb (entry_sane (c_type c)) (c_timing c) = true -> Forall (valid_entry (c_type c)) (c_timing c) ->
  GenJobInit.basejob_new now (py_type (c_type c)) (map py_timing (c_timing c)) (c_max_attempts c) (c_delay c)
                         (c_start c) (c_stop c) (c_skip c) tz
  = py_res_job (job_create c tz now).
Proof.
  intros Hs Hv. unfold GenJobInit.basejob_new, GenJobInit.basejob_init, job_create. cbv zeta.
  set (ty := c_type c) in *. rewrite (tie_standardize ty (c_timing c) Hs). cbn [bind].
  set (tgs := standardize_timing ty (c_timing c)).
  assert (Hs' : forallb (entry_sane ty) tgs = true).
  { unfold tgs, standardize_timing. rewrite forallb_map. rewrite forallb_forall in *. intros tg Hin. apply std_sane, Hs, Hin. }
  assert (Hv' : Forall (valid_entry ty) tgs).
  { unfold tgs, standardize_timing. rewrite Forall_map. eapply Forall_impl; [|exact Hv]. intros tg. apply std_valid. }
  rewrite py_sane_eq. destruct (sane_timing ty tgs); cbn [negb bind]; [|reflexivity].
  rewrite (tie_check_timing_tzinfo ty tgs tz Hs'). destruct (timing_tz_ok ty tgs tz); cbn [negb bind]; [|reflexivity].
  rewrite (tie_check_duplicate ty tgs tz Hs' Hv'). destruct (dup_ok ty tgs tz); cbn [negb bind]; [|reflexivity].
  rewrite tie_set_start_check_stop. destruct (set_start_check_stop (c_start c) (c_stop c) tz now) as [start|e]; cbn [bind]; [|reflexivity].
  norm_state.
  rewrite (mapM_new_tie ty start (c_skip c) tgs Hs' Hv').
  destruct (mapM (fun tg => timer_init ty tg start (c_skip c)) tgs) as [tms|e]; cbn [bind]; [|reflexivity].
  norm_state.
  rewrite py_pending_index_map. destruct (pending_index tms) as [p|e]; cbn [bind]; [|reflexivity].
  unfold past_stop. norm_state.
  destruct (c_stop c) as [st|] eqn:Est; cbn [bind].
  - rewrite py_nth_map, tie_jobtimer_datetime. cbn [bind].
    destruct (dt_gt (jt_next (nth p tms dummy_timer)) st) as [[|]|e]; cbn [bind]; try reflexivity;
      unfold set_pj_mark_delete, py_res_job, py_of_job; cbn; rewrite ?Est; reflexivity.
  - unfold py_res_job, py_of_job. cbn. rewrite ?Est. reflexivity.
Qed.
