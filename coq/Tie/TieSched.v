(* Tie: the selection part of the threading Scheduler.exec_jobs (everything up to the hand-over of the batch to
   the workers) as GENERATED from /repo's current source computes exactly the batch of Model/Sched.v:
   collect_prios, sort_desc, select_batch.  Re-proved on every run. *)
From Coq Require Import ZArith List Bool Lia ZifyBool Permutation.
From Sv Require Import PyTime Timer Job Sched PyRepr SchedProofs.
From Gen Require Import GenOccur GenTimer GenJobState GenSched TieOccur TieWeekly TieTimer TieJob.
Import ListNotations.
Open Scope Z_scope.

(* how the model's registry is presented to the generated code *)
Definition objof (s : sched) (id : nat) : pyjobobj :=
  match get_job s id with
  | Some j => mkPyJobObj id (py_of_job j) (c_wnum (j_cfg j), c_wden (j_cfg j))
  | None => mkPyJobObj id blank_pyjobstate (0, 1)
  end.
Definition py_of_sched (s : sched) (order : list nat) : pysched :=
  mkPySched (s_max_exec s) (s_tz s) (map (objof s) order).
(* the priority function: any of the model's three kinds (built-in linear / constant, or a table) *)
Definition prio_fn_of (s : sched) (table : list (nat * prio)) : pyfloat -> pyjobobj -> Z -> Z -> res pyfloat :=
  fun sec o _ _ => match get_job s (jo_id o) with
                   | Some j => Ok (job_prio s table (jo_id o) j (fst sec))
                   | None => Err OtherError
                   end.
Lemma jo_id_objof s id : jo_id (objof s id) = id.
Proof. unfold objof. destruct (get_job s id); reflexivity. Qed.

Definition lift (s : sched) (ip : nat * prio) : pyjobobj * pyfloat := (objof s (fst ip), snd ip).

Definition has_job (s : sched) (id : nat) : Prop := get_job s id <> None.

Lemma collect_tie s table order ref now n :
  Forall (has_job s) order -> ref = dt_now now (s_tz s) ->
  mapM (fun job => bind (GenSched.jobobj_timedelta now job (Some ref)) (fun m =>
          bind (prio_fn_of s table (fl_neg_tsec m) job (s_max_exec s) n) (fun pr => Ok (job, pr)))) (map (objof s) order) =
  match collect_prios s table order ref n with
  | Ok (prs, _) => Ok (map (lift s) prs)
  | Err e => Err e
  end.
Proof.
  intros Hj Href. unfold GenSched.jobobj_timedelta. induction Hj as [|id r Hid Hr IH]; [reflexivity|].
  cbn [map mapM collect_prios]. unfold prio_fn_of at 1. rewrite jo_id_objof.
  unfold objof at 1 2. destruct (get_job s id) as [j|] eqn:Ej.
  - cbn [jo_state]. rewrite tie_job_timedelta.
    destruct (Job.job_timedelta j ref) as [d|e]; cbn [bind]; [|reflexivity].
    rewrite IH. destruct (collect_prios s table r ref n) as [[prs evs]|e]; cbn [bind fst snd map]; [|reflexivity].
    unfold lift at 2. cbn [fst snd]. unfold objof. rewrite Ej. unfold fl_neg_tsec. cbn [fst]. reflexivity.
  - exfalso. apply Hid. exact Ej.
Qed.

Lemma ins_desc_lift s x l : ins_desc snd (lift s x) (map (lift s) l) = map (lift s) (ins_desc snd x l).
Proof.
  induction l as [|y t IH]; [reflexivity|]. cbn [map ins_desc]. unfold lift at 1 2 3 4. cbn [snd].
  destruct (qle (snd x) (snd y) && negb (qle (snd y) (snd x))); cbn [map]; [|reflexivity].
  f_equal. exact IH.
Qed.
Lemma sort_desc_lift s l : sort_desc snd (map (lift s) l) = map (lift s) (sort_desc snd l).
Proof.
  unfold sort_desc. induction l as [|x t IH]; [reflexivity|]. cbn [map fold_right]. rewrite IH. apply ins_desc_lift.
Qed.

Lemma dict_get_lift s prs id p :
  NoDup (map fst prs) -> In (id, p) prs -> py_dict_get (map (lift s) prs) (objof s id) = Ok p.
Proof.
  induction prs as [|[k v] r IH]; intros Hnd Hin; [contradiction|].
  cbn [map py_dict_get]. unfold lift at 1. cbn [fst snd]. rewrite !jo_id_objof.
  inversion Hnd as [|? ? Hk Hr]; subst. destruct Hin as [E|Hin].
  - inversion E; subst. rewrite Nat.eqb_refl. reflexivity.
  - destruct (Nat.eqb k id) eqn:Ek.
    + apply Nat.eqb_eq in Ek. subst k. exfalso. apply Hk. apply (in_map fst) in Hin. exact Hin.
    + apply IH; assumption.
Qed.

(* the comprehension [job for idx, job in enumerate(sorted) if (max_exec == 0 or idx < max_exec) and prio[job] > 0] *)
Lemma filter_idx_tie s prs mx sorted i :
  NoDup (map fst prs) -> (forall ip, In ip sorted -> In ip prs) ->
  filterM_idx (fun idx job => bind (if (mx =? 0) || (idx <? mx)
                                    then bind (py_dict_get (map (lift s) prs) job) (fun dv => Ok (fl_gt_int dv 0))
                                    else Ok false) (fun b => Ok b)) i (map (objof s) (map fst sorted)) =
  Ok (map (objof s) (map fst (filter (fun ip => qpos (snd ip))
                                     (if mx =? 0 then sorted else take_while_idx (mx - i) sorted)))).
Proof.
  intros Hnd. revert i. induction sorted as [|[id p] t IH]; intros i Hsub.
  - cbn. destruct (mx =? 0); reflexivity.
  - cbn [map filterM_idx fst]. rewrite (dict_get_lift s prs id p Hnd (Hsub _ (or_introl eq_refl))).
    assert (Hq : fl_gt_int p 0 = qpos p) by (unfold fl_gt_int, qpos; destruct p; cbn [fst snd]; f_equal; lia).
    rewrite (IH (i + 1)) by (intros ip Hip; apply Hsub; right; exact Hip).
    destruct (mx =? 0) eqn:E0; cbn [orb bind].
    + rewrite Hq. cbn [filter snd]. destruct (qpos p); reflexivity.
    + cbn [take_while_idx]. destruct (i <? mx) eqn:Ei.
      * assert (E1 : 0 <? mx - i = true) by lia. rewrite E1. cbn [bind filter snd]. rewrite Hq.
        replace (mx - i - 1) with (mx - (i + 1)) by lia. destruct (qpos p); reflexivity.
      * assert (E1 : 0 <? mx - i = false) by lia. rewrite E1. cbn [bind filter map].
        (* beyond the limit nothing more is taken *)
        assert (Hnil : take_while_idx (mx - (i + 1)) t = []).
        { destruct t as [|y r]; [reflexivity|]. cbn. assert (E2 : 0 <? mx - (i + 1) = false) by lia. rewrite E2. reflexivity. }
        rewrite Hnil. reflexivity.
Qed.

Lemma collect_fst s table order ref n prs evs :
  collect_prios s table order ref n = Ok (prs, evs) -> map fst prs = order.
Proof.
  revert prs evs. induction order as [|id r IH]; intros prs evs H; cbn in H.
  - inversion H; reflexivity.
  - destruct (get_job s id) as [j|]; [|discriminate].
    destruct (Job.job_timedelta j ref) as [d|e]; cbn [bind] in H; [|discriminate].
    destruct (collect_prios s table r ref n) as [[prs' evs']|e]; cbn [bind] in H; [|discriminate].
    inversion H; subst. cbn [map fst]. f_equal. apply (IH _ _ eq_refl).
Qed.

Theorem tie_exec_select s order table :
  NoDup order -> Forall (has_job s) order ->
  GenSched.sched_exec_select (py_of_sched s order) (s_now s) (prio_fn_of s table) false =
  match collect_prios s table order (dt_now (s_now s) (s_tz s)) (Z.of_nat (length order)) with
  | Ok (prs, _) => Ok (map (objof s) (select_batch (s_max_exec s) (sort_desc snd prs)), dt_now (s_now s) (s_tz s))
  | Err e => Err e
  end.
Proof.
  intros Hnd Hj. unfold GenSched.sched_exec_select, py_of_sched. cbn [ps_max_exec ps_tzinfo ps_jobs]. cbv zeta.
  rewrite map_length.
  rewrite (collect_tie s table order (dt_now (s_now s) (s_tz s)) (s_now s) (Z.of_nat (length order)) Hj eq_refl).
  destruct (collect_prios s table order _ _) as [[prs evs]|e] eqn:Ec; cbn [bind]; [|reflexivity].
  assert (Hm : py_sorted_desc (map (lift s) prs) = map (objof s) (map fst (sort_desc snd prs))).
  { unfold py_sorted_desc. rewrite sort_desc_lift, !map_map. reflexivity. }
  rewrite Hm.
  assert (Hnd' : NoDup (map fst prs)) by (rewrite (collect_fst _ _ _ _ _ _ _ Ec); exact Hnd).
  rewrite (filter_idx_tie s prs (s_max_exec s) (sort_desc snd prs) 0 Hnd').
  - cbn [bind]. unfold select_batch. rewrite Z.sub_0_r. reflexivity.
  - intros ip Hip. eapply Permutation_in; [apply Permutation_sym; apply sort_desc_perm|exact Hip].
Qed.

(* a forced run hands over every registered job, in the set's iteration order *)
Theorem tie_exec_select_forced s order table :
  GenSched.sched_exec_select (py_of_sched s order) (s_now s) (prio_fn_of s table) true =
  Ok (map (objof s) order, dt_now (s_now s) (s_tz s)).
Proof. reflexivity. Qed.

(* C05 on the generated code: the batch handed to the workers is exactly the list `chosen` of SelectProofs.v - for
   which C05_count, C05_top_k, C05_positive_only and C05_order are proved - computed from the priorities the
   collection loop obtained *)
From Sv Require Import SelectProofs.
Theorem gen_batch_is_chosen s order table prs evs :
  NoDup order -> Forall (has_job s) order ->
  collect_prios s table order (dt_now (s_now s) (s_tz s)) (Z.of_nat (length order)) = Ok (prs, evs) ->
  GenSched.sched_exec_select (py_of_sched s order) (s_now s) (prio_fn_of s table) false =
    Ok (map (objof s) (map fst (chosen (s_max_exec s) prs)), dt_now (s_now s) (s_tz s)).
Proof.
  intros Hnd Hj Hc. rewrite (tie_exec_select s order table Hnd Hj), Hc, select_batch_chosen. reflexivity.
Qed.
Print Assumptions gen_batch_is_chosen.
Print Assumptions tie_exec_select.
