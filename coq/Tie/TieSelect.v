(* Tie: select_jobs_by_tag (scheduler/base/scheduler.py) as GENERATED from /repo's current source is the
   filter by Model/Sched.v's tag_match.  Re-proved on every run. *)
From Coq Require Import ZArith List Bool.
From Sv Require Import PyTime Timer Job Sched SchedFacts.
From Gen Require Import GenSelect.
Import ListNotations.
Open Scope Z_scope.

(* ---- select_jobs_by_tag ------------------------------------------------------------------------------ *)
Lemma existsb_filter {A} (p : A -> bool) l : negb (is_nil (filter p l)) = existsb p l.
Proof. induction l as [|x r IH]; [reflexivity|]. cbn [filter existsb]. destruct (p x); [reflexivity|exact IH]. Qed.

Theorem tie_select_jobs_by_tag jobs tags any :
  GenSelect.select_jobs_by_tag jobs tags any = Ok (filter (fun j => tag_match tags any (ptj_tags j)) jobs).
Proof.
  unfold GenSelect.select_jobs_by_tag, tag_match. destruct any; cbn [bind]; f_equal; apply filter_ext; intros j.
  unfold zset_inter, intersectsb. apply existsb_filter.
Qed.

(* C12 restated on the GENERATED function: it returns exactly the given jobs that carry all of the tags (any_tag false)
   or at least one of them (any_tag true), in their order, and never fails *)
Theorem gen_select_spec jobs tags any :
  exists sel, GenSelect.select_jobs_by_tag jobs tags any = Ok sel /\
    forall j, In j sel <->
      In j jobs /\ (if any then exists t, In t tags /\ In t (ptj_tags j) else forall t, In t tags -> In t (ptj_tags j)).
Proof.
  rewrite tie_select_jobs_by_tag. eexists. split; [reflexivity|]. intros j. rewrite filter_In.
  destruct any.
  - rewrite SchedFacts.tag_match_any. reflexivity.
  - rewrite SchedFacts.tag_match_all. reflexivity.
Qed.
