(* Tie: select_jobs_by_tag (scheduler/base/scheduler.py) as GENERATED from /repo's current source is the
   filter by Model/Sched.v's tag_match.  Re-proved on every run. *)
From Coq Require Import ZArith List Bool.
From Sv Require Import PyTime Timer Job Sched.
From Gen Require Import GenSelect.
Import ListNotations.
Open Scope Z_scope.

(* ---- select_jobs_by_tag ------------------------------------------------------------------------------ *)
Lemma existsb_filter {A} (p : A -> bool) l : negb (is_nil (filter p l)) = existsb p l.
Proof. induction l as [|x r IH]; [reflexivity|]. cbn [filter existsb]. destruct (p x); [reflexivity|exact IH]. Qed.

Theorem tie_select_jobs_by_tag jobs tags any :
  GenSelect.select_jobs_by_tag jobs tags any = Ok (filter (fun j => tag_match tags any (ptj_tags j)) jobs).
Proof.
  unfold GenSelect.select_jobs_by_tag, tag_match. destruct any; cbn [bind]; f_equal; apply filter_ext; intros j.
  unfold zset_inter, intersectsb. apply existsb_filter.
Qed.
