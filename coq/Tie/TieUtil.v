(* Tie lemmas: the functions GENERATED from /repo's current source by translator/py2v.py
   are equal to the hand-written model the theorems are about.  Re-proved on every run. *)
From Coq Require Import ZArith List Bool Lia ZifyBool.
From Sv Require Import PyTime Timer Job Sched Table.
From Gen Require Import GenUtil GenPrio GenStr.
Import ListNotations.
Open Scope Z_scope.
Ltac Zify.zify_post_hook ::= Z.to_euclidean_division_equations.

Ltac tie_unfold :=
  cbv beta delta [GenUtil.days_to_weekday GenUtil.next_daily_occurrence GenUtil.next_hourly_occurrence
    GenUtil.next_minutely_occurrence GenUtil.next_weekday_time_occurrence
    m_next_daily m_next_hourly m_next_minutely m_next_weekly m_days_to_weekday
    dt_replace dt_add dt_sub dt_keys td_make td_make5 ts_le ts_lt dt_weekday dt_date
    dt_hour dt_minute dt_second dt_micro dflt tod valid_time D HR MN SEC bind fst snd] in *;
  cbn [loc off wd_value wd_time] in *.
Ltac tie_cases :=
  repeat match goal with
  | |- context [match off ?d with _ => _ end] => destruct (off d) eqn:?; cbn [loc off bind fst snd] in *
  | |- context [if ?c then _ else _] => let E := fresh "E" in destruct c eqn:E; cbn [loc off bind fst snd] in *
  | H : context [if ?c then _ else _] |- _ => let E := fresh "E" in destruct c eqn:E; cbn [loc off bind fst snd] in *
  end.
Ltac tie := intros; tie_unfold; tie_cases;
  try reflexivity; try (f_equal; f_equal; lia); try (f_equal; lia); try (exfalso; lia); try lia.

Lemma tie_days s d : 0 <= s <= 6 -> 0 <= d <= 6 -> GenUtil.days_to_weekday s d = Ok (m_days_to_weekday s d).
Proof. tie. Qed.
Lemma tie_days_reject s d : ~ (0 <= s <= 6 /\ 0 <= d <= 6) -> GenUtil.days_to_weekday s d = Err SchedulerError.
Proof. tie. Qed.
Lemma tie_daily now t : valid_time t -> GenUtil.next_daily_occurrence now t = Ok (m_next_daily now t).
Proof. tie. Qed.
Lemma tie_hourly now t : valid_time t -> GenUtil.next_hourly_occurrence now t = Ok (m_next_hourly now t).
Proof. tie. Qed.
Lemma tie_minutely now t : valid_time t -> GenUtil.next_minutely_occurrence now t = Ok (m_next_minutely now t).
Proof. tie. Qed.
Lemma tie_weekly now w t : valid_time t -> 0 <= wd_value w <= 6 ->
  GenUtil.next_weekday_time_occurrence now w t = Ok (m_next_weekly now (wd_value w) t).
Proof. tie. Qed.

(* len(set(l)) == len(l)  <->  no duplicates *)
Lemma zdedup_length_le l : (length (zdedup l) <= length l)%nat.
Proof. induction l as [|x t IH]; cbn; [lia|]. destruct (zmem x t); cbn; lia. Qed.
Lemma len_set_eq l : Nat.eqb (length (zdedup l)) (length l) = znodup l.
Proof.
  induction l as [|x t IH]; cbn; [reflexivity|].
  destruct (zmem x t) eqn:E; cbn.
  - pose proof (zdedup_length_le t). apply Nat.eqb_neq. lia.
  - exact IH.
Qed.

Lemma tie_times_unique l period :
  Forall valid_time l -> GenUtil.are_times_unique l period = Ok (times_unique period l).
Proof.
  intros Hv. unfold GenUtil.are_times_unique, times_unique. cbv zeta.
  match goal with |- context [zdedup (map ?f l)] => rewrite <- (map_length f l) end.
  rewrite len_set_eq. do 2 f_equal.
  apply map_ext_in. intros t Ht. unfold time_key, tod, td_make5, HR, MN, SEC, D. f_equal. lia.
Qed.
Lemma tie_times_unique_default : GenUtil.are_times_unique_default_period = D.
Proof. reflexivity. Qed.

(* priority functions: time_delta = overdue_us / 10^6, weight = wnum / wden *)
Lemma tie_linear overdue wnum wden mx n :
  GenPrio.linear_priority_function (overdue, SEC) (mkPyJob (wnum, wden)) mx n = Ok (linear_priority overdue wnum wden).
Proof.
  unfold GenPrio.linear_priority_function, linear_priority, fl_lt_int, fl_of_int, fl_mul, fl_add_int, SEC.
  cbn [fst snd pj_weight]. destruct (overdue <? 0) eqn:E1; destruct (overdue <? 0 * 1000000) eqn:E2; try lia; try reflexivity.
  do 2 f_equal; lia.
Qed.
Lemma tie_const overdue wnum wden mx n :
  GenPrio.constant_weight_prioritization (overdue, SEC) (mkPyJob (wnum, wden)) mx n = Ok (constant_priority overdue wnum wden).
Proof.
  unfold GenPrio.constant_weight_prioritization, constant_priority, fl_lt_int, fl_of_int, SEC.
  cbn [fst snd pj_weight]. destruct (overdue <? 0) eqn:E1; destruct (overdue <? 0 * 1000000) eqn:E2; try lia; reflexivity.
Qed.

(* str_cutoff *)
Lemma firstn_all2' {A} (l : list A) n : (length l <= n)%nat -> firstn n l = l.
Proof. apply firstn_all2. Qed.
Lemma slice_bound_in len v d : 0 <= v <= len -> slice_bound len (Some v) d = v.
Proof.
  unfold slice_bound. intros H. cbv zeta. assert (E1 : (v <? 0) = false) by lia.
  rewrite E1. rewrite E1. assert (E2 : (len <? v) = false) by lia. rewrite E2. reflexivity.
Qed.
Lemma tie_str_cutoff s w tail : GenStr.str_cutoff s w tail = m_str_cutoff s w tail.
Proof.
  unfold GenStr.str_cutoff, m_str_cutoff, py_slice, HASH.
  destruct (w <? 1) eqn:E1; [reflexivity|]. cbv zeta.
  rewrite Z.gtb_ltb. destruct (w <? Z.of_nat (length s)) eqn:E2; [|reflexivity].
  rewrite !slice_bound_in by lia. cbn [slice_bound].
  f_equal. destruct tail.
  - rewrite Z.sub_0_r. reflexivity.
  - cbn [app]. f_equal.
    replace (Z.to_nat (Z.of_nat (length s) - (w - 1))) with (length s - Z.to_nat (w - 1))%nat by lia.
    apply firstn_all2. rewrite skipn_length. lia.
Qed.
Lemma tie_str_cutoff_default : GenStr.str_cutoff_default_cut_tail = false.
Proof. reflexivity. Qed.
