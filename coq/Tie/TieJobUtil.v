(* Tie: the checks BaseJob.__init__ performs (scheduler/base/job_util.py), and are_weekday_times_unique
   (scheduler/util.py) as GENERATED from /repo's
   current source equal the hand-written model (Model/Job.v).  Re-proved on every run. *)
From Coq Require Import ZArith List Bool Lia ZifyBool.
From Sv Require Import PyTime Timer Job Sched PyRepr.
From Gen Require Import GenOccur GenDup GenJobUtil TieWeekly TieDup.
Import ListNotations.
Open Scope Z_scope.

(* ---- standardize_timing_format --------------------------------------------------------------- *)
Definition is_ttime (tg : timing) : bool := match tg with TTime _ => true | _ => false end.
Definition is_tweekday (tg : timing) : bool := match tg with TWeekday _ _ => true | _ => false end.
Definition time_of (tg : timing) : time := match tg with TTime t => t | TWeekday _ t => t | _ => mkTime 0 0 0 0 None end.
Definition wd_of (tg : timing) : weekday := match tg with TWeekday w t => mkWd w t | _ => mkWd 0 (mkTime 0 0 0 0 None) end.

Lemma mapM_as_time {B} (f : time -> res B) l :
  forallb is_ttime l = true ->
  mapM (fun raw => bind (as_time raw) f) (map py_timing l) = mapM (fun tg => f (time_of tg)) l.
Proof.
  induction l as [|tg r IH]; intros Hs; [reflexivity|]. cbn [forallb] in Hs. apply andb_true_iff in Hs as [H1 H2].
  destruct tg; cbn in H1; try discriminate. cbn [map mapM py_timing as_time bind time_of]. rewrite (IH H2). reflexivity.
Qed.
Lemma mapM_as_weekday {B} (f : weekday -> res B) l :
  forallb is_tweekday l = true ->
  mapM (fun raw => bind (as_weekday raw) f) (map py_timing l) = mapM (fun tg => f (wd_of tg)) l.
Proof.
  induction l as [|tg r IH]; intros Hs; [reflexivity|]. cbn [forallb] in Hs. apply andb_true_iff in Hs as [H1 H2].
  destruct tg; cbn in H1; try discriminate. cbn [map mapM py_timing as_weekday bind wd_of]. rewrite (IH H2). reflexivity.
Qed.
Lemma mapM_ok {A B} (f : A -> B) l : mapM (fun x => Ok (f x)) l = Ok (map f l).
Proof. induction l as [|x r IH]; [reflexivity|]. cbn [mapM map bind]. rewrite IH. reflexivity. Qed.
Lemma sane_ttime ty l : ty = MINUTELY \/ ty = HOURLY \/ ty = DAILY -> forallb (entry_sane ty) l = true -> forallb is_ttime l = true.
Proof.
  intros Hty Hs. rewrite forallb_forall in *. intros tg Hin. specialize (Hs tg Hin).
  destruct Hty as [->|[->| ->]]; destruct tg; cbn in *; congruence.
Qed.
Lemma sane_tweekday l : forallb (entry_sane WEEKLY) l = true -> forallb is_tweekday l = true.
Proof.
  intros Hs. rewrite forallb_forall in *. intros tg Hin. specialize (Hs tg Hin). destruct tg; cbn in *; congruence.
Qed.

Lemma tie_standardize ty l :
  forallb (entry_sane ty) l = true ->
  GenJobUtil.standardize_timing_format (py_type ty) (map py_timing l) = Ok (map py_timing (standardize_timing ty l)).
Proof.
  intros Hs. unfold GenJobUtil.standardize_timing_format, standardize_timing.
  assert (Hid : forall ty', (forall tg, standardize_entry ty' tg = tg) -> Ok (map py_timing l) = Ok (map py_timing (map (standardize_entry ty') l))).
  { intros ty' H. f_equal. rewrite map_map. apply map_ext. intros tg. rewrite H. reflexivity. }
  destruct ty; cbn [py_type pyjobtype_eqb].
  - apply Hid. intros tg. destruct tg; reflexivity.
  - rewrite (mapM_as_time (fun time => Ok (t_replace time (Some 0) (Some 0)))) by (eapply sane_ttime; eauto).
    rewrite mapM_ok. cbn [bind]. f_equal. rewrite !map_map. apply map_ext_in. intros tg Hin.
    rewrite forallb_forall in Hs. specialize (Hs tg Hin). destruct tg; cbn in Hs; try discriminate. reflexivity.
  - rewrite (mapM_as_time (fun time => Ok (t_replace time (Some 0) None))) by (eapply sane_ttime; eauto).
    rewrite mapM_ok. cbn [bind]. f_equal. rewrite !map_map. apply map_ext_in. intros tg Hin.
    rewrite forallb_forall in Hs. specialize (Hs tg Hin). destruct tg; cbn in Hs; try discriminate. reflexivity.
  - apply Hid. intros tg. destruct tg; reflexivity.
  - apply Hid. intros tg. destruct tg; reflexivity.
Qed.

(* ---- check_timing_tzinfo ------------------------------------------------------------------------ *)
Lemma for_each_as_time (f : time -> res unit) l :
  forallb is_ttime l = true ->
  for_each (map py_timing l) (fun raw => bind (as_time raw) f) = for_each l (fun tg => f (time_of tg)).
Proof.
  induction l as [|tg r IH]; intros Hs; [reflexivity|]. cbn [forallb] in Hs. apply andb_true_iff in Hs as [H1 H2].
  destruct tg; cbn in H1; try discriminate. cbn [map for_each py_timing as_time bind time_of]. rewrite (IH H2). reflexivity.
Qed.
Lemma for_each_as_weekday (f : weekday -> res unit) l :
  forallb is_tweekday l = true ->
  for_each (map py_timing l) (fun raw => bind (as_weekday raw) f) = for_each l (fun tg => f (wd_of tg)).
Proof.
  induction l as [|tg r IH]; intros Hs; [reflexivity|]. cbn [forallb] in Hs. apply andb_true_iff in Hs as [H1 H2].
  destruct tg; cbn in H1; try discriminate. cbn [map for_each py_timing as_weekday bind wd_of]. rewrite (IH H2). reflexivity.
Qed.
Lemma for_each_guard {A} (p : A -> bool) l :
  for_each l (fun x => if p x then Err SchedulerError else Ok tt) =
  if forallb (fun x => negb (p x)) l then Ok tt else Err SchedulerError.
Proof.
  induction l as [|x r IH]; [reflexivity|]. cbn [for_each forallb]. destruct (p x); cbn [bind negb andb]; [reflexivity|exact IH].
Qed.

Lemma forallb_ext_in' {A} (f g : A -> bool) l : (forall x, In x l -> f x = g x) -> forallb f l = forallb g l.
Proof.
  induction l as [|x r IH]; intros H; [reflexivity|]. cbn [forallb]. rewrite (H x (or_introl eq_refl)).
  rewrite IH; [reflexivity|]. intros y Hy. apply H. right. exact Hy.
Qed.

Theorem tie_check_timing_tzinfo ty l tz :
  forallb (entry_sane ty) l = true ->
  GenJobUtil.check_timing_tzinfo (py_type ty) (map py_timing l) tz =
    if timing_tz_ok ty l tz then Ok tt else Err SchedulerError.
Proof.
  intros Hs. unfold GenJobUtil.check_timing_tzinfo, timing_tz_ok.
  assert (Hclock : ty = MINUTELY \/ ty = HOURLY \/ ty = DAILY ->
    bind (for_each (map py_timing l) (fun raw_2 => bind (as_time raw_2) (fun time =>
            if xorb (opt_is_some (t_off time)) (opt_is_some tz) then Err SchedulerError else Ok tt))) (fun _ => Ok tt) =
    if forallb (fun tg => negb (xorb (entry_aware tg) (match tz with Some _ => true | None => false end))) l
    then Ok tt else Err SchedulerError).
  { intros Hty. rewrite for_each_as_time by (eapply sane_ttime; eauto).
    rewrite (for_each_guard (fun tg => xorb (opt_is_some (t_off (time_of tg))) (opt_is_some tz))).
    assert (E : forallb (fun x => negb (xorb (opt_is_some (t_off (time_of x))) (opt_is_some tz))) l =
                forallb (fun tg => negb (xorb (entry_aware tg) (match tz with Some _ => true | None => false end))) l).
    { apply forallb_ext_in'. intros tg Hin. pose proof (sane_ttime ty l Hty Hs) as Ht. rewrite forallb_forall in Ht.
      specialize (Ht tg Hin). destruct tg; cbn in Ht; try discriminate. reflexivity. }
    rewrite E. match goal with |- context [bind (if ?c then _ else _) _] => destruct c end; reflexivity. }
  destruct ty; cbn [py_type pyjobtype_eqb orb].
  - reflexivity.
  - apply Hclock; auto.
  - apply Hclock; auto.
  - apply Hclock; auto.
  - rewrite for_each_as_weekday by (apply sane_tweekday; assumption).
    rewrite (for_each_guard (fun tg => xorb (opt_is_some (t_off (wd_time (wd_of tg)))) (opt_is_some tz))).
    assert (E : forallb (fun x => negb (xorb (opt_is_some (t_off (wd_time (wd_of x)))) (opt_is_some tz))) l =
                forallb (fun tg => negb (xorb (entry_aware tg) (match tz with Some _ => true | None => false end))) l).
    { apply forallb_ext_in'. intros tg Hin. pose proof (sane_tweekday l Hs) as Ht. rewrite forallb_forall in Ht.
      specialize (Ht tg Hin). destruct tg; cbn in Ht; try discriminate. reflexivity. }
    rewrite E. match goal with |- context [bind (if ?c then _ else _) _] => destruct c end; reflexivity.
Qed.

(* ---- set_start_check_stop_tzinfo ------------------------------------------------------------------ *)
Theorem tie_set_start_check_stop now start stop tz :
  GenJobUtil.set_start_check_stop_tzinfo now start stop tz = set_start_check_stop start stop tz now.
Proof.
  unfold GenJobUtil.set_start_check_stop_tzinfo, set_start_check_stop, aware, tz_aware, opt_is_some.
  destruct start as [s|]; destruct stop as [e|]; cbn [bind].
  - destruct (off s), tz, (off e); cbn [xorb bind]; try reflexivity;
      match goal with |- context [dt_ge ?a ?b] => destruct (dt_ge a b) as [[|]|x]; reflexivity end.
  - destruct (off s), tz; reflexivity.
  - destruct (off e), tz; cbn [xorb bind]; try reflexivity;
      match goal with |- context [dt_ge ?a ?b] => destruct (dt_ge a b) as [[|]|x]; reflexivity end.
  - reflexivity.
Qed.

(* ---- are_weekday_times_unique, check_duplicate_effective_timings ------------------------------------ *)
From Sv Require Import Occur.
Lemma mapM_as_time0 l : forallb is_ttime l = true -> mapM as_time (map py_timing l) = Ok (map time_of l).
Proof.
  induction l as [|tg r IH]; intros Hs; [reflexivity|]. cbn [forallb] in Hs. apply andb_true_iff in Hs as [H1 H2].
  destruct tg; cbn in H1; try discriminate. cbn [map mapM py_timing as_time bind time_of]. rewrite (IH H2). reflexivity.
Qed.
Lemma mapM_as_weekday0 l : forallb is_tweekday l = true -> mapM as_weekday (map py_timing l) = Ok (map wd_of l).
Proof.
  induction l as [|tg r IH]; intros Hs; [reflexivity|]. cbn [forallb] in Hs. apply andb_true_iff in Hs as [H1 H2].
  destruct tg; cbn in H1; try discriminate. cbn [map mapM py_timing as_weekday bind wd_of]. rewrite (IH H2). reflexivity.
Qed.
Lemma times_of_map l : forallb is_ttime l = true -> times_of l = map time_of l.
Proof.
  induction l as [|tg r IH]; intros Hs; [reflexivity|]. cbn [forallb] in Hs. apply andb_true_iff in Hs as [H1 H2].
  destruct tg; cbn in H1; try discriminate. cbn [times_of map time_of]. rewrite (IH H2). reflexivity.
Qed.

(* a set of aware datetimes is a set of instants *)
Lemma dt_mem_aware x l : aware x = true -> forallb aware l = true -> dt_mem x l = zmem (utc x) (map utc l).
Proof.
  intros Hx. induction l as [|y r IH]; intros Hl; [reflexivity|]. cbn [forallb] in Hl. apply andb_true_iff in Hl as [Hy Hr].
  cbn [dt_mem map zmem]. rewrite (IH Hr). f_equal. unfold dt_eqb, utc, aware in *. destruct (off x), (off y); try discriminate. reflexivity.
Qed.
Lemma dt_dedup_aware l : forallb aware l = true -> length (dt_dedup l) = length (zdedup (map utc l)).
Proof.
  induction l as [|x r IH]; intros Hl; [reflexivity|]. cbn [forallb] in Hl. apply andb_true_iff in Hl as [Hx Hr].
  cbn [dt_dedup map zdedup]. rewrite (dt_mem_aware x r Hx Hr). destruct (zmem (utc x) (map utc r)); cbn [length]; rewrite (IH Hr); reflexivity.
Qed.

(* the label of the reference does not matter, only its clock reading *)
Lemma m_next_weekly_label l o1 o2 w t :
  loc (m_next_weekly (mkDt l o1) w t) = loc (m_next_weekly (mkDt l o2) w t) /\
  off (m_next_weekly (mkDt l o1) w t) = o1.
Proof.
  unfold m_next_weekly, m_next_daily, dt_weekday. cbn [loc off].
  split; repeat match goal with |- context [if ?c then _ else _] => destruct c end; reflexivity.
Qed.

Lemma gen_weekday_key tz w t :
  utc (m_next_weekly (astimezone (mkDt epoch1970 tz) (t_off t)) w t) = weekday_key tz w t /\
  aware (m_next_weekly (astimezone (mkDt epoch1970 tz) (t_off t)) w t) = true.
Proof.
  unfold weekday_key. change EPOCH1970 with epoch1970.
  assert (Hr : (match tz with Some o => mkDt epoch1970 (Some o) | None => mkDt epoch1970 None end) = mkDt epoch1970 tz)
    by (destruct tz; reflexivity).
  rewrite Hr. unfold aware.
  destruct (t_off t) as [o|] eqn:Eo.
  - split; [reflexivity|]. unfold astimezone. rewrite (proj2 (m_next_weekly_label _ _ None w t)). reflexivity.
  - destruct tz as [oz_|].
    + split; [reflexivity|]. unfold astimezone. rewrite (proj2 (m_next_weekly_label _ _ None w t)). reflexivity.
    + assert (Ha : astimezone (mkDt epoch1970 None) None = mkDt epoch1970 (Some 0)).
      { unfold astimezone, utc. cbn [loc off oz]. rewrite Z.sub_0_r. reflexivity. }
      rewrite Ha.
      pose proof (m_next_weekly_label epoch1970 (Some 0) None w t) as [H1 H2].
      pose proof (m_next_weekly_label epoch1970 None None w t) as [_ H3].
      unfold utc. rewrite H2, H3, H1. cbn [oz]. split; [lia|reflexivity].
Qed.

Lemma tie_are_weekday_times_unique l tz :
  forallb is_tweekday l = true -> Forall (valid_entry WEEKLY) l ->
  GenJobUtil.are_weekday_times_unique (map wd_of l) tz = Ok (znodup (weekday_keys tz l)).
Proof.
  intros Hs Hv. unfold GenJobUtil.are_weekday_times_unique. cbv zeta.
  set (f := fun tg => m_next_weekly (astimezone (mkDt epoch1970 tz) (t_off (time_of tg))) (wd_value (wd_of tg)) (time_of tg)).
  assert (Hm : mapM (fun day => bind (GenOccur.next_weekday_time_occurrence
                      (astimezone (mkDt epoch1970 tz) (t_off (wd_time day))) day (wd_time day)) (fun r_1 => Ok r_1)) (map wd_of l)
               = Ok (map f l)).
  { clear -Hs Hv. induction l as [|tg r IH]; [reflexivity|]. cbn [forallb] in Hs. apply andb_true_iff in Hs as [H1 H2].
    inversion Hv as [|? ? Hv1 Hv2]; subst. destruct tg as [|?|w t]; cbn in H1; try discriminate. cbn in Hv1. destruct Hv1 as [Hvt Hw].
    cbn [map mapM wd_of wd_time]. rewrite (tie_weekly _ (mkWd w t) t) by (cbn; assumption). cbn [bind].
    rewrite (IH H2 Hv2). reflexivity. }
  rewrite Hm. cbn [bind]. f_equal.
  assert (Haw : forallb aware (map f l) = true).
  { rewrite forallb_forall. intros d Hd. apply in_map_iff in Hd as (tg & <- & _). apply gen_weekday_key. }
  rewrite (dt_dedup_aware _ Haw).
  assert (Hk : map utc (map f l) = weekday_keys tz l).
  { clear -Hs. unfold weekday_keys. induction l as [|tg r IH]; [reflexivity|]. cbn [forallb] in Hs. apply andb_true_iff in Hs as [H1 H2].
    destruct tg as [|?|w t]; cbn in H1; try discriminate. cbn [map flat_map app]. rewrite (IH H2). f_equal.
    unfold f. cbn [time_of wd_of wd_value]. apply gen_weekday_key. }
  rewrite <- Hk. rewrite <- len_set_eq. rewrite !map_length. reflexivity.
Qed.

Lemma daylike_period_ok ty : ty = MINUTELY \/ ty = HOURLY \/ ty = DAILY -> GenJobUtil.daylike_period (py_type ty) = Ok (period_of ty).
Proof. intros [->|[->| ->]]; reflexivity. Qed.

Theorem tie_check_duplicate ty l tz :
  forallb (entry_sane ty) l = true -> Forall (valid_entry ty) l ->
  GenJobUtil.check_duplicate_effective_timings (py_type ty) (map py_timing l) tz =
    if dup_ok ty l tz then Ok tt else Err SchedulerError.
Proof.
  intros Hs Hv. unfold GenJobUtil.check_duplicate_effective_timings, dup_ok.
  assert (Hclock : ty = MINUTELY \/ ty = HOURLY \/ ty = DAILY ->
    bind (mapM as_time (map py_timing l)) (fun cl_3 => bind (GenJobUtil.daylike_period (py_type ty)) (fun r_4 =>
      bind (GenDup.are_times_unique cl_3 r_4) (fun r_5 => if negb r_5 then Err SchedulerError else Ok tt))) =
    if times_unique (period_of ty) (times_of l) then Ok tt else Err SchedulerError).
  { intros Hty. pose proof (sane_ttime ty l Hty Hs) as Ht.
    rewrite (mapM_as_time0 l Ht), (daylike_period_ok ty Hty). cbn [bind].
    rewrite tie_times_unique.
    - cbn [bind]. rewrite (times_of_map l Ht). destruct (times_unique _ _); reflexivity.
    - rewrite Forall_forall in *. intros t Hin. apply in_map_iff in Hin as (tg & <- & Hin). specialize (Hv tg Hin).
      rewrite forallb_forall in Ht. specialize (Ht tg Hin).
      destruct Hty as [->|[->| ->]]; destruct tg; cbn in Ht, Hv |- *; try discriminate; exact Hv. }
  destruct ty; cbn [py_type pyjobtype_eqb orb].
  - reflexivity.
  - apply Hclock; auto.
  - apply Hclock; auto.
  - apply Hclock; auto.
  - pose proof (sane_tweekday l Hs) as Ht. rewrite (mapM_as_weekday0 l Ht). cbn [bind].
    rewrite (tie_are_weekday_times_unique l tz Ht Hv). cbn [bind]. destruct (znodup _); reflexivity.
Qed.

