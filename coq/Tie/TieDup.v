(* Tie lemmas: the functions GENERATED from /repo's current source by translator/py2v.py
   are equal to the hand-written model the theorems are about.  Re-proved on every run. *)
From Coq Require Import ZArith List Bool Lia ZifyBool.
From Sv Require Import PyTime Timer Job Sched Table.
From Gen Require Import GenDup.
Import ListNotations.
Open Scope Z_scope.
Ltac Zify.zify_post_hook ::= Z.to_euclidean_division_equations.

(* len(set(l)) == len(l)  <->  no duplicates *)
Lemma zdedup_length_le l : (length (zdedup l) <= length l)%nat.
Proof. induction l as [|x t IH]; cbn; [lia|]. destruct (zmem x t); cbn; lia. Qed.
Lemma len_set_eq l : Nat.eqb (length (zdedup l)) (length l) = znodup l.
Proof.
  induction l as [|x t IH]; cbn; [reflexivity|].
  destruct (zmem x t) eqn:E; cbn.
  - pose proof (zdedup_length_le t). apply Nat.eqb_neq. lia.
  - exact IH.
Qed.

Lemma tie_times_unique l period :
  Forall valid_time l -> GenDup.are_times_unique l period = Ok (times_unique period l).
Proof.
  intros Hv. unfold GenDup.are_times_unique, times_unique. cbv zeta.
  match goal with |- context [zdedup (map ?f l)] => rewrite <- (map_length f l) end.
  rewrite len_set_eq. do 2 f_equal.
  apply map_ext_in. intros t Ht. unfold time_key, tod, td_make5, HR, MN, SEC, D. f_equal. lia.
Qed.
Lemma tie_times_unique_default : GenDup.are_times_unique_default_period = D.
Proof. reflexivity. Qed.

