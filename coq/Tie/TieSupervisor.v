(* Tie: the straight-line segments of the asyncio supervising coroutine (__supervise_job, cut at its two
   suspension points) as GENERATED from /repo's current source compute the phase transitions of Model/Aio.v:
   entering the loop = enter_loop, the segment after the job's coroutine = job_calc at the completion instant
   followed by enter_loop.  Cancellation and the event loop itself are modelled, not translated.
   Re-proved on every run. *)
From Coq Require Import ZArith List Bool Lia.
From Sv Require Import PyTime Timer Job Sched Aio Occur PyRepr TimerProofs JobProofs SchedProofs.
From Gen Require Import GenOccur GenTimer GenJobState GenSupervisor TieOccur TieWeekly TieTimer TieJob.
Import ListNotations.
Open Scope Z_scope.

(* sleep(d) entered at the reference instant resumes at reference + max(0, d) *)
Definition phase_of (st : supstep) : phase :=
  match st with SupSleep d ref => PSleep (utc ref + Z.max 0 d) | SupDone => PDone end.

Lemma tie_sup_head a j now ref :
  aware ref = aware (Job.job_datetime j) ->
  exists st, GenSupervisor.sup_head (py_of_job j) now ref = Ok st /\
             aj_phase (fst (enter_loop a j (utc ref))) = phase_of st /\
             snd (enter_loop a j (utc ref)) = has_attempts j.
Proof.
  intros Haw. unfold GenSupervisor.sup_head, enter_loop. rewrite tie_has_attempts. cbn [bind].
  destruct (has_attempts j).
  - rewrite (tie_job_timedelta j now (Some ref)). unfold Job.job_timedelta.
    rewrite (dt_sub_same (Job.job_datetime j) ref) by congruence. cbn [bind].
    eexists. split; [reflexivity|]. cbn [fst snd aj_phase phase_of]. split; [|reflexivity].
    unfold wake_time. f_equal. lia.
  - eexists. split; [reflexivity|]. split; reflexivity.
Qed.

(* entering the supervisor right after the scheduling call *)
Theorem tie_sup_enter a j tz now :
  job_ok j -> j_tz j = tz ->
  exists st, GenSupervisor.sup_enter tz (py_of_job j) now = Ok st /\
             aj_phase (fst (enter_loop a j now)) = phase_of st /\ snd (enter_loop a j now) = has_attempts j.
Proof.
  intros Hok Htz. unfold GenSupervisor.sup_enter. cbv zeta.
  assert (Haw : aware (dt_now now tz) = aware (Job.job_datetime j))
    by (rewrite aware_dt_now, (aware_job_datetime j Hok), Htz; reflexivity).
  destruct (tie_sup_head a j now (dt_now now tz) Haw) as (st & Hst & Hph & Hlive).
  rewrite utc_dt_now in Hph, Hlive. exists st. auto.
Qed.

(* the segment that runs when the job's coroutine has finished: reference = now, _calc_next_exec, loop head *)
Theorem tie_sup_after_exec a j tz now :
  job_ok j -> j_tz j = tz ->
  exists j2 st, job_calc j (dt_now now tz) = Ok j2 /\
                GenSupervisor.sup_after_exec tz (py_of_job j) now = Ok (py_of_job j2, st) /\
                aj_phase (fst (enter_loop a j2 now)) = phase_of st /\ snd (enter_loop a j2 now) = has_attempts j2.
Proof.
  intros Hok Htz. unfold GenSupervisor.sup_after_exec. cbv zeta.
  assert (Haw : aware (dt_now now tz) = tz_aware (j_tz j)) by (rewrite aware_dt_now, Htz; reflexivity).
  destruct (job_calc_ok j (dt_now now tz) Hok Haw) as (j2 & Hc & Hok2 & _ & Htz2 & _).
  assert (Hs : timers_sane j).
  { unfold timers_sane. eapply Forall_impl; [|exact (jok_timers _ Hok)].
    intros tm (Hty & _ & _ & Hw). unfold timer_sane. rewrite Hty in *.
    assert (Hvs : forall ty tg, valid_entry ty tg -> entry_sane ty tg = true) by (intros ty tg; destruct ty, tg; cbn; intros H; try contradiction; reflexivity).
    destruct (c_type (j_cfg j)); [destruct Hw as (T & ->); split; [reflexivity|exact I]| | | |];
      destruct Hw as [Hk _]; pose proof (tok_valid _ Hk) as Hv; rewrite Hty in Hv; (split; [apply Hvs|]; exact Hv). }
  rewrite (tie_job_calc j (dt_now now tz) Hs), Hc. cbn [py_res_job bind].
  assert (Haw2 : aware (dt_now now tz) = aware (Job.job_datetime j2)).
  { rewrite aware_dt_now, (aware_job_datetime j2 Hok2), Htz2, Htz. reflexivity. }
  destruct (tie_sup_head a j2 now (dt_now now tz) Haw2) as (st & Hst & Hph & Hlive).
  rewrite utc_dt_now in Hph, Hlive.
  exists j2, st. split; [reflexivity|]. rewrite Hst. cbn [bind]. auto.
Qed.
