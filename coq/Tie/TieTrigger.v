(* Tie: the weekday() factory and the seven day classes of scheduler/trigger/core.py as GENERATED from /repo's
   current source give the trigger the model works with: weekday v (Monday = 0 ... Sunday = 6) and the time handed in.
   Re-proved on every run. *)
From Coq Require Import ZArith List Bool Lia.
From Sv Require Import PyTime Timer Job PyRepr.
From Gen Require Import GenTrigger.
Open Scope Z_scope.

Theorem tie_weekday_factory v t : 0 <= v <= 6 -> GenTrigger.weekday_factory v t = Ok (mkWd v t).
Proof.
  intros H. assert (v = 0 \/ v = 1 \/ v = 2 \/ v = 3 \/ v = 4 \/ v = 5 \/ v = 6) as Hc by lia.
  destruct Hc as [->|[->|[->|[->|[->|[->| ->]]]]]]; reflexivity.
Qed.
Theorem tie_weekday_factory_reject v t : ~ (0 <= v <= 6) -> GenTrigger.weekday_factory v t = Err OtherError.
Proof.
  intros H. unfold GenTrigger.weekday_factory. destruct v as [|p|p]; try reflexivity; try lia.
  do 3 (destruct p as [p|p|]; try reflexivity; try lia).
Qed.
(* the classes used directly *)
Theorem tie_day_classes t :
  GenTrigger.day_monday t = mkWd 0 t /\ GenTrigger.day_tuesday t = mkWd 1 t /\ GenTrigger.day_wednesday t = mkWd 2 t /\
  GenTrigger.day_thursday t = mkWd 3 t /\ GenTrigger.day_friday t = mkWd 4 t /\ GenTrigger.day_saturday t = mkWd 5 t /\
  GenTrigger.day_sunday t = mkWd 6 t.
Proof. repeat split; reflexivity. Qed.
(* the timing entry the model builds from it *)
Theorem tie_weekday_timing v t : py_timing (TWeekday v t) = PTweekday (mkWd v t).
Proof. reflexivity. Qed.
