(* Tie lemmas: the functions GENERATED from /repo's current source by translator/py2v.py
   are equal to the hand-written model the theorems are about.  Re-proved on every run. *)
From Coq Require Import ZArith List Bool Lia ZifyBool.
From Sv Require Import PyTime Timer Job Sched Table.
From Gen Require Import GenPrio.
Import ListNotations.
Open Scope Z_scope.
Ltac Zify.zify_post_hook ::= Z.to_euclidean_division_equations.

(* priority functions: time_delta = overdue_us / 10^6, weight = wnum / wden *)
Lemma tie_linear overdue wnum wden mx n :
  GenPrio.linear_priority_function (overdue, SEC) (mkPyJob (wnum, wden)) mx n = Ok (linear_priority overdue wnum wden).
Proof.
  unfold GenPrio.linear_priority_function, linear_priority, fl_lt_int, fl_of_int, fl_mul, fl_add_int, SEC.
  cbn [fst snd pj_weight]. destruct (overdue <? 0) eqn:E1; destruct (overdue <? 0 * 1000000) eqn:E2; try lia; try reflexivity.
  do 2 f_equal; lia.
Qed.
Lemma tie_const overdue wnum wden mx n :
  GenPrio.constant_weight_prioritization (overdue, SEC) (mkPyJob (wnum, wden)) mx n = Ok (constant_priority overdue wnum wden).
Proof.
  unfold GenPrio.constant_weight_prioritization, constant_priority, fl_lt_int, fl_of_int, SEC.
  cbn [fst snd pj_weight]. destruct (overdue <? 0) eqn:E1; destruct (overdue <? 0 * 1000000) eqn:E2; try lia; reflexivity.
Qed.

