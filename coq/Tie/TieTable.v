(* Tie: the layout of the job table in Scheduler.__str__ of both front ends - column alignments, widths, names,
   the column dropped without a timezone, and for every cell which fields of BaseJob._str() it shows and how
   str_cutoff abbreviates it - as READ from /repo's current source equals Model/Table.v.  Re-proved on every run. *)
From Coq Require Import ZArith List Bool Lia.
From Sv Require Import PyTime Timer Job Sched Table.
From Gen Require Import GenStr GenTable TieStr.
Import ListNotations.
Open Scope Z_scope.

(* BaseJob._str() of a job, in the model's terms *)
Definition str_row (v : jobview) : list pystr :=
  [row_type v; handle_name v; f_args v; row_dt v; row_tz v; row_in v; dec (v_attempts v); row_max v].

Lemma py_cut_cut s w tail : GenTable.py_cut s w tail = cut s w tail.
Proof. unfold GenTable.py_cut, cut. rewrite tie_str_cutoff. reflexivity. Qed.
Lemma str_or_empty_id s : GenTable.str_or_empty s = s.
Proof. destruct s; reflexivity. Qed.

Theorem tie_thr_cols : GenTable.thr_cols = COLS_THR.
Proof. reflexivity. Qed.
Theorem tie_aio_cols : GenTable.aio_cols = COLS_AIO.
Proof. reflexivity. Qed.
Theorem tie_thr_names : GenTable.thr_names = names_thr.
Proof. reflexivity. Qed.
Theorem tie_aio_names : GenTable.aio_names = names_aio.
Proof. reflexivity. Qed.
Theorem tie_tz_drop {A} (l : list A) :
  firstn (fst GenTable.thr_tz_drop) l ++ skipn (snd GenTable.thr_tz_drop) l = drop_tz l /\
  firstn (fst GenTable.aio_tz_drop) l ++ skipn (snd GenTable.aio_tz_drop) l = drop_tz l.
Proof. split; reflexivity. Qed.

Theorem tie_thr_entries v : GenTable.thr_entries (str_row v) (v_weight v) = row_cells true v.
Proof.
  unfold GenTable.thr_entries, row_cells, str_row, GenTable.row_nth, GenTable.col_width, GenTable.thr_cols.
  cbn [nth snd app]. rewrite !py_cut_cut, str_or_empty_id. reflexivity.
Qed.
Theorem tie_aio_entries v w : GenTable.aio_entries (str_row v) w = row_cells false v.
Proof.
  unfold GenTable.aio_entries, row_cells, str_row, GenTable.row_nth, GenTable.col_width, GenTable.aio_cols.
  cbn [nth snd app]. rewrite !py_cut_cut, str_or_empty_id. reflexivity.
Qed.

(* the first line of str(scheduler): __headings formatted by __str__ = the model's heading followed by the job count *)
Theorem tie_thr_heading mx tz pname n :
  GenTable.thr_heading_line mx tz pname n = heading_thr mx tz pname ++ dec n ++ [NL; NL].
Proof.
  unfold GenTable.thr_heading_line, GenTable.thr_headings, heading_thr, lit. cbn [nth].
  destruct (mx =? 0); cbn [negb]; repeat rewrite <- app_assoc; reflexivity.
Qed.
Theorem tie_aio_heading tz n :
  GenTable.aio_heading_line tz n = heading_aio tz ++ dec n ++ [NL; NL].
Proof.
  unfold GenTable.aio_heading_line, GenTable.aio_headings, heading_aio, lit. cbn [nth].
  repeat rewrite <- app_assoc; reflexivity.
Qed.
