#!/usr/bin/env python3
"""Regenerates MANIFEST.json from the table below (one entry per claimed property)."""
import json, os
V = os.path.dirname(os.path.dirname(os.path.abspath(__file__)))
T_SEQ = "Coq proof over Gallina model + differential correspondence (extracted model vs implementation)"
T_TIE = "Coq proof over Gallina model + translator tie (model regenerated from the current source, Gen = Model and the property theorems about Gen re-proved on every run) + differential correspondence"
N_SEQ = "Coq kernel; extraction + OCaml driver; correspondence harness; sequential model (one caller thread, n_threads=1); CPython datetime modelled not verified"
CLAIMED = {
 "C01": ("3.1-3.3, 5 (C01)",
   "Theorems in coq/Props/C01.v (first due = least matching instant after the reference; each execution moves it by exactly one period; k-fold life of the job; reported timedelta; ignored fields) hold for every time of day, reference, offset triple and number of executions. The model is tied to the source on every run twice: the arithmetic of scheduler/util.py is re-translated and re-proved equal to the model (Tie lemmas), and generated single-job histories are run on the real scheduler and on the extracted model.",
   "Coq kernel; extraction + OCaml driver; translator py2v.py and Lib/PyTime.v; CPython datetime is modelled (Z microseconds, fixed offsets), not verified; correspondence covers years 1971-2999", T_TIE),
 "C02": ("3.1-3.3, 5 (C02)",
   "Theorems in coq/Props/C02.v: days_to_weekday in 1..7 and landing on the target for all pairs; next_weekday_time_occurrence is the least instant after the reference with matching weekday and time read in the trigger's offset; successive due times are 7 days apart; the same-weekday rule; k-fold life of a weekly job. Tied by re-translation of util.py (Tie lemmas) and by the weekly correspondence stream.",
   "as C01; translated as well: the Weekday classes and the weekday() factory (tie_weekday_factory)", T_TIE),
 "C03": ("5 (C03)",
   "Props/C03.v: after n executions at arbitrary polling instants a cyclic job is planned for s+(n+1)T (s+nT with delay=False), for every s, T and history; once(datetime/timedelta/time/weekday) are exact resp. the next occurrence, all with max_attempts 1. Tied by the cyclic correspondence stream (irregular polls, polls on an occurrence, gaps of many intervals, once() of all four kinds).",
   N_SEQ + "; translated: once() of both front ends and JOB_TYPE_MAPPING (tie_thr_once, tie_aio_once), BaseJob, JobTimer", T_TIE),
 "C04": ("3.4, 5 (C04)",
   "Props/C04.v: on every reachable state and for every iteration order, exec_jobs computes one priority per registered job from now-due, runs exactly the jobs of positive priority (default function: positive iff weight>0 and due<=now, overdue 0 included), each once, returns that count; a poll with nothing due changes no job; force_exec_all runs every registered job once. Tied by correspondence over mixed populations with polls at due, due-1us, due+0, and by re-translation of prioritization.py.",
   N_SEQ + "; IEEE rounding of the priority value is modelled over exact rationals (sign compared exactly); translated: exec_jobs selection (tie_exec_select) and post-run loop (tie_post_loop), the worker hand-over is recognised by template", T_TIE),
 "C05": ("3.4, 5 (C05)",
   "Props/C05.v, for an arbitrary priority assignment: count = min(max_exec, #positive); top-k (no waiting job with positive priority beats a chosen one); never a priority <= 0; non-increasing run order; the priority function's call log (once per registered job with now-due, max_exec, job count); exact-arithmetic laws of the built-in functions. Tied by correspondence with scripted user priority tables (negatives, zeros, ties) and the built-ins, all max_exec values; re-translation of prioritization.py.",
   N_SEQ + "; float rounding of the built-ins modelled not verified; set iteration order is read from the implementation; translated: both built-in priority functions and the selection part of exec_jobs (batch = select_batch (sort_desc (collect_prios)))", T_TIE),
 "C06": ("5 (C06)",
   "Props/C06.v: invariant proved by induction over ALL operation histories (scheduling calls of six kinds, deletions, queries, normal and forced polls, failing callbacks, re-entrant callbacks): attempts <= max_attempts for every job object ever created, every registered job has attempts left (so the call performing the n-th invocation removes it), ids that left the set never reappear, once() is max_attempts=1. Tied by the limits/general correspondence streams.",
   N_SEQ + "; asyncio front end: C17; translated: BaseJob (__init__, _calc_next_exec, has_attempts_remaining, _exec) and JobTimer, the Scheduler classes are hand-modelled", T_TIE),
 "C07": ("5 (C07)",
   "Props/C07.v: in every reachable state a registered job's planned instant is <= stop (so every invocation belongs to a due time <= stop); rescheduling marks a job whose next due time exceeds stop and the same call removes it; a job whose first due time is past stop is never registered (scheduling calls and constructor); first due is after start; stop <= start is rejected with SchedulerError. Tied by the limits stream (stop on/±1us around occurrences, constructor-injected jobs).",
   N_SEQ + "; translated: BaseJob, JobTimer, job_util checks; the Scheduler classes are hand-modelled", T_TIE),
 "C08": ("5 (C08)",
   "Props/C08.v: without skip_missing n executions at arbitrary instants consume exactly the n oldest occurrences (none lost); with skip_missing the rescheduled timer is an occurrence, >= t, later than the one consumed, with no occurrence strictly between t and it (cyclic: exactly t+T). The job-level cyclic claim is proved in partial form and REFUTED for delay=False (known finding cyclic-skip-nodelay, replayed on the implementation on every run).",
   N_SEQ, T_TIE),
 "C09": ("5 (C09)",
   "Props/C09.v: a created batched job satisfies an invariant under which the successive due times are chained by 'next occurrence of the union of all entries' (ascending, no omission, no repetition) over any number of executions; one call invokes a job at most once; the duplicate check accepts a list iff its entries denote pairwise different recurring instants (minutely/hourly/daily via instant mod period, weekly via the first occurrence after 1970-01-01). Tied by re-translation of are_times_unique and the batch stream (1-5 entries with independent offsets).",
   N_SEQ + "; typeguard's acceptance of the timing list is an oracle (sane_timing_types recognised by template)", T_TIE),
 "C10": ("5 (C10)",
   "Props/C10.v: for ANY outcome oracle and callback programs exec_jobs returns normally and keeps the state good; the whole batch is invoked; each raising invocation counts failure+attempt and emits exactly one error record; rescheduling/retiring never read the failure counter; failed <= attempts always. Tied by fault injection in the faults stream (six Exception subclasses, intermittent failures, user and default logger).",
   N_SEQ + "; Python try/except and logging are modelled (events; Job._exec of both front ends is translated with the callback's outcome as a parameter), asyncio front end in C17/C18", T_TIE),
 "C11": ("5 (C11)",
   "Props/C11.v: exact effect of every operation on the job set (schedule adds the fresh id iff the job can run; a rejected call changes nothing; delete_job removes or raises and changes nothing; delete_jobs removes exactly the selection and returns its size; queries change nothing), members are exactly the jobs that can still run, and an id that left the set never reappears (induction over histories). Tied by the registry stream (all six scheduling calls valid/invalid, deletes of registered/deleted/retired/foreign jobs, queries, polls; every returned set is cleared).",
   N_SEQ + "; asyncio front end: C18; translated: select_jobs_by_tag, delete_job/delete_jobs/get_jobs/jobs of the threading Scheduler (tie_reg_*), post-run retire loop", T_TIE),
 "C12": ("5 (C12)",
   "Props/C12.v: tag_match is subset (any_tag false) / non-empty intersection (true); get_jobs returns and delete_jobs removes exactly the matching registered jobs, None/empty = all; tags given to once() are kept on every timing path. Tied by the registry stream with once() tags passed as set, frozenset, list, tuple, generator, dict keys and None.",
   N_SEQ + "; Python set operators modelled by duplicate-free lists; translated: select_jobs_by_tag and the registry operations of the threading Scheduler", T_TIE),
 "C13": ("5 (C13)",
   "Props/C13.v: creation succeeds only with uniform awareness of every timing entry, start and stop; any mixed value is rejected by the call itself, always with SchedulerError (the model's datetime operations do return TypeError on mixing); the constructor rejects foreign-timezone jobs; no operation on a reachable state ever raises TypeError; offset invariance: same recurring instants + same reference instant give the same due instants at creation and after every rescheduling (with/without skip_missing). Tied by the awareness stream (random naive/aware assignments to scheduler, entries, start, stop, all calls and the constructor).",
   N_SEQ + "; typeguard acceptance of timing types is an oracle; translated: every check of BaseJob.__init__", T_TIE),
 "C20": ("3.7, 5 (C20)",
   "Props/C20.v: for ALL strings and widths >= 1 the abbreviation helper returns min(len,w) characters, leaves a fitting string unchanged and otherwise keeps w-1 characters plus the '#' marker; every job row is exactly as wide as the header row for arbitrary cell contents in all four table variants; the table is heading + true job count + header + dashes + exactly one row per job in ascending due-time order. Tied by re-translation of str_cutoff (Tie lemma) and by comparing str(scheduler), str(job) and str_cutoff of the real code with the extracted model over all callable kinds (def, lambda, builtin, bound/static/class method, partial, callable instance, class; asyncio variants), aliases, weights, attempt counts, timezone names and due distances, both front ends.",
   "Coq kernel; extraction + driver; translator; CPython's rendering of datetime/timedelta/float/tzname and callable attributes enters the model as strings (modelled not verified); 'never raises' for the callable kinds is exhaustive testing of a finite table", T_TIE),
 "C14": ("3.5, 5 (C14)",
   "Props/C14.v over the micro-operation model (Model/Conc.v): a concurrent execution is an arbitrary list of the atomic actions the code's locks define, so the theorems hold for all interleavings of any number of threads: the shared state stays well formed and no micro-operation fails with an internal error; an id that left the job set is never resurrected; every exec_jobs batch is duplicate free and consists of jobs registered when their priority was read; a job outside the job set when a call starts is never chosen by it. 'Never beyond its attempt budget' is REFUTED for overlapping exec_jobs calls (known finding, replayed on the implementation). Tied by deterministic thread scheduling of the REAL code (line-level switches, cooperative RLock/Thread/Queue shims): the atomic actions logged in execution order are replayed on the extracted model and results, the job set and the final job states must agree; 2-4 caller threads x 1-3 operations of all kinds.",
   "Coq kernel; extraction + driver; DST harness (cooperative shims replace OS preemption/GIL: partial); atomicity of single set operations assumed; the sequential meaning of every registry operation, of the selection and of the post-run loop is regenerated from the source and tied (with-lock blocks are sequential there: the interleavings are the micro-operation model's)", T_TIE),
 "C15": ("3.5, 5 (C15)",
   "Props/C15.v: with one worker, for arbitrary callback programs (query, schedule, delete others, delete itself, clear) exec_jobs returns normally, invokes and reschedules its whole batch, keeps the state good; the batch is fixed before any callback runs (jobs scheduled from callbacks are not run in the same call); deleted ids never return; a single running thread can always acquire the locks it asks for. For several workers the no-deadlock claim is REFUTED (lock-order inversion when a callback prints the scheduler while another uses it): known finding with a Coq witness and a DST witness on the implementation. Tied by the sequential re-entrant stream and by DST runs with n_threads in {1,2,0} and callback programs.",
   "as C14; deadlock = no enabled thread under the cooperative scheduler", T_TIE),
 "C16": ("3.5, 5 (C16)",
   "Props/C16.v over the worker-pool model: for every worker count and every interleaving of the workers each selected job is in exactly one of queue/running/done, at most m run at once, no job twice or overlapping itself, and when all workers have exited every job has been run exactly once; with n_threads=0 all can overlap; the resulting attempts/failures do not depend on the order (= sequential execution). Tied by DST runs of the real code with n_threads in {0,1,2,3,5} against batches of 0-6 jobs: callbacks logged start/finish, maximum overlap, completion before return, final state vs the model.",
   "as C14; true simultaneity is runtime (observed under cooperative scheduling); the queue/worker hand-over of __exec_jobs and _exec_job_worker are recognised by exact source templates whose meaning is the worker-pool model (any edit there is reported as a lost tie)", T_TIE),
 "C17": ("3.6, 5 (C17)",
   "Props/C17.v over the discrete-event model of the asyncio scheduler (Model/Aio.v): the supervisor resumes at max(reference, due) -- never early, no further delay; the coroutine starts at that instant with the scheduled arguments; on completion the job is counted and rescheduled by the SAME job_cycle function the C01-C09 theorems are about, with the completion instant as reference; resuming one job's task touches no other job's record; the state invariant holds after every operation and any amount of virtual time. Tied by running the real asyncio scheduler on a virtual-time event loop (integer-microsecond clock, datetime.now derived from it) against the extracted model: all job types, batching, skip_missing, stop, limits, failing coroutines, durations 0/shorter/equal/longer than the period.",
   "Coq kernel; extraction + driver; the asyncio event loop is modelled (discrete events), not verified; same-instant ordering between different jobs is not compared; wall-clock effects out of scope", T_SEQ),
 "C18": ("3.6, 5 (C18)",
   "Props/C18.v: delete_job removes the entry and cancels a suspended supervisor at once; the loop only ever resumes suspended tasks and resuming a cancelled/finished one is the identity (never started again); deleting an unregistered job raises SchedulerError and changes nothing; in every reachable state the job set contains exactly live supervisors (finished jobs vanish), for any sequence of scheduling, deletion (by reference, tags, all; before/between/during runs; from inside the job's own coroutine) and virtual time; every model transition is total. On the real code the harness additionally observes the loop's exception handler and task.exception() of every supervising task, and that constructing the scheduler without a running loop raises SchedulerError.",
   "as C17; 'no task ends with an unhandled exception' and 'constructor needs a loop' are runtime observations on every history, not theorems", T_SEQ),
 "C19": ("5 (C19)",
   "Props/C19.v: jobs own their arguments/keyword mapping/tags as values (abstract spec); creation stores exactly what was given, no operation changes a job's configuration, every invocation passes exactly those values. That the implementation refines this (insulation from the caller's later mutations) is checked by the correspondence: the harness mutates the passed dict, the passed tag set and the set returned by .tags after every scheduling call.",
   N_SEQ + "; dict.copy()/set.copy() modelled as value ownership; translated: the hand-over of handle/args/kwargs/tags from once() to __schedule", T_TIE),
}
def main():
    m = json.load(open(os.path.join(V, "MANIFEST.json")))
    props = [json.loads(l) for l in open(os.path.join(V, "properties.jsonl"))]
    checks = []
    for pid in sorted(CLAIMED):
        ref, text, note, tech = CLAIMED[pid]
        checks.append(dict(property_id=pid, quick_cmd="./check %s --tier quick" % pid,
                           thorough_cmd="./check %s --tier thorough" % pid,
                           evidence_file="evidence/%s.json" % pid,
                           replay_cmd_template="./check %s --replay {path}" % pid,
                           engine="coq-model", level_claimed=dict(category="proof", text=text, design_ref=ref),
                           level_note=note, technique=tech))
    m["checks"] = checks
    m["engines"] = [dict(name="coq-model", path="check", serves_properties=sorted(CLAIMED),
                         kind_free_text="Coq 8.16.1 development (coq/), extracted OCaml model, Python-ast translator, correspondence harness")]
    m["not_applicable"] = [dict(property_id=p["id"], reason="check not registered yet in this session (model exists; theorems and streams under construction)")
                           for p in props if p["id"] not in CLAIMED]
    json.dump(m, open(os.path.join(V, "MANIFEST.json"), "w"), indent=1)
main()
