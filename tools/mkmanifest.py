#!/usr/bin/env python3
"""Regenerates MANIFEST.json from the table below (one entry per claimed property)."""
import json, os
V = os.path.dirname(os.path.dirname(os.path.abspath(__file__)))
CLAIMED = {
 "C01": ("3.1-3.3, 5 (C01)",
   "Theorems in coq/Props/C01.v (first due = least matching instant after the reference; each execution moves it by exactly one period; k-fold life of the job; reported timedelta; ignored fields) hold for every time of day, reference, offset triple and number of executions. The model is tied to the source on every run twice: the arithmetic of scheduler/util.py is re-translated and re-proved equal to the model (Tie lemmas), and generated single-job histories are run on the real scheduler and on the extracted model.",
   "Coq kernel; extraction + OCaml driver; translator py2v.py and Lib/PyTime.v; CPython datetime is modelled (Z microseconds, fixed offsets), not verified; correspondence covers years 1971-2999",
   "Coq proof over Gallina model + translator tie + differential correspondence"),
 "C02": ("3.1-3.3, 5 (C02)",
   "Theorems in coq/Props/C02.v: days_to_weekday in 1..7 and landing on the target for all pairs; next_weekday_time_occurrence is the least instant after the reference with matching weekday and time read in the trigger's offset; successive due times are 7 days apart; the same-weekday rule; k-fold life of a weekly job. Tied by re-translation of util.py (Tie lemmas) and by the weekly correspondence stream.",
   "as C01; the Weekday classes and the weekday() factory are covered by the correspondence only",
   "Coq proof over Gallina model + translator tie + differential correspondence"),
}
def main():
    m = json.load(open(os.path.join(V, "MANIFEST.json")))
    props = [json.loads(l) for l in open(os.path.join(V, "properties.jsonl"))]
    checks = []
    for pid in sorted(CLAIMED):
        ref, text, note, tech = CLAIMED[pid]
        checks.append(dict(property_id=pid, quick_cmd="./check %s --tier quick" % pid,
                           thorough_cmd="./check %s --tier thorough" % pid,
                           evidence_file="evidence/%s.json" % pid,
                           replay_cmd_template="./check %s --replay {path}" % pid,
                           engine="coq-model", level_claimed=dict(category="proof", text=text, design_ref=ref),
                           level_note=note, technique=tech))
    m["checks"] = checks
    m["engines"] = [dict(name="coq-model", path="check", serves_properties=sorted(CLAIMED),
                         kind_free_text="Coq 8.16.1 development (coq/), extracted OCaml model, Python-ast translator, correspondence harness")]
    m["not_applicable"] = [dict(property_id=p["id"], reason="check not registered yet in this session (model exists; theorems and streams under construction)")
                           for p in props if p["id"] not in CLAIMED]
    json.dump(m, open(os.path.join(V, "MANIFEST.json"), "w"), indent=1)
main()
