#!/usr/bin/env python3
"""usage: seed.py <agentdir> <k> <name> <breaks-prop> <check-prop>[,<check-prop>...]
Confirms a sub-agent's mutant in a fresh scratch worktree (tests pass with it, demo fails with it and
passes without), runs the listed checks against it, and files it under /verif/seeded/<name>/."""
import json, os, shutil, subprocess, sys, tempfile
agentdir, k, name, breaks, checks = sys.argv[1], sys.argv[2], sys.argv[3], sys.argv[4], sys.argv[5].split(",")
patch = os.path.join(agentdir, "mutant%s.patch" % k)
demo = os.path.join(agentdir, "demo%s.py" % k)
note = os.path.join(agentdir, "note%s.md" % k)
wt = tempfile.mkdtemp(prefix="seedcheck.", dir="/tmp")
os.rmdir(wt)
def sh(cmd, cwd=None, env=None):
    try:
        p = subprocess.run(cmd, shell=True, cwd=cwd, env=env, capture_output=True, text=True, timeout=900)
    except subprocess.TimeoutExpired:
        return 124, 'TIMEOUT'
    return p.returncode, (p.stdout + p.stderr)
meta = dict(name=name, breaks=breaks, source="independent sub-agent given only the property text and a scratch worktree")
try:
    rc, out = sh("git -C /repo worktree add --detach %s HEAD -q" % wt); assert rc == 0, out
    env = dict(os.environ, PYTHONPATH=wt, PYTHONHASHSEED="0")
    shutil.copy(demo, os.path.join(wt, "_demo.py"))   # run it from inside the scratch tree (sys.path[0])
    demo_run = "_demo.py"
    rc0, out0 = sh("/venv/bin/python -W ignore %s" % demo_run, cwd=wt, env=env)
    rc, out = sh("git apply %s" % patch, cwd=wt); assert rc == 0, out
    rct, outt = sh("/venv/bin/python -m pytest -q -p no:cacheprovider 2>&1 | tail -3", cwd=wt)
    if "failed" in outt:
        rct, outt = sh("/venv/bin/python -m pytest -q -p no:cacheprovider 2>&1 | tail -3", cwd=wt)
    rc1, out1 = sh("/venv/bin/python -W ignore %s" % demo_run, cwd=wt, env=env)
    meta.update(tests_with_mutant=outt.strip().split("\n")[-1], demo_without=dict(rc=rc0, out=out0.strip()[-200:]),
                demo_with=dict(rc=rc1, out=out1.strip()[-300:]))
    ok = ("passed" in outt and "failed" not in outt) and rc0 == 0 and rc1 != 0
    meta["confirmed"] = ok
    results = {}
    for c in checks:
        rc, out = sh("VERIF_REPO=%s %s/check %s --tier quick" % (wt, os.environ.get("VERIF_HOME", "/verif"), c))
        line = [l for l in out.split("\n") if l.startswith("VIOLATION") or l.startswith(c + " quick")]
        results[c] = dict(exit=rc, lines=line)
    meta["checks"] = results
    meta["caught_by"] = [c for c, r in results.items() if r["exit"] == 1]
    meta["what_it_needs"] = open(note).read() if os.path.exists(note) else ""
    meta["ran"] = ["pytest (whole suite) with the mutant applied in a scratch worktree", "demo with and without the mutant",
                   "VERIF_REPO=<scratch> ./check <prop> --tier quick for: " + ",".join(checks)]
    d = os.path.join("/verif/seeded", name)
    os.makedirs(d, exist_ok=True)
    shutil.copy(patch, os.path.join(d, "patch.diff")); shutil.copy(demo, os.path.join(d, "demo.py"))
    if os.path.exists(note): shutil.copy(note, os.path.join(d, "note.md"))
    json.dump(meta, open(os.path.join(d, "meta.json"), "w"), indent=1)
    print(name, "confirmed" if ok else "NOT CONFIRMED", "| tests:", meta["tests_with_mutant"], "| demo rc without/with:", rc0, rc1, "| caught by:", meta["caught_by"])
    for c, r in results.items():
        print("   ", c, r["exit"], r["lines"][-1][:160] if r["lines"] else "")
finally:
    sh("git -C /repo worktree remove --force %s" % wt)
