import json, os, glob, shutil, subprocess, tempfile, sys
res = {}
for d in sorted(glob.glob('/verif/seeded/*')):
    patch = os.path.join(d, 'patch.diff')
    if not os.path.exists(patch): continue
    s = tempfile.mkdtemp(prefix='sreg.', dir='/tmp')
    try:
        shutil.copytree('/repo/scheduler', s + '/scheduler')
        p = subprocess.run(['patch', '-p1', '-s', '-i', patch], cwd=s, capture_output=True, text=True)
        if p.returncode:
            res[os.path.basename(d)] = 'NOAPPLY'; continue
        os.makedirs(s + '/gen')
        subprocess.run([sys.executable, '/verif/translator/py2v.py', s, s + '/gen'], capture_output=True, text=True)
        st = json.load(open(s + '/gen/status.json'))
        bad = sorted(k for k, v in st.items() if v != 'translated')
        res[os.path.basename(d)] = bad
    finally:
        shutil.rmtree(s, ignore_errors=True)
json.dump(res, open('/verif/build/static_regress.json', 'w'), indent=1)
lost = [k for k, v in res.items() if v and v != 'NOAPPLY']
print(len(res), 'seeded;', len(lost), 'lose a tie at translation;', [k for k,v in res.items() if v=='NOAPPLY'])
print('still translatable:', [k for k, v in res.items() if not v])
