#!/bin/sh
# regenerate build/devgen from /repo and compile every Gen*.v and Tie*.v there (dependency order by repeated passes)
cd /verif/build/devgen && rm -f *.vo *.glob *.vok *.vos .*.aux && python3 /verif/translator/py2v.py /repo . | grep -v "translated$"
cp /verif/coq/Tie/*.v .
F="-Q /verif/coq/Lib Sv -Q /verif/coq/Model Sv -Q /verif/coq/Spec Sv -Q /verif/coq/Proofs Sv -Q . Gen"
coqdep $F *.v 2>/dev/null > .deps
todo=$(ls *.v)
while [ -n "$todo" ]; do
  next=""; progress=0
  for f in $todo; do
    ready=1
    for d in $(grep "^${f%.v}.vo" .deps | sed 's/.*://' | tr ' ' '\n' | grep "^[A-Za-z]*\.vo$"); do [ -f "$d" ] || ready=0; done
    if [ $ready = 1 ]; then timeout 300 coqc $F $f > .log.$f 2>&1 && progress=1 || { echo "FAILED $f"; head -20 .log.$f; progress=1; }
    else next="$next $f"; fi
  done
  [ "$next" = "$todo" ] && { echo "stuck: $next"; break; }
  todo=$next
done
echo done
