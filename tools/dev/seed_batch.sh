#!/bin/sh
# usage: seed_batch.sh "<dir> <k> <name> <breaks> <checks>" ...
for spec in "$@"; do
  set -- $spec
  VERIF_HOME=${VERIF_HOME:-/tmp/verif-snap2} python3 /verif/tools/seed.py ${AGENTS:-/tmp/agents3}/$1 $2 $3 $4 $5 2>&1 | tail -4
done
