#!/bin/sh
# usage: tiec.sh TieX.v [lines] [timeout]  -- copy from coq/Tie and compile in build/devgen
cd /verif/build/devgen && cp /verif/coq/Tie/$1 . && start=$(date +%s) && timeout ${3:-300} coqc -Q /verif/coq/Lib Sv -Q /verif/coq/Model Sv -Q /verif/coq/Spec Sv -Q /verif/coq/Proofs Sv -Q . Gen $1 2>&1 | head -${2:-40}; echo "rc=$? $(( $(date +%s) - start ))s"
