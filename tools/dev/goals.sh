#!/bin/sh
# usage: goals.sh File.v LINE  -- shows the goals just before LINE (1-based) of the file
f=$1; n=$2
head -n $((n-1)) "$f" > /verif/build/_goals_tmp.v
printf '\nShow.\nAdmitted.\n' >> /verif/build/_goals_tmp.v
cd /verif/coq && timeout 300 coqc -Q Lib Sv -Q Model Sv -Q Spec Sv -Q Proofs Sv -Q Props Sv /verif/build/_goals_tmp.v 2>&1 | tail -${3:-60}
