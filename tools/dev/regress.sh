#!/bin/sh
# usage: regress.sh [Cxx ...]   re-run every seeded change of the given properties (default: all) against the checks of
# the snapshot worktree $VERIF_HOME (default /tmp/verif-snap2); properties in parallel (4 at a time), the changes of one
# property one after the other.  Prints one line per seeded change: caught / MISSED.
V=${VERIF_HOME:-/tmp/verif-snap2}
props=${*:-C01 C02 C03 C04 C05 C06 C07 C08 C09 C10 C11 C12 C13 C14 C15 C16 C17 C18 C19 C20}
one() {
  p=$1
  for d in /verif/seeded/*; do
    [ -f "$d/meta.json" ] || continue
    python3 - "$d" "$p" <<'PY' || continue
import json,sys
m=json.load(open(sys.argv[1]+"/meta.json"))
b=m.get("breaks")
ids=b if isinstance(b,list) else [b]
sys.exit(0 if sys.argv[2] in ids else 1)
PY
    s=$(mktemp -d /tmp/regress.XXXXXX); cp -r /repo/scheduler "$s/"
    if (cd "$s" && patch -p1 -s < "$d/patch.diff") >/dev/null 2>&1; then
      out=$(VERIF_REPO="$s" "$V/check" "$p" --tier quick 2>&1 | grep -c "^VIOLATION property=$p")
      if [ "$out" -ge 1 ]; then echo "caught $p $(basename $d)"; else echo "MISSED $p $(basename $d)"; fi
    else echo "NOAPPLY $p $(basename $d)"; fi
    rm -rf "$s"
  done
}
for p in $props; do ( one $p ) & n=$((n+1)); [ $((n % 4)) -eq 0 ] && wait; done; wait
