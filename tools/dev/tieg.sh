#!/bin/sh
# usage: tieg.sh TieX.v LINE [timeout] -- show goals before LINE of coq/Tie/TieX.v (compiled in build/devgen)
cd /verif/build/devgen && head -n $(($2-1)) /verif/coq/Tie/$1 > _g.v && printf '\nShow.\nAbort.\n' >> _g.v && start=$(date +%s) && timeout ${3:-120} coqc -Q /verif/coq/Lib Sv -Q /verif/coq/Model Sv -Q /verif/coq/Spec Sv -Q /verif/coq/Proofs Sv -Q . Gen _g.v 2>&1 | tail -${4:-40}; echo "$(( $(date +%s) - start ))s"
