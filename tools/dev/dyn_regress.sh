#!/bin/sh
# re-run the seeded changes that still translate against the snapshot's checks, one at a time
for m in $(python3 -c "
import json
d=json.load(open('/verif/build/static_regress.json'))
print(' '.join(k for k,v in d.items() if not v))"); do
  p=$(python3 -c "import json;print(json.load(open('/verif/seeded/$m/meta.json'))['breaks'])")
  s=$(mktemp -d /tmp/dreg.XXXXXX); cp -r /repo/scheduler $s/
  (cd $s && patch -p1 -s < /verif/seeded/$m/patch.diff)
  out=$(VERIF_REPO=$s /tmp/verif-snap/check $p --tier quick 2>&1 | grep "^VIOLATION property=$p" | head -1)
  if [ -n "$out" ]; then echo "caught $m $p $(echo $out | grep -o 'no-failing-input-found')"; else echo "MISSED $m $p"; fi
  rm -rf $s
done
