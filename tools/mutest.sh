#!/bin/sh
# usage: mutest.sh <patch.diff> <Cxx> [<Cxx> ...]   applies the patch to a scratch copy of /repo's
# scheduler package (never to /repo) and runs the quick checks against it
set -e
patch=$(realpath "$1"); shift
scratch=$(mktemp -d /tmp/mutest.XXXXXX)
cp -r /repo/scheduler "$scratch/"
(cd "$scratch" && patch -p1 -s < "$patch")
for p in "$@"; do
  VERIF_REPO="$scratch" /verif/check "$p" --tier quick 2>&1 | tail -3 || true
done
rm -rf "$scratch"
