"""Replay and shrink sequential correspondence failures.
   python -m harness.replay run <replay.json>      -> prints the comparison, exit 1 if it still differs
   python -m harness.replay shrink <in.json> <out.json>"""
import json
import sys

from . import core


def run_ops(ops, user_logger=True):
    impl = core.Impl(user_logger=user_logger)
    impl.run(ops)
    model = core.run_model([impl.lines])[0]
    d = core.compare_history(model, impl.blocks)
    if d is not None and d[0] == "ambiguous":
        d = None
    return d, impl.lines, model, impl.blocks


def same_kind(d0, d1):
    """keep shrinking only while the difference is of the same kind (first token of both sides)"""
    def kind(d):
        import re
        m = re.findall(r"(?:model|impl) '(\w+(?: \w+)?)", d[1])
        return tuple(x.split()[0] if x.split()[0] != "EV" else x for x in m)
    return kind(d0) == kind(d1)


def shrink(ops, user_logger=True):
    d0, _, _, _ = run_ops(ops, user_logger)
    if d0 is None:
        return ops, None
    cur = list(ops)
    changed = True
    while changed:
        changed = False
        i = len(cur) - 1
        while i >= 1:
            cand = cur[:i] + cur[i + 1:]
            try:
                d, _, _, _ = run_ops(cand, user_logger)
            except Exception:  # noqa
                d = None
            if d is not None and same_kind(d0, d):
                cur = cand
                changed = True
            i -= 1
    d, lines, model, blocks = run_ops(cur, user_logger)
    return cur, dict(diff=d[1], op_index=d[0], history=lines)


def main(argv):
    if argv[0] == "run":
        rp = json.load(open(argv[1]))
        src = rp.get("failing_input") if isinstance(rp.get("failing_input"), dict) else rp
        ops = src.get("ops")
        if not ops:
            print("replay file carries no operation list (kind=%s): nothing to execute" % rp.get("kind"))
            return 0
        d, lines, model, blocks = run_ops(ops, src.get("user_logger", True))
        for ln in lines:
            print("  " + ln[:200])
        from . import oracles
        pid = rp.get("property")
        msgs = [m for m in oracles.check(ops, blocks).get(pid, []) if not m.startswith("KNOWN[")]
        rc = 0
        if msgs:
            print("property oracle (%s) on the implementation: %s" % (pid, msgs[0]))
            rc = 1
        if d is None:
            print("model and implementation agree on this history")
        else:
            print("difference at operation %d: %s" % d)
            rc = 1
        return rc
    if argv[0] == "probe":
        # replay the witness of every known finding of a property; print KNOWN-FINDING while it still fails
        from . import oracles
        pid = argv[1]
        if pid in ("C14", "C15", "C16"):
            from . import concstream
            for ln in concstream.probe(pid):
                print(ln)
            return 0
        for kf in json.load(open(core.VERIF + "/known_findings.json")):
            if kf.get("status") != "known" or kf["property"] != pid or "witness_ops" not in kf:
                continue
            impl = core.Impl()
            impl.run(kf["witness_ops"])
            msgs = oracles.check(kf["witness_ops"], impl.blocks).get(pid, [])
            if any(m.startswith("KNOWN[%s]" % kf["id"]) for m in msgs):
                print("KNOWN-FINDING: property=%s %s: %s" % (pid, kf["id"], kf["what"]))
            other = [m for m in msgs if not m.startswith("KNOWN[")]
            if other:
                print("UNLISTED %s" % other[0])
        return 0
    if argv[0] == "shrink":
        rp = json.load(open(argv[1]))
        ops, info = shrink(rp["ops"], rp.get("user_logger", True))
        rp["ops"] = ops
        if info:
            rp.update(info)
            rp["shrunk"] = True
        json.dump(rp, open(argv[2], "w"), indent=1)
        return 0
    return 2


if __name__ == "__main__":
    sys.exit(main(sys.argv[1:]))
