"""C17/C18 correspondence: histories on the real asyncio scheduler (virtual-time loop) against the
extracted Aio model, plus property oracles.  python -m harness.aiostream <profile> <n> <seed>"""
import asyncio
import collections
import datetime as dt
import gc
import json
import logging
import random
import subprocess
import sys

from . import core, gen, vloop
from .core import s_cfg, s_ot, s_otags, s_list, tagname

SEC = 10**6


def s_aop(o):
    if o[0] == "DEL":
        return "DEL %d" % o[1]
    if o[0] in ("DELJOBS", "GETJOBS"):
        return "%s %s %d" % (o[0], s_otags(o[1]), int(o[2]))
    return "JOBS"


def s_atop(o):
    k = o[0]
    if k == "AINIT":
        return "AINIT %s %d" % (core.s_otz(o[1]), o[2])
    if k == "ASCHED":
        return "ASCHED %s %s %s %s %s" % (s_cfg(o[1]), s_list(o[2]), s_list(o[3], s_aop), s_list(o[4], s_aop),
                                          s_list(o[5], lambda b: str(int(b))))
    if k == "AONCE":
        return "AONCE %s %s %s %s %s %s" % (s_ot(o[1]), s_cfg(o[2]), s_list(o[3]), s_list(o[4], s_aop), s_list(o[5], s_aop),
                                            s_list(o[6], lambda b: str(int(b))))
    if k == "AOP":
        return "AOP " + s_aop(o[1])
    if k == "ARUN":
        return "ARUN %d" % o[1]
    raise ValueError(o)


class AioImpl:
    def __init__(self, user_logger=True):
        self.m = core.load_impl()
        self.user_logger = user_logger
        self.jobs = {}
        self.tasks = {}
        self.next_id = 0
        self.events = []
        self.sent = {}
        self.lines = []
        self.blocks = []
        self.loop_errors = []
        self.sch = None
        self.loop = None

    def job_id(self, job):
        for i, j in self.jobs.items():
            if j is job:
                return i
        return -1

    def do_aop(self, o):
        sch = self.sch
        if o[0] == "DEL":
            job = self.jobs.get(o[1])
            if job is None:
                from scheduler.asyncio.job import Job as AJob
                job = AJob(self.m["JobType"].CYCLIC, [dt.timedelta(seconds=1)], lambda: None, tzinfo=self.tz)
            sch.delete_job(job)
            return ("none",)
        if o[0] == "DELJOBS":
            tags = None if o[1] is None else {tagname(t) for t in o[1]}
            return ("int", sch.delete_jobs(tags, o[2]) if o[2] else sch.delete_jobs(tags))
        if o[0] == "GETJOBS":
            tags = None if o[1] is None else {tagname(t) for t in o[1]}
            res = sch.get_jobs(tags, o[2]) if o[2] else sch.get_jobs(tags)
            ids = sorted(self.job_id(j) for j in res)
            res.clear()
            return ("ids", ids)
        res = sch.jobs
        ids = sorted(self.job_id(j) for j in res)
        res.clear()
        return ("ids", ids)

    def make_coro(self, jid, c, durs, pre, post, sync=()):
        impl = self
        outs = c["outs"]

        async def coro(*args, **kwargs):
            job = impl.jobs.get(jid)
            n = job.attempts if job is not None else 0
            due = core.dt_parts(job.datetime)[0] if job is not None else -1
            impl.events.append("EV start %d %d %d [%s] {%s}" % (
                jid, impl.loop.now_us(), due, ",".join(str(a) for a in args),
                ",".join("%s:%s" % (kk[1:], v) for kk, v in kwargs.items())))
            if jid in impl.sent and core.identity_lost(impl.sent[jid], args, kwargs):
                impl.events.append("EV identity-lost %d" % jid)   # never produced by the model
            for o in pre:
                impl.do_aop(o)
            d = max(0, durs[n]) if n < len(durs) else 0
            try:
                await asyncio.sleep(d / 1e6)
            except asyncio.CancelledError:
                impl.events.append("EV cancel %d %d" % (jid, impl.loop.now_us()))
                raise
            impl.events.append("EV end %d %d" % (jid, impl.loop.now_us()))
            for o in post:
                impl.do_aop(o)
            if n < len(outs) and outs[n]:
                raise core.failure_class(jid + n)("scripted failure")

        coro.__name__ = coro.__qualname__ = "coro%d" % jid
        if not any(sync):
            return coro

        def handle(*args, **kwargs):
            # a plain callable: on scripted runs the CALL itself raises, before any coroutine exists
            job = impl.jobs.get(jid)
            n = job.attempts if job is not None else 0
            if n < len(sync) and sync[n]:
                raise core.failure_class(jid + n + 1)("raised by the call itself")
            return coro(*args, **kwargs)

        handle.__name__ = handle.__qualname__ = "handle%d" % jid
        return handle

    def on_log(self, record):
        jid = -1
        if record.args:
            a = record.args[0] if isinstance(record.args, tuple) else record.args
            jid = self.job_id(a)
        self.events.append("EV log %d" % jid)
        if record.levelno < logging.ERROR or record.exc_info is None:
            self.events.append("EV not-an-error-record %d level=%d" % (jid, record.levelno))
        job = self.jobs.get(jid)
        if job is not None and job.failed_attempts > job.attempts:
            self.events.append("EV counters %d failed=%d attempts=%d" % (jid, job.failed_attempts, job.attempts))

    def observe(self, res):
        out = []
        if res[0] == "err":
            out.append("RES err " + res[1])
        elif res[0] == "none":
            out.append("RES ok none")
        elif res[0] == "int":
            out.append("RES ok int %d" % res[1])
        elif res[0] == "ids":
            out.append("RES ok ids " + ",".join(str(i) for i in res[1]))
        elif res[0] == "job":
            out.append("RES ok job %d" % res[1])
        out.append("REG " + ",".join(str(i) for i in sorted(self.job_id(j) for j in self.sch.jobs)))
        for jid in sorted(self.jobs):
            j = self.jobs[jid]
            u, off = core.dt_parts(j.datetime)
            out.append("J %d %d %s %d %d %d" % (jid, u, core.s_otz(off), j.attempts, j.failed_attempts,
                                                int(j.has_attempts_remaining)))
            core.Impl.check_reported(self, jid, j)
        out.extend(self.events)
        out.append("END")
        self.events = []
        return out

    def act(self, o):
        """the public call itself (synchronous); returns the observation of its result"""
        k = o[0]
        sch = self.sch
        try:
            if k in ("ASCHED", "AONCE"):
                jid = self.next_id
                self.next_id += 1
                c = o[1] if k == "ASCHED" else o[2]
                durs, pre, post, sync = (o[2], o[3], o[4], o[5]) if k == "ASCHED" else (o[3], o[4], o[5], o[6])
                coro = self.make_coro(jid, c, durs, pre, post, sync)
                if c.get("bound"):
                    coro = core.Holder(sch, coro).call
                kw = dict(max_attempts=c["max"], tags={tagname(t) for t in c["tags"]}, skip_missing=c["skip"],
                          args=tuple(core.Val(a) for a in c["args"]) if c["args"] else None,
                          kwargs={"k%d" % kk: core.Val(v) for kk, v in c["kwargs"]} if c["kwargs"] else ({} if jid % 3 == 0 else None))
                self.sent[jid] = (kw["args"], dict(kw["kwargs"]) if kw["kwargs"] else None)
                if not c["delay"]:
                    kw["delay"] = False
                if c["start"] is not None:
                    kw["start"] = core.mk_dt(c["start"])
                if c["stop"] is not None:
                    kw["stop"] = core.mk_dt(c["stop"])
                if k == "ASCHED":
                    objs = [core.Impl.timing_obj(self, e) for e in c["timing"]]
                    timing = objs[0] if len(objs) == 1 else objs
                    job = getattr(sch, core.TYPE_NAMES[c["type"]])(timing, coro, **kw)
                else:
                    ot = o[1]
                    if ot[0] == "D":
                        t = core.mk_dt(ot[1])
                    elif ot[0] == "TD":
                        t = dt.timedelta(microseconds=ot[1])
                    elif ot[0] == "TM":
                        t = core.mk_time(ot[1])
                    else:
                        t = self.m["trigger"].weekday(ot[1], core.mk_time(ot[2]))
                    tags = core.Impl.once_tags(self, c)
                    job = sch.once(t, coro, args=kw["args"], kwargs=kw["kwargs"], tags=tags)
                if isinstance(kw["kwargs"], dict):
                    kw["kwargs"]["k99"] = 99
                if k == "ASCHED":
                    kw["tags"].clear()         # the caller recycles its set: the job must keep what it was given
                    kw["tags"].add("t99")
                handed = job.tags
                handed.add("t98")
                handed.add(tagname(1 + jid % 3))
                self.jobs[jid] = job
                self.tasks[jid] = sch._jobs.get(job)
                res = ("job", jid)
            elif k == "AOP":
                res = self.do_aop(o[1])
            else:
                raise ValueError(o)
        except (KeyboardInterrupt, SystemExit, GeneratorExit):
            raise
        except BaseException as e:  # noqa
            res = ("err", core.exc_name(e))
        return res

    async def step(self, o, res=None):
        if res is None:
            if o[0] == "ARUN":
                delta = o[1] - self.loop.now_us()
                if delta > 0:
                    await asyncio.sleep(delta / 1e6)
                res = ("none",)
            else:
                res = self.act(o)
        ok = await vloop.settle(self.loop)
        if not ok:
            res = ("err", "Other:NoQuiescence")
        self.lines.append(s_atop(o))
        self.blocks.append(self.observe(res))

    def run(self, history, gen_fn=None):
        """history[0] must be AINIT. gen_fn(impl) may yield further ops online."""
        init = history[0]
        self.tz = core.tzof(init[1])
        loop = vloop.VLoop(init[2], self.m["clock"])
        self.loop = loop
        loop.set_exception_handler(lambda l, ctx: self.loop_errors.append(str(ctx.get("message")) + " " + repr(ctx.get("exception"))))
        ops = [init]
        # a quarter of the histories: the scheduler is built for an explicit loop that is not running yet, and the
        # first scheduling call is made before the loop runs (its supervising task must wait on THAT loop)
        preloop = (init[2] // 7) % 4 == 0

        def build(**extra):
            if self.user_logger:
                self.logger = logging.getLogger("verif.aio.%d" % id(self))
            else:
                self.logger = logging.getLogger("scheduler")
            self.logger.propagate = False
            self.logger.handlers = []          # configured after the scheduler was built
            # ... and in half of the histories it is silent while the scheduler is built (level raised afterwards)
            late_level = (init[2] // 3) % 2 == 0
            self.logger.setLevel(logging.CRITICAL + 10 if late_level else logging.DEBUG)
            from scheduler.asyncio import Scheduler as AioScheduler
            kw = dict(tzinfo=self.tz, **extra)
            if self.user_logger:
                kw["logger"] = self.logger
            self.sch = AioScheduler(**kw)
            self.logger.setLevel(logging.DEBUG)
            self.logger.handlers = [core._CountingHandler(self.on_log)]
            self.lines.append(s_atop(init))
            self.blocks.append(self.observe(("none",)))

        rest = list(history[1:])
        agen = gen_fn(self).__aiter__() if gen_fn is not None else None
        if preloop:
            build(loop=loop)
            first = None
            if rest:
                first = rest.pop(0)
            elif agen is not None:
                try:
                    first = loop.run_until_complete(agen.__anext__())
                    ops.append(first)
                except StopAsyncIteration:
                    agen = None
            if first is not None:
                res = self.act(first) if first[0] in ("ASCHED", "AONCE") else None     # no loop is running here
                loop.run_until_complete(self.step(first, res))

        async def main():
            if not preloop:
                build()
            for o in rest:
                await self.step(o)
            if agen is not None:
                async for o in agen:
                    ops.append(o)
                    await self.step(o)
            # leave no task behind
            try:
                self.sch.delete_jobs()
            except Exception as e:  # noqa
                self.loop_errors.append("final delete_jobs raised %r" % (e,))
            await vloop.settle(loop)

        try:
            loop.run_until_complete(main())
            loop.run_until_complete(asyncio.sleep(0))
        finally:
            self.task_errors = []
            for jid, t in self.tasks.items():
                if t is not None and t.done() and not t.cancelled() and t.exception() is not None:
                    self.task_errors.append("task of job %d ended with %r" % (jid, t.exception()))
            loop.close()
            gc.collect()
        return ops + list(history[1:]) if gen_fn is None else ops


# ---------------------------------------------------------------------------------------------------
class AioProfile:
    kinds = [0, 0, 0, 1, 2, 3, 4]
    p_prog = 0.15
    p_once = 0.2
    p_skip = 0.3
    p_stop = 0.25
    p_max = 0.6
    p_fail = 0.25
    p_batched = 0.2
    p_delete = 0.12
    p_query = 0.08
    p_aware = 0.5
    max_jobs = 4
    min_ops, max_ops = 4, 12


class AioDelete(AioProfile):
    p_prog = 0.5
    p_delete = 0.3
    p_max = 0.7


PROFILES = {"aio": AioProfile, "aiodelete": AioDelete}


def gen_aop(r, n_known):
    k = r.random()
    if k < 0.55:
        return ("DEL", r.randrange(0, n_known + 1))
    if k < 0.75:
        return ("DELJOBS", gen.gen_tags(r), r.random() < 0.5)
    if k < 0.9:
        return ("GETJOBS", gen.gen_tags(r), r.random() < 0.5)
    return ("JOBS",)


def period_of(c):
    ty = c["type"]
    if ty == 0:
        return max(c["timing"][0][1], 1)
    return gen.PERIOD[ty]


def gen_job(r, P, aware, now, jid):
    GP = gen.Profile
    if r.random() < P.p_once:
        o = gen.gen_once(r, GP, aware, now)
        c = o[2]
        c["tagkind"] = r.choice(["set", "set", "frozenset", "list", "tuple", "gen", "keys", "none"])
        if c["tagkind"] == "none":
            c["tags"] = []
        if o[1][0] == "D" and r.random() < 0.7:
            # keep one-shot datetimes near the current instant
            o = ("ONCE", ("D", gen.local_dt(now + r.choice([-1, 0, 1]) * r.randrange(0, 100 * SEC), gen.aware_off(r, aware))), c)
        per = 10 * SEC
        kind = "AONCE"
    else:
        ty = r.choice(P.kinds)
        c = core.default_cfg(type=ty)
        if ty == 0:
            # ... up to periods beyond 2**31 ms (a sleep longer than a 32-bit millisecond timer can hold)
            c["timing"] = [("C", r.choice([0, 1, SEC, 2 * SEC, 5 * SEC, 60 * SEC, 3600 * SEC, r.randrange(1, 100 * SEC),
                                           26 * 86400 * SEC, 30 * 86400 * SEC + 1]))]
        else:
            n = 1 if r.random() > P.p_batched else r.randrange(2, 4)
            c["timing"] = []
            for _ in range(n):
                t = gen.rand_time(r, gen.aware_off(r, aware))
                c["timing"].append(("W", r.randrange(7), t) if ty == 4 else ("T", t))
        c["skip"] = r.random() < P.p_skip
        per = period_of(c)
        if r.random() < P.p_max or (ty == 0 and c["timing"][0][1] < SEC):
            c["max"] = r.choice([1, 1, 2, 3, 5])
        if r.random() < 0.4:
            su = now + r.choice([-1, 1]) * r.choice([0, 1, per, 3 * per, r.randrange(0, 3 * per + 1)])
            c["start"] = gen.local_dt(su, gen.aware_off(r, aware))
            if r.random() < 0.15:
                c["delay"] = False
        if r.random() < P.p_stop:
            base = utc_of(c["start"]) if c["start"] is not None else now
            c["stop"] = gen.local_dt(base + r.choice([1, per - 1, per, per + 1, 2 * per, 5 * per + 1]), gen.aware_off(r, aware))
        if r.random() < 0.4:
            c["tags"] = sorted(r.sample(range(5), r.randrange(1, 3)))
        kind = "ASCHED"
    if r.random() < P.p_fail:
        c["outs"] = [r.random() < 0.5 for _ in range(r.randrange(1, 5))]
    durs = [r.choice([0, 0, per // 3, per, per + per // 2 + 1, 3 * per, 1, r.randrange(0, 2 * per + 1)]) for _ in range(r.randrange(0, 5))]
    pre = [gen_aop(r, jid + 1) for _ in range(r.randrange(1, 3))] if r.random() < P.p_prog / 2 else []
    post = [gen_aop(r, jid + 1) for _ in range(r.randrange(1, 3))] if r.random() < P.p_prog / 2 else []
    sync = [r.random() < 0.5 for _ in range(r.randrange(1, 4))] if r.random() < 0.12 else []
    if kind == "ASCHED":
        return ("ASCHED", c, durs, pre, post, sync), per
    return ("AONCE", o[1], c, durs, pre, post, sync), per


def utc_of(d):
    return d[0] - (d[1] or 0)


def make_history_gen(r, P, aware, now0):
    async def gen_ops(impl):
        now = now0
        periods = []
        for _ in range(r.randrange(P.min_ops, P.max_ops + 1)):
            k = r.random()
            n_live = len(impl.sch.jobs)
            if (k < 0.35 and n_live < P.max_jobs) or (n_live == 0 and k < 0.6):
                o, per = gen_job(r, P, aware, now, impl.next_id)
                periods.append(per)
                yield o
            elif k < 0.35 + P.p_delete:
                yield ("AOP", gen_aop(r, impl.next_id))
            elif k < 0.35 + P.p_delete + P.p_query:
                yield ("AOP", ("GETJOBS", gen.gen_tags(r), r.random() < 0.5))
            else:
                per = min(periods) if periods else SEC
                # aim at a wake-up, or advance by a few periods
                dues = [core.dt_parts(j.datetime)[0] for j in impl.jobs.values()]
                if dues and r.random() < 0.4:
                    tgt = r.choice(dues) + r.choice([0, 0, -1, 1, per // 2])
                    step = max(0, tgt - now)
                else:
                    step = r.choice([0, 1, per // 2, per - 1, per, per + 1, 3 * per, 7 * per + 5, r.randrange(0, 4 * per + 1), r.choice(periods or [SEC])])
                step = min(step, 12 * per + 5)
                now = impl.loop.now_us() + step
                yield ("ARUN", now)
    return gen_ops


# ---------------------------------------------------------------------------------------------------
def oracle(ops, blocks, impl):
    """C17/C18 oracles on the implementation's own observations"""
    fails = {}

    def bad(pid, msg):
        fails.setdefault(pid, []).append(msg)

    for e in impl.loop_errors:
        bad("C18", "event loop exception handler called: %s" % e[:200])
    for e in impl.task_errors:
        bad("C18", e)
        bad("C10", "asyncio: an exception escaped from a job into its supervising task: " + e)
    last_end = {}
    deleted = set()
    cfgs = {}
    seen, gone = set(), set()
    prev_reg, prev_failed = None, {}
    nid = 0
    for o, b in zip(ops, blocks):
        if o[0] in ("ASCHED", "AONCE"):
            cfgs[nid] = o[1] if o[0] == "ASCHED" else o[2]
            if o[0] == "AONCE":
                cfgs[nid] = dict(cfgs[nid], max=1)
            nid += 1
        reg = []
        jobs = {}
        for ln in b:
            p = ln.split()
            if p[0] == "REG":
                reg = [int(x) for x in p[1].split(",")] if len(p) > 1 else []
            elif p[0] == "J":
                jobs[int(p[1])] = dict(due=int(p[2]), att=int(p[4]), failed=int(p[5]), has=int(p[6]))
            elif p[0] == "RES" and p[1] == "err" and o[0] in ("ARUN",):
                bad("C18", "running the loop raised %s" % p[2])
            elif p[0] == "EV" and p[1] == "start":
                jid, t, due = int(p[2]), int(p[3]), int(p[4])
                c = cfgs.get(jid)
                if c is not None:
                    exp_args = "[%s]" % ",".join(str(a) for a in c["args"])
                    exp_kw = "{%s}" % ",".join("%d:%d" % tuple(kv) for kv in c["kwargs"])
                    if (p[5], p[6]) != (exp_args, exp_kw):
                        bad("C19", "asyncio job %d received %s %s, scheduled with %s %s" % (jid, p[5], p[6], exp_args, exp_kw))
                if t < due:
                    bad("C17", "job %d started at %d, before its due time %d" % (jid, t, due))
                if jid in last_end and t != max(due, last_end[jid]):
                    bad("C17", "job %d started at %d, expected max(due %d, previous end %d)" % (jid, t, due, last_end[jid]))
                if jid in deleted:
                    bad("C18", "job %d started after it was deleted" % jid)
            elif p[0] == "EV" and p[1] == "end":
                last_end[int(p[2])] = int(p[3])
                if int(p[2]) in deleted:
                    bad("C18", "an invocation of deleted job %d ran to completion" % int(p[2]))
        if o[0] == "AOP" and o[1][0] == "DEL" and b[0].startswith("RES ok"):
            deleted.add(o[1][1])
        for jid in reg:
            if jid in jobs and not jobs[jid]["has"]:
                bad("C18", "finished job %d is still in jobs at a quiescent point" % jid)
                bad("C06", "asyncio: exhausted job %d is still registered" % jid)
        nlogs = sum(1 for ln in b if ln.startswith("EV log"))
        nfail = sum(st["failed"] - prev_failed.get(jid, 0) for jid, st in jobs.items())
        if nlogs != nfail:
            bad("C10", "asyncio: %d failures but %d error records on the scheduler's logger" % (nfail, nlogs))
        for jid, st in jobs.items():
            c = cfgs.get(jid)
            if st["failed"] > st["att"]:
                bad("C10", "asyncio job %d: failed_attempts > attempts" % jid)
            if c is not None and c["max"] > 0 and st["att"] > c["max"]:
                bad("C06", "asyncio job %d: attempts %d > max_attempts %d" % (jid, st["att"], c["max"]))
            prev_failed[jid] = st["failed"]
        if b[0].startswith("RES err") and o[0] == "ARUN":
            bad("C10", "asyncio: running the loop raised")
        cur = set(reg)
        if cur & gone:
            bad("C06", "asyncio: jobs %s reappeared" % sorted(cur & gone))
            bad("C11", "asyncio: jobs %s reappeared" % sorted(cur & gone))
        gone |= (seen - cur)
        seen |= cur
        if o[0] == "AOP" and prev_reg is not None:
            a = o[1]
            res = b[0].split()
            if a[0] in ("GETJOBS", "DELJOBS", "JOBS") and res[1] == "ok":
                tags, anyt = (a[1], a[2]) if a[0] != "JOBS" else (None, False)
                sel = []
                for jid in prev_reg:
                    jt = set(cfgs[jid]["tags"]) if jid in cfgs else set()
                    if not tags or (anyt and set(tags) & jt) or ((not anyt) and set(tags) <= jt):
                        sel.append(jid)
                if a[0] == "DELJOBS":
                    if int(res[3]) != len(sel) or sorted(reg) != sorted(x for x in prev_reg if x not in sel):
                        bad("C12", "asyncio delete_jobs(%s, %s) returned %s, selection %s, left %s" % (tags, anyt, res[3], sel, reg))
                        bad("C11", "asyncio delete_jobs(%s, %s) returned %s, selection %s" % (tags, anyt, res[3], sel))
                else:
                    got = [int(x) for x in res[3].split(",")] if len(res) > 3 else []
                    if got != sorted(sel):
                        bad("C12", "asyncio get_jobs(%s, %s) returned %s, expected %s" % (tags, anyt, got, sorted(sel)))
            if a[0] == "DEL":
                if a[1] in prev_reg:
                    if res[1] != "ok" or sorted(reg) != sorted(x for x in prev_reg if x != a[1]):
                        bad("C11", "asyncio delete_job of a registered job: %s" % res)
                elif res[1:3] != ["err", "SchedulerError"] or reg != prev_reg:
                    bad("C11", "asyncio delete_job of an unregistered job: %s" % res)
        prev_reg = reg
    return fails


def compare(mblocks, iblocks, has_progs):
    """per-job event sequences, states and results; None when equal"""
    if len(mblocks) != len(iblocks):
        return (min(len(mblocks), len(iblocks)), "number of blocks: model %d impl %d" % (len(mblocks), len(iblocks)))
    for i, (mb, ib) in enumerate(zip(mblocks, iblocks)):
        def split(b, strip_phase):
            st = []
            evs = collections.defaultdict(list)
            times = collections.defaultdict(set)
            for ln in b:
                p = ln.split()
                if p[0] == "TIE":
                    times["TIE"] |= {"a", "b"}      # the model saw two tasks runnable at one instant
                    continue
                if p[0] == "J" and strip_phase:
                    st.append(" ".join(p[:7]))
                elif p[0] == "EV":
                    evs[p[2]].append(ln)
                    if len(p) > 3 and p[1] != "log":
                        times[p[3]].add(p[2])
                else:
                    if ln.startswith("RES err OtherError"):
                        ln = "RES err Other"
                    elif ln.startswith("RES err Other:"):
                        ln = "RES err Other"
                    st.append(ln)
            return st, evs, times
        ms, me, mt = split(mb, True)
        is_, ie, it = split(ib, True)
        # same-instant events of different jobs on EITHER side (the implementation may have started a job the
        # model never starts because another job's coroutine deleted it at that very instant, or vice versa)
        both = collections.defaultdict(set)
        for tt in (mt, it):
            for k, v in tt.items():
                both[k] |= v
        if has_progs and any(len(v) > 1 for v in both.values()):
            return ("ambiguous", i)
        if ms != is_:
            for x, y in zip(ms, is_):
                if x != y:
                    return (i, "model %r / impl %r" % (x, y))
            return (i, "model %r / impl %r" % (ms[-2:], is_[-2:]))
        if dict(me) != dict(ie):
            for k in sorted(set(me) | set(ie)):
                if me.get(k) != ie.get(k):
                    return (i, "model %r / impl %r" % ("EV " + str(me.get(k))[:300], "EV " + str(ie.get(k))[:300]))
    return None


def run_stream(profile, n, seed, keep_samples=2):
    P = PROFILES[profile]
    r = random.Random("%s/%d" % (profile, seed))
    stats = collections.Counter()
    all_lines, all_blocks, all_ops, progs, ofails = [], [], [], [], []
    for i in range(n):
        aware = r.random() < P.p_aware
        tz = gen.rand_offset(r) if aware else None
        now = gen.rand_instant(r)
        impl = AioImpl(user_logger=r.random() < 0.5)
        ops = impl.run([("AINIT", tz, now)], make_history_gen(r, P, aware, now))
        all_lines.append(impl.lines)
        all_blocks.append(impl.blocks)
        all_ops.append(ops)
        progs.append(any(o[0] in ("ASCHED", "AONCE") and (o[-2] or o[-3]) for o in ops))
        for o in ops:
            stats["op." + (o[0] if o[0] != "AOP" else o[1][0])] += 1
        for b in impl.blocks:
            for ln in b:
                if ln.startswith("EV start"):
                    stats["invocations"] += 1
                elif ln.startswith("EV cancel"):
                    stats["cancelled_invocations"] += 1
                elif ln.startswith("RES err"):
                    stats["err." + ln.split()[2]] += 1
        for pid, msgs in oracle(ops, impl.blocks, impl).items():
            stats["oracle." + pid] += 1
            if len(ofails) < 40:
                ofails.append(dict(property=pid, message=msgs[0], index=i, ops=ops, lines=impl.lines))
    # C18: creating the scheduler without a running event loop raises SchedulerError
    try:
        from scheduler.asyncio import Scheduler as AioScheduler
        AioScheduler()
        ofails.append(dict(property="C18", message="Scheduler() without a running loop did not raise", index=-1, ops=None, lines=[]))
    except (KeyboardInterrupt, SystemExit, GeneratorExit):
        raise
    except BaseException as e:  # noqa
        if core.exc_name(e) != "SchedulerError":
            for pid in ("C18", "C17", "C13"):
                ofails.append(dict(property=pid, message="Scheduler() without a running loop raised %r (%s)" % (e, core.exc_name(e)),
                                   index=-1, ops=None, lines=[]))
    model = core.run_model(all_lines)
    mismatches = []
    sigs = set()
    nontriv = 0
    for i, (mb, ib) in enumerate(zip(model, all_blocks)):
        d = compare(mb, ib, progs[i])
        if d is not None and d[0] == "ambiguous":
            stats["tie_ambiguous_histories"] += 1
        elif d is not None:
            mismatches.append(dict(index=i, op_index=d[0], diff=d[1], lines=all_lines[i][: d[0] + 1], ops=all_ops[i]))
        sg = "\n".join(all_lines[i])
        if sg not in sigs and any(ln.startswith("EV start") or ln.startswith("RES err") for b in ib for ln in b):
            nontriv += 1
        sigs.add(sg)
    if len(model) != len(all_blocks):
        mismatches.append(dict(index=-1, op_index=-1, diff="model produced %d histories, impl %d" % (len(model), len(all_blocks)), lines=[]))
    return dict(profile=profile, seed=seed, histories=n, distinct_nontrivial=nontriv, stats=dict(stats),
                mismatches=mismatches[:20], n_mismatches=len(mismatches), oracle_failures=ofails, oracle_errors=[],
                samples=[all_lines[i] for i in range(min(keep_samples, n))])


if __name__ == "__main__":
    json.dump(run_stream(sys.argv[1], int(sys.argv[2]), int(sys.argv[3])), sys.stdout)
