"""Deterministic thread scheduling for the real scheduler code (no hooks in /repo).

The names `threading` and `queue` inside scheduler.threading.scheduler, scheduler.threading.job
and scheduler.base.job_timer are rebound to cooperative shims: at any moment exactly one
controlled thread runs; it hands control back to the controller at every source line of the
library (sys.settrace), at every lock acquisition, queue operation, thread start and join.  The
controller picks the next thread with a seeded chooser, so a schedule replays exactly, and a
state in which nobody can move is reported as a deadlock.

Atomic actions of the library on its shared state are logged in execution order (which is a total
order here): accesses to the job set through a logging set subclass, and Job-level actions
(_calc_next_exec, has_attempts_remaining, timedelta) through wrappers on BaseJob."""
import queue as _q
import sys
import threading as _th
import types

from . import core

LIB = None   # path prefix of the library under test, set by install()


class Deadlock(Exception):
    pass


class Ctl:
    def __init__(self, chooser):
        self.chooser = chooser
        self.threads = {}
        self.order = []
        self.cur = None
        self.mu = _th.Condition()
        self.trace = []
        self.log = []          # (thread name, kind, data)
        self.opctx = {}        # thread ident -> stack of current public operations
        self.steps = 0

    def name(self):
        t = self.threads.get(_th.get_ident())
        return t["name"] if t else "?"

    def register(self, name):
        me = _th.get_ident()
        with self.mu:
            self.threads[me] = {"name": name, "blocked": None, "done": False, "tag": None}
            self.order.append(me)

    def yield_point(self, tag, blocked=None):
        me = _th.get_ident()
        if me not in self.threads:
            return
        with self.mu:
            t = self.threads[me]
            t["blocked"] = blocked
            t["tag"] = tag
            self.cur = None
            self.mu.notify_all()
            while self.cur != me:
                self.mu.wait()
            t["blocked"] = None

    def enter(self, tag):
        """first stop of a freshly started thread: wait to be chosen WITHOUT releasing anybody's turn (the thread
        that started it is still running)"""
        me = _th.get_ident()
        with self.mu:
            t = self.threads[me]
            t["blocked"] = None
            t["tag"] = tag
            while self.cur != me:
                self.mu.wait()

    def finish(self):
        me = _th.get_ident()
        with self.mu:
            self.threads[me]["done"] = True
            self.cur = None
            self.mu.notify_all()

    def run(self, max_steps=200000):
        with self.mu:
            while True:
                while self.cur is not None:
                    self.mu.wait()
                live = [i for i in self.order if not self.threads[i]["done"]]
                if not live:
                    return
                en = [i for i in live if self.threads[i]["blocked"] is None or self.threads[i]["blocked"]()]
                if not en:
                    raise Deadlock([(self.threads[i]["name"], self.threads[i]["tag"]) for i in live])
                self.steps += 1
                if self.steps > max_steps:
                    raise RuntimeError("DST step limit")
                pick = self.chooser([self.threads[i]["name"] for i in en], self)
                i = en[pick]
                self.trace.append(self.threads[i]["name"])
                self.cur = i
                self.mu.notify_all()

    def emit(self, kind, data=None):
        self.log.append((self.name(), kind, data))


CTL = None


def _tracer(frame, event, arg):
    if not frame.f_code.co_filename.startswith(LIB):
        return None

    def local(frame, event, arg):
        if event == "line" and CTL is not None:
            CTL.yield_point(("line", frame.f_code.co_filename[len(LIB):], frame.f_lineno))
        return local
    return local


class CoopRLock:
    def __init__(self):
        self.owner = None
        self.count = 0

    def acquire(self, blocking=True, timeout=-1):
        me = _th.get_ident()
        if CTL is not None and me in CTL.threads:
            CTL.yield_point(("acquire",))
            while self.owner not in (None, me):
                CTL.yield_point(("lockwait",), blocked=lambda: self.owner is None)
        self.owner = me
        self.count += 1
        return True

    def release(self):
        self.count -= 1
        if self.count == 0:
            self.owner = None

    __enter__ = acquire

    def __exit__(self, *a):
        self.release()


class CoopThread:
    n = 0

    def __init__(self, target=None, args=(), name=None, kwargs=None, daemon=None):
        CoopThread.n += 1
        self.name = name or "w%d" % CoopThread.n
        self.target = target
        self.args = args
        self.daemon = True
        self.finished = False
        self.exc = None
        self.t = _th.Thread(target=self._run, daemon=True)

    def _run(self):
        CTL.register(self.name)
        sys.settrace(_tracer)
        CTL.enter(("start",))
        try:
            self.target(*self.args)
        except BaseException as e:  # noqa
            self.exc = e
        finally:
            sys.settrace(None)
            self.finished = True
            CTL.finish()

    def start(self):
        if CTL is not None and _th.get_ident() in CTL.threads:
            CTL.emit("spawn", self.name)
        self.t.start()
        while True:
            with CTL.mu:
                if self.t.ident in CTL.threads:
                    break

    def join(self, timeout=None):
        while not self.finished:
            CTL.yield_point(("join",), blocked=lambda: self.finished)

    def is_alive(self):
        return not self.finished


class CoopQueue:
    def __init__(self, maxsize=0):
        self.items = []
        self.unfinished = 0

    def put(self, x, block=True, timeout=None):
        self.items.append(x)
        self.unfinished += 1

    def get(self, block=True, timeout=None):
        if CTL is not None:
            CTL.yield_point(("qget",))
        if not self.items:
            if not block:
                raise _q.Empty
            # a blocking get on an empty queue waits (for ever, if nobody puts)
            while not self.items:
                CTL.yield_point(("qget-wait",), blocked=lambda: bool(self.items))
        return self.items.pop(0)

    def task_done(self):
        self.unfinished -= 1

    def join(self):
        while self.unfinished:
            CTL.yield_point(("qjoin",), blocked=lambda: self.unfinished == 0)

    def empty(self):
        if CTL is not None:
            CTL.yield_point(("qempty",))
        return not self.items

    def qsize(self):
        if CTL is not None:
            CTL.yield_point(("qsize",))
        return len(self.items)


class LogSet(set):
    """the job set: every access is one atomic action and is logged"""
    ids = None   # callable job -> id

    def _id(self, x):
        return LogSet.ids(x) if LogSet.ids else -1

    @staticmethod
    def _emit(kind, data):
        if CTL is not None and _th.get_ident() in CTL.threads:
            CTL.emit(kind, data)

    on_add = None   # callable job -> None: lets the harness number a job at the moment it is added

    def add(self, x):
        if LogSet.on_add:
            LogSet.on_add(x)
        self._emit("add", self._id(x))
        set.add(self, x)

    def remove(self, x):
        self._emit("remove" if x in self else "remove-miss", self._id(x))
        set.remove(self, x)

    def discard(self, x):
        self._emit("discard", (self._id(x), x in self))
        set.discard(self, x)

    def copy(self):
        self._emit("copy", sorted(self._id(x) for x in set.__iter__(self)))
        return set(set.__iter__(self))

    def __iter__(self):
        self._emit("iter", [self._id(x) for x in set.__iter__(self)])
        return set.__iter__(self)

    def __len__(self):
        self._emit("len", set.__len__(self))
        return set.__len__(self)

    def __sub__(self, other):
        return set(set.__iter__(self)) - set(other)

    def __eq__(self, other):
        return set.__eq__(self, other)

    __hash__ = None


_installed = {}


def install():
    """rebind threading/queue in the three modules, wrap BaseJob actions, make the job set loggable"""
    global LIB
    if _installed:
        return _installed
    m = core.load_impl()
    import scheduler.base.job as BJ
    import scheduler.base.job_timer as T
    import scheduler.threading.job as J
    import scheduler.threading.scheduler as S
    LIB = S.__file__[: S.__file__.index("scheduler/threading/scheduler.py")]
    pth = types.SimpleNamespace(RLock=CoopRLock, Thread=CoopThread)
    pq = types.SimpleNamespace(Queue=CoopQueue, Empty=_q.Empty)
    S.threading = pth
    J.threading = pth
    T.threading = pth
    S.queue = pq

    orig_calc = BJ.BaseJob._calc_next_exec
    orig_has = BJ.BaseJob.has_attempts_remaining.fget
    orig_td = BJ.BaseJob.timedelta

    def calc(self, ref_dt):
        LogSet._emit("calc", LogSet.ids(self))
        return orig_calc(self, ref_dt)

    def has(self):
        v = orig_has(self)
        LogSet._emit("has", (LogSet.ids(self), v))
        return v

    def td(self, dt_stamp=None):
        v = orig_td(self, dt_stamp)
        LogSet._emit("td", LogSet.ids(self))
        return v

    BJ.BaseJob._calc_next_exec = calc
    BJ.BaseJob.has_attempts_remaining = property(has)
    BJ.BaseJob.timedelta = td

    class TSched(S.Scheduler):
        def __setattr__(self, k, v):
            if k == "_Scheduler__jobs" and not isinstance(v, LogSet):
                if CTL is not None and _th.get_ident() in CTL.threads:
                    CTL.emit("rebind", sorted(LogSet.ids(x) for x in v))
                v = LogSet(v)
            object.__setattr__(self, k, v)

        def _Scheduler__exec_jobs(self, jobs, ref_dt):
            LogSet._emit("batch", [LogSet.ids(j) for j in jobs])
            return S.Scheduler._Scheduler__exec_jobs(self, jobs, ref_dt)

    _installed.update(m=m, S=S, TSched=TSched)
    return _installed


def assert_cooperative(sch):
    """a change of import style in the library must not silently turn the run into an uncontrolled one"""
    lk = getattr(sch, "_Scheduler__jobs_lock", None)
    if not isinstance(lk, CoopRLock):
        raise RuntimeError("DST tie lost: the scheduler's registry lock is not the cooperative one")
    if not isinstance(getattr(sch, "_Scheduler__jobs"), LogSet):
        raise RuntimeError("DST tie lost: the job set is not the logging set")


def run_threads(fns, chooser):
    """fns: [(name, callable)]; returns (results, ctl).  Raises Deadlock."""
    global CTL
    ctl = Ctl(chooser)
    CTL = ctl
    res = {}
    ths = []
    for name, fn in fns:
        def body(name=name, fn=fn):
            res[name] = fn()
        ths.append(CoopThread(target=body, name=name))
    for t in ths:
        t.start()
    try:
        ctl.run()
    finally:
        CTL = None
    return res, ctl
