"""Virtual-time asyncio event loop with an integer-microsecond clock.  Time only advances when
nothing is ready: the selector then jumps exactly to the earliest timer.  datetime.now() is derived
from the same clock (harness/clock.py)."""
import asyncio
import selectors


class _VSelector(selectors.DefaultSelector):
    def __init__(self, ref):
        super().__init__()
        self._ref = ref

    def select(self, timeout=None):
        ev = super().select(0)
        if ev:
            return ev
        if timeout is None:
            raise RuntimeError("virtual loop would block forever")
        if timeout > 0:
            lp = self._ref[0]
            when = lp._scheduled[0]._when
            lp._us = max(lp._us, round(when * 1e6))
            lp._sync_clock()
        return []


class VLoop(asyncio.SelectorEventLoop):
    """loop.time() = microseconds since creation / 1e6; absolute instant = t0_us + _us"""

    def __init__(self, t0_us, clock):
        self._us = 0
        self._t0 = t0_us
        self._clock = clock
        ref = [None]
        super().__init__(_VSelector(ref))
        ref[0] = self
        self._clock_resolution = 4e-7   # timers within 0.4 us of the integer clock are due (float noise)
        self._sync_clock()

    def _sync_clock(self):
        self._clock.set_now(self._t0 + self._us)

    def time(self):
        return self._us / 1e6

    def now_us(self):
        return self._t0 + self._us


async def settle(loop, limit=20000):
    """yield until nothing is ready and no timer is due at the current virtual instant"""
    for _ in range(limit):
        await asyncio.sleep(0)
        due_now = any((not h._cancelled) and h._when <= loop.time() for h in loop._scheduled)
        if len(loop._ready) == 0 and not due_now:
            return True
    return False
