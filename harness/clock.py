"""Scripted clock: replaces datetime.datetime (module attribute) by a subclass whose now()
returns the scripted instant.  Same technique as tests/conftest.py, but isinstance() keeps
accepting plain datetimes (once() dispatches on isinstance(timing, dt.datetime))."""
import datetime as dt

_REAL = dt.datetime


class _Meta(type(_REAL)):
    def __instancecheck__(cls, obj):
        return isinstance(obj, _REAL)

    def __subclasscheck__(cls, sub):
        return issubclass(sub, _REAL)


class ScriptedDatetime(_REAL, metaclass=_Meta):
    _now_utc_us = 0  # microseconds since 0001-01-01T00:00 UTC

    @classmethod
    def now(cls, tz=None):
        base = _REAL(1, 1, 1) + dt.timedelta(microseconds=cls._now_utc_us)
        if tz is None:
            return base
        return base.replace(tzinfo=dt.timezone.utc).astimezone(tz)


def install():
    dt.datetime = ScriptedDatetime


def uninstall():
    dt.datetime = _REAL


def set_now(us: int):
    ScriptedDatetime._now_utc_us = us
