"""Property oracles: decide, from the operations of a history and the IMPLEMENTATION's own
observations only (never the model's), whether a property fails on that history.  Used to
search for a failing input when a tie (translator or correspondence) breaks, and run on every
history anyway.  Independent integer re-statements of the property texts."""
from fractions import Fraction

SEC = 10**6
MN, HR, D = 60 * SEC, 3600 * SEC, 86400 * SEC
WK = 7 * D
PERIOD = {1: MN, 2: HR, 3: D, 4: WK}


def residue(ty, e):
    """canonical instant (mod period) of a timing entry"""
    if ty == 4:
        _, w, (h, m, s, us, off) = e
        return (w * D + ((h * 60 + m) * 60 + s) * SEC + us - (off or 0)) % WK
    _, (h, m, s, us, off) = e
    if ty == 1:
        return (s * SEC + us - (off or 0)) % MN
    if ty == 2:
        return ((m * 60 + s) * SEC + us - (off or 0)) % HR
    return (((h * 60 + m) * 60 + s) * SEC + us - (off or 0)) % D


def first_after(ref, res, P):
    return ref - ((ref - res) % P) + P


def utc_of(d):
    return d[0] - (d[1] or 0)


class View:
    """Parsed implementation observations of one history."""

    def __init__(self, ops, blocks):
        self.ops = ops
        self.blocks = []
        for b in blocks:
            v = dict(res=None, reg=None, jobs={}, inv=[], prio=[], log=[])
            for ln in b:
                p = ln.split()
                if p[0] == "RES":
                    v["res"] = p[1:]
                elif p[0] == "REG":
                    v["reg"] = [int(x) for x in p[1].split(",")] if len(p) > 1 else []
                elif p[0] == "J":
                    v["jobs"][int(p[1])] = dict(due=int(p[2]), off=p[3], att=int(p[4]), failed=int(p[5]), has=int(p[6]))
                elif p[0] == "EV" and p[1] == "inv":
                    v["inv"].append(dict(id=int(p[2]), due=int(p[3]), args=p[4], kwargs=p[5]))
                elif p[0] == "EV" and p[1] == "prio":
                    v["prio"].append(dict(id=int(p[2]), od=int(p[3]), mx=int(p[4]), n=int(p[5]), p=Fraction(p[6])))
                elif p[0] == "EV" and p[1] == "log":
                    v["log"].append(int(p[2]))
            self.blocks.append(v)
        # configuration of the jobs created by top-level calls; the id is read from the call's own
        # result (callback programs consume ids too; their jobs are not tracked: oracles skip them)
        self.cfg = {}
        self.created_at = {}
        self.now_at = []
        self.sched_op_ids = {}
        now = None
        self.tz = None
        self.max_exec = 0
        self.prio = "linear"
        for i, o in enumerate(ops):
            res = self.blocks[i]["res"] if i < len(self.blocks) else None
            if o[0] == "INIT":
                self.tz, self.max_exec, self.prio, now = o[1], o[2], o[3], o[4]
                if res and res[0] == "ok":
                    for nid, (c, jtz) in enumerate(o[5]):
                        self.cfg[nid] = ("CTOR", c, jtz)
                        self.created_at[nid] = now
            elif o[0] == "NOW":
                now = o[1]
            elif o[0] == "CALL" and o[1][0] in ("SCHED", "ONCE") and res and res[:2] == ["ok", "job"]:
                nid = int(res[2])
                self.cfg[nid] = ("SCHED", o[1][1]) if o[1][0] == "SCHED" else ("ONCE", o[1][1], o[1][2])
                self.created_at[nid] = now
                self.sched_op_ids[i] = nid
            self.now_at.append(now)


def eff_cfg(entry):
    """(type, timing, max, delay, start, stop, skip, tags) of a tracked job, None for exotic ones"""
    if entry[0] in ("SCHED", "CTOR"):
        c = entry[1]
        return dict(type=c["type"], timing=c["timing"], max=c["max"], delay=c["delay"], start=c["start"],
                    stop=c["stop"], skip=c["skip"], tags=c["tags"], args=c["args"], kwargs=c["kwargs"],
                    wnum=c["wnum"], wden=c["wden"])
    ot, c = entry[1], entry[2]
    base = dict(max=1, stop=None, skip=False, tags=c["tags"], args=c["args"], kwargs=c["kwargs"],
                wnum=c["wnum"], wden=c["wden"], delay=True, start=None)
    if ot[0] == "D":
        base.update(type=0, timing=[("C", 0)], delay=False, start=ot[1])
    elif ot[0] == "TD":
        base.update(type=0, timing=[("C", ot[1])])
    elif ot[0] == "TM":
        base.update(type=3, timing=[("T", ot[1])])
    else:
        base.update(type=4, timing=[("W", ot[1], ot[2])])
    return base


def check(ops, blocks):
    """Returns {property id: [failure descriptions]} for this history."""
    V = View(ops, blocks)
    fails = {}

    def bad(pid, msg):
        fails.setdefault(pid, []).append(msg)

    seen_reg = set()
    gone = set()
    prev = None
    for i, (o, b) in enumerate(zip(ops, V.blocks)):
        now = V.now_at[i]
        # ---- per-job state checks
        for jid, st in b["jobs"].items():
            if jid not in V.cfg or jid not in V.created_at:
                continue
            c = eff_cfg(V.cfg[jid])
            ref = utc_of(c["start"]) if c["start"] is not None else V.created_at[jid]
            ty = c["type"]
            single = len(c["timing"]) == 1
            # C01/C02/C03: due instants without skip_missing
            if single and not c["skip"]:
                if ty == 0:
                    T = c["timing"][0][1]
                    exp = ref + (st["att"] + (1 if c["delay"] else 0)) * T
                    if st["due"] != exp:
                        bad("C03", "job %d: due %d after %d runs, cadence says %d" % (jid, st["due"], st["att"], exp))
                else:
                    P = PERIOD[ty]
                    first = first_after(ref, residue(ty, c["timing"][0]), P)
                    if c["delay"]:
                        exp = first + st["att"] * P
                    else:
                        exp = ref if st["att"] == 0 else first + (st["att"] - 1) * P
                    if st["due"] != exp:
                        pid = "C02" if ty == 4 else "C01"
                        bad(pid, "job %d: due %d after %d runs, expected %d" % (jid, st["due"], st["att"], exp))
                        if V.cfg[jid][0] == "ONCE":
                            bad("C03", "one-shot job %d: due %d, next occurrence is %d" % (jid, st["due"], exp))
            # C09: due of a batched job is an occurrence of one entry and nothing earlier was skipped
            if ty != 0 and not c["skip"] and c["delay"] and len(c["timing"]) > 1 and st["has"]:
                P = PERIOD[ty]
                if all((st["due"] - residue(ty, e)) % P != 0 for e in c["timing"]):
                    bad("C09", "job %d: due %d is not an occurrence of any entry" % (jid, st["due"]))
            # C06/C10 counters
            if c["max"] > 0 and st["att"] > c["max"]:
                bad("C06", "job %d: attempts %d > max_attempts %d" % (jid, st["att"], c["max"]))
            if st["failed"] > st["att"]:
                bad("C10", "job %d: failed_attempts %d > attempts %d" % (jid, st["failed"], st["att"]))
            # C06/C07: registered => can still run, due <= stop
            if b["reg"] is not None and jid in b["reg"]:
                if not st["has"]:
                    bad("C06", "job %d registered without remaining attempts" % jid)
                if c["max"] > 0 and st["att"] >= c["max"]:
                    bad("C06", "job %d still registered after %d of %d attempts" % (jid, st["att"], c["max"]))
                if c["stop"] is not None and st["due"] > utc_of(c["stop"]):
                    bad("C07", "job %d registered with due %d > stop %d" % (jid, st["due"], utc_of(c["stop"])))
        # ---- invocations
        for ev in b["inv"]:
            jid = ev["id"]
            if jid in V.cfg:
                c = eff_cfg(V.cfg[jid])
                if c["stop"] is not None and ev["due"] > utc_of(c["stop"]):
                    bad("C07", "job %d invoked for due %d > stop" % (jid, ev["due"]))
                exp_args = "[%s]" % ",".join(str(a) for a in c["args"])
                exp_kw = "{%s}" % ",".join("%d:%d" % tuple(kv) for kv in c["kwargs"])
                if ev["args"] != exp_args or ev["kwargs"] != exp_kw:
                    bad("C19", "job %d received %s %s, scheduled with %s %s" % (jid, ev["args"], ev["kwargs"], exp_args, exp_kw))
        # ---- exec_jobs
        if o[0] == "EXEC" and prev is not None:
            if b["res"][0] == "err":
                bad("C10", "exec_jobs raised %s" % b["res"][1])
                if b["res"][1] == "TypeError":
                    bad("C13", "exec_jobs raised TypeError")
            else:
                n = int(b["res"][2])
                ids = [ev["id"] for ev in b["inv"]]
                if n != len(ids):
                    bad("C04", "exec_jobs returned %d but invoked %d callbacks" % (n, len(ids)))
                if len(set(ids)) != len(ids):
                    bad("C04", "a job was invoked twice in one call: %s" % ids)
                    bad("C09", "a job was invoked twice in one call: %s" % ids)
                for ev in b["inv"]:
                    if not o[1] and V.prio != "table" and ev["due"] > now:
                        bad("C04", "job %d invoked %d us before its due time" % (ev["id"], ev["due"] - now))
                if o[1]:
                    if sorted(ids) != sorted(prev["reg"] or []):
                        bad("C04", "force_exec_all ran %s, registered were %s" % (sorted(ids), prev["reg"]))
                else:
                    pr = b["prio"]
                    # C05: argument log and selection from the implementation's own priorities
                    if sorted(p["id"] for p in pr) != sorted(prev["reg"] or []):
                        bad("C05", "priority function called for %s, registered %s" % ([p["id"] for p in pr], prev["reg"]))
                    for p in pr:
                        if p["mx"] != V.max_exec or p["n"] != len(prev["reg"] or []):
                            bad("C05", "priority function got max_exec=%d job_count=%d" % (p["mx"], p["n"]))
                        st = prev["jobs"].get(p["id"])
                        if st is not None and abs(p["od"] - (now - st["due"])) > max(1, abs(p["od"]) >> 40):
                            bad("C05", "priority function got overdue %d for job %d, now-due is %d" % (p["od"], p["id"], now - st["due"]))
                    order = sorted(range(len(pr)), key=lambda k: -pr[k]["p"])   # stable
                    cut = order if V.max_exec == 0 else order[: V.max_exec]
                    exp = [pr[k]["id"] for k in cut if pr[k]["p"] > 0]
                    pos = [p for p in pr if p["p"] > 0]
                    k = len(pos) if V.max_exec == 0 else min(V.max_exec, len(pos))
                    if len(ids) != k:
                        bad("C05", "ran %d jobs, min(max_exec, #positive) = %d" % (len(ids), k))
                    pmap = {p["id"]: p["p"] for p in pr}
                    if any(pmap.get(x, 0) <= 0 for x in ids):
                        bad("C05", "a job with priority <= 0 was run")
                    vals = [pmap.get(x, 0) for x in ids]
                    if vals != sorted(vals, reverse=True):
                        bad("C05", "jobs not run in non-increasing priority order: %s" % vals)
                    waiting = [p["p"] for p in pos if p["id"] not in ids]
                    if ids and waiting and max(waiting) > min(vals):
                        bad("C05", "a waiting job has higher priority than one that ran")
                    if ids != exp and sorted(vals) == sorted(pmap.get(x, 0) for x in exp):
                        pass  # same priorities, tie broken differently: allowed by the property
                    # C04: default function, no limit: exactly the due jobs of positive weight
                    if V.prio == "linear" and V.max_exec == 0:
                        due = []
                        for jid in prev["reg"] or []:
                            st = prev["jobs"].get(jid)
                            if st is None or jid not in V.cfg:
                                due = None
                                break
                            c = eff_cfg(V.cfg[jid])
                            if st["due"] <= now and c["wnum"] > 0:
                                due.append(jid)
                        if due is not None and sorted(due) != sorted(ids):
                            bad("C04", "due jobs %s, invoked %s" % (sorted(due), sorted(ids)))
                    if not ids and prev is not None:
                        for jid, st in b["jobs"].items():
                            if jid in prev["jobs"] and (st["due"], st["att"]) != (prev["jobs"][jid]["due"], prev["jobs"][jid]["att"]):
                                bad("C04", "nothing was due but job %d changed" % jid)
                # C08 skip_missing
                for ev in b["inv"]:
                    jid = ev["id"]
                    if jid in V.cfg:
                        c = eff_cfg(V.cfg[jid])
                        st = b["jobs"].get(jid)
                        if c["skip"] and st is not None and st["has"] and ev["due"] <= now:
                            ty = c["type"]
                            if ty == 0:
                                if st["due"] != now + c["timing"][0][1]:
                                    T = c["timing"][0][1]
                                    known = ""
                                    if (not c["delay"]) and st["att"] == 1 and c["start"] is not None \
                                            and st["due"] == utc_of(c["start"]) + T:
                                        known = "KNOWN[cyclic-skip-nodelay] "
                                    bad("C08", known + "cyclic skip job %d: due %d, expected t+T = %d" % (jid, st["due"], now + T))
                            else:
                                P = PERIOD[ty]
                                rs = [residue(ty, e) for e in c["timing"]]
                                if all((st["due"] - r) % P != 0 for r in rs):
                                    bad("C08", "skip job %d: due %d is not an occurrence" % (jid, st["due"]))
                                if st["due"] < now:
                                    bad("C08", "skip job %d: due %d earlier than the execution instant %d" % (jid, st["due"], now))
                                nxt = min(first_after(now, r, P) for r in rs)
                                if st["due"] > nxt:
                                    bad("C08", "skip job %d: due %d skips the occurrence %d after t=%d" % (jid, st["due"], nxt, now))
                # C10 one log record per failure
                nf = sum(b["jobs"][j]["failed"] - prev["jobs"][j]["failed"] for j in b["jobs"] if j in prev["jobs"])
                if nf != len(b["log"]):
                    bad("C10", "%d failures but %d log records" % (nf, len(b["log"])))
        # ---- registry bookkeeping (C06 never reappears, C11)
        if b["reg"] is not None:
            cur = set(b["reg"])
            back = cur & gone
            if back:
                bad("C06", "jobs %s reappeared" % sorted(back))
                bad("C11", "jobs %s reappeared" % sorted(back))
            gone |= (seen_reg - cur)
            seen_reg |= cur
        if o[0] == "CALL":
            k = o[1][0]
            res = b["res"]
            if k == "SCHED" and o[1][1]["type"] != 0:
                # C09: a list is rejected iff two entries denote the same recurring instants
                c = o[1][1]
                rs = [residue(c["type"], e) for e in c["timing"]]
                aware = V.tz is not None
                offs = [e[-1][4] for e in c["timing"]]
                if c["start"] is not None:
                    offs.append(c["start"][1])
                if c["stop"] is not None:
                    offs.append(c["stop"][1])
                uniform = all((v is not None) == aware for v in offs)
                base = utc_of(c["start"]) if c["start"] is not None else now
                window_ok = c["stop"] is None or utc_of(c["stop"]) > base
                if len(set(rs)) < len(rs) and uniform and res[0] == "ok":
                    bad("C09", "a list with two equivalent entries was accepted: residues %s" % rs)
                if len(set(rs)) == len(rs) and uniform and window_ok and res[0] == "err":
                    bad("C09", "a list of pairwise different recurring instants was rejected (%s): residues %s" % (res[1], rs))
            if k in ("SCHED", "ONCE") and res[0] == "err":
                if res[1] != "SchedulerError":
                    bad("C13", "scheduling call failed with %s" % res[1])
                    bad("C12", "scheduling call failed with %s" % res[1])
                if prev is not None and b["reg"] != prev["reg"]:
                    bad("C11", "a rejected scheduling call changed the job set")
            if k == "DEL" and prev is not None:
                if o[1][1] in (prev["reg"] or []):
                    if res[0] != "ok" or sorted(b["reg"]) != sorted(x for x in prev["reg"] if x != o[1][1]):
                        bad("C11", "delete_job of a registered job: %s" % res)
                else:
                    if res[:2] != ["err", "SchedulerError"] or b["reg"] != prev["reg"]:
                        bad("C11", "delete_job of an unregistered job: %s" % res)
            if k in ("GETJOBS", "DELJOBS", "JOBS") and prev is not None and res[0] == "ok":
                tags, anyt = (o[1][1], o[1][2]) if k != "JOBS" else (None, False)
                sel = []
                known = True
                for jid in prev["reg"] or []:
                    if jid not in V.cfg:
                        known = False
                        break
                    jt = set(eff_cfg(V.cfg[jid])["tags"])
                    if not tags:
                        sel.append(jid)
                    elif anyt and (set(tags) & jt):
                        sel.append(jid)
                    elif not anyt and set(tags) <= jt:
                        sel.append(jid)
                if known:
                    if k == "DELJOBS":
                        if int(res[2]) != len(sel) or sorted(b["reg"]) != sorted(x for x in prev["reg"] if x not in sel):
                            bad("C12", "delete_jobs(%s, %s) removed %s, selection %s" % (tags, anyt, res[2], sel))
                            bad("C11", "delete_jobs(%s, %s) removed %s, selection %s" % (tags, anyt, res[2], sel))
                    else:
                        got = [int(x) for x in res[2].split(",")] if len(res) > 2 else []
                        if got != sorted(sel):
                            bad("C12", "get_jobs(%s, %s) returned %s, expected %s" % (tags, anyt, got, sorted(sel)))
                        if b["reg"] != prev["reg"]:
                            bad("C11", "a query changed the job set")
            if k in ("SCHED", "ONCE") and res[0] == "ok" and i in V.sched_op_ids:
                jid = V.sched_op_ids[i]
                c = eff_cfg(V.cfg[jid])
                aware = V.tz is not None
                vals = []
                if c["type"] != 0:
                    vals += [e[-1][4] for e in c["timing"]]
                if c["start"] is not None:
                    vals.append(c["start"][1])
                if c["stop"] is not None:
                    vals.append(c["stop"][1])
                if any((v is not None) != aware for v in vals):
                    bad("C13", "a call mixing naive and aware values was accepted")
                st = b["jobs"].get(jid)
                if st is not None and c["stop"] is not None and st["due"] > utc_of(c["stop"]) and jid in (b["reg"] or []):
                    bad("C07", "job %d registered although its first due time is past stop" % jid)
        prev = b
    return fails
