"""C14-C16: the real threading scheduler under deterministic thread scheduling (harness/dst.py).

Every scenario: a scheduler with a few jobs, 1-4 caller threads each performing 1-3 public
operations (C14), callbacks that use their own scheduler (C15), worker pools of every size (C16).
The atomic actions logged by the DST shims, in execution order, are translated into the model's
micro-operations and replayed on the extracted model (Model/Conc.v); results, the job set after
every micro-operation and the final job states must agree.  Property oracles run on the
implementation's own observations.   python -m harness.concstream <profile> <n> <seed>"""
import collections
import datetime as dt
import json
import random
import subprocess
import sys

from . import core, dst, gen
from .core import s_cfg, s_ot, s_otags, s_list, tagname

SEC = 10**6


class Scenario:
    def __init__(self, r, profile):
        self.r = r
        self.P = profile
        self.I = dst.install()
        self.m = self.I["m"]
        self.jobs = {}
        self.cfgs = {}
        self.next_id = 0
        self.p_force = 0.15
        self.inv_log = []          # (id, thread) callback starts
        self.running = {}          # id -> count of concurrently running callbacks
        self.max_running = 0
        self.cur_running = 0
        self.overlap_self = False
        self.ops_done = []         # (thread, op, result)
        self.progs = {}
        dst.LogSet.ids = self.job_id
        dst.LogSet.on_add = self.on_add
        self.cells = {}            # id(job object) -> (cell, cfg)
        self.pending = {}          # thread ident -> (cell, cfg) of the scheduling call in progress
        S = self.I["S"]
        if not hasattr(S, "_verif_orig_create"):
            S._verif_orig_create = S.create_job_instance
        sc = self
        import threading as _th

        def create(job_class, **kw):
            job = S._verif_orig_create(job_class, **kw)
            if _th.get_ident() in sc.pending:
                sc.cells[id(job)] = sc.pending[_th.get_ident()]
            return job

        S.create_job_instance = create
        import logging
        lg = logging.getLogger("scheduler")
        lg.propagate = False
        lg.handlers = [logging.NullHandler()]

    def on_add(self, job):
        """ids are given in the order in which jobs enter the job set (as the model does)"""
        if self.job_id(job) >= 0:
            return
        jid = self.next_id
        self.next_id += 1
        self.jobs[jid] = job
        cell, c = self.cells.get(id(job), ({}, None))
        cell["id"] = jid
        self.cfgs[jid] = c

    def job_id(self, job):
        for i, j in self.jobs.items():
            if j is job:
                return i
        return -1

    # ---- construction (sequential, before the threads start)
    def build(self):
        r, P = self.r, self.P
        self.now = gen.day_us(2024, 2, 28) + 12 * 3600 * SEC
        self.m["clock"].set_now(self.now)
        self.n_threads = r.choice(P.n_threads)
        self.max_exec = r.choice(P.max_execs)
        self.sch = self.I["TSched"](n_threads=self.n_threads, max_exec=self.max_exec)
        dst.assert_cooperative(self.sch)
        self.init_lines = ["INIT - %d linear %d 0" % (self.max_exec, self.now)]
        for _ in range(r.randrange(P.min_jobs, P.max_jobs + 1)):
            c = self.gen_cfg(initial=True)
            self.do_schedule(("SCHED", c))
            self.init_lines.append("CALL %s 0" % core.s_cbop(("SCHED", c)))
        adv = r.choice([0, 1, 5 * SEC, 11 * SEC, 100 * SEC])
        self.now += adv
        self.m["clock"].set_now(self.now)
        self.init_lines.append("NOW %d" % self.now)

    def gen_cfg(self, initial=False):
        r = self.r
        c = core.default_cfg(type=0, timing=[("C", r.choice([SEC, 5 * SEC, 10 * SEC, 60 * SEC]))])
        if r.random() < 0.6:
            c["max"] = r.choice([1, 1, 2, 3])
        if r.random() < 0.4:
            c["tags"] = sorted(r.sample(range(3), r.randrange(1, 3)))
        if r.random() < 0.2:
            c["outs"] = [r.random() < 0.5 for _ in range(3)]
        if r.random() < 0.3:
            c["start"] = (self.now - r.choice([0, 3 * SEC, 20 * SEC]), None)
        return c

    def make_callback(self, cell):
        sc = self

        def callback(*a, **k):
            jid = cell.get("id", -1)
            th = dst.CTL.name() if dst.CTL else "?"
            sc.inv_log.append((jid, th))
            raised = True
            sc.running[jid] = sc.running.get(jid, 0) + 1
            if sc.running[jid] > 1:
                sc.overlap_self = True
            sc.cur_running += 1
            sc.max_running = max(sc.max_running, sc.cur_running)
            try:
                if dst.CTL:
                    dst.CTL.yield_point(("callback",))   # other callbacks may start while this one runs
                for o in sc.progs.get(jid, []):
                    sc.public_op(o, from_callback=True)
                job = sc.jobs.get(jid)
                c = sc.cfgs.get(jid)
                n = job.attempts if job is not None else 0
                if c and n < len(c["outs"]) and c["outs"][n]:
                    raise core.failure_class(jid + n)("scripted failure")
                raised = False
            finally:
                if dst.CTL:
                    dst.CTL.emit("run", (jid, raised))
                sc.cur_running -= 1
                sc.running[jid] -= 1

        return callback

    def do_schedule(self, o):
        c = o[1] if o[0] == "SCHED" else o[2]
        cell = {}
        cb = self.make_callback(cell)
        import threading as _th
        self.pending[_th.get_ident()] = (cell, c)
        kw = dict(max_attempts=c["max"], tags={tagname(t) for t in c["tags"]})
        if c["start"] is not None:
            kw["start"] = core.mk_dt(c["start"])
        try:
            if o[0] == "SCHED":
                job = self.sch.cyclic(dt.timedelta(microseconds=c["timing"][0][1]), cb, **kw)
            else:
                job = self.sch.once(dt.timedelta(microseconds=o[1][1]), cb, tags=kw["tags"])
        finally:
            self.pending.pop(_th.get_ident(), None)
        return ("job", self.job_id(job))

    def public_op(self, o, from_callback=False):
        """one public operation of the scheduler; returns the observation"""
        ctl = dst.CTL
        if ctl:
            ctl.emit("op-begin", o)
        try:
            k = o[0]
            if k in ("SCHED", "ONCE"):
                res = self.do_schedule(o)
            elif k == "EXEC":
                res = ("int", self.sch.exec_jobs(force_exec_all=o[1]))
            elif k == "DEL":
                job = self.jobs.get(o[1])
                self.sch.delete_job(job)
                res = ("none",)
            elif k == "DELJOBS":
                tags = None if o[1] is None else {tagname(t) for t in o[1]}
                res = ("int", self.sch.delete_jobs(tags, o[2]))
            elif k == "GETJOBS":
                tags = None if o[1] is None else {tagname(t) for t in o[1]}
                res = ("ids", sorted(self.job_id(j) for j in self.sch.get_jobs(tags, o[2])))
            elif k == "JOBS":
                res = ("ids", sorted(self.job_id(j) for j in self.sch.jobs))
            elif k == "STR":
                text = str(self.sch)
                # a printout is one consistent view: the heading's job count is the number of rows below it
                import re as _re
                m = _re.search(r"#jobs=(\d+)", text)
                lines = [ln for ln in text.split("\n") if ln.strip()]
                rows = 0
                for i, ln in enumerate(lines):
                    if set(ln.strip()) <= set("- ") and "-" in ln:
                        rows = len(lines) - i - 1
                        break
                res = ("none",) if (m and int(m.group(1)) == rows) else ("err", "Other:TornPrint")
            else:
                raise ValueError(o)
        except (KeyboardInterrupt, SystemExit, GeneratorExit):
            raise
        except BaseException as e:  # noqa
            res = ("err", core.exc_name(e))
            if ctl:
                ctl.emit("op-end", (o, res))
            if from_callback:
                raise
            return res
        if ctl:
            ctl.emit("op-end", (o, res))
        return res

    def gen_op(self, allow_exec=True, allow_str=True):
        r = self.r
        k = r.random()
        if k < 0.35 and allow_exec:
            return ("EXEC", r.random() < self.p_force)
        if k < 0.5:
            return ("SCHED", self.gen_cfg())
        if k < 0.58:
            return ("ONCE", ("TD", r.choice([0, SEC, 30 * SEC])), self.gen_cfg())
        if k < 0.75:
            return ("DEL", r.randrange(0, max(1, self.next_id)))
        if k < 0.82:
            return ("DELJOBS", gen.gen_tags(r) if r.random() < 0.7 else None, r.random() < 0.5)
        if k < 0.92:
            return ("GETJOBS", gen.gen_tags(r), r.random() < 0.5)
        if k < 0.97 or not allow_str:
            return ("JOBS",)
        return ("STR",)


class ProfC14:
    n_threads = [1, 1, 0]
    max_execs = [0, 0, 2]
    min_jobs, max_jobs = 1, 4
    callers = [2, 2, 3, 4]
    ops_per_caller = [1, 1, 2, 3]
    p_prog = 0.0


class ProfC15:
    n_threads = [1, 1, 1, 2, 0]
    max_execs = [0]
    min_jobs, max_jobs = 2, 4
    callers = [1]
    ops_per_caller = [1, 2]
    p_prog = 0.8


class ProfC16:
    n_threads = [0, 1, 2, 3, 5]
    max_execs = [0, 0, 2]
    min_jobs, max_jobs = 1, 6
    callers = [1]
    ops_per_caller = [1, 2]
    p_prog = 0.0


PROFILES = {"c14": ProfC14, "c15": ProfC15, "c16": ProfC16}


# ---------------------------------------------------------------------------------------------------
def translate(sc, ctl):
    """logged atomic actions -> model micro-operations (+ what the implementation observed there)"""
    lines = []        # DSL lines
    expect = []       # per line: dict(reg=[...], res=...) from the implementation, None if not compared
    tid = {}
    ctx = collections.defaultdict(list)      # thread -> stack of op records
    phase = {}                               # thread -> exec phase record

    def t_of(name):
        if name not in tid:
            tid[name] = len(tid)
        return tid[name]

    reg_after = None
    for idx, (th, kind, data) in enumerate(ctl.log):
        if kind == "op-begin":
            rec = dict(op=data, begin=idx, thread=th, mops=[])
            ctx[th].append(rec)
            if data[0] == "EXEC":
                phase[th] = dict(state="begin", force=data[1], prios=[], batch=None, post=[])
            continue
        if kind == "op-end":
            rec = ctx[th].pop()
            rec["res"] = data[1]
            rec["end"] = idx
            sc.ops_done.append(rec)
            if data[0][0] == "EXEC":
                phase.pop(th, None)
            continue
        cur = ctx[th][-1] if ctx[th] else None
        op = cur["op"] if cur else None
        ph = phase.get(th)
        # exec_jobs of this thread (not of a callback running inside a worker of another exec)
        in_exec = op is not None and op[0] == "EXEC" and ph is not None
        if kind == "add" and op and op[0] in ("SCHED", "ONCE"):
            c = op[1] if op[0] == "SCHED" else op[2]
            line = ("MADD " + s_cfg(c)) if op[0] == "SCHED" else ("MONCE %s %s" % (s_ot(op[1]), s_cfg(c)))
            lines.append(line)
            expect.append(dict(kind="add", id=data))
            cur["mops"].append(len(lines) - 1)
        elif kind in ("remove", "remove-miss") and op and op[0] == "DEL":
            lines.append("MREMOVE %d" % op[1])
            expect.append(dict(kind="remove", res=("none",) if kind == "remove" else ("err", "SchedulerError")))
            cur["mops"].append(len(lines) - 1)
        elif kind == "rebind" and op and op[0] == "DELJOBS":
            lines.append("MDELJOBS %s %d" % (s_otags(op[1]), int(op[2])))
            expect.append(dict(kind="deljobs", reg=data))
            cur["mops"].append(len(lines) - 1)
        elif kind in ("copy", "iter") and op and op[0] in ("GETJOBS", "JOBS"):
            if not cur["mops"]:
                tags, anyt = (op[1], op[2]) if op[0] == "GETJOBS" else (None, False)
                lines.append("MSNAP %s %d" % (s_otags(tags), int(anyt)))
                expect.append(dict(kind="snap"))
                cur["mops"].append(len(lines) - 1)
        elif in_exec and kind == "len" and ph["state"] == "begin" and not ph["force"]:
            lines.append("MBEGIN %d 0 0" % t_of(th))
            expect.append(dict(kind="begin"))
            ph["state"] = "collect"
        elif in_exec and kind == "iter" and ph["state"] == "begin" and ph["force"]:
            lines.append("MBEGIN %d 1 %s" % (t_of(th), s_list(data)))
            expect.append(dict(kind="begin"))
            ph["state"] = "chosen"
        elif in_exec and kind == "td" and ph["state"] == "collect":
            lines.append("MPRIO %d %d N" % (t_of(th), data))
            expect.append(dict(kind="prio"))
        elif in_exec and kind == "batch":
            if not ph["force"]:
                if ph["state"] == "begin":      # empty job set: no len/iter seen? keep the model in step
                    lines.append("MBEGIN %d 0 0" % t_of(th))
                    expect.append(dict(kind="begin"))
                lines.append("MSELECT %d" % t_of(th))
                expect.append(dict(kind="select", batch=data))
            ph["state"] = "post"
            ph["batch"] = data
        elif kind == "run":
            lines.append("MRUN %d %d" % (data[0], int(data[1])))
            expect.append(dict(kind="run"))
        elif in_exec and kind == "calc" and ph["state"] == "post":
            lines.append("MRESCHED %d" % data)
            expect.append(dict(kind="resched"))
        elif in_exec and kind == "has" and ph["state"] == "post":
            if data[1]:
                lines.append("MRETIRE %d" % data[0])
                expect.append(dict(kind="retire"))
        elif in_exec and kind == "discard" and ph["state"] == "post":
            lines.append("MRETIRE %d" % data[0])
            expect.append(dict(kind="retire"))
    return lines, expect


def oracles(sc, ctl, deadlock, prof):
    fails = {}

    def bad(pid, msg):
        fails.setdefault(pid, []).append(msg)

    if deadlock is not None:
        printing = sum(1 for p in sc.progs.values() if any(o[0] == "STR" for o in p))
        busy = sum(1 for p in sc.progs.values() if p)
        if sc.n_threads != 1 and printing >= 1 and busy >= 2:
            bad("C15", "KNOWN[print-deadlock-multi-worker] deadlock: %s" % (deadlock,))
        else:
            bad("C15", "deadlock: %s" % (deadlock,))
            bad("C14", "deadlock: %s" % (deadlock,))
            bad("C16", "exec_jobs never returns (deadlock): %s" % (deadlock,))
        return fails
    for rec in sc.ops_done:
        res = rec["res"]
        if res[0] == "err":
            top = rec["thread"] in ("A", "B", "C", "D")
            if rec["op"][0] == "EXEC":
                bad("C14", "exec_jobs raised %s" % res[1])
                bad("C15", "exec_jobs raised %s" % res[1])
                bad("C04", "exec_jobs raised %s instead of returning the number of callbacks it invoked" % res[1])
            elif rec["op"][0] == "DEL" and res[1] == "SchedulerError":
                pass
            elif res[1] != "SchedulerError" and top:
                bad("C14", "%s failed with internal error %s" % (rec["op"][0], res[1]))
    # per exec call: each job at most once, batch completely run, all done at return
    execs = [rec for rec in sc.ops_done if rec["op"][0] == "EXEC" and rec["res"][0] == "int"]
    for rec in execs:
        seg = ctl.log[rec["begin"]: rec["end"] + 1]
        batch = None
        for th, kind, data in seg:
            if kind == "batch" and th == rec["thread"] and batch is None:
                batch = data
        if batch is None:
            continue
        if len(set(batch)) != len(batch):
            bad("C14", "a job was selected twice by one exec_jobs call: %s" % batch)
            bad("C16", "a job was selected twice by one exec_jobs call: %s" % batch)
        if rec["res"][1] != len(batch):
            bad("C16", "exec_jobs returned %d for a batch of %d" % (rec["res"][1], len(batch)))
            bad("C04", "exec_jobs returned %d for a batch of %d" % (rec["res"][1], len(batch)))
        if len(execs) == 1:
            runs = [d[0] for th, k, d in seg if k == "run"]
            if sorted(runs) != sorted(batch):
                bad("C16", "batch %s but callbacks run inside the call: %s" % (sorted(batch), sorted(runs)))
                bad("C04", "batch %s but callbacks run inside the call: %s" % (sorted(batch), sorted(runs)))
            later = [d[0] for th, k, d in ctl.log[rec["end"] + 1:] if k == "run"]
            if later:
                bad("C16", "callbacks %s were still running after exec_jobs returned" % later)
            m = sc.n_threads if sc.n_threads else max(1, len(batch))
            spawned = len([1 for th, k, d in seg if k == "spawn" and th == rec["thread"]])
            if batch and sc.n_threads == 0 and spawned < len(batch):
                bad("C16", "n_threads=0: only %d workers for a batch of %d (the callbacks cannot all run at the same time)"
                    % (spawned, len(batch)))
            if batch and sc.n_threads > 0 and spawned > sc.n_threads:
                bad("C16", "n_threads=%d but %d workers were started" % (sc.n_threads, spawned))
            if sc.max_running > m:
                bad("C16", "%d callbacks ran at the same time with n_threads=%d" % (sc.max_running, sc.n_threads))
    if sc.overlap_self:
        bad("C16", "a job's callback overlapped itself")
        bad("C14", "a job's callback overlapped itself")
    # attempt budget (C14): known finding when two exec calls overlap on the job
    for jid, job in sc.jobs.items():
        c = sc.cfgs[jid]
        if c["max"] > 0 and job.attempts > c["max"]:
            overl = 0
            for rec in execs:
                seg = ctl.log[rec["begin"]: rec["end"] + 1]
                if any(k == "batch" and th == rec["thread"] and jid in d for th, k, d in seg):
                    overl += 1
            msg = "job %d ran %d times with max_attempts=%d" % (jid, job.attempts, c["max"])
            if overl >= 2 and len(execs) >= 2:
                bad("C14", "KNOWN[overlapping-exec-budget] " + msg)
            else:
                bad("C14", msg)
                bad("C16", msg)
    # C15: jobs scheduled from a callback are registered but not run in the same call;
    #      jobs deleted from a callback stay deleted
    return fails


def run_scenario(r, prof, seed_tag):
    sc = Scenario(r, prof)
    sc.build()
    P = prof
    # callback programs (C15)
    if P.p_prog > 0:
        for jid in list(sc.jobs):
            if r.random() < P.p_prog:
                multi = sc.n_threads != 1
                sc.progs[jid] = [sc.gen_op(allow_exec=False, allow_str=True) for _ in range(r.randrange(1, 3))]
    n_callers = r.choice(P.callers)
    names = ["A", "B", "C", "D"][:n_callers]
    plans = {}
    for nm in names:
        ops = []
        for _ in range(r.choice(P.ops_per_caller)):
            if P is ProfC14:
                ops.append(sc.gen_op(allow_exec=True, allow_str=True))
            else:
                ops.append(("EXEC", r.random() < (0.3 if P is ProfC16 else 0.1)))
        plans[nm] = ops
    results = {}

    def body(nm):
        def f():
            out = []
            for o in plans[nm]:
                out.append(sc.public_op(o))
            return out
        return f

    sched_r = random.Random(r.random())

    def chooser(names_, ctl):
        return sched_r.randrange(len(names_))

    deadlock = None
    try:
        results, ctl = dst.run_threads([(nm, body(nm)) for nm in names], chooser)
    except dst.Deadlock as e:
        deadlock = str(e)[:300]
        ctl = None
    if ctl is None:
        # the controller object of the failed run
        class _C:
            log = []
        ctl = _C()
    return sc, ctl, plans, deadlock


def explicit_scenario(n_threads, cfgs, progs, plans, seed):
    """a hand-written scenario (witnesses of known findings): returns (sc, ctl, deadlock)"""
    r = random.Random(seed)
    sc = Scenario(r, ProfC14)
    sc.now = gen.day_us(2024, 2, 28) + 12 * 3600 * SEC
    sc.m["clock"].set_now(sc.now)
    sc.n_threads = n_threads
    sc.max_exec = 0
    sc.sch = sc.I["TSched"](n_threads=n_threads)
    dst.assert_cooperative(sc.sch)
    sc.init_lines = []
    for c in cfgs:
        sc.do_schedule(("SCHED", c))
    sc.now += 100 * SEC
    sc.m["clock"].set_now(sc.now)
    sc.progs = dict(progs)

    def body(nm):
        def f():
            return [sc.public_op(o) for o in plans[nm]]
        return f

    deadlock = None
    ctl = None
    try:
        _, ctl = dst.run_threads([(nm, body(nm)) for nm in plans], lambda names_, c: r.randrange(len(names_)))
    except dst.Deadlock as e:
        deadlock = str(e)[:300]
    return sc, ctl, deadlock


def probe(pid):
    """replay the witnesses of the known findings of C14 / C15 on the implementation"""
    out = []
    kfs = [k for k in json.load(open(core.VERIF + "/known_findings.json")) if k.get("status") == "known" and k["property"] == pid]
    for kf in kfs:
        if kf["id"] == "overlapping-exec-budget":
            c = core.default_cfg(type=0, timing=[("C", SEC)], max=1)
            for seed in range(40):
                sc, ctl, dl = explicit_scenario(1, [c], {}, {"A": [("EXEC", False)], "B": [("EXEC", False)]}, seed)
                if dl is None and sc.jobs[0].attempts > 1:
                    out.append("KNOWN-FINDING: property=%s %s: %s" % (pid, kf["id"], kf["what"]))
                    break
        elif kf["id"] == "print-deadlock-multi-worker":
            c = core.default_cfg(type=0, timing=[("C", SEC)])
            for seed in range(40):
                sc, ctl, dl = explicit_scenario(2, [c, dict(c)], {0: [("STR",)], 1: [("GETJOBS", None, False)]},
                                               {"A": [("EXEC", False)]}, seed)
                if dl is not None:
                    out.append("KNOWN-FINDING: property=%s %s: %s" % (pid, kf["id"], kf["what"]))
                    break
    return out


def final_lines(sc):
    out = ["REG " + ",".join(str(i) for i in sorted(sc.job_id(j) for j in sc.sch.jobs))]
    for jid in sorted(sc.jobs):
        j = sc.jobs[jid]
        u, off = core.dt_parts(j.datetime)
        out.append("J %d %d %s %d %d %d" % (jid, u, core.s_otz(off), j.attempts, j.failed_attempts, int(j.has_attempts_remaining)))
    return out


def run_stream(profile, n, seed, keep_samples=2):
    prof = PROFILES[profile]
    r = random.Random("%s/%d" % (profile, seed))
    stats = collections.Counter()
    all_lines, finals, expects, metas = [], [], [], []
    ofails = []
    for i in range(n):
        sc, ctl, plans, deadlock = run_scenario(r, prof, "%s/%d/%d" % (profile, seed, i))
        stats["n_threads=%d" % sc.n_threads] += 1
        stats["steps"] += getattr(ctl, "steps", 0)
        for nm, ops in plans.items():
            for o in ops:
                stats["op." + o[0]] += 1
        stats["invocations"] += len(sc.inv_log)
        if deadlock is not None:
            stats["deadlocks"] += 1
        lines, expect = translate(sc, ctl) if deadlock is None else ([], [])
        fl = oracles(sc, ctl, deadlock, prof)
        for pid, msgs in fl.items():
            for msg in msgs:
                if msg.startswith("KNOWN["):
                    stats["known." + msg[6:msg.index("]")]] += 1
            msgs = [x for x in msgs if not x.startswith("KNOWN[")]
            if msgs:
                stats["oracle." + pid] += 1
                if len(ofails) < 40:
                    ofails.append(dict(property=pid, message=msgs[0], index=i, ops=None,
                                       lines=sc.init_lines + [json.dumps(plans)]))
        if deadlock is not None:
            continue
        all_lines.append(sc.init_lines + ["MINIT"] + lines)
        expects.append((len(sc.init_lines) + 1, expect))
        finals.append(final_lines(sc))
        metas.append(dict(index=i, plans=plans, n_threads=sc.n_threads, progs={str(k): v for k, v in sc.progs.items()}))
    model = core.run_model(all_lines) if all_lines else []
    mismatches = []
    nontriv = 0
    sigs = set()
    for k, (mb, fin, (off, expect)) in enumerate(zip(model, finals, expects)):
        d = None
        blocks = mb[off:]
        if len(blocks) != len(expect):
            d = "model produced %d micro-operation blocks for %d logged actions" % (len(blocks), len(expect))
        else:
            for bi, (b, ex) in enumerate(zip(blocks, expect)):
                res = b[0]
                if ex["kind"] == "add":
                    if not (res.startswith("RES ok job %d" % ex["id"])):
                        d = "model %r / impl %r" % (res, "RES ok job %d (added)" % ex["id"])
                elif ex["kind"] == "remove":
                    want = "RES ok none" if ex["res"][0] == "none" else "RES err SchedulerError"
                    if res != want:
                        d = "model %r / impl %r" % (res, want)
                elif ex["kind"] == "deljobs":
                    reg = [ln for ln in b if ln.startswith("REG")][0]
                    want = "REG " + ",".join(str(x) for x in ex["reg"])
                    if reg != want:
                        d = "model %r / impl %r" % (reg, want)
                elif ex["kind"] == "select":
                    want = "RES ok ids " + ",".join(str(x) for x in sorted(ex["batch"]))
                    if res != want:
                        d = "model %r / impl %r" % (res, want)
                elif res.startswith("RES err"):
                    d = "model %r / impl %r" % (res, "RES ok (%s)" % ex["kind"])
                if d:
                    d = "micro-op %d %s: %s" % (bi, all_lines[k][off + bi][:60], d)
                    break
            if d is None:
                last = mb[-1]
                got = [ln for ln in last if ln.startswith("REG") or ln.startswith("J ")]
                if got != fin:
                    for x, y in zip(got, fin):
                        if x != y:
                            d = "final state: model %r / impl %r" % (x, y)
                            break
                    else:
                        d = "final state: model %r / impl %r" % (got[-2:], fin[-2:])
        if d is not None:
            mismatches.append(dict(index=metas[k]["index"], op_index=0, diff=d, lines=all_lines[k], ops=None, meta=metas[k]))
        sg = "\n".join(all_lines[k])
        if sg not in sigs and any(l.startswith("MRUN") or l.startswith("MREMOVE") for l in all_lines[k]):
            nontriv += 1
        sigs.add(sg)
    if len(model) != len(all_lines):
        mismatches.append(dict(index=-1, op_index=-1, diff="model produced %d scenarios, impl %d" % (len(model), len(all_lines)), lines=[]))
    return dict(profile=profile, seed=seed, histories=n, distinct_nontrivial=nontriv, stats=dict(stats),
                mismatches=mismatches[:20], n_mismatches=len(mismatches), oracle_failures=ofails, oracle_errors=[],
                samples=[all_lines[i] for i in range(min(keep_samples, len(all_lines)))])


if __name__ == "__main__":
    if sys.argv[1] == "probe":
        for ln in probe(sys.argv[2]):
            print(ln)
    else:
        json.dump(run_stream(sys.argv[1], int(sys.argv[2]), int(sys.argv[3])), sys.stdout)
