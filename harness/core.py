"""Correspondence core for the sequential threading scheduler: history representation, DSL
serialisation, execution on the real implementation, execution on the extracted model,
canonical comparison.

History (Python side):
  ('INIT', tz, max_exec, prio, now, ctor)      ctor = [(cfg, tz), ...]
  ('NOW', t) ; ('CALL', cbop, prog) ; ('EXEC', force, table)
cbop: ('SCHED', cfg) ('ONCE', ot, cfg) ('DEL', id) ('DELJOBS', tags, any) ('GETJOBS', tags, any) ('JOBS',)
cfg : dict(type, timing, max, tags, delay, start, stop, skip, wnum, wden, args, kwargs, outs)
timing entries: ('C', T) ('T', time) ('W', w, time); time = (h, m, s, us, off|None); dt = (loc, off|None)
ot: ('D', dt) ('TD', T) ('TM', time) ('WD', w, time)
"""
import datetime as dt
import functools
import logging
import os
import subprocess
import sys
import warnings
from fractions import Fraction

VERIF = os.path.dirname(os.path.dirname(os.path.abspath(__file__)))
REPO = os.environ.get("VERIF_REPO", "/repo")
DRIVER = os.path.join(VERIF, "build", "ocaml", "driver")

_REAL_DT = dt.datetime
EPOCH = _REAL_DT(1, 1, 1)
US = dt.timedelta(microseconds=1)
TYPE_NAMES = ["cyclic", "minutely", "hourly", "daily", "weekly"]
D = 86400 * 10**6


# ---------------------------------------------------------------------------------------
# value conversions
def tzof(off):
    return None if off is None else dt.timezone(dt.timedelta(microseconds=off))


def mk_dt(d):
    loc, off = d
    return (EPOCH + loc * US).replace(tzinfo=tzof(off))


def mk_time(t):
    h, m, s, us, off = t
    return dt.time(h, m, s, us, tzinfo=tzof(off))


def dt_parts(x):
    """python datetime -> (utc_us, off_us|None)"""
    if x.tzinfo is None:
        return (x - EPOCH) // US, None
    off = x.utcoffset() // US
    return (x.replace(tzinfo=None) - EPOCH) // US - off, off


def tagname(n):
    # tag 0 is the empty string: a legal tag that is falsy in Python
    return "t%d" % n if n else ""


def exc_name(e):
    n = type(e).__name__
    if not isinstance(e, Exception):
        # what the library raises on purpose are Exception subclasses (`except Exception` in the callers' and in its
        # own code relies on it); anything else is reported under a name no model result has
        return "Other:BaseException:" + n
    if n in ("SchedulerError", "TypeError", "AttributeError", "ValueError", "IndexError"):
        return n
    return "Other:" + n


# ---------------------------------------------------------------------------------------
# DSL serialisation (token form parsed by ocaml/driver.ml)
def s_otz(o):
    return "-" if o is None else str(o)


def s_dt(d):
    return "%d %s" % (d[0], s_otz(d[1]))


def s_odt(d):
    return "N" if d is None else "S " + s_dt(d)


def s_time(t):
    return "%d %d %d %d %s" % (t[0], t[1], t[2], t[3], s_otz(t[4]))


def s_timing(e):
    if e[0] == "C":
        return "C %d" % e[1]
    if e[0] == "T":
        return "T " + s_time(e[1])
    return "W %d %s" % (e[1], s_time(e[2]))


def s_list(l, f=str):
    return " ".join([str(len(l))] + [f(x) for x in l])


def s_cfg(c):
    return " ".join([
        str(c["type"]), s_list(c["timing"], s_timing), str(c["max"]), s_list(c["tags"]),
        str(int(c["delay"])), s_odt(c["start"]), s_odt(c["stop"]), str(int(c["skip"])),
        str(c["wnum"]), str(c["wden"]), s_list(c["args"]),
        s_list(c["kwargs"], lambda kv: "%d %d" % tuple(kv)), s_list(c["outs"], lambda b: str(int(b)))])


def s_otags(t):
    return "N" if t is None else "S " + s_list(t)


def s_ot(ot):
    if ot[0] == "D":
        return "D " + s_dt(ot[1])
    if ot[0] == "TD":
        return "TD %d" % ot[1]
    if ot[0] == "TM":
        return "TM " + s_time(ot[1])
    return "WD %d %s" % (ot[1], s_time(ot[2]))


def s_cbop(o):
    k = o[0]
    if k == "SCHED":
        return "SCHED " + s_cfg(o[1])
    if k == "ONCE":
        return "ONCE %s %s" % (s_ot(o[1]), s_cfg(o[2]))
    if k == "DEL":
        return "DEL %d" % o[1]
    if k in ("DELJOBS", "GETJOBS"):
        return "%s %s %d" % (k, s_otags(o[1]), int(o[2]))
    if k == "JOBS":
        return "JOBS"
    raise ValueError(o)


def s_op(o, order=None, table=None):
    k = o[0]
    if k == "INIT":
        _, tz, mx, prio, now, ctor = o
        return "INIT %s %d %s %d %s" % (s_otz(tz), mx, prio, now,
                                        s_list(ctor, lambda ct: s_cfg(ct[0]) + " " + s_otz(ct[1])))
    if k == "NOW":
        return "NOW %d" % o[1]
    if k == "CALL":
        return "CALL %s %s" % (s_cbop(o[1]), s_list(o[2], s_cbop))
    if k == "EXEC":
        tb = table or []
        return "EXEC %d %s %s" % (int(o[1]), s_list(order or []),
                                  s_list(tb, lambda e: "%d %d %d" % tuple(e)))
    raise ValueError(o)


def default_cfg(**kw):
    c = dict(type=0, timing=[("C", 10**6)], max=0, tags=[], delay=True, start=None, stop=None,
             skip=False, wnum=1, wden=1, args=[], kwargs=[], outs=[])
    c.update(kw)
    return c


# ---------------------------------------------------------------------------------------
# running a history on the real implementation
class Val(int):
    """an argument value with an identity: the callback must receive the very object that was supplied
    (a copy made by the library is a different object although it prints and compares the same)"""


def identity_lost(sent, args, kwargs):
    """sent = (tuple of Val | None, dict of Val | None) as supplied; received args/kwargs of one invocation"""
    s_args, s_kw = sent
    for a, b in zip(s_args or (), args):
        if a is not b:
            return True
    for k, v in (s_kw or {}).items():
        if k in kwargs and kwargs[k] is not v:
            return True
    return False


class ArgsTuple(tuple):
    """positional arguments handed over as an instance of a tuple subclass (a namedtuple, a struct_time, ...)"""


class Holder:
    """an object that owns the scheduler and lends a bound method as a job's callback, as in
    `sch.once(t, sch.delete_job, args=(job,))`: repr(callback) shows the scheduler, which shows the job"""

    def __init__(self, sch, fn):
        self.sch = sch
        self.fn = fn

    def call(self, *args, **kwargs):
        return self.fn(*args, **kwargs)

    def __repr__(self):
        return "Holder(%r)" % (self.sch,)


class CallbackFailure(Exception):
    pass


class SubclassedFailure(KeyError):
    pass


class FalsyFailure(Exception):
    """an exception whose instances are falsy (it carries an empty payload)"""

    def __len__(self):
        return 0


import concurrent.futures as _cf  # noqa: E402

FAILURES = [CallbackFailure, ValueError, TypeError, StopIteration, SubclassedFailure, ZeroDivisionError,
            FalsyFailure, _cf.CancelledError, _cf.TimeoutError, UserWarning, ResourceWarning]


def failure_class(k):
    """the k-th scripted failure: the classes above and the library's own error class (an Exception subclass like any
    other: a callback that misuses the scheduler raises it)"""
    k %= len(FAILURES) + 1
    return FAILURES[k] if k < len(FAILURES) else load_impl()["SchedulerError"]


class _CountingHandler(logging.Handler):
    def __init__(self, sink):
        super().__init__(level=logging.DEBUG)
        self.sink = sink

    def emit(self, record):
        # what logging.StreamHandler.emit does with a record: format it (this evaluates `%r` of the job),
        # let a RecursionError through (bpo-36272), swallow any other formatting error
        try:
            self.format(record)
        except RecursionError:
            raise
        except Exception:  # noqa
            pass
        self.sink(record)


_loaded = {}


_foreign_jobs = []


def _foreign_handle(**kwargs):
    return None


def load_impl():
    """Import the scheduler package from REPO (fresh interpreter state is the caller's job)."""
    if _loaded:
        return _loaded
    if REPO not in sys.path:
        sys.path.insert(0, REPO)
    warnings.simplefilter("ignore")
    import scheduler
    import scheduler.trigger as trigger
    from scheduler.threading.job import Job
    from scheduler.base.definition import JobType
    from scheduler import prioritization
    assert os.path.realpath(scheduler.__file__).startswith(os.path.realpath(REPO)), scheduler.__file__
    from . import clock
    clock.install()
    # C19: unrelated jobs (both front ends, no / empty keyword mapping) have their OWN mapping written through the
    # public accessor before any history runs: no job of a history may ever receive that keyword
    from scheduler.asyncio.job import Job as _AJob
    for _cls in (Job, _AJob):
        for _kw in (None, {}):
            _j = _cls(JobType.CYCLIC, [dt.timedelta(seconds=1)], _foreign_handle, kwargs=_kw,
                      start=dt.datetime(2000, 1, 1))
            _j.kwargs["k97"] = 97
            _foreign_jobs.append(_j)
    _loaded.update(scheduler=scheduler, trigger=trigger, Job=Job, JobType=JobType,
                   prioritization=prioritization, clock=clock,
                   SchedulerError=scheduler.SchedulerError)
    return _loaded


class Impl:
    """Interprets a history against scheduler.Scheduler; produces annotated DSL lines and
    observation blocks in the same textual form as ocaml/driver.ml."""

    def __init__(self, user_logger=True, n_threads=1):
        self.m = load_impl()
        self.user_logger = user_logger
        self.n_threads = n_threads
        self.sch = None
        self.jobs = {}       # id -> Job (every job object created)
        self.next_id = 0
        self.events = []
        self.sent = {}       # id -> (args tuple, kwargs dict) objects supplied to the scheduling call
        self.table = {}      # current scripted priority table (id -> Fraction)
        self.prio_kind = "linear"
        self.lines = []      # annotated DSL
        self.blocks = []     # observation blocks (list of lines)
        self.max_exec = 0
        self.bare_prio = False

    # -- object construction
    def timing_obj(self, e):
        if e[0] == "C":
            return dt.timedelta(microseconds=e[1])
        if e[0] == "T":
            return mk_time(e[1])
        t = mk_time(e[2])
        if (e[2][2] + e[2][3]) % 2:
            # half of the triggers are built with the day class itself, the others through the weekday() factory
            return getattr(self.m["trigger"], ["Monday", "Tuesday", "Wednesday", "Thursday", "Friday", "Saturday", "Sunday"][e[1]])(t)
        return self.m["trigger"].weekday(e[1], t)

    def weight(self, c):
        if c["wden"] == 1:
            return c["wnum"]
        return c["wnum"] / c["wden"]

    def job_id(self, job):
        for i, j in self.jobs.items():
            if j is job:
                return i
        return -1

    def make_callback(self, jid, c, prog):
        outs = c["outs"]
        impl = self

        def callback(*args, **kwargs):
            job = impl.jobs.get(jid)
            due = dt_parts(job.datetime)[0] if job is not None else -1
            n = job.attempts if job is not None else 0
            impl.events.append("EV inv %d %d [%s] {%s}" % (
                jid, due, ",".join(str(a) for a in args),
                ",".join("%s:%s" % (k[1:], v) for k, v in kwargs.items())))
            if jid in impl.sent and identity_lost(impl.sent[jid], args, kwargs):
                impl.events.append("EV identity-lost %d" % jid)   # never produced by the model
            try:
                for o in prog:
                    impl.do_cbop(o, [])  # an exception here is the callback's exception
                if n < len(outs) and outs[n]:
                    raise failure_class(jid + n)("scripted failure")
            except Exception:
                if impl.user_logger == "quiet":
                    # the user's logger lets nothing through: there is no record to observe, the failure must be
                    # counted all the same (the event the handler would have reported is put in its place)
                    impl.events.append("EV log %d" % jid)
                raise

        callback.__name__ = callback.__qualname__ = "cb%d" % jid
        return callback

    def job_kwargs(self, c, jid, prog):
        kw = dict(
            max_attempts=c["max"], tags={tagname(t) for t in c["tags"]},
            skip_missing=c["skip"], weight=self.weight(c),
            args=tuple(Val(a) for a in c["args"]) if c["args"] else None,
            kwargs={"k%d" % k: Val(v) for k, v in c["kwargs"]} if c["kwargs"] else ({} if jid % 3 == 0 else None))
        if kw["args"] is not None and jid % 4 == 1:
            kw["args"] = ArgsTuple(kw["args"])       # a tuple subclass is a tuple: its elements are the arguments
        # every other job is scheduled with ONE tags set and ONE kwargs dict that the caller reuses (refilled for
        # each call, mutated after it): a job that kept a reference would change with the next job
        if jid % 2 == 0:
            if not hasattr(self, "shared_tags"):
                self.shared_tags, self.shared_kwargs = set(), {}
            self.shared_tags.clear()
            self.shared_tags.update(kw["tags"])
            kw["tags"] = self.shared_tags
            if isinstance(kw["kwargs"], dict):
                self.shared_kwargs.clear()
                self.shared_kwargs.update(kw["kwargs"])
                kw["kwargs"] = self.shared_kwargs
        # the objects supplied (the dict itself is mutated by the harness later, its values are not)
        self.sent[jid] = (kw["args"], dict(kw["kwargs"]) if kw["kwargs"] else None)
        if not c["delay"]:
            kw["delay"] = False
        if c["start"] is not None:
            kw["start"] = mk_dt(c["start"])
        if c["stop"] is not None:
            kw["stop"] = mk_dt(c["stop"])
        return kw

    def timing_arg(self, c):
        objs = [self.timing_obj(e) for e in c["timing"]]
        if len(objs) == 1 and c.get("bare", True):
            return objs[0]
        return objs

    # -- operations
    def do_cbop(self, o, prog):
        k = o[0]
        sch = self.sch
        if k in ("SCHED", "ONCE"):
            jid = self.next_id
            self.next_id += 1
            c = o[1] if k == "SCHED" else o[2]
            cb = self.make_callback(jid, c, prog)
            if c.get("bound"):
                cb = Holder(sch, cb).call
            if k == "SCHED":
                jkw = self.job_kwargs(c, jid, prog)
                job = getattr(sch, TYPE_NAMES[c["type"]])(self.timing_arg(c), cb, **jkw)
                caller_kwargs, caller_tags = jkw.get("kwargs"), jkw.get("tags")
            else:
                ot = o[1]
                if ot[0] == "D":
                    t = mk_dt(ot[1])
                elif ot[0] == "TD":
                    t = dt.timedelta(microseconds=ot[1])
                elif ot[0] == "TM":
                    t = mk_time(ot[1])
                else:
                    t = self.m["trigger"].weekday(ot[1], mk_time(ot[2]))
                caller_tags = self.once_tags(c)
                caller_kwargs = {"k%d" % kk: Val(v) for kk, v in c["kwargs"]} if c["kwargs"] else ({} if jid % 3 == 0 else None)
                once_args = tuple(Val(a) for a in c["args"]) if c["args"] else None
                self.sent[jid] = (once_args, dict(caller_kwargs) if caller_kwargs else None)
                job = sch.once(t, cb, args=once_args,
                               kwargs=caller_kwargs, tags=caller_tags, weight=self.weight(c))
            # C19/C11: the scheduler must be insulated from later mutation of the caller's objects
            # and of the set handed out by the tags property
            if isinstance(caller_kwargs, dict):
                caller_kwargs["k99"] = 99
                for key in list(caller_kwargs)[:1]:
                    caller_kwargs.pop(key)
            if isinstance(caller_tags, set):
                caller_tags.add("t99")
                for tg in sorted(caller_tags)[:1]:
                    caller_tags.discard(tg)
            elif isinstance(caller_tags, list):
                caller_tags.append("t99")
                del caller_tags[:1]
            handed = job.tags
            handed.add("t98")
            handed.add(tagname(1 + jid % 3))      # a tag the queries use: must not become the job's
            if jid % 2:
                handed.clear()
            self.jobs[jid] = job
            return ("job", jid)
        if k == "DEL":
            job = self.jobs.get(o[1])
            if job is None:
                # a job object that was never created: use a foreign job
                job = self.foreign_job()
            sch.delete_job(job)
            return ("none",)
        if k == "DELJOBS":
            tags = None if o[1] is None else {tagname(t) for t in o[1]}
            return ("int", sch.delete_jobs(tags, o[2]) if o[2] else sch.delete_jobs(tags))
        if k == "GETJOBS":
            tags = None if o[1] is None else {tagname(t) for t in o[1]}
            res = sch.get_jobs(tags, o[2]) if o[2] else sch.get_jobs(tags)
            ids = sorted(self.job_id(j) for j in res)
            res.clear()  # the returned set is a snapshot: mutating it must not matter
            return ("ids", ids)
        if k == "JOBS":
            res = sch.jobs
            ids = sorted(self.job_id(j) for j in res)
            res.clear()
            return ("ids", ids)
        raise ValueError(o)

    def once_tags(self, c):
        kind = c.get("tagkind", "set")
        names = [tagname(t) for t in c["tags"]]
        if kind == "set":
            return set(names)
        if kind == "frozenset":
            return frozenset(names)
        if kind == "list":
            return list(names)
        if kind == "tuple":
            return tuple(names)
        if kind == "gen":
            return (n for n in names)
        if kind == "keys":
            return dict.fromkeys(names).keys()
        if kind == "none":
            return None
        raise ValueError(kind)

    def foreign_job(self):
        m = self.m
        tz = self.sch._Scheduler__tzinfo
        return m["Job"](m["JobType"].CYCLIC, [dt.timedelta(seconds=1)], lambda: None, tzinfo=tz)

    def prio_wrapper(self, inner):
        impl = self

        @functools.wraps(inner)
        def wrapper(seconds, job, max_exec, job_count):
            val = inner(seconds, job, max_exec, job_count)
            fr = Fraction(val)
            impl.events.append("EV prio %d %d %d %d %d/%d" % (
                impl.job_id(job), round(seconds * 10**6), max_exec, job_count,
                fr.numerator, fr.denominator))
            return val

        if getattr(self, "star_prio", False):
            # a priority function written with *args is as valid as one naming its four parameters
            def star(*args):
                return wrapper(*args)
            star.__name__ = star.__qualname__ = getattr(inner, "__name__", "prio")
            return star
        return wrapper

    def bare_prio_events(self):
        """what prio_wrapper would have logged during the coming (non-forced) poll: same registry order, same clock"""
        sch = self.sch
        registered = list(sch._Scheduler__jobs)
        now_dt = dt.datetime.now(sch._Scheduler__tzinfo)
        for job in registered:
            seconds = -job.timedelta(now_dt).total_seconds()
            val = self.bare_inner(seconds, job, self.max_exec, len(registered))
            fr = Fraction(val)
            self.events.append("EV prio %d %d %d %d %d/%d" % (
                self.job_id(job), round(seconds * 10**6), self.max_exec, len(registered),
                fr.numerator, fr.denominator))

    def table_prio(self, seconds, job, max_exec, job_count):
        fr = self.table.get(self.job_id(job), Fraction(0))
        return float(fr) if fr.denominator != 1 else int(fr)

    def on_log(self, record):
        jid = -1
        if record.args:
            a = record.args[0] if isinstance(record.args, tuple) else record.args
            jid = self.job_id(a)
        self.events.append("EV log %d" % jid)
        if record.levelno < logging.ERROR or record.exc_info is None:
            # C10: a failure produces an ERROR record (with the exception attached), whatever the exception's class
            self.events.append("EV not-an-error-record %d level=%d" % (jid, record.levelno))
        job = self.jobs.get(jid)
        if job is not None and job.failed_attempts > job.attempts:
            # whoever looks (a log handler does) must never see more failures than attempts
            self.events.append("EV counters %d failed=%d attempts=%d" % (jid, job.failed_attempts, job.attempts))

    def init(self, o):
        _, tz, mx, prio, now, ctor = o
        m = self.m
        m["clock"].set_now(now)
        self.prio_kind = prio
        self.max_exec = mx
        jobs = None
        if ctor:
            jobs = set()
            for c, jtz in ctor:
                jid = self.next_id
                self.next_id += 1
                cb = self.make_callback(jid, c, [])
                kw = self.job_kwargs(c, jid, [])
                kw["tzinfo"] = tzof(jtz)
                job = m["Job"](getattr(m["JobType"], TYPE_NAMES[c["type"]].upper()),
                               [self.timing_obj(e) for e in c["timing"]], cb, **kw)
                self.jobs[jid] = job
                jobs.add(job)
            # the constructor takes any iterable of jobs: vary the kind with the history
            kind = ["set", "list", "tuple", "gen", "frozenset"][(now // 1000 + len(ctor)) % 5]
            self.ctor_container = jobs
            if kind == "list":
                jobs = list(jobs)
            elif kind == "tuple":
                jobs = tuple(jobs)
            elif kind == "gen":
                jobs = (j for j in list(jobs))
            elif kind == "frozenset":
                jobs = frozenset(jobs)
        inner = {"linear": m["prioritization"].linear_priority_function,
                 "const": m["prioritization"].constant_weight_prioritization,
                 "table": self.table_prio}[prio]
        self.star_prio = ((now // 1000) + mx) % 3 == 0       # a function of the history: replays agree
        # in a quarter of the histories with a built-in priority function the scheduler gets the function object itself
        # (or, for the linear one, nothing: the default) instead of the logging wrapper; the evaluations the wrapper
        # would have logged are then computed by the harness right before each poll (bare_prio_events)
        self.bare_prio = prio in ("linear", "const") and ((now // 1000) + 3 * mx) % 4 == 1
        self.bare_inner = inner
        kw = dict(max_exec=mx, tzinfo=tzof(tz), priority_function=inner if self.bare_prio else self.prio_wrapper(inner),
                  jobs=jobs, n_threads=self.n_threads)
        if self.bare_prio and prio == "linear" and (now // 1000) % 2 == 0:
            del kw["priority_function"]
        if self.user_logger:
            self.logger = logging.getLogger("verif.user.%d" % id(self))
            self.logger.propagate = False
            kw["logger"] = self.logger
        else:
            self.logger = logging.getLogger("scheduler")
            self.logger.propagate = False
        self.handler = _CountingHandler(self.on_log)
        # a logger is often configured after the scheduler was built: no handler yet at construction time
        self.logger.handlers = []
        self.logger.setLevel(logging.CRITICAL + 10 if self.user_logger == "quiet" else logging.DEBUG)
        # ... and in half of the histories its level is raised only afterwards (silent while the scheduler is built)
        late_level = self.user_logger != "quiet" and ((now // 1000) + mx) % 2 == 0
        if late_level:
            self.logger.setLevel(logging.CRITICAL + 10)
        self.sch = m["scheduler"].Scheduler(**kw)
        if late_level:
            self.logger.setLevel(logging.DEBUG)
        self.logger.handlers = [self.handler]
        # the iterable handed to the constructor stays the caller's: mutating it later must not matter
        cc = getattr(self, "ctor_container", None)
        if isinstance(cc, set) and jobs is cc:
            cc.clear()
            cc.add(self.foreign_job())

    def observe(self, res):
        out = []
        if res[0] == "err":
            out.append("RES err " + res[1])
        elif res[0] == "none":
            out.append("RES ok none")
        elif res[0] == "int":
            out.append("RES ok int %d" % res[1])
        elif res[0] == "ids":
            out.append("RES ok ids " + ",".join(str(i) for i in res[1]))
        elif res[0] == "job":
            out.append("RES ok job %d" % res[1])
        if self.sch is not None:
            out.append("REG " + ",".join(str(i) for i in sorted(self.job_id(j) for j in self.sch.jobs)))
            for jid in sorted(self.jobs):
                j = self.jobs[jid]
                u, off = dt_parts(j.datetime)
                out.append("J %d %d %s %d %d %d" % (jid, u, s_otz(off), j.attempts, j.failed_attempts,
                                                    int(j.has_attempts_remaining)))
                self.check_reported(jid, j)
            out.extend(self.events)
        out.append("END")
        self.events = []
        return out

    def check_reported(self, jid, j):
        """timedelta(x) and timedelta() must denote the same instant as datetime (C01-C03: the due time a job reports)"""
        try:
            tz = j.datetime.tzinfo
            now = dt.datetime.now(tz)
            probe = now + dt.timedelta(days=3, microseconds=1)
            if j.timedelta(probe) != j.datetime - probe or abs(j.timedelta() - (j.datetime - dt.datetime.now(tz))) > dt.timedelta(0):
                self.events.append("EV timedelta-inconsistent %d" % jid)
        except TypeError:
            pass        # a job built for another awareness than the clock's: not this oracle's business

    def step(self, o):
        k = o[0]
        order = table = None
        try:
            if k == "INIT":
                self.init(o)
                res = ("none",)
            elif k == "NOW":
                self.m["clock"].set_now(o[1])
                res = ("none",)
            elif k == "CALL":
                res = self.do_cbop(o[1], o[2])
            elif k == "EXEC":
                order = [self.job_id(j) for j in list(self.sch._Scheduler__jobs)]
                table = o[2] or []
                self.table = {i: Fraction(n, d) for i, n, d in table}
                if self.bare_prio and not o[1]:
                    try:
                        self.bare_prio_events()
                    except Exception:  # noqa: the poll itself raises the same way; the events so far stay
                        pass
                res = ("int", self.sch.exec_jobs(force_exec_all=o[1]))
            else:
                raise ValueError(o)
        except (KeyboardInterrupt, SystemExit, GeneratorExit):
            raise
        except BaseException as e:  # noqa
            res = ("err", exc_name(e))
            if k == "INIT":
                self.sch = None
        self.lines.append(s_op(o, order, table))
        self.blocks.append(self.observe(res))
        return res

    def run(self, history):
        for o in history:
            self.step(o)
            if self.sch is None:
                break
        return self.lines, self.blocks


# ---------------------------------------------------------------------------------------
# running annotated DSL on the extracted model
def run_model(all_lines):
    """all_lines: list of histories, each a list of DSL lines. Returns list of list of blocks."""
    text = []
    for lines in all_lines:
        text.append("RESET")
        text.extend(lines)
    p = subprocess.run([DRIVER], input="\n".join(text) + "\n", capture_output=True, text=True, check=True)
    out = p.stdout.split("\n")
    hists, cur, block = [], None, []
    for ln in out:
        if ln == "RESET":
            if cur is not None:
                hists.append(cur)
            cur, block = [], []
        elif ln == "END":
            block.append(ln)
            cur.append(block)
            block = []
        elif ln:
            block.append(ln)
    if cur is not None:
        hists.append(cur)
    return hists


# ---------------------------------------------------------------------------------------
# comparison
def _prio_close(a, b):
    """a: model exact 'n/d', b: implementation float as exact 'n/d'."""
    fa, fb = Fraction(a), Fraction(b)
    if fa == fb:
        return True
    if (fa > 0) != (fb > 0) or (fa == 0) != (fb == 0):
        return False
    return abs(fa - fb) <= abs(fa) * Fraction(1, 2**48)


def _overdue_close(a, b):
    """a: model microseconds (exact); b: implementation float seconds * 10^6 rounded.
    A double holds microsecond-exact seconds only below 2^52 microseconds."""
    if a == b:
        return True
    if (a > 0) != (b > 0) or (a == 0) != (b == 0):
        return False
    return abs(a) >= 2**50 and abs(a - b) <= abs(a) >> 48


def compare_blocks(mb, ib, exact_prio):
    """Returns None when equal, else a short description of the first difference."""
    if len(mb) != len(ib):
        # find first differing line for the message
        for x, y in zip(mb, ib):
            if x != y:
                return "model %r / impl %r" % (x, y)
        return "block length model %d impl %d: %r / %r" % (len(mb), len(ib), mb[-2:], ib[-2:])
    for x, y in zip(mb, ib):
        if x == y:
            continue
        if x.startswith("RES err OtherError") and y.startswith("RES err Other:"):
            continue
        if x.startswith("EV prio ") and y.startswith("EV prio "):
            xs, ys = x.split(), y.split()
            if xs[:3] == ys[:3] and xs[4:6] == ys[4:6] and _overdue_close(int(xs[3]), int(ys[3])):
                if Fraction(xs[6]) == Fraction(ys[6]):
                    continue
                if (not exact_prio) and _prio_close(xs[6], ys[6]):
                    continue
        return "model %r / impl %r" % (x, y)
    return None


def float_ambiguous(mb, ib):
    """True when rounding of the implementation's float priorities changes the relative order
    (or the equality) of two priorities that the exact model distinguishes (or equates): the
    selection may then legitimately differ, which is IEEE rounding, modelled not verified."""
    mp = [Fraction(l.split()[6]) for l in mb if l.startswith("EV prio ")]
    ip = [Fraction(l.split()[6]) for l in ib if l.startswith("EV prio ")]
    if len(mp) != len(ip):
        return False
    for i in range(len(mp)):
        for j in range(i + 1, len(mp)):
            a = (mp[i] > mp[j]) - (mp[i] < mp[j])
            b = (ip[i] > ip[j]) - (ip[i] < ip[j])
            if a != b:
                return True
    return False


def compare_history(mblocks, iblocks, exact_prio=False):
    """None when equal; ('ambiguous', i) when comparison stopped at a float-ambiguous exec;
    else (i, description)."""
    for i, (mb, ib) in enumerate(zip(mblocks, iblocks)):
        if float_ambiguous(mb, ib):
            return ("ambiguous", i)
        d = compare_blocks(mb, ib, exact_prio)
        if d is not None:
            return i, d
    if len(mblocks) != len(iblocks):
        return min(len(mblocks), len(iblocks)), "number of blocks: model %d impl %d" % (len(mblocks), len(iblocks))
    return None
