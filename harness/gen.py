"""History generators for the sequential correspondence streams.  Generation is online: the
generator drives an Impl step by step so that polls can be aimed at due instants (exactly
on, one microsecond before/after).  Every random choice comes from the one Random passed in."""
import datetime as dt
from . import core

D = core.D
HR = 3600 * 10**6
MN = 60 * 10**6
SEC = 10**6
WK = 7 * D
PERIOD = {1: MN, 2: HR, 3: D, 4: WK}


def day_us(y, m, d):
    return (core._REAL_DT(y, m, d) - core.EPOCH) // core.US


BOUNDARY_DAYS = [
    (1971, 1, 1), (1999, 12, 31), (2000, 2, 28), (2000, 2, 29), (2000, 12, 31), (2023, 2, 28),
    (2024, 2, 28), (2024, 2, 29), (2024, 12, 31), (2100, 2, 28), (2100, 3, 1), (2021, 5, 26),
    (2026, 10, 4), (2400, 2, 29), (2999, 11, 30), (1980, 6, 30),
]
OFFSETS = [0, HR, -HR, 5 * HR + 30 * MN, -(9 * HR + 30 * MN), 5 * HR + 45 * MN, 14 * HR, -12 * HR,
           30 * SEC, -(7 * MN + 13 * SEC), 23 * HR + 59 * MN + 59 * SEC + 999999,
           -(23 * HR + 59 * MN + 59 * SEC + 999999), 1, 12 * HR + 1]


def rand_offset(r):
    if r.random() < 0.75:
        return r.choice(OFFSETS)
    return r.randrange(-D + 1, D)


def rand_tod(r):
    c = r.random()
    if c < 0.15:
        return 0
    if c < 0.3:
        return D - 1
    if c < 0.4:
        return r.choice([1, SEC - 1, SEC, MN - 1, MN, HR - 1, HR, D - SEC, D - MN, 12 * HR])
    if c < 0.7:
        return r.randrange(0, D // SEC) * SEC + r.choice([0, 0, 1, 999999])
    return r.randrange(0, D)


def rand_instant(r):
    """utc microseconds, 1971..2999, biased to rollovers"""
    if r.random() < 0.7:
        y, m, d = r.choice(BOUNDARY_DAYS)
    else:
        y, m, d = r.randrange(1971, 2999), r.randrange(1, 13), r.randrange(1, 29)
    return day_us(y, m, d) + rand_tod(r)


def rand_time(r, off):
    tod = rand_tod(r)
    us = tod % SEC
    s = tod // SEC
    return (s // 3600, s // 60 % 60, s % 60, us, off)


def aware_off(r, aware):
    return rand_offset(r) if aware else None


def local_dt(utc_us, off):
    return (utc_us + (off or 0), off)


WEIGHTS = [(1, 1), (1, 1), (2, 1), (3, 1), (1, 2), (1, 4), (3, 2), (5, 1), (10, 1), (1, 8), (0, 1), (7, 4)]


class Profile:
    """Tunable knobs of the general generator."""
    kinds = [0, 1, 2, 3, 4]          # job types to schedule
    p_once = 0.15
    p_ctor = 0.0
    p_batched = 0.25
    p_skip = 0.3
    p_stop = 0.3
    p_start = 0.5
    p_max = 0.4
    p_nodelay = 0.1
    p_fail = 0.15
    p_tags = 0.4
    p_prog = 0.0
    p_invalid = 0.05                 # awareness mistakes etc.
    p_force = 0.07
    p_delete = 0.1
    p_query = 0.1
    p_aware = 0.6
    max_jobs = 6
    min_ops, max_ops = 4, 14
    max_execs = [0, 0, 0, 1, 2, 3]
    prios = ["linear", "linear", "linear", "const", "table"]
    weights = WEIGHTS
    zero_weight = True
    exact_prio = False               # restrict gaps so that float priorities are exact
    n_timers_max = 3
    aim_due = 0.5
    user_logger = 0.5
    p_bound = 0.12                   # the callback is a bound method of an object whose repr shows the scheduler


def gen_cfg(r, P, aware, now, kind=None, for_once=False):
    ty = r.choice(P.kinds) if kind is None else kind
    bad_aw = r.random() < P.p_invalid
    if ty == 0:
        T = r.choice([0, 1, SEC, 5 * SEC, MN, HR, D, r.randrange(0, 2 * D), r.randrange(0, 8 * WK)])
        timing = [("C", T)]
        period = max(T, 1)
    else:
        n = 1 if r.random() > P.p_batched else r.randrange(2, P.n_timers_max + 1)
        timing = []
        for _ in range(n):
            t_aw = aware if not (bad_aw and r.random() < 0.5) else (not aware)
            t = rand_time(r, aware_off(r, t_aw))
            if ty == 4:
                timing.append(("W", r.randrange(7), t))
            else:
                timing.append(("T", t))
        period = PERIOD[ty]
    c = core.default_cfg(type=ty, timing=timing)
    wn, wd = r.choice(P.weights)
    if wn == 0 and not P.zero_weight:
        wn = 1
    c["wnum"], c["wden"] = wn, wd
    if r.random() < P.p_tags:
        c["tags"] = sorted(r.sample(range(5), r.randrange(1, 4)))
    if r.random() < P.p_fail:
        c["outs"] = [r.random() < 0.5 for _ in range(r.randrange(1, 5))]
    if r.random() < 0.3:
        c["args"] = [r.randrange(100) for _ in range(r.randrange(1, 3))]
    if r.random() < 0.3:
        c["kwargs"] = [(k, r.randrange(100)) for k in sorted(r.sample(range(6), r.randrange(1, 3)))]
    c["bound"] = r.random() < P.p_bound
    if for_once:
        c["tagkind"] = r.choice(["set", "set", "frozenset", "list", "tuple", "gen", "keys", "none"])
        if c["tagkind"] == "none":
            c["tags"] = []
        return c
    if r.random() < P.p_max:
        c["max"] = r.choice([1, 1, 2, 3, 7])
        if r.random() < 0.04:
            c["max"] = r.choice([-1, -3])       # a negative limit: no attempt is ever free, the job is born retired
    c["skip"] = r.random() < P.p_skip
    s_aw = aware if not (bad_aw and r.random() < 0.5) else (not aware)
    base = now
    if r.random() < P.p_start:
        cls = r.random()
        if cls < 0.5:
            su = now + r.choice([-1, 1]) * r.choice([0, 1, SEC, period, 3 * period, r.randrange(0, 3 * D)])
        else:
            su = rand_instant(r)
        c["start"] = local_dt(su, aware_off(r, s_aw))
        base = su
        if r.random() < P.p_nodelay:
            c["delay"] = False
    if r.random() < P.p_stop:
        e_aw = aware if not (bad_aw and r.random() < 0.5) else (not aware)
        gap = r.choice([1, period - 1, period, period + 1, 2 * period, 3 * period + 1,
                        r.randrange(1, 4 * max(period, SEC)), -SEC, 0])
        c["stop"] = local_dt(base + gap, aware_off(r, e_aw))
    return c


def gen_once(r, P, aware, now):
    c = gen_cfg(r, P, aware, now, kind=0, for_once=True)
    bad_aw = r.random() < P.p_invalid
    aw = aware if not bad_aw else (not aware)
    k = r.random()
    if k < 0.3:
        u = now + r.choice([-1, 1]) * r.choice([0, 1, SEC, HR, r.randrange(0, 3 * D)])
        ot = ("D", local_dt(u, aware_off(r, aw)))
    elif k < 0.55:
        ot = ("TD", r.choice([0, 1, SEC, MN, r.randrange(0, 2 * D)]))
    elif k < 0.8:
        ot = ("TM", rand_time(r, aware_off(r, aw)))
    else:
        ot = ("WD", r.randrange(7), rand_time(r, aware_off(r, aw)))
    return ("ONCE", ot, c)


def gen_tags(r):
    k = r.random()
    if k < 0.2:
        return None
    if k < 0.3:
        return []
    return sorted(r.sample(range(5), r.randrange(1, 4)))


def gen_prog(r, P, aware, now, n_known):
    prog = []
    for _ in range(r.randrange(1, 4)):
        k = r.random()
        if k < 0.25:
            prog.append(("SCHED", gen_cfg(r, P, aware, now)))
        elif k < 0.35:
            prog.append(gen_once(r, P, aware, now))
        elif k < 0.6:
            prog.append(("DEL", r.randrange(0, n_known + 2)))
        elif k < 0.75:
            prog.append(("DELJOBS", gen_tags(r), r.random() < 0.5))
        elif k < 0.9:
            prog.append(("GETJOBS", gen_tags(r), r.random() < 0.5))
        else:
            prog.append(("JOBS",))
    return prog


def next_gap(r, P, impl, now):
    """time to advance before the next poll"""
    dues = []
    for j in impl.jobs.values():
        try:
            dues.append(core.dt_parts(j.datetime)[0])
        except Exception:  # noqa
            pass
    if dues and r.random() < P.aim_due:
        tgt = r.choice(dues) + r.choice([0, 0, 0, -1, 1, SEC])
        if tgt >= now:
            return tgt - now
    if P.exact_prio:
        return r.choice([0, SEC, 2 * SEC, 4 * SEC, MN, HR, D, 3 * SEC, 7 * D])
    return r.choice([0, 1, SEC, 59 * SEC, MN, MN + 1, HR, D - 1, D, D + 1, WK, 31 * D,
                     r.randrange(0, 3 * D), r.randrange(0, 400 * D)])


def gen_history(r, P, impl):
    """Generate and execute one history on impl. Returns the list of operations."""
    aware = r.random() < P.p_aware
    tz = rand_offset(r) if aware else None
    now = rand_instant(r)
    prio = r.choice(P.prios)
    mx = r.choice(P.max_execs)
    ctor = []
    if r.random() < P.p_ctor:
        for _ in range(r.randrange(1, 4)):
            jtz = tz if r.random() > P.p_invalid else (None if aware else 0)
            c = gen_cfg(r, P, jtz is not None, now)
            c["bare"] = False
            ctor.append((c, jtz))
    ops = [("INIT", tz, mx, prio, now, ctor)]
    res = impl.step(ops[0])
    if impl.sch is None:
        return ops
    n_ops = r.randrange(P.min_ops, P.max_ops + 1)
    last_query = None
    for _ in range(n_ops):
        k = r.random()
        n_live = len(impl.sch.jobs)
        if (k < 0.3 and n_live < P.max_jobs) or n_live == 0 and k < 0.7:
            prog = gen_prog(r, P, aware, now, impl.next_id) if r.random() < P.p_prog else []
            if r.random() < P.p_once:
                o = gen_once(r, P, aware, now)
            else:
                o = ("SCHED", gen_cfg(r, P, aware, now))
            op = ("CALL", o, prog)
        elif k < 0.3 + P.p_delete:
            op = ("CALL", ("DEL", r.randrange(0, impl.next_id + 2)), [])
        elif k < 0.3 + P.p_delete + P.p_query:
            q = r.random()
            if q < 0.4:
                op = ("CALL", ("GETJOBS", gen_tags(r), r.random() < 0.5), [])
                last_query = op
            elif q < 0.6:
                op = ("CALL", ("JOBS",), [])
            else:
                op = ("CALL", ("DELJOBS", gen_tags(r), r.random() < 0.5), [])
        else:
            now += next_gap(r, P, impl, now)
            ops.append(("NOW", now))
            impl.step(ops[-1])
            table = None
            if prio == "table":
                table = []
                big = r.random() < 0.15      # exact integer ranks beyond float precision (a user function may return ints)
                for jid in impl.jobs:
                    n, d = r.choice([(0, 1), (1, 1), (1, 1), (2, 1), (-1, 1), (1, 2), (3, 1), (3, 2), (-5, 2)])
                    if big and d == 1 and n > 0:
                        n = 10**18 + r.randrange(0, 50)
                    table.append((jid, n, d))
            op = ("EXEC", r.random() < P.p_force, table)
        ops.append(op)
        impl.step(op)
        if op[0] == "EXEC" and last_query is not None and r.random() < 0.5:
            # the same query again right after a poll (which may have retired a job it selected), nothing in between
            ops.append(last_query)
            impl.step(last_query)
    return ops
