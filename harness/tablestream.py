"""C20 correspondence: str(scheduler), str(job) and str_cutoff of the real implementation against
the extracted Table model, plus the property oracle (never raises, one row per job, sorted,
equal widths, true count).  python -m harness.tablestream <n> <seed> -> JSON on stdout."""
import asyncio
import collections
import datetime as dt
import functools
import json
import random
import subprocess
import sys

from . import core, gen


def enc(s):
    return "%d %s" % (len(s), " ".join(str(ord(c)) for c in s)) if s else "0"


def oenc(s):
    return "N" if s is None else "S " + enc(s)


def dec_out(line):
    body = line[4:]
    return "".join(chr(int(x)) for x in body.split(",")) if body else ""


# ---- the callable kinds of the property ----------------------------------------------------------
def plain_function(*a, **k):
    return None


def no_locals():
    return None


class CallableInstance:
    def __call__(self, *a, **k):
        return None


class UnhashableCallable:
    """a callable value object: defines __eq__, so instances cannot be hashed (like a non-frozen dataclass with __call__)"""
    __hash__ = None

    def __eq__(self, other):
        return isinstance(other, UnhashableCallable)

    def __call__(self, *a, **k):
        return None


class UnhashableAsyncCallable:
    __hash__ = None

    def __eq__(self, other):
        return isinstance(other, UnhashableAsyncCallable)

    async def __call__(self, *a, **k):
        return None


class NamedWrapper:
    """a class-based decorator instance that copied the wrapped function's __name__ (not its __qualname__) onto itself"""
    def __init__(self, fn):
        self.fn = fn
        self.__name__ = fn.__name__

    def __call__(self, *a, **k):
        return self.fn(*a, **k)


class WithMethod:
    def method(self, *a, **k):
        return None

    @staticmethod
    def static(*a, **k):
        return None

    @classmethod
    def clsm(cls, *a, **k):
        return None


async def coro_function(*a, **k):
    return None


class AsyncCallable:
    async def __call__(self, *a, **k):
        return None


def handle_kinds(aio):
    if aio:
        return [("async def", coro_function), ("partial(async)", functools.partial(coro_function, 1)),
                ("async callable instance", AsyncCallable()), ("lambda->coro", lambda *a: coro_function()),
                ("bound method", WithMethod().method), ("wrapper with __name__ only", NamedWrapper(coro_function)),
                ("unhashable async callable instance", UnhashableAsyncCallable())]
    return [("def", plain_function), ("def no locals", no_locals), ("lambda", lambda *a, **k: None),
            ("builtin", print), ("bound method", WithMethod().method), ("partial", functools.partial(plain_function, 1)),
            ("callable instance", CallableInstance()), ("class", CallableInstance), ("staticmethod", WithMethod.static),
            ("classmethod", WithMethod.clsm), ("partial of builtin", functools.partial(print, end="")),
            ("wrapper with __name__ only", NamedWrapper(plain_function)),
            ("unhashable callable instance", UnhashableCallable())]


def prio_kinds(m):
    return [("linear", m["prioritization"].linear_priority_function),
            ("partial", functools.partial(lambda x, s, j, a, b: 1.0, 0)),
            ("callable instance", type("P", (), {"__call__": lambda self, s, j, a, b: 1.0})()),
            ("lambda", lambda s, j, a, b: 1.0),
            ("wrapper with __name__ only", NamedWrapper(lambda s, j, a, b: 1.0))]


ALIASES = [None, None, None, "a", "job", "exactly16chars..", "seventeen chars!!", "x" * 40, "äöü中文 alias",
           "", "#", "with # hash and more than sixteen", "{tenant}-sync", "report {0}", "100%s", "%(x)s {", "}{"]
WEIGHTS = [1, 0, 2, 10, 123456, 1234567, 0.5, 0.1, 1e-9, 1e16, 1.0, 3.14159265358979, 12345.678, -1, float(2**70), 99999, 100000.5,
           10**400, -(10**400), 2**1024, float("inf"), 1e308, 5e-324]
MAXES = [0, 1, 2, 10, 999, 10**6, 10**12, 10**15]
TZNAMES = [None, None, "X", "Europe/Berlin-ish", "A very long timezone name indeed", "twelve chars", "thirteen char"]


def view_of(job, now_dt, aio):
    h = job.handle
    qn = getattr(h, "__qualname__", None)
    tn = type(h).__qualname__
    if hasattr(h, "__code__"):
        code = 1 if h.__code__.co_nlocals else 0
    else:
        code = -1
    d = job.datetime
    td = job.timedelta(now_dt)
    neg = td.total_seconds() < 0
    tzn = d.tzname()
    w = "0" if aio else "%s" % job.weight
    # f"{weight:.3g}" has no value for an int beyond the float range; Job.__str__ then shows str(weight)
    try:
        w3 = "0" if aio else "%.3g" % job.weight
    except OverflowError:
        w3 = "%s" % job.weight
    return " ".join([str(job.type.value - 1), str(job.max_attempts), oenc(job.alias), oenc(qn), enc(tn), str(code),
                     enc(str(d)), oenc(tzn if tzn is None else str(tzn)), str(int(neg)), enc(str(-td if neg else td)),
                     str(job.attempts), enc(w), enc(w3), str(core.dt_parts(d)[0])])


def check_table(text, n_jobs, dues, fails):
    """property oracle on the rendered table"""
    lines = text.split("\n")
    if len(lines) < 4 or lines[1] != "":
        fails.append("table does not start with heading + blank line")
        return
    if not lines[0].endswith("#jobs=%d" % n_jobs):
        fails.append("heading %r does not report %d jobs" % (lines[0], n_jobs))
    header, dash, rows = lines[2], lines[3], lines[4:]
    if rows and rows[-1] == "":
        rows = rows[:-1]
    if len(rows) != n_jobs:
        fails.append("%d rows for %d jobs" % (len(rows), n_jobs))
    for r in [dash] + rows:
        if len(r) != len(header):
            fails.append("row width %d, header width %d: %r" % (len(r), len(header), r))
            break


def one_case(r, m, stats, model_lines, expectations, fails):
    aio = r.random() < 0.35
    aware = r.random() < 0.6
    tz = None
    if aware:
        off = gen.rand_offset(r)
        name = r.choice(TZNAMES)
        tz = dt.timezone(dt.timedelta(microseconds=off), name) if name else dt.timezone(dt.timedelta(microseconds=off))
    now = gen.rand_instant(r)
    # one case in twenty: a cluster of cyclic jobs due within a few microseconds of each other, centuries ahead
    # (where a float timestamp can no longer tell them apart): the rows are still ordered by instant
    cluster = r.random() < 0.05
    if cluster:
        now = gen.day_us(r.choice([2300, 2500, 2900]), 6, 15) + r.randrange(0, 86400) * 10**6
    m["clock"].set_now(now)
    now_dt = dt.datetime.now(tz)
    n = r.choice([0, 1, 1, 2, 3, 4, 6]) if not cluster else r.choice([3, 4, 6])
    used = set()

    def build(sch):
        jobs = []
        for _ in range(n):
            kind, h = r.choice(handle_kinds(aio))
            stats["handle." + kind] += 1
            alias = r.choice(ALIASES)
            # distinct due instants (ties would make the row order depend on set iteration order)
            while True:
                delta = r.choice([1, 59, 3600, 86400, 86399, 10**5, 10**7, 3 * 10**8, 10**9]) * r.choice([-1, 1]) + r.randrange(-50, 50)
                if cluster or r.random() < 0.25:
                    delta = 10**5 + r.randrange(0, 8) / 10**6       # due instants one or a few microseconds apart
                if delta not in used:
                    used.add(delta)
                    break
            start = now_dt + dt.timedelta(seconds=delta) - dt.timedelta(seconds=10)
            # jobs of an aware scheduler may be written in other offsets than the scheduler's: the rows are
            # ordered by instant, not by the wall-clock text
            tz_j = tz
            if tz is not None and r.random() < 0.5:
                start = start.astimezone(dt.timezone(dt.timedelta(microseconds=gen.rand_offset(r))))
            if tz is not None and r.random() < 0.5:
                tz_j = dt.timezone(dt.timedelta(microseconds=gen.rand_offset(r)))
            kw = dict(start=start, alias=alias, max_attempts=r.choice(MAXES))
            if r.random() < 0.12:
                # a stop the first due time may already exceed: the threading scheduler never registers such a job,
                # the asyncio scheduler keeps it registered until its supervising task has run
                kw["stop"] = start + dt.timedelta(microseconds=r.choice([1, 10**6, 10**9]))
            if not aio:
                kw["weight"] = r.choice(WEIGHTS)
            try:
                ty = r.randrange(5) if not cluster else 0
                if ty == 0:
                    j = sch.cyclic(dt.timedelta(seconds=10), h, **kw)
                else:
                    t = core.mk_time(gen.rand_time(r, (tz_j.utcoffset(None) // core.US) if tz_j else None))
                    if ty == 4:
                        j = sch.weekly(m["trigger"].weekday(r.randrange(7), t), h, **kw)
                    else:
                        j = getattr(sch, core.TYPE_NAMES[ty])(t, h, **kw)
            except OverflowError:
                continue
            if j not in sch.jobs:
                continue
            if r.random() < 0.5:
                j._BaseJob__attempts = r.choice([1, 5, 99, 12345, 10**7])
            jobs.append(j)
        return jobs

    def render(sch, jobs, heading):
        try:
            text = str(sch)
            repr(sch)
        except Exception as e:  # noqa
            fails.append("str(scheduler) raised %r" % (e,))
            return
        check_table(text, len(jobs), None, fails)
        # ties in the due time are ordered by the iteration order of (a copy of) the job set
        jobs = list(sch.jobs)
        due_order = [core.dt_parts(j.datetime)[0] for j in sorted(jobs, key=lambda j: core.dt_parts(j.datetime)[0])]
        model_lines.append("%s %d %s" % (heading, len(jobs), " ".join(view_of(j, now_dt, aio) for j in jobs)))
        expectations.append(("table", text))
        for j in jobs:
            try:
                text = str(j)
            except Exception as e:  # noqa
                fails.append("str(job) raised %r" % (e,))
                continue
            model_lines.append("JOBSTR %d %s" % (int(not aio), view_of(j, now_dt, aio)))
            expectations.append(("job", text))
        stats["tables"] += 1
        stats["rows"] += len(jobs)

    tzs = None if tz is None else tz.tzname(None)
    if aio:
        async def main():
            from scheduler.asyncio import Scheduler as AioScheduler
            sch = AioScheduler(tzinfo=tz)
            jobs = build(sch)
            render(sch, jobs, "SAIO %s" % oenc(tzs))
            sch.delete_jobs()
        asyncio.run(main())
    else:
        pk, pf = r.choice(prio_kinds(m))
        stats["prio." + pk] += 1
        mx = r.choice([0, 0, 1, 7, 10**9, -3])
        try:
            sch = m["scheduler"].Scheduler(tzinfo=tz, max_exec=mx, priority_function=pf)
        except Exception as e:  # noqa
            fails.append("Scheduler() raised %r" % (e,))
            return
        jobs = build(sch)
        pname = getattr(pf, "__name__", type(pf).__name__)
        render(sch, jobs, "STHR %d %s %s" % (mx, oenc(tzs), enc(pname)))


def cutoff_cases(r, m, model_lines, expectations, fails, n):
    from scheduler.base.scheduler_util import str_cutoff
    alphabet = "abcXYZ#09 é中"
    for _ in range(n):
        s = "".join(r.choice(alphabet) for _ in range(r.choice([0, 1, 2, 3, 5, 8, 16, 17, 40])))
        w = r.choice([-1, 0, 1, 1, 2, 3, len(s) - 1, len(s), len(s) + 1, 16, 100])
        tail = r.random() < 0.5
        try:
            out = str_cutoff(s, w, tail)
            if w >= 1 and len(out) != min(len(s), w):
                fails.append("str_cutoff(%r, %d, %s) has length %d" % (s, w, tail, len(out)))
            if w >= 1 and len(s) <= w and out != s:
                fails.append("str_cutoff changed a string that fits")
            if w >= 1 and len(s) > w and "#" not in out:
                fails.append("abbreviated string without marker")
            exp = ("cut", out)
        except ValueError:
            exp = ("cuterr", "ValueError")
        except Exception as e:  # noqa
            fails.append("str_cutoff(%r, %d, %s) raised %r" % (s, w, tail, e))
            continue
        model_lines.append("CUTOFF %s %d %d" % (enc(s), w, int(tail)))
        expectations.append(exp)


def run(n, seed):
    m = core.load_impl()
    r = random.Random("table/%d" % seed)
    stats = collections.Counter()
    model_lines, expectations, fails = [], [], []
    for _ in range(n):
        one_case(r, m, stats, model_lines, expectations, fails)
    cutoff_cases(r, m, model_lines, expectations, fails, 5 * n)
    p = subprocess.run([core.DRIVER], input="\n".join(model_lines) + "\n", capture_output=True, text=True, check=True)
    outs = [ln for ln in p.stdout.split("\n") if ln.startswith("OUT") or ln.startswith("ERR") or ln.startswith("PARSEERROR")]
    mismatches = []
    if len(outs) != len(expectations):
        mismatches.append(dict(diff="model produced %d outputs for %d cases" % (len(outs), len(expectations))))
    distinct = set()
    for i, (o, (kind, text)) in enumerate(zip(outs, expectations)):
        got = dec_out(o) if o.startswith("OUT") else o
        exp = text if kind != "cuterr" else "ERR " + text
        distinct.add((kind, exp))
        if got != exp and len(mismatches) < 20:
            mismatches.append(dict(kind=kind, model=got, impl=exp, case=model_lines[i][:600]))
    for mm in mismatches:
        mm["diff"] = "model %r / impl %r" % (("T " + str(mm.get("model"))[:300]), ("T " + str(mm.get("impl"))[:300]))
        mm["lines"] = [mm.get("case", "")]
        mm["index"] = mm["op_index"] = 0
    return dict(profile="table", seed=seed, histories=len(expectations), distinct_nontrivial=len(distinct),
                stats=dict(stats), mismatches=mismatches, n_mismatches=len(mismatches),
                oracle_failures=[dict(property="C20", message=f, index=0, lines=[], ops=None) for f in fails[:20]],
                oracle_errors=[],
                samples=[[model_lines[i][:400], expectations[i][1][:600]] for i in range(min(2, len(expectations)))])


if __name__ == "__main__":
    json.dump(run(int(sys.argv[2]), int(sys.argv[3])), sys.stdout)
