"""Generator profiles: one per correspondence stream."""
from .gen import Profile


class General(Profile):
    pass


class Clock(Profile):
    """C01: single minutely/hourly/daily jobs, 1..6 executions, all offsets independent."""
    kinds = [1, 2, 3]
    p_once = 0.0
    p_batched = 0.0
    p_skip = 0.0
    p_stop = 0.05
    p_max = 0.1
    p_fail = 0.0
    p_tags = 0.0
    p_invalid = 0.0
    p_delete = 0.02
    p_query = 0.02
    max_jobs = 2
    prios = ["linear"]
    max_execs = [0]
    weights = [(1, 1)]
    aim_due = 0.7


class Weekly(Clock):
    kinds = [4]


class Cyclic(Clock):
    kinds = [0]
    p_once = 0.4
    p_nodelay = 0.4
    p_start = 0.7


class Skip(Profile):
    kinds = [0, 1, 2, 3, 4]
    p_skip = 0.6
    p_batched = 0.4
    p_invalid = 0.0
    prios = ["linear"]
    max_execs = [0]
    weights = [(1, 1)]
    min_ops, max_ops = 8, 24


class Batch(Profile):
    kinds = [1, 2, 3, 4]
    p_batched = 0.9
    p_once = 0.0
    n_timers_max = 5
    prios = ["linear"]
    max_execs = [0]
    weights = [(1, 1)]


class Select(Profile):
    """C04/C05: populations, weights, max_exec, all priority kinds."""
    p_invalid = 0.0
    max_jobs = 8
    p_stop = 0.1
    p_max = 0.2
    max_execs = [0, 1, 2, 3, 5, 8, 9]
    min_ops, max_ops = 8, 16


class Limits(Profile):
    """C06/C07: attempt limits and windows."""
    p_max = 0.7
    p_stop = 0.6
    p_ctor = 0.3
    p_force = 0.15
    p_fail = 0.3
    prios = ["linear"]
    max_execs = [0, 0, 1]


class Faults(Profile):
    p_fail = 0.8
    p_max = 0.4
    max_jobs = 6
    prios = ["linear", "const"]


class Registry(Profile):
    """C11/C12: scheduling/deleting/querying mixes with invalid calls."""
    p_invalid = 0.25
    p_delete = 0.2
    p_query = 0.25
    p_tags = 0.8
    p_once = 0.3
    p_ctor = 0.2
    prios = ["linear"]


class Awareness(Profile):
    p_invalid = 0.5
    p_ctor = 0.3
    p_once = 0.3
    p_start = 0.7
    p_stop = 0.5
    prios = ["linear"]
    min_ops, max_ops = 3, 8


class Reentrant(Profile):
    """C15 (sequential part): callbacks that use their own scheduler."""
    p_prog = 0.7
    p_max = 0.6
    p_once = 0.3
    p_invalid = 0.0
    prios = ["linear", "const"]
    max_execs = [0, 0, 2]


_ALL = {c.__name__.lower(): c for c in [General, Clock, Weekly, Cyclic, Skip, Batch, Select, Limits, Faults,
                                        Registry, Awareness, Reentrant]}


def get(name):
    return _ALL[name]
