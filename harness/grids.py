"""Exhaustive small-scope enumerations (deterministic, complete over the stated finite grid).
Each grid is a list of histories (operation lists in the format of harness/core.py)."""
import itertools

from . import core, gen

SEC, MN, HR, D = gen.SEC, gen.MN, gen.HR, gen.D
OFFS = [None, 0, 5 * HR + 30 * MN, -(9 * HR + 30 * MN), 30 * SEC, 23 * HR + 59 * MN + 59 * SEC + 999999,
        -(23 * HR + 59 * MN + 59 * SEC + 999999), 14 * HR, -12 * HR]
TODS = [0, 1, 12 * HR, D - 1, 23 * HR + 59 * MN + 59 * SEC, HR - 1, MN]
DAYS = [(1971, 1, 1), (1999, 12, 31), (2000, 2, 28), (2000, 2, 29), (2023, 2, 28), (2024, 2, 29), (2024, 12, 31),
        (2100, 2, 28), (2100, 3, 1), (2400, 2, 29), (2999, 11, 30), (2021, 5, 26)]


def time_of(tod, off):
    s = tod // SEC
    return (s // 3600, s // 60 % 60, s % 60, tod % SEC, off)


def awareness():
    """C13: every naive/aware assignment to scheduler, timing entries, start and stop, for all six
    scheduling calls (once() with its four timing kinds) and the constructor"""
    out = []
    now = gen.day_us(2024, 2, 28) + 10 * HR
    aw = lambda a: (HR if a else None)   # noqa
    kinds = [("SCHED", 0, 1), ("SCHED", 1, 1), ("SCHED", 2, 1), ("SCHED", 3, 1), ("SCHED", 3, 2), ("SCHED", 4, 1), ("SCHED", 4, 2),
             ("ONCE", "D"), ("ONCE", "TD"), ("ONCE", "TM"), ("ONCE", "WD")]
    for sched_aw in (False, True):
        tz = aw(sched_aw)
        for kind in kinds:
            if kind[0] == "SCHED":
                ty, n = kind[1], kind[2]
                ent_choices = [(False,), (True,)] if n == 1 else list(itertools.product((False, True), repeat=2))
                if ty == 0:
                    ent_choices = [()]
                for ents in ent_choices:
                    for st in (None, False, True):
                        for sp in (None, False, True):
                            for via in ("call", "ctor"):
                                timing = []
                                for k, ea in enumerate(ents):
                                    t = time_of(TODS[2] + k * HR, aw(ea))
                                    timing.append(("W", 2 + k, t) if ty == 4 else ("T", t))
                                if ty == 0:
                                    timing = [("C", 5 * SEC)]
                                c = core.default_cfg(type=ty, timing=timing)
                                if st is not None:
                                    c["start"] = gen.local_dt(now + HR, aw(st))
                                if sp is not None:
                                    c["stop"] = gen.local_dt(now + 30 * D, aw(sp))
                                if via == "call":
                                    ops = [("INIT", tz, 0, "linear", now, []), ("CALL", ("SCHED", c), []),
                                           ("NOW", now + 8 * D), ("EXEC", False, None)]
                                else:
                                    c = dict(c, bare=False)
                                    for jtz in ((tz,) if st is None and sp is None and not ents else (tz, aw(not sched_aw))):
                                        out.append([("INIT", tz, 0, "linear", now, [(c, jtz)]), ("NOW", now + 8 * D), ("EXEC", False, None)])
                                    continue
                                out.append(ops)
            else:
                for ta in (False, True):
                    k = kind[1]
                    if k == "D":
                        ot = ("D", gen.local_dt(now + HR, aw(ta)))
                    elif k == "TD":
                        if ta:
                            continue
                        ot = ("TD", 5 * SEC)
                    elif k == "TM":
                        ot = ("TM", time_of(TODS[2], aw(ta)))
                    else:
                        ot = ("WD", 3, time_of(TODS[2], aw(ta)))
                    c = core.default_cfg()
                    c["tagkind"] = "set"
                    out.append([("INIT", tz, 0, "linear", now, []), ("CALL", ("ONCE", ot, c), []),
                                ("NOW", now + 8 * D), ("EXEC", False, None)])
    return out


def once_tags():
    """C12: every iterable kind for once(tags=...) x the four once() timings, then all queries"""
    out = []
    now = gen.day_us(2024, 2, 28) + 10 * HR
    for kind in ("set", "frozenset", "list", "tuple", "gen", "keys", "none"):
        for ot in (("D", (now + HR, None)), ("TD", 5 * SEC), ("TM", time_of(TODS[2], None)), ("WD", 3, time_of(TODS[2], None))):
            for tags in ([1, 2], [2], []):
                c = core.default_cfg(tags=[] if kind == "none" else tags)
                c["tagkind"] = kind
                ops = [("INIT", None, 0, "linear", now, []), ("CALL", ("ONCE", ot, c), []),
                       ("CALL", ("SCHED", core.default_cfg(tags=[2, 3])), [])]
                for q in ([1], [2], [1, 2], [3], [1, 3], []):
                    for anyt in (False, True):
                        ops.append(("CALL", ("GETJOBS", q, anyt), []))
                ops += [("CALL", ("GETJOBS", None, False), []), ("CALL", ("DELJOBS", [2], False), []), ("CALL", ("JOBS",), [])]
                out.append(ops)
    return out


def clock(ty_list=(1, 2, 3, 4)):
    """C01/C02: rollover dates x job types x offsets of timing, start and scheduler (all aware, plus the
    all-naive case) x time-of-day classes; creation, three executions polled exactly on / 1 us before"""
    out = []
    aware_offs = [o for o in OFFS if o is not None]
    for (y, m, d) in DAYS:
        base = gen.day_us(y, m, d)
        for ty in ty_list:
            P = gen.PERIOD[ty]
            for tod in TODS:
                combos = [(None, None, None)] + [(a, b, c) for a in aware_offs for b in aware_offs[:4] for c in aware_offs[:3]]
                for (o_t, o_s, o_z) in combos:
                    t = time_of(tod, o_t)
                    timing = [("W", (y + m + d) % 7, t)] if ty == 4 else [("T", t)]
                    start_utc = base + 23 * HR + 59 * MN + 59 * SEC + 999999
                    c = core.default_cfg(type=ty, timing=timing, start=gen.local_dt(start_utc, o_s))
                    ops = [("INIT", o_z, 0, "linear", start_utc, []), ("CALL", ("SCHED", c), [])]
                    ops += [("NOW", start_utc + P - 1), ("EXEC", False, None), ("NOW", start_utc + P), ("EXEC", False, None),
                            ("NOW", start_utc + 3 * P + 1), ("EXEC", False, None), ("EXEC", False, None), ("EXEC", False, None)]
                    out.append(ops)
    return out


def dup_lists():
    """C09: all pairs of entries over {7 times of day} x {9 offsets} (aware or all naive) for the three
    clock kinds, plus weekly pairs over {3 weekdays}: acceptance vs. equivalence, then two executions"""
    out = []
    now = gen.day_us(2024, 2, 28) + 10 * HR
    aware_offs = [o for o in OFFS if o is not None]
    ents = [(tod, off) for tod in TODS for off in aware_offs]
    for ty in (1, 2, 3):
        for a in ents:
            for b in ents:
                c = core.default_cfg(type=ty, timing=[("T", time_of(a[0], a[1])), ("T", time_of(b[0], b[1]))])
                out.append([("INIT", 0, 0, "linear", now, []), ("CALL", ("SCHED", c), []),
                            ("NOW", now + 2 * D), ("EXEC", False, None), ("EXEC", False, None)])
    for a in ents[::3]:
        for b in ents[::3]:
            for wa in (0, 3, 6):
                for wb in (0, 1, 6):
                    c = core.default_cfg(type=4, timing=[("W", wa, time_of(a[0], a[1])), ("W", wb, time_of(b[0], b[1]))])
                    out.append([("INIT", 0, 0, "linear", now, []), ("CALL", ("SCHED", c), []),
                                ("NOW", now + 15 * D), ("EXEC", False, None), ("EXEC", False, None)])
    # weekly entries whose times of day coincide in UTC (the same instant of the week, or the same clock reading one
    # day apart, depending on the weekdays): the duplicate check must separate exactly these
    for a in ents:
        for b in ents:
            if (a[0] - a[1]) % D != (b[0] - b[1]) % D:
                continue
            for wa, wb in ((0, 0), (0, 1), (1, 0), (0, 6), (6, 0), (3, 3), (3, 4), (4, 3)):
                c = core.default_cfg(type=4, timing=[("W", wa, time_of(a[0], a[1])), ("W", wb, time_of(b[0], b[1]))])
                out.append([("INIT", 0, 0, "linear", now, []), ("CALL", ("SCHED", c), []),
                            ("NOW", now + 15 * D), ("EXEC", False, None), ("EXEC", False, None)])
    return out


def attempts():
    """C06: attempt limits n in {1,2,3,255,256,257,258,300} (beyond CPython's small-integer cache) for a cyclic
    job polled n+2 times, succeeding, failing or alternating; the job must run exactly n times"""
    out = []
    now = gen.day_us(2024, 2, 28) + 10 * HR
    for n in (1, 2, 3, 255, 256, 257, 258, 300):
        for outs in ([], [True] * n, [i % 2 == 0 for i in range(n)]):
            c = core.default_cfg(max=n, outs=outs)
            ops = [("INIT", None, 0, "linear", now, []), ("CALL", ("SCHED", c), [])]
            for i in range(1, n + 3):
                ops += [("NOW", now + i * SEC), ("EXEC", False, None)]
            ops.append(("CALL", ("JOBS",), []))
            out.append(ops)
    return out


GRIDS = {"grid-attempts": attempts, "grid-awareness": awareness, "grid-oncetags": once_tags, "grid-clock": clock,
         "grid-clockdaily": lambda: clock((1, 2, 3)), "grid-weekly": lambda: clock((4,)), "grid-dup": dup_lists}
_cache = {}


def get(name):
    if name not in _cache:
        _cache[name] = GRIDS[name]()
    return _cache[name]
