"""Runs a sequential correspondence stream: N generated histories on the real implementation
and on the extracted model, compares every observation.  Usable as a module (run_stream) and
as a worker process: python -m harness.seqstream <profile> <n> <seed> -> JSON on stdout."""
import collections
import hashlib
import json
import random
import sys
import time

from . import core, gen, grids, oracles, profiles


def history_signature(lines):
    return hashlib.sha1("\n".join(lines).encode()).hexdigest()[:16]


def nontrivial(blocks):
    """A history is non-trivial when it executed a callback or had a rejected call."""
    for b in blocks:
        for ln in b:
            if ln.startswith("EV inv") or ln.startswith("RES err"):
                return True
    return False


def run_stream(profile_name, n, seed, keep_samples=2):
    grid = None
    if profile_name.startswith("grid-"):
        # exhaustive enumeration: worker k (= seed % 1000) takes the k-th slice of n histories
        full = grids.get(profile_name)
        k = seed % 1000
        grid = full[k * n:(k + 1) * n]
        n = len(grid)
        P = profiles.get("general")
    else:
        P = profiles.get(profile_name)
    if n == 0:
        return dict(profile=profile_name, seed=seed, histories=0, grid_total=len(full), distinct_nontrivial=0, stats={},
                    mismatches=[], n_mismatches=0, oracle_failures=[], oracle_errors=[], samples=[], impl_s=0, model_s=0)
    r = random.Random("%s/%d" % (profile_name, seed))
    all_lines, all_blocks, all_ops = [], [], []
    stats = collections.Counter()
    t0 = time.time()
    loggers = []
    oracle_fails = []
    oracle_errors = []
    for i in range(n):
        impl = core.Impl(user_logger=r.random() < P.user_logger)
        if impl.user_logger and r.random() < 0.3:
            impl.user_logger = "quiet"       # a user logger that lets nothing through
        loggers.append(impl.user_logger)
        if grid is not None:
            ops = grid[i]
            impl.run(ops)
        else:
            ops = gen.gen_history(r, P, impl)
        all_lines.append(impl.lines)
        all_blocks.append(impl.blocks)
        all_ops.append(ops)
        try:
            of = oracles.check(ops, impl.blocks)
        except Exception as e:  # an oracle bug must never look like a violation
            of = {}
            stats["oracle_errors"] += 1
            oracle_errors.append(repr(e))
        for pid, msgs in list(of.items()):
            for m in msgs:
                if m.startswith("KNOWN["):
                    stats["known." + m[6:m.index("]")]] += 1
            msgs = [m for m in msgs if not m.startswith("KNOWN[")]
            if not msgs:
                continue
            stats["oracle." + pid] += 1
            if len(oracle_fails) < 40:
                oracle_fails.append(dict(property=pid, message=msgs[0], index=i, ops=ops, lines=impl.lines,
                                         user_logger=impl.user_logger))
        for o in ops:
            stats["op." + (o[0] if o[0] != "CALL" else o[1][0])] += 1
            if o[0] == "CALL" and o[1][0] == "SCHED":
                stats["kind." + core.TYPE_NAMES[o[1][1]["type"]]] += 1
                if len(o[1][1]["timing"]) > 1:
                    stats["batched"] += 1
        for b in impl.blocks:
            for ln in b:
                if ln.startswith("EV inv"):
                    stats["invocations"] += 1
                elif ln.startswith("RES err"):
                    stats["err." + ln.split()[2]] += 1
                elif ln.startswith("EV log"):
                    stats["failures_logged"] += 1
    t1 = time.time()
    model = core.run_model(all_lines)
    t2 = time.time()
    mismatches = []
    sigs = set()
    nontriv = 0
    for i, (mb, ib) in enumerate(zip(model, all_blocks)):
        d = core.compare_history(mb, ib, exact_prio=P.exact_prio)
        if d is not None and d[0] == "ambiguous":
            stats["float_ambiguous_histories"] += 1
        elif d is not None:
            mismatches.append(dict(index=i, op_index=d[0], diff=d[1], lines=all_lines[i][: d[0] + 1],
                                   ops=all_ops[i], user_logger=loggers[i]))
        sg = history_signature(all_lines[i])
        if sg not in sigs and nontrivial(ib):
            nontriv += 1
        sigs.add(sg)
    if len(model) != len(all_blocks):
        mismatches.append(dict(index=-1, op_index=-1, diff="model produced %d histories, impl %d" % (len(model), len(all_blocks)), lines=[]))
    return dict(profile=profile_name, seed=seed, histories=n, grid_total=(len(grids.get(profile_name)) if grid is not None else None), distinct_nontrivial=nontriv,
                stats=dict(stats), mismatches=mismatches[:20], n_mismatches=len(mismatches),
                oracle_failures=oracle_fails, oracle_errors=oracle_errors[:3],
                samples=[all_lines[i] for i in range(min(keep_samples, n))],
                impl_s=round(t1 - t0, 2), model_s=round(t2 - t1, 2))


if __name__ == "__main__":
    res = run_stream(sys.argv[1], int(sys.argv[2]), int(sys.argv[3]))
    json.dump(res, sys.stdout)
