"""Scheduler.once() of both front ends: the dispatch on the type of the timing and the keyword arguments it
hands to __schedule.  A small structural translator: the method must consist of the typeguard check
(recognised by template), `if isinstance(timing, dt.datetime): return self.__schedule(...)` and a final
`return self.__schedule(...)`.  Keywords without a model value (handle, args, kwargs, tags, alias, weight) must
be passed through; the defaults of keywords that are not given are read from BaseJob.__init__.  Fail closed."""
import ast

from py2v import fail, Untranslatable
from py2v_methods import JOBTYPE, find_method

TYPECHECK = """
try:
    tg.check_type(timing, TimingOnceUnion)
except tg.TypeCheckError as err:
    raise SchedulerError(ONCE_TYPE_ERROR_MSG) from err
"""
PASS = {"handle": "handle", "args": "args", "kwargs": "kwargs", "alias": "alias", "weight": "weight"}
WEEKDAYS = ["Monday", "Tuesday", "Wednesday", "Thursday", "Friday", "Saturday", "Sunday"]


def type_mapping(tree):
    for st in tree.body:
        if isinstance(st, ast.Assign) and len(st.targets) == 1 and isinstance(st.targets[0], ast.Name) \
                and st.targets[0].id == "JOB_TYPE_MAPPING" and isinstance(st.value, ast.Dict):
            m = {}
            for k, v in zip(st.value.keys, st.value.values):
                vs = ast.unparse(v)
                if not vs.startswith("JobType.") or vs[8:] not in JOBTYPE:
                    fail(st, "JOB_TYPE_MAPPING value")
                m[ast.unparse(k)] = JOBTYPE[vs[8:]]
            if set(m) != {"dt.timedelta", "dt.time"} | set(WEEKDAYS):
                fail(st, "JOB_TYPE_MAPPING keys")
            if len({m[w] for w in WEEKDAYS}) != 1:
                fail(st, "weekday classes map to different job types")
            return ("Definition once_type_mapping (x : pyonce) : res pyjobtype :=\n  match x with\n"
                    "  | PO_timedelta _ => Ok %s\n  | PO_time _ => Ok %s\n  | PO_weekday _ => Ok %s\n"
                    "  | PO_datetime _ => Err OtherError\n  end.\n" % (m["dt.timedelta"], m["dt.time"], m["Monday"]))
    raise Untranslatable("untranslatable: JOB_TYPE_MAPPING not found")


def init_defaults(job_tree):
    fd = find_method(job_tree, "BaseJob", "__init__")
    d = {}
    for a, v in zip(fd.args.kwonlyargs, fd.args.kw_defaults):
        if v is not None:
            d[a.arg] = ast.unparse(v)
    return d


def call_term(call, branch, defaults, weight_ok):
    if not (isinstance(call, ast.Call) and isinstance(call.func, ast.Attribute) and call.func.attr.endswith("__schedule")
            and isinstance(call.func.value, ast.Name) and call.func.value.id == "self" and not call.args):
        fail(call, "once() must return self.__schedule(...)")
    kw = {k.arg: k.value for k in call.keywords}
    if None in kw:
        fail(call, "**kwargs in the call of __schedule")
    pre = []
    need = {"handle", "args", "kwargs", "alias", "tags"} | ({"weight"} if weight_ok else set())
    if need - set(kw):
        fail(call, "once() must hand %s on to __schedule" % ", ".join(sorted(need - set(kw))))
    for k, v in list(kw.items()):
        if k in PASS:
            if k == "weight" and not weight_ok:
                fail(call, "weight in the asyncio front end")
            if ast.unparse(v) != PASS[k]:
                fail(v, "keyword %s must be passed through" % k)
            del kw[k]
        elif k == "tags":
            del kw[k]          # normalisation of the tags iterable: no model value here (C12: correspondence)
    unknown = set(kw) - {"job_type", "timing", "max_attempts", "delay", "start"}
    if unknown or not {"job_type", "timing", "max_attempts"} <= set(kw):
        fail(call, "keywords of __schedule: %s" % sorted(kw))

    def jobtype(v):
        s = ast.unparse(v)
        if s.startswith("JobType.") and s[8:] in JOBTYPE:
            return JOBTYPE[s[8:]]
        if s == "JOB_TYPE_MAPPING[type(timing)]":
            pre.append(("ty", "(once_type_mapping timing)"))
            return "ty"
        fail(v, "job_type expression")

    def timing(v):
        s = ast.unparse(v)
        if s == "dt.timedelta()":
            return "(PTdelta 0)"
        if s == "timing" and branch == "other":
            pre.append(("tg", "(once_as_timing timing)"))
            return "tg"
        fail(v, "timing expression")

    def boolean(s):
        if s in ("True", "False"):
            return s.lower()
        fail(call, "boolean keyword " + s)

    def start(s):
        if s == "None":
            return "None"
        if s == "timing" and branch == "datetime":
            return "(Some timing_v)"
        fail(call, "start keyword " + s)

    ty = jobtype(kw["job_type"])
    tg = timing(kw["timing"])
    mx = ast.unparse(kw["max_attempts"])
    if not mx.isdigit():
        fail(call, "max_attempts keyword")
    dl = boolean(ast.unparse(kw["delay"]) if "delay" in kw else defaults.get("delay", "?"))
    st = start(ast.unparse(kw["start"]) if "start" in kw else defaults.get("start", "?"))
    term = "(Ok (mkSchedCall %s %s %s %s %s))" % (ty, tg, mx, dl, st)
    for v, t in reversed(pre):
        term = "(bind %s (fun %s => %s))" % (t, v, term)
    return term


def once_method(tree, defaults, name, weight_ok):
    fd = find_method(tree, "Scheduler", "once")
    body = [b for b in fd.body if not (isinstance(b, ast.Expr) and isinstance(b.value, ast.Constant) and isinstance(b.value.value, str))]
    if len(body) != 3 or ast.dump(body[0]) != ast.dump(ast.parse(TYPECHECK).body[0]):
        fail(fd, "once() must be: typeguard check, datetime branch, general branch")
    iff, ret = body[1], body[2]
    if not (isinstance(iff, ast.If) and ast.unparse(iff.test) == "isinstance(timing, dt.datetime)" and not iff.orelse
            and len(iff.body) == 1 and isinstance(iff.body[0], ast.Return) and isinstance(ret, ast.Return)):
        fail(fd, "once() branches")
    a = call_term(iff.body[0].value, "datetime", defaults, weight_ok)
    b = call_term(ret.value, "other", defaults, weight_ok)
    return ("Definition %s (timing : pyonce) : res pyschedcall :=\n  match timing with\n  | PO_datetime timing_v => %s\n"
            "  | _ => %s\n  end.\n" % (name, a, b))


METHODS = ["cyclic", "minutely", "hourly", "daily", "weekly"]
DEPRECATED = '''
def wrapper(func: Callable[..., Any]) -> Callable[..., Any]:
    @wraps(func)
    def real_wrapper(*args: tuple[Any, ...], **kwargs: dict[str, Any]) -> Any:
        for f in fields:
            if f in kwargs and kwargs[f] is not None:
                warnings.warn(
                    (
                        f"Using the `{f}` argument is deprecated and will "
                        "be removed in the next minor release."
                    ),
                    DeprecationWarning,
                    stacklevel=3,
                )
        return func(*args, **kwargs)
    return real_wrapper
return wrapper
'''


def check_deprecated(tree):
    """the decorator of the five scheduling methods: warn, THEN call the method with unchanged arguments"""
    fds = [f for f in tree.body if isinstance(f, ast.FunctionDef) and f.name == "deprecated"]
    if len(fds) != 1:
        raise Untranslatable("untranslatable: decorator `deprecated` not found")
    body = [b for b in fds[0].body if not (isinstance(b, ast.Expr) and isinstance(b.value, ast.Constant) and isinstance(b.value.value, str))]
    if ast.dump(ast.Module(body=body, type_ignores=[])) != ast.dump(ast.parse(DEPRECATED)):
        fail(fds[0], "decorator `deprecated` differs from the template the translator knows")


def schedule_types(tree, name):
    """cyclic/minutely/hourly/daily/weekly: typeguard check of the timing against the method's union, then
    `return self.__schedule(job_type=JobType.K, timing=timing, handle=handle, **kwargs)`"""
    arms = []
    for m in METHODS:
        fd = find_method(tree, "Scheduler", m)
        body = [b for b in fd.body if not (isinstance(b, ast.Expr) and isinstance(b.value, ast.Constant) and isinstance(b.value.value, str))]
        if [ast.unparse(d) for d in fd.decorator_list] != ["deprecated(['delay'])"]:
            fail(fd, "decorators of %s" % m)
        if [a.arg for a in fd.args.args] != ["self", "timing", "handle"] or fd.args.kwarg is None or fd.args.kwarg.arg != "kwargs":
            fail(fd, "signature of %s" % m)
        if len(body) != 2 or not isinstance(body[0], ast.Try) or not isinstance(body[1], ast.Return):
            fail(fd, "%s() must be: typeguard check, return self.__schedule(...)" % m)
        t = body[0]
        ann = ast.unparse(fd.args.args[1].annotation)
        want = ast.parse("try:\n    tg.check_type(timing, %s)\nexcept tg.TypeCheckError as err:\n    raise SchedulerError(X) from err\n" % ann).body[0]
        got = ast.dump(t)
        # the error message constant is free, everything else is fixed
        if not (len(t.handlers) == 1 and isinstance(t.handlers[0].body[0], ast.Raise)
                and ast.unparse(t.handlers[0].body[0].exc).startswith("SchedulerError(")):
            fail(t, "typeguard check of %s" % m)
        t.handlers[0].body[0].exc = want.handlers[0].body[0].exc
        if ast.dump(t) != ast.dump(want):
            fail(t, "typeguard check of %s" % m)
        call = body[1].value
        if not (isinstance(call, ast.Call) and isinstance(call.func, ast.Attribute) and call.func.attr.endswith("__schedule") and not call.args):
            fail(call, "%s() must return self.__schedule(...)" % m)
        kw = {k.arg: ast.unparse(k.value) for k in call.keywords}
        jt = kw.get("job_type", "")
        if set(kw) != {"job_type", "timing", "handle", None} or kw["timing"] != "timing" or kw["handle"] != "handle" \
                or kw[None] != "kwargs" or not jt.startswith("JobType.") or jt[8:] not in JOBTYPE:
            fail(call, "keywords handed to __schedule by %s" % m)
        arms.append("  | M_%s => %s" % (m, JOBTYPE[jt[8:]]))
    return "Definition %s (m : pymethod) : pyjobtype :=\n  match m with\n%s\n  end.\n" % (name, "\n".join(arms))
