"""Module-level functions with optionals, loops and comprehensions (scheduler/base/job_util.py,
scheduler/base/scheduler.py::select_jobs_by_tag, scheduler/util.py::are_weekday_times_unique).
Adds to the method translator:
  * truthiness of Optional values (`if start:`), bool(x), `^` on booleans
  * `x is JobType.K`, `x in (JobType.A, JobType.B)`, `x in D` / `D[x]` for a module-level dict keyed by JobType
  * `for x in L: <statements that only test and raise>`            -> for_each
  * `[e for x in cast(list[T], L)]`, `{e for x in L [if c]}`        -> mapM / filter, sets deduplicated
  * dt.datetime.now(tz) (reads the scripted clock parameter now_us), dt.datetime(year=1970, month=1, day=1, tzinfo=tz)
Fail closed like py2v.py."""
import ast

from py2v import Untranslatable, fail, COQTY, ANN, ATTRS
from py2v_methods import Method, JOBTYPE

COQTY.update({"timinglist": "list pytiming", "set:str": "list Z", "set:tagjob": "list pytagjob", "tagjob": "pytagjob",
              "list:datetime": "list datetime", "set:datetime": "list datetime"})
ANN.update({"set[BaseJobType]": "set:tagjob", "Optional[dt.datetime]": "opt:datetime"})
ATTRS.update({("tagjob", "tags"): ("ptj_tags", "set:str")})
LISTCAST = {"list[Weekday]": ("as_weekday", "weekday"), "list[dt.time]": ("as_time", "time")}
WRAP = {"time": "PTtime", "weekday": "PTweekday", "timedelta": "PTdelta"}


class Func(Method):
    def __init__(self, fd, known, dicts=None, valdicts=None, has_self=False, state_type=None, fields=None):
        super().__init__(fd, known, state_type, fields or {}, dicts or {}, has_self=has_self)
        self.valdicts = valdicts or {}     # dict name -> (coq lookup function, [keys], value type)
        self.uses_clock = False
        self.truthy = {}

    # ---- expressions
    def e(self, n):
        if isinstance(n, ast.Call):
            f = n.func
            if isinstance(f, ast.Name) and f.id == "bool" and len(n.args) == 1 and not n.keywords:
                c, t = self.e(n.args[0])
                if t == "bool":
                    return c, t
                if t == "tzinfo" or t.startswith("opt:"):
                    return "(opt_is_some %s)" % c, "bool"
                fail(n, "bool() of " + t)
            if isinstance(f, ast.Name) and f.id == "cast" and len(n.args) == 2 and ast.unparse(n.args[0]) in LISTCAST:
                a, ta = self.e(n.args[1])
                if ta != "timinglist":
                    fail(n, "cast of a non-timing list")
                return a, "castlist:" + LISTCAST[ast.unparse(n.args[0])][1]
            if isinstance(f, ast.Name) and f.id in self.known and not n.keywords:
                args = []
                for a in n.args:
                    c, t = self.e(a)
                    if t.startswith("castlist:"):
                        # typing.cast is a no-op; the callee fails on the first wrong element it touches.  Checked
                        # element-wise at the call here (same outcome when sane_timing_types passed before)
                        caster = [k for k, v in LISTCAST.items() if v[1] == t[9:]][0]
                        v = self.newvar("cl")
                        self.pre.append((v, "(mapM %s %s)" % (LISTCAST[caster][0], c)))
                        c, t = v, "list:" + t[9:]
                    args.append((c, t))
                sig = self.known[f.id]
                if [t for _, t in args] != sig[0]:
                    fail(n, "call argument types")
                v = self.newvar("r")
                self.pre.append((v, "(%s %s)" % (f.id, " ".join(a for a, _ in args))))
                return v, sig[1]
            if ast.unparse(f) == "dt.datetime.now" and len(n.args) + len(n.keywords) == 1:
                arg = n.args[0] if n.args else n.keywords[0].value
                if n.keywords and n.keywords[0].arg != "tz":
                    fail(n, "now() keyword")
                c, t = self.e(arg)
                if t != "tzinfo":
                    fail(n, "now() argument")
                self.uses_clock = True
                return "(dt_now now_us %s)" % c, "datetime"
            if ast.unparse(f) == "dt.datetime" and not n.args:
                kw = {k.arg: k.value for k in n.keywords}
                if set(kw) == {"year", "month", "day", "tzinfo"} and \
                        [ast.unparse(kw[k]) for k in ("year", "month", "day")] == ["1970", "1", "1"]:
                    c, t = self.e(kw["tzinfo"])
                    if t != "tzinfo":
                        fail(n, "datetime(tzinfo=)")
                    return "(mkDt epoch1970 %s)" % c, "datetime"
                fail(n, "datetime constructor")
            if isinstance(f, ast.Attribute) and f.attr == "replace":
                v, t = self.e(f.value)
                if t == "time":
                    kw = {k.arg: self.e(k.value) for k in n.keywords}
                    if n.args or set(kw) - {"hour", "minute"} or any(ty != "int" for _, ty in kw.values()):
                        fail(n, "time.replace arguments")
                    g = lambda k: "(Some %s)" % kw[k][0] if k in kw else "None"  # noqa
                    return "(t_replace %s %s %s)" % (v, g("hour"), g("minute")), "time"
        if isinstance(n, ast.BinOp) and isinstance(n.op, ast.BitXor):
            a, ta = self.e(n.left)
            b, tb = self.e(n.right)
            if ta == tb == "bool":
                return "(xorb %s %s)" % (a, b), "bool"
            fail(n, "^ typing")
        if isinstance(n, ast.BinOp) and isinstance(n.op, ast.BitAnd):
            a, ta = self.e(n.left)
            b, tb = self.e(n.right)
            if ta == tb == "set:str":
                return "(zset_inter %s %s)" % (a, b), "set:str"
            fail(n, "& typing")
        if isinstance(n, ast.Compare) and len(n.ops) == 1:
            op = type(n.ops[0]).__name__
            right = n.comparators[0]
            if op in ("In", "NotIn"):
                a, ta = self.e(n.left)
                keys = None
                if isinstance(right, ast.Tuple):
                    keys = [self.e(x) for x in right.elts]
                    if ta != "jobtype" or any(t != "jobtype" for _, t in keys):
                        fail(n, "membership typing")
                    keys = [c for c, _ in keys]
                elif isinstance(right, ast.Name) and right.id in self.valdicts and ta == "jobtype":
                    keys = self.valdicts[right.id][1]
                if keys is None:
                    fail(n, "membership")
                c = "(" + " || ".join("pyjobtype_eqb %s %s" % (a, k) for k in keys) + ")"
                return (c if op == "In" else "(negb %s)" % c), "bool"
            if op in ("LtE", "Eq"):
                mark = len(self.pre)
                a, ta = self.e(n.left)
                b, tb = self.e(right)
                if op == "LtE" and ta == tb == "set:str":
                    return "(zset_subset %s %s)" % (a, b), "bool"
                if op == "Eq" and ta == tb == "nat":
                    return "(Nat.eqb %s %s)" % (a, b), "bool"
                del self.pre[mark:]
        if isinstance(n, ast.Subscript) and isinstance(n.value, ast.Name) and n.value.id in self.valdicts:
            k, tk = self.e(n.slice)
            if tk != "jobtype":
                fail(n, "dict key typing")
            v = self.newvar("r")
            self.pre.append((v, "(%s %s)" % (self.valdicts[n.value.id][0], k)))
            return v, self.valdicts[n.value.id][2]
        if isinstance(n, (ast.ListComp, ast.SetComp)) and len(n.generators) == 1:
            r = self.comp(n)
            if r is not None:
                return r
        if isinstance(n, ast.Name) and n.id in self.truthy:
            return self.truthy[n.id]
        return super().e(n)

    def comp(self, n):
        g = n.generators[0]
        if g.is_async or not isinstance(g.target, ast.Name):
            fail(n, "comprehension form")
        it, tit = self.e(g.iter)
        isset = isinstance(n, ast.SetComp)
        if tit.startswith("list:") and isset and not g.ifs and tit[5:] == "time":
            return None     # the pure form handled by py2v.Fn (are_times_unique)
        x = g.target.id
        saved_env, saved_pre = dict(self.env), self.pre
        self.pre = []
        if tit.startswith("castlist:"):
            et = tit[9:]
            raw = self.newvar("raw")
            caster = [k for k, v in LISTCAST.items() if v[1] == et][0]
            head = "(bind (%s %s) (fun %s => " % (LISTCAST[caster][0], raw, x)
            tail = "))"
            binder = raw
        elif tit == "timinglist":
            et, head, tail, binder = "timingu", "", "", x
        elif tit.startswith("list:") or tit.startswith("set:"):
            et = tit.split(":", 1)[1]
            head, tail, binder = "", "", x
        else:
            fail(n, "comprehension iterable " + tit)
        self.env[x] = et
        conds = []
        for c in g.ifs:
            cc, tc = self.e(c)
            if tc.startswith("set:"):
                cc, tc = "(negb (is_nil %s))" % cc, "bool"
            if tc != "bool":
                fail(c, "comprehension condition typing")
            conds.append(cc)
        if conds and self.pre:
            fail(n, "monadic comprehension condition")
        body, tb = self.e(n.elt)
        mine = self.pre
        self.pre, self.env = saved_pre, saved_env
        v = self.newvar("l")
        if conds:
            if mine or body != x:
                fail(n, "filtering comprehension must yield its variable")
            term = "(Ok (filter (fun %s => %s) %s))" % (x, " && ".join(conds), it)
        else:
            term = "(mapM (fun %s => %s%s%s) %s)" % (binder, head, self.wrap(mine, "(Ok %s)" % body), tail, it)
        self.pre.append((v, term))
        if isset:
            if tb == "datetime":
                return "(dt_dedup %s)" % v, "set:datetime"
            if tb == "tagjob" and tit == "set:tagjob":
                return v, "set:tagjob"        # a subset of a set has no duplicates
            fail(n, "set element type " + tb)
        return v, "list:" + tb

    # ---- statements
    def block(self, stmts):
        if not stmts:
            if self.ret == "none":
                return "(Ok tt)"
            fail(self.fd, "control reaches the end of a function that returns a value")
        s, rest = stmts[0], stmts[1:]
        if isinstance(s, ast.Return) and s.value is not None:
            pre, c, t = self.expr(s.value)
            if t.startswith("list:") and self.ret == "timinglist" and t[5:] in WRAP:
                c, t = "(map %s %s)" % (WRAP[t[5:]], c), "timinglist"
            if t != self.ret:
                fail(s, "return type %s, expected %s" % (t, self.ret))
            return self.wrap(pre, "(Ok %s)" % c)
        if isinstance(s, ast.Assign) and len(s.targets) == 1 and isinstance(s.targets[0], ast.Name):
            name = s.targets[0].id
            pre, c, t = self.expr(s.value)
            if name in self.env and self.env[name] == "timinglist" and t.startswith("list:") and t[5:] in WRAP:
                c, t = "(map %s %s)" % (WRAP[t[5:]], c), "timinglist"
            saved = (dict(self.env), dict(self.narrow), dict(self.folded), dict(self.truthy))
            for d in (self.narrow, self.folded, self.truthy):
                d.pop(name, None)
            self.env[name] = t
            body = self.block(rest)
            self.env, self.narrow, self.folded, self.truthy = saved
            return self.wrap(pre, "(let %s := %s in %s)" % (name, c, body))
        if isinstance(s, ast.If) and isinstance(s.test, ast.Name) and s.test.id in self.env \
                and self.env[s.test.id].startswith("opt:") and s.test.id not in self.truthy \
                and s.test.id not in self.narrow and s.test.id not in self.folded:
            # `if x:` on an Optional[datetime]: a datetime is always truthy, so this is `x is not None`
            if self.env[s.test.id] != "opt:datetime":
                fail(s, "truthiness of " + self.env[s.test.id])
            x = s.test.id
            var = x + "_v"
            saved = dict(self.truthy)
            self.truthy[x] = (var, "datetime")
            some_branch = self.block(list(s.body) + rest)
            self.truthy = saved
            savedf = dict(self.folded)
            self.folded[x] = "None"
            none_branch = self.block(list(s.orelse) + rest)
            self.folded = savedf
            return "(match %s with Some %s => %s | None => %s end)" % (x, var, some_branch, none_branch)
        if isinstance(s, ast.For) and not s.orelse and isinstance(s.target, ast.Name):
            for sub in ast.walk(ast.Module(body=s.body, type_ignores=[])):
                if isinstance(sub, (ast.Return, ast.Break, ast.Continue, ast.Assign, ast.AugAssign, ast.AnnAssign,
                                    ast.For, ast.While)):
                    fail(sub, "loop body may only test and raise")
            pre, it, tit = self.expr(s.iter)
            x = s.target.id
            saved_env, saved_ret = dict(self.env), self.ret
            self.ret = "none"
            if tit.startswith("castlist:"):
                et = tit[9:]
                raw = self.newvar("raw")
                caster = [k for k, v in LISTCAST.items() if v[1] == et][0]
                self.env[x] = et
                body = "(fun %s => (bind (%s %s) (fun %s => %s)))" % (raw, LISTCAST[caster][0], raw, x, self.block(list(s.body)))
            elif tit.startswith("list:"):
                self.env[x] = tit[5:]
                body = "(fun %s => %s)" % (x, self.block(list(s.body)))
            else:
                fail(s, "loop iterable " + tit)
            self.env, self.ret = saved_env, saved_ret
            return self.wrap(pre, "(bind (for_each %s %s) (fun _ => %s))" % (it, body, self.block(rest)))
        return super().block(stmts)

    def emit(self, name=None):
        body = self.block(self.fd.body)
        args = " ".join("(%s : %s)" % (a, COQTY[t]) for a, t in self.params)
        if self.uses_clock:
            args = "(now_us : Z) " + args
        return "Definition %s %s : res (%s) :=\n  %s.\n" % (name or self.fd.name, args, COQTY[self.ret], body)


def value_dict(tree, name, coqname, valtype):
    """module-level  NAME = {JobType.X: <constant expression>, ...}  ->  lookup function + key list"""
    from py2v import Fn
    for st in tree.body:
        if isinstance(st, ast.Assign) and len(st.targets) == 1 and isinstance(st.targets[0], ast.Name) \
                and st.targets[0].id == name and isinstance(st.value, ast.Dict):
            arms, keys = [], []
            helper = Fn.__new__(Fn)
            helper.env, helper.known, helper.fresh, helper.pre = {}, {}, 0, []
            for k, v in zip(st.value.keys, st.value.values):
                ks = ast.unparse(k)
                if not ks.startswith("JobType.") or ks[8:] not in JOBTYPE:
                    fail(st, "dict key")
                c, t = helper.e(v)
                if t != valtype or helper.pre:
                    fail(st, "dict value")
                arms.append("  | %s => Ok %s" % (JOBTYPE[ks[8:]], c))
                keys.append(JOBTYPE[ks[8:]])
            text = ("Definition %s (k : pyjobtype) : res %s :=\n  match k with\n%s\n  | _ => Err OtherError\n  end.\n"
                    % (coqname, COQTY[valtype], "\n".join(arms)))
            return text, keys
    raise Untranslatable("untranslatable: dict %s not found" % name)
