"""BaseJob._str (the eight strings a job contributes to str(job) and to the table), prettify_timedelta and the names
of the JobType members.  Structural: every expression must have the known shape; the constants in it (the strings
"ONCE", "(..)", "()", "(?)", "inf", "-", ",", ".", the slice bound 19, the compared values 1 and 0, the order of
the tuple) are read from the source.  CPython's own renderings (str(datetime), str(timedelta), tzname(), the
callable's attributes) enter through the jobview record of Model/Table.v."""
import ast

from py2v import fail, Untranslatable
from py2v_methods import find_method


def codes(s):
    return "[%s]%%Z" % "; ".join(str(ord(c)) for c in s)


def expect(node, text, what):
    if ast.unparse(node) != text:
        fail(node, what)


def const_str(node, what):
    if not (isinstance(node, ast.Constant) and isinstance(node.value, str)):
        fail(node, what)
    return node.value


def translate(job_tree, util_tree, def_tree):
    out = []
    # JobType member names, in definition order
    members = None
    for c in def_tree.body:
        if isinstance(c, ast.ClassDef) and c.name == "JobType":
            members = [st.targets[0].id for st in c.body if isinstance(st, ast.Assign) and ast.unparse(st.value) == "auto()"]
    if members != ["CYCLIC", "MINUTELY", "HOURLY", "DAILY", "WEEKLY"]:
        raise Untranslatable("untranslatable: JobType members %s" % members)
    out.append("Definition gen_type_name (k : pyjobtype) : pystr :=\n  match k with\n%s\n  end.\n" % "\n".join(
        "  | JT_%s => %s" % (m, codes(m)) for m in members))
    # prettify_timedelta
    pf = [f for f in util_tree.body if isinstance(f, ast.FunctionDef) and f.name == "prettify_timedelta"]
    if len(pf) != 1:
        raise Untranslatable("untranslatable: prettify_timedelta not found")
    body = [b for b in pf[0].body if not (isinstance(b, ast.Expr) and isinstance(b.value, ast.Constant))]
    if len(body) != 3:
        fail(pf[0], "prettify_timedelta shape")
    expect(body[0], "seconds = timedelta.total_seconds()", "prettify_timedelta: seconds")
    iff, ret = body[1], body[2]
    if not (isinstance(iff, ast.If) and ast.unparse(iff.test) == "seconds < 0" and len(iff.body) == 1 and len(iff.orelse) == 1):
        fail(iff, "prettify_timedelta: sign test")
    neg = iff.body[0]
    if not (isinstance(neg, ast.Assign) and ast.unparse(neg.targets[0]) == "res" and isinstance(neg.value, ast.JoinedStr)
            and len(neg.value.values) == 2 and isinstance(neg.value.values[0], ast.Constant)
            and isinstance(neg.value.values[1], ast.FormattedValue) and ast.unparse(neg.value.values[1].value) == "-timedelta"):
        fail(neg, "prettify_timedelta: negative branch")
    sign = const_str(neg.value.values[0], "sign")
    expect(iff.orelse[0], "res = str(timedelta)", "prettify_timedelta: positive branch")
    r = ret.value if isinstance(ret, ast.Return) else None
    # res.split(A)[0].split(B)[0]
    ok = (isinstance(r, ast.Subscript) and ast.unparse(r.slice) == "0" and isinstance(r.value, ast.Call)
          and isinstance(r.value.func, ast.Attribute) and r.value.func.attr == "split" and len(r.value.args) == 1
          and isinstance(r.value.func.value, ast.Subscript) and ast.unparse(r.value.func.value.slice) == "0"
          and isinstance(r.value.func.value.value, ast.Call) and r.value.func.value.value.func.attr == "split"
          and ast.unparse(r.value.func.value.value.func.value) == "res" and len(r.value.func.value.value.args) == 1)
    if not ok:
        fail(ret, "prettify_timedelta: result")
    sep2 = const_str(r.value.args[0], "separator")
    sep1 = const_str(r.value.func.value.value.args[0], "separator")
    if len(sep1) != 1 or len(sep2) != 1:
        fail(ret, "one-character separators")
    out.append("(* [abs_str] = str(abs(timedelta)) as CPython renders it, [neg] = total_seconds() < 0 *)\n"
               "Definition gen_prettify (neg : bool) (abs_str : pystr) : pystr :=\n"
               "  let res := if neg then %s ++ abs_str else abs_str in\n"
               "  take_until (%d) (take_until (%d) res).\n" % (codes(sign), ord(sep2), ord(sep1)))
    # BaseJob._str
    fd = find_method(job_tree, "BaseJob", "_str")
    body = [b for b in fd.body if not (isinstance(b, ast.Expr) and isinstance(b.value, ast.Constant))]
    if len(body) != 3:
        fail(fd, "_str shape")
    expect(body[0], "dt_timedelta = self.timedelta(dt.datetime.now(self.tzinfo))", "_str: due-in")
    iff = body[1]
    if not (isinstance(iff, ast.If) and ast.unparse(iff.test) == "self.alias is not None" and len(iff.body) == 1
            and len(iff.orelse) == 1 and isinstance(iff.orelse[0], ast.If)
            and ast.unparse(iff.orelse[0].test) == "hasattr(self.handle, '__code__')"
            and len(iff.orelse[0].body) == 1 and len(iff.orelse[0].orelse) == 1):
        fail(iff, "_str: argument hint")

    def fargs(st):
        if not (isinstance(st, ast.Assign) and ast.unparse(st.targets[0]) == "f_args"):
            fail(st, "_str: f_args assignment")
        return st.value
    a_alias = const_str(fargs(iff.body[0]), "hint with alias")
    mid = fargs(iff.orelse[0].body[0])
    if not (isinstance(mid, ast.IfExp) and ast.unparse(mid.test) == "self.handle.__code__.co_nlocals"):
        fail(mid, "_str: hint of a function")
    a_loc, a_noloc = const_str(mid.body, "hint"), const_str(mid.orelse, "hint")
    a_unknown = const_str(fargs(iff.orelse[0].orelse[0]), "hint without code")
    ret = body[2]
    if not (isinstance(ret, ast.Return) and isinstance(ret.value, ast.Tuple) and len(ret.value.elts) == 8):
        fail(ret, "_str returns eight strings")
    e = ret.value.elts
    # 0: self.type.name if self.max_attempts != N else "ONCE"
    if not (isinstance(e[0], ast.IfExp) and ast.unparse(e[0].body) == "self.type.name" and isinstance(e[0].test, ast.Compare)
            and ast.unparse(e[0].test.left) == "self.max_attempts" and isinstance(e[0].test.ops[0], ast.NotEq)
            and isinstance(e[0].test.comparators[0], ast.Constant)):
        fail(e[0], "_str[0]")
    once_n, once_s = e[0].test.comparators[0].value, const_str(e[0].orelse, "ONCE")
    expect(e[1], "getattr(self.handle, '__qualname__', type(self.handle).__qualname__) if self.alias is None else self.alias", "_str[1]")
    expect(e[2], "f_args", "_str[2]")
    if not (isinstance(e[3], ast.Subscript) and ast.unparse(e[3].value) == "str(self.datetime)" and isinstance(e[3].slice, ast.Slice)
            and e[3].slice.lower is None and isinstance(e[3].slice.upper, ast.Constant)):
        fail(e[3], "_str[3]")
    cutn = e[3].slice.upper.value
    expect(e[4], "str(self.datetime.tzname())", "_str[4]")
    expect(e[5], "prettify_timedelta(dt_timedelta)", "_str[5]")
    expect(e[6], "str(self.attempts)", "_str[6]")
    if not (isinstance(e[7], ast.Call) and ast.unparse(e[7].func) == "str" and isinstance(e[7].args[0], ast.IfExp)
            and ast.unparse(e[7].args[0].orelse) == "self.max_attempts" and isinstance(e[7].args[0].test, ast.Compare)
            and ast.unparse(e[7].args[0].test.left) == "self.max_attempts" and isinstance(e[7].args[0].test.ops[0], ast.Eq)
            and isinstance(e[7].args[0].body, ast.Call) and ast.unparse(e[7].args[0].body.func) == "float"):
        fail(e[7], "_str[7]")
    inf_n = e[7].args[0].test.comparators[0].value
    inf_s = const_str(e[7].args[0].body.args[0], "inf")
    out.append("""(* jobview (Model/Table.v): what CPython renders - alias, qualname, type name, has __code__ / co_nlocals, str(datetime),
   tzname(), sign and str(abs) of the due-in timedelta - and the job's counters *)
Definition gen_f_args (v : jobview) : pystr :=
  match v_alias v with
  | Some _ => %s
  | None => match v_code v with
            | Some true => %s
            | Some false => %s
            | None => %s
            end
  end.
Definition gen_str_row (v : jobview) : list pystr :=
  [(if negb (v_max v =? %d) then gen_type_name (py_type (v_type v)) else %s);
   (match v_alias v with None => (match v_qualname v with Some q => q | None => v_typename v end) | Some a => a end);
   gen_f_args v;
   firstn %d (v_dtstr v);
   (match v_tzname v with Some n => n | None => %s end);
   gen_prettify (v_neg v) (v_absstr v);
   dec (v_attempts v);
   (if v_max v =? %d then %s else dec (v_max v))].
""" % (codes(a_alias), codes(a_loc), codes(a_noloc), codes(a_unknown), once_n, codes(once_s), cutn, codes("None"), inf_n, codes(inf_s)))
    return "\n".join(out)


def fmt_pieces(node, fmt, nargs):
    """'{0}, {1}{2}' -> [('arg', 0), ('lit', ', '), ...]; only plain positional fields"""
    import string
    out = []
    try:
        parsed = list(string.Formatter().parse(fmt))
    except ValueError:
        fail(node, "format string")
    for lit, field, spec, conv in parsed:
        if lit:
            out.append(("lit", lit))
        if field is None:
            continue
        if spec or conv or not field.isdigit() or int(field) >= nargs:
            fail(node, "format field {%s}" % field)
        out.append(("arg", int(field)))
    return out


THR_STR = '''def __str__(self) -> str:
    try:
        weight = f'{self.weight:.3g}'
    except OverflowError:
        weight = str(self.weight)
    return WEIGHTED'''


def translate_job_str(job_tree, thr_tree, aio_tree):
    fd = find_method(job_tree, "BaseJob", "__str__")
    body = [b for b in fd.body if not (isinstance(b, ast.Expr) and isinstance(b.value, ast.Constant))]
    if not (len(body) == 1 and isinstance(body[0], ast.Return) and isinstance(body[0].value, ast.Call)
            and isinstance(body[0].value.func, ast.Attribute) and body[0].value.func.attr == "format"):
        fail(fd, "BaseJob.__str__ shape")
    call = body[0].value
    if not (len(call.args) == 1 and not call.keywords and ast.unparse(call.args[0]) == "*self._str()"):
        fail(call, "BaseJob.__str__ formats *self._str()")
    fmt = const_str(call.func.value, "format string")
    pieces = fmt_pieces(call, fmt, 8)
    expr = " ++ ".join(codes(v) if k == "lit" else "nth %d row []" % v for k, v in pieces) or "[]"
    out = ["(* BaseJob.__str__: the format string applied to the tuple of _str() *)\n"
           "Definition gen_base_str (row : list pystr) : pystr :=\n  %s.\n" % expr]
    # threading Job.__str__
    fd = find_method(thr_tree, "Job", "__str__")
    ret = fd.body[-1]
    if not (isinstance(ret, ast.Return) and isinstance(ret.value, ast.JoinedStr)):
        fail(fd, "threading Job.__str__ returns an f-string")
    import copy
    probe = copy.deepcopy(fd)
    probe.body[-1] = ast.Return(value=ast.Name(id="WEIGHTED", ctx=ast.Load()))
    if ast.unparse(ast.fix_missing_locations(probe)) != THR_STR:
        fail(fd, "threading Job.__str__ differs from the known shape")
    parts = []
    for v in ret.value.values:
        if isinstance(v, ast.Constant):
            parts.append(codes(v.value))
        elif isinstance(v, ast.FormattedValue) and v.conversion == -1 and v.format_spec is None:
            src = ast.unparse(v.value)
            if src == "super().__str__()":
                parts.append("gen_base_str row")
            elif src == "weight":
                parts.append("w3g")
            else:
                fail(v, "threading Job.__str__ field")
        else:
            fail(v, "threading Job.__str__ field")
    out.append("(* threading Job.__str__; [w3g] = f\"{weight:.3g}\", or str(weight) where that overflows, as CPython renders it *)\n"
               "Definition gen_thr_job_str (row : list pystr) (w3g : pystr) : pystr :=\n  %s.\n" % " ++ ".join(parts))
    # asyncio Job inherits BaseJob.__str__
    for c in aio_tree.body:
        if isinstance(c, ast.ClassDef) and c.name == "Job":
            if [ast.unparse(b.value if isinstance(b, ast.Subscript) else b) for b in c.bases] != ["BaseJob"]:
                fail(c, "asyncio Job bases")
            for st in c.body:
                if isinstance(st, ast.FunctionDef) and st.name in ("__str__", "_str"):
                    fail(st, "asyncio Job overrides %s" % st.name)
    out.append("(* asyncio Job inherits BaseJob.__str__ *)\nDefinition gen_aio_job_str (row : list pystr) : pystr := gen_base_str row.\n")
    return "\n".join(out)
