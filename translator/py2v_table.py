"""Scheduler.__str__ of both front ends: the layout of the job table.  The statement skeleton is fixed (recognised
with holes); what is READ from the source: the column alignments, widths and names, which column disappears without
a timezone, and for every cell of a row which fields of BaseJob._str() it shows and with which width index and side
str_cutoff abbreviates it.  str.format itself (padding to the width, never truncating) is Model/Table.v's pad."""
import ast

from py2v import fail

SKELETON_THR = '''
with self.__jobs_lock:
    scheduler_headings = "HOLE"
    c_align = "HOLE"
    c_width = "HOLE"
    c_name = "HOLE"
    form = [f"{{{idx}:{align}{width}}}" for idx, (align, width) in enumerate(zip(c_align, c_width))]
    if self.__tz_str is None:
        form = "HOLE"
    fstring = " ".join(form) + "\\n"
    job_table = fstring.format(*c_name) + fstring.format(*("-" * width for width in c_width))
    for job in sorted(self.jobs):
        row = job._str()
        entries = "HOLE"
        job_table += fstring.format(*entries)
    return scheduler_headings + job_table
'''
SKELETON_AIO = '''
scheduler_headings = "HOLE"
c_align = "HOLE"
c_width = "HOLE"
c_name = "HOLE"
form = [f"{{{idx}:{align}{width}}}" for idx, (align, width) in enumerate(zip(c_align, c_width))]
if self.__tz_str is None:
    form = "HOLE"
fstring = " ".join(form) + "\\n"
job_table = fstring.format(*c_name)
job_table += fstring.format(*("-" * width for width in c_width))
for job in sorted(self.jobs):
    row = job._str()
    entries = "HOLE"
    job_table += fstring.format(*entries)
return scheduler_headings + job_table
'''


def codes(s):
    return "[%s]%%Z" % "; ".join(str(ord(c)) for c in s)


class Holes(ast.NodeTransformer):
    """replace the value of the assignments to the read names by a hole, remembering the originals"""

    def __init__(self):
        self.found = {}

    def visit_Assign(self, node):
        if len(node.targets) == 1 and isinstance(node.targets[0], ast.Name):
            name = node.targets[0].id
            if name in ("c_align", "c_width", "c_name", "entries", "scheduler_headings") or (name == "form" and not isinstance(node.value, ast.ListComp)):
                self.found[name] = node.value
                return ast.copy_location(ast.Assign(targets=node.targets, value=ast.Constant(value="HOLE")), node)
        return self.generic_visit(node)


def cell(n, weight_ok):
    """one element of `entries` -> coq term over row (list pystr) and weight (pystr)"""
    def text(e):
        if isinstance(e, ast.Subscript) and ast.unparse(e.value) == "row" and isinstance(e.slice, ast.Constant) and isinstance(e.slice.value, int):
            return "(row_nth row %d)" % e.slice.value
        if isinstance(e, ast.BinOp) and isinstance(e.op, ast.Add):
            return "(%s ++ %s)" % (text(e.left), text(e.right))
        if isinstance(e, ast.BoolOp) and isinstance(e.op, ast.Or) and len(e.values) == 2 and ast.unparse(e.values[1]) == "''":
            return "(str_or_empty %s)" % text(e.values[0])
        if isinstance(e, ast.JoinedStr):
            parts = []
            for v in e.values:
                if isinstance(v, ast.Constant) and isinstance(v.value, str):
                    parts.append(codes(v.value))
                elif isinstance(v, ast.FormattedValue) and v.conversion == -1 and v.format_spec is None:
                    if ast.unparse(v.value) == "job.weight" and weight_ok:
                        parts.append("weight")
                    else:
                        parts.append(text(v.value))
                else:
                    fail(e, "f-string part")
            return "(" + " ++ ".join(parts) + ")"
        fail(e, "cell text")
    if isinstance(n, ast.Call) and ast.unparse(n.func) == "str_cutoff" and len(n.args) == 3 and not n.keywords:
        w = n.args[1]
        if not (isinstance(w, ast.Subscript) and ast.unparse(w.value) == "c_width" and isinstance(w.slice, ast.Constant)) \
                or not (isinstance(n.args[2], ast.Constant) and isinstance(n.args[2].value, bool)):
            fail(n, "str_cutoff arguments")
        return "(py_cut %s (col_width cols %d) %s)" % (text(n.args[0]), w.slice.value, "true" if n.args[2].value else "false")
    return text(n)


def translate(tree, skeleton, prefix, weight_ok):
    from py2v_methods import find_method
    fd = find_method(tree, "Scheduler", "__str__")
    body = [b for b in fd.body if not (isinstance(b, ast.Expr) and isinstance(b.value, ast.Constant) and isinstance(b.value.value, str))]
    h = Holes()
    holed = [h.visit(b) for b in ast.parse(ast.unparse(ast.Module(body=body, type_ignores=[]))).body]
    if ast.dump(ast.Module(body=holed, type_ignores=[])) != ast.dump(ast.parse(skeleton)):
        fail(fd, "Scheduler.__str__ differs from the skeleton the translator knows")
    f = h.found
    if set(f) != {"c_align", "c_width", "c_name", "form", "entries", "scheduler_headings"}:
        fail(fd, "table constants")

    def consts(node, kind):
        if not isinstance(node, ast.Tuple) or not all(isinstance(e, ast.Constant) and isinstance(e.value, kind) for e in node.elts):
            fail(node, "tuple of constants")
        return [e.value for e in node.elts]
    align, width, name = consts(f["c_align"], str), consts(f["c_width"], int), consts(f["c_name"], str)
    if not (len(align) == len(width) == len(name)) or any(a not in ("<", ">") for a in align) or any(w < 0 for w in width):
        fail(fd, "column description")
    drop = f["form"]
    ok = (isinstance(drop, ast.BinOp) and isinstance(drop.op, ast.Add)
          and isinstance(drop.left, ast.Subscript) and isinstance(drop.right, ast.Subscript)
          and ast.unparse(drop.left.value) == "form" and ast.unparse(drop.right.value) == "form"
          and isinstance(drop.left.slice, ast.Slice) and drop.left.slice.lower is None and isinstance(drop.left.slice.upper, ast.Constant)
          and isinstance(drop.right.slice, ast.Slice) and drop.right.slice.upper is None and isinstance(drop.right.slice.lower, ast.Constant))
    if not ok:
        fail(drop, "column dropped without a timezone")
    a, b = drop.left.slice.upper.value, drop.right.slice.lower.value
    ent = f["entries"]
    if not isinstance(ent, ast.Tuple) or len(ent.elts) != len(width):
        fail(ent, "one entry per column")
    cells = [cell(e, weight_ok) for e in ent.elts]
    heading = headings(tree, f["scheduler_headings"], prefix)
    cols = "; ".join("(%s, %d%%nat)" % ("true" if al == "<" else "false", w) for al, w in zip(align, width))
    return (heading + "Definition %s_cols : list (bool * nat) := [%s].\n"
            "Definition %s_names : list pystr := [%s].\n"
            "Definition %s_tz_drop : nat * nat := (%d, %d)%%nat.\n"
            "Definition %s_entries (row : list pystr) (weight : pystr) : list pystr :=\n  let cols := %s_cols in\n  [%s].\n"
            % (prefix, cols, prefix, "; ".join(codes(n) for n in name), prefix, a, b, prefix, prefix, ";\n   ".join(cells)))


HEADINGS_THR = """with self.__jobs_lock:
    headings = 'HOLE'
    return headings"""
HEADINGS_AIO = """headings = 'HOLE'
return headings"""


def headings(tree, first_line, prefix):
    """Scheduler.__headings (a list of strings) and the format string of the first line of __str__"""
    from py2v_methods import find_method
    from py2v_strrow import fmt_pieces
    fd = find_method(tree, "Scheduler", "__headings")
    h = Holes2()
    holed = [h.visit(b) for b in ast.parse(ast.unparse(ast.Module(body=fd.body, type_ignores=[]))).body]
    want = HEADINGS_THR if prefix == "thr" else HEADINGS_AIO
    if ast.dump(ast.Module(body=holed, type_ignores=[])) != ast.dump(ast.parse(want)) or not isinstance(h.value, ast.List):
        fail(fd, "Scheduler.__headings differs from the shape the translator knows")
    jobs_attr = "self.__jobs" if prefix == "thr" else "self._jobs"

    def field(e):
        src = ast.unparse(e)
        if src == "self.__tz_str":
            return "opt_str tz"              # f"{None}" is "None"
        if src == "len(%s)" % jobs_attr:
            return "dec njobs"
        if prefix == "thr" and isinstance(e, ast.IfExp) and ast.unparse(e.test) == "self.__max_exec" \
                and ast.unparse(e.body) == "self.__max_exec" and isinstance(e.orelse, ast.Call) \
                and ast.unparse(e.orelse.func) == "float" and len(e.orelse.args) == 1 \
                and isinstance(e.orelse.args[0], ast.Constant) and e.orelse.args[0].value in ("inf", "Infinity", "+inf"):
            return "(if negb (mx =? 0) then dec_int mx else %s)" % codes("inf")      # str(float('inf')) == 'inf'
        if prefix == "thr" and src == "getattr(self.__priority_function, '__name__', type(self.__priority_function).__name__)":
            return "pname"
        fail(e, "heading field")

    def element(e):
        if isinstance(e, ast.JoinedStr):
            parts = []
            for v in e.values:
                if isinstance(v, ast.Constant) and isinstance(v.value, str):
                    parts.append(codes(v.value))
                elif isinstance(v, ast.FormattedValue) and v.conversion == -1 and v.format_spec is None:
                    parts.append(field(v.value))
                else:
                    fail(v, "heading f-string part")
            return " ++ ".join(parts) or "[]"
        if isinstance(e, ast.Call) and isinstance(e.func, ast.Attribute) and e.func.attr == "format" and not e.keywords \
                and isinstance(e.func.value, ast.Constant) and isinstance(e.func.value.value, str):
            args = [field(a) for a in e.args]
            return " ++ ".join(codes(v) if k == "lit" else args[v] for k, v in fmt_pieces(e, e.func.value.value, len(args))) or "[]"
        fail(e, "heading element")
    elems = [element(e) for e in h.value.elts]
    if not (isinstance(first_line, ast.Call) and isinstance(first_line.func, ast.Attribute) and first_line.func.attr == "format"
            and isinstance(first_line.func.value, ast.Constant) and isinstance(first_line.func.value.value, str)
            and not first_line.keywords and [ast.unparse(a) for a in first_line.args] == ["*self.__headings()"]):
        fail(first_line, "first line of __str__")
    line = " ++ ".join(codes(v) if k == "lit" else "nth %d hs []" % v
                       for k, v in fmt_pieces(first_line, first_line.func.value.value, len(elems))) or "[]"
    params = "(mx : Z) (tz : option pystr) (pname : pystr) (njobs : Z)" if prefix == "thr" else "(tz : option pystr) (njobs : Z)"
    args = "mx tz pname njobs" if prefix == "thr" else "tz njobs"
    return ("(* Scheduler.__headings; [tz] = self.__tz_str, [njobs] = len of the job collection%s *)\n"
            "Definition %s_headings %s : list pystr :=\n  [%s].\n"
            "Definition %s_heading_line %s : pystr :=\n  let hs := %s_headings %s in\n  %s.\n"
            % (", [pname] = the priority function's __name__ (or its type's) as CPython gives it" if prefix == "thr" else "",
               prefix, params, ";\n   ".join(elems), prefix, params, prefix, args, line))


class Holes2(ast.NodeTransformer):
    def __init__(self):
        self.value = None

    def visit_Assign(self, node):
        if len(node.targets) == 1 and isinstance(node.targets[0], ast.Name) and node.targets[0].id == "headings":
            self.value = node.value
            return ast.copy_location(ast.Assign(targets=node.targets, value=ast.Constant(value="HOLE")), node)
        return node


CHECK_TZNAME = """def check_tzname(tzinfo: Optional[dt.tzinfo]) -> Optional[str]:
    if tzinfo is None:
        return None
    name: Optional[str] = tzinfo.tzname(None)
    if not isinstance(name, str):
        raise SchedulerError(MESSAGE)
    return name
"""


def check_tzname(util_tree):
    """self.__tz_str = check_tzname(tzinfo): None for a naive scheduler, else tzinfo.tzname(None), which must be a
    string.  Recognised by template (the text of the error message is free)."""
    fds = [f for f in util_tree.body if isinstance(f, ast.FunctionDef) and f.name == "check_tzname"]
    if len(fds) != 1:
        fail(util_tree.body[0], "check_tzname not found")
    fd = ast.parse(ast.unparse(fds[0])).body[0]
    fd.body = [b for b in fd.body if not (isinstance(b, ast.Expr) and isinstance(b.value, ast.Constant))]
    for n in ast.walk(fd):
        if isinstance(n, ast.Raise) and isinstance(n.exc, ast.Call) and len(n.exc.args) == 1:
            n.exc.args = [ast.Name(id="MESSAGE", ctx=ast.Load())]
    if ast.dump(fd) != ast.dump(ast.parse(CHECK_TZNAME).body[0]):
        fail(fds[0], "check_tzname differs from the template the translator knows")
