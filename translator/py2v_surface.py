"""The *surface* of the package: everything that gives meaning to the translated function bodies without being in
them - the statements at module level (imports, constants, mappings), for every function its decorators and its
full signature (names, defaults, annotations: typeguard turns annotations into run-time checks), for every class
its bases, keywords, decorators and the exact set of members (an added __eq__/__hash__/__le__, an override in a
subclass, a cached property change behaviour the translated bodies rely on).  The surface of the current source
must equal the recorded one (translator/surface_expected.json); otherwise every generated file that depends on the
module is reported untranslatable (the tie is lost), naming the first difference.

  python3 translator/py2v_surface.py --write /repo      records the surface (development; never run by a check)"""
import ast
import json
import os
import sys

HERE = os.path.dirname(os.path.abspath(__file__))
EXPECTED = os.path.join(HERE, "surface_expected.json")

# module -> generated files whose meaning depends on it
DEPENDS = {
    "scheduler/__init__.py": ["GenRegistry.v", "GenOnce.v"],
    # the class hierarchy of SchedulerError decides what `except Exception` (Job._exec, callers) catches
    "scheduler/error.py": ["GenJobInit.v", "GenJobUtil.v", "GenJobState.v", "GenRegistry.v", "GenOnce.v", "GenStr.v"],
    "scheduler/message.py": ["GenJobInit.v", "GenJobUtil.v", "GenOnce.v"],
    "scheduler/util.py": ["GenOccur.v"],
    "scheduler/prioritization.py": ["GenPrio.v"],
    "scheduler/trigger/__init__.py": ["GenTrigger.v"],
    "scheduler/trigger/core.py": ["GenTrigger.v"],
    "scheduler/base/__init__.py": ["GenJobState.v"],
    "scheduler/base/definition.py": ["GenOnce.v", "GenStrRow.v", "GenJobInit.v"],
    "scheduler/base/timingtype.py": ["GenOnce.v", "GenJobInit.v"],
    "scheduler/base/job_timer.py": ["GenTimer.v"],
    "scheduler/base/job_util.py": ["GenJobUtil.v", "GenDup.v"],
    "scheduler/base/job.py": ["GenJobState.v", "GenJobInit.v", "GenStrRow.v"],
    "scheduler/base/scheduler.py": ["GenSelect.v", "GenRegistry.v"],
    "scheduler/base/scheduler_util.py": ["GenStr.v", "GenRegistry.v"],
    "scheduler/threading/__init__.py": ["GenRegistry.v", "GenOnce.v"],
    "scheduler/threading/job.py": ["GenJobState.v", "GenStrRow.v"],
    "scheduler/threading/scheduler.py": ["GenSched.v", "GenPost.v", "GenRegistry.v", "GenOnce.v", "GenTable.v"],
    "scheduler/asyncio/__init__.py": ["GenRegistry.v", "GenOnce.v"],
    "scheduler/asyncio/job.py": ["GenJobState.v", "GenStrRow.v"],
    "scheduler/asyncio/scheduler.py": ["GenSupervisor.v", "GenRegistry.v", "GenOnce.v", "GenTable.v"],
}


def stringish(n):
    """an expression that only builds a message text: string constants, +, slices, .format of such, names of such"""
    if isinstance(n, ast.Constant):
        return isinstance(n.value, (str, int)) or n.value is None
    if isinstance(n, ast.Name):
        return n.id.isupper() or n.id.lstrip("_").isupper()
    if isinstance(n, ast.BinOp) and isinstance(n.op, ast.Add):
        return stringish(n.left) and stringish(n.right)
    if isinstance(n, ast.Subscript):
        sl = n.slice
        parts = [sl.lower, sl.upper, sl.step] if isinstance(sl, ast.Slice) else [sl]
        return stringish(n.value) and all(p is None or stringish(p) or (isinstance(p, ast.UnaryOp) and stringish(p.operand)) for p in parts)
    if isinstance(n, ast.Call) and isinstance(n.func, ast.Attribute) and n.func.attr == "format" and not n.keywords:
        return stringish(n.func.value) and all(stringish(a) for a in n.args)
    if isinstance(n, ast.JoinedStr):
        return all(isinstance(v, ast.Constant) or (isinstance(v, ast.FormattedValue) and stringish(v.value)) for v in n.values)
    return False


def is_doc(st):
    return isinstance(st, ast.Expr) and isinstance(st.value, ast.Constant) and isinstance(st.value.value, str)


def sig(fd, prefix):
    kind = "async def" if isinstance(fd, ast.AsyncFunctionDef) else "def"
    ret = " -> " + ast.unparse(fd.returns) if fd.returns is not None else ""
    body = [b for b in fd.body if not is_doc(b)]
    getter = ""
    if any(ast.unparse(d) == "property" for d in fd.decorator_list) and len(body) == 1 and isinstance(body[0], ast.Return):
        getter = ": " + " ".join(ast.unparse(body[0]).split())       # a one-line getter: its body is part of the surface
    return "%s%s%s %s(%s)%s%s" % (prefix, "".join("@%s " % ast.unparse(d) for d in fd.decorator_list), kind, fd.name,
                                   ast.unparse(fd.args), ret, getter)


def lines_of(body, prefix, messages=False):
    out = []
    for st in body:
        if is_doc(st):
            continue
        if isinstance(st, (ast.FunctionDef, ast.AsyncFunctionDef)):
            out.append(sig(st, prefix))
        elif isinstance(st, ast.ClassDef):
            head = "%s%sclass %s(%s)" % (prefix, "".join("@%s " % ast.unparse(d) for d in st.decorator_list), st.name,
                                         ", ".join([ast.unparse(b) for b in st.bases] + [ast.unparse(k) for k in st.keywords]))
            out.append(head)
            out += lines_of(st.body, prefix + st.name + ".")
        elif isinstance(st, ast.Assign) and not prefix and len(st.targets) == 1 and isinstance(st.targets[0], ast.Name) \
                and st.targets[0].id in ("__version__", "__author__") and isinstance(st.value, ast.Constant):
            continue                                     # package metadata: a constant nothing reads
        elif messages and isinstance(st, ast.Assign) and len(st.targets) == 1 and isinstance(st.targets[0], ast.Name) \
                and stringish(st.value):
            out.append("%s = <message text>" % st.targets[0].id)     # the wording of a message is free
        else:
            out.append(prefix + " ".join(ast.unparse(st).split()))
    return out


def surface(repo):
    res = {}
    for rel in DEPENDS:
        path = os.path.join(repo, rel)
        try:
            res[rel] = lines_of(ast.parse(open(path).read()).body, "", messages=rel.endswith("message.py"))
        except (OSError, SyntaxError) as e:
            res[rel] = ["unreadable: %s" % e]
    # a module the package does not have in the recorded surface could only matter through an import, which is a
    # module-level statement of a recorded file
    return res


def first_difference(want, got):
    for ln in got:
        if ln not in want:
            return "new or changed: " + ln
    for ln in want:
        if ln not in got:
            return "missing: " + ln
    if want != got:
        for a, b in zip(want, got):
            if a != b:
                return "order changed: %s now where %s was" % (b, a)
    return None


def check(repo):
    """-> {generated file: reason} for every generated file whose module surface differs from the recorded one"""
    want = json.load(open(EXPECTED))
    got = surface(repo)
    bad = {}
    for rel in DEPENDS:
        d = first_difference(want.get(rel, []), got[rel])
        if d:
            for g in DEPENDS[rel]:
                bad.setdefault(g, "untranslatable: surface of %s differs from the recorded one (%s)" % (rel, d))
    return bad


if __name__ == "__main__":
    if len(sys.argv) == 3 and sys.argv[1] == "--write":
        with open(EXPECTED, "w") as fh:
            json.dump(surface(sys.argv[2]), fh, indent=1)
        print("recorded", EXPECTED)
    else:
        print(__doc__)
