"""Method translator: methods of a class whose instance state is a small record.  Reads of
`self.__f` become projections, assignments functional updates of the state variable `self`
(shadowed by `let`), `with self.__lock:` is sequential, `typing.cast` becomes a checked
projection of the union, a recursive call with fewer arguments is unrolled once.
Fail closed like py2v.py."""
import ast
import copy

from py2v import Fn, Untranslatable, fail, COQTY, ANN, CURFILE, HEADER

COQTY.update({"timingu": "pytiming", "pytimer": "pytimer", "opt:datetime": "option datetime",
              "jobstate": "pyjobstate"})
ANN.update({"Optional[dt.datetime]": "opt:datetime"})

JOBTYPE = {"CYCLIC": "JT_CYCLIC", "MINUTELY": "JT_MINUTELY", "HOURLY": "JT_HOURLY", "DAILY": "JT_DAILY",
           "WEEKLY": "JT_WEEKLY"}
CASTS = {"dt.timedelta": ("as_timedelta", "timedelta"), "dt.time": ("as_time", "time"), "Weekday": ("as_weekday", "weekday")}


class Method(Fn):
    def __init__(self, fd, known, state_type, fields, dicts, folded=None, recursive_as=None, has_self=True):
        # drop `self` from the annotated parameters
        fd = copy.deepcopy(fd)
        if has_self:
            self.self_name = fd.args.args[0].arg
            fd.args.args = fd.args.args[1:]
        else:
            self.self_name = None
        if fd.returns is None:
            fd.returns = ast.Name(id="None")
        super().__init__(fd, known)
        self.state_type = state_type
        self.fields = fields            # '__next_exec' -> (projection, type, setter)
        self.dicts = dicts              # dict name -> coq dispatch function (key type jobtype)
        self.refined = {}               # field -> (var, type) after  self.__f = cast(T, self.__f)
        self.folded = folded or {}      # parameter -> 'None' (constant-folded call without that argument)
        self.recursive_as = recursive_as
        self.narrow = {}                # optional parameter -> unwrapped variable

    def field(self, attr):
        a = attr[len("_%s" % "") :]
        return self.fields.get(attr)

    def e(self, n):
        # self.__f
        if isinstance(n, ast.Attribute) and isinstance(n.value, ast.Name) and n.value.id == self.self_name:
            key = n.attr.split("__")[-1] if n.attr.startswith("_") else n.attr
            key = "__" + key
            if key in self.refined:
                return self.refined[key]
            if key in self.fields:
                proj, ty, _ = self.fields[key]
                return "(%s self)" % proj, ty
            fail(n, "unknown field of self")
        if isinstance(n, ast.Name) and n.id in self.narrow:
            return self.narrow[n.id]
        if isinstance(n, ast.Name) and n.id in self.folded:
            return "None", self.env[n.id]
        # JobType.X
        if isinstance(n, ast.Attribute) and isinstance(n.value, ast.Name) and n.value.id == "JobType":
            if n.attr in JOBTYPE:
                return JOBTYPE[n.attr], "jobtype"
            fail(n, "unknown JobType")
        if isinstance(n, ast.Compare) and len(n.ops) == 1:
            op = type(n.ops[0]).__name__
            # x is None / is not None
            if op in ("Is", "IsNot") and isinstance(n.comparators[0], ast.Constant) and n.comparators[0].value is None:
                if isinstance(n.left, ast.Name) and n.left.id in self.folded:
                    return ("true" if op == "Is" else "false"), "bool"
                if isinstance(n.left, ast.Name) and n.left.id in self.narrow:
                    return ("false" if op == "Is" else "true"), "bool"
                a, ta = self.e(n.left)
                if ta.startswith("opt:") or ta == "tzinfo":
                    return ("(negb (opt_is_some %s))" if op == "Is" else "(opt_is_some %s)") % a, "bool"
                fail(n, "is None on a non-optional")
            mark = len(self.pre)
            a, ta = self.e(n.left)
            b, tb = self.e(n.comparators[0])
            if ta == tb == "jobtype" and op in ("Eq", "Is"):
                return "(pyjobtype_eqb %s %s)" % (a, b), "bool"
            if ta == tb == "jobtype" and op in ("NotEq", "IsNot"):
                return "(negb (pyjobtype_eqb %s %s))" % (a, b), "bool"
            if ta == tb == "datetime" and op in ("Lt", "LtE", "Gt", "GtE"):
                v = self.newvar("c")
                self.pre.append((v, "(%s %s %s)" % ({"Lt": "dt_lt", "LtE": "dt_le", "Gt": "dt_gt", "GtE": "dt_ge"}[op], a, b)))
                return v, "bool"
            if ta == tb == "int" and op in ("Lt", "LtE", "Eq", "Gt", "GtE"):
                return "(%s %s %s)" % (a, {"Lt": "<?", "LtE": "<=?", "Eq": "=?", "Gt": ">?", "GtE": ">=?"}[op], b), "bool"
            del self.pre[mark:]
            return super().e(n)
        if isinstance(n, ast.BoolOp) and isinstance(n.op, ast.And):
            # short-circuit: a monadic operand is only evaluated when everything before it is true
            parts = []
            for v in n.values:
                saved = self.pre
                self.pre = []
                c, t = self.e(v)
                mine, self.pre = self.pre, saved
                # constant folding: a literally false operand reached through pure operands decides the
                # result, and the operands after it are never evaluated (short-circuit)
                if c == "false" and not mine and not any(p[0] for p in parts):
                    return "false", "bool"
                parts.append((mine, c, t, v))
            parts = [p for p in parts if not (p[1] == "true" and not p[0])] or parts[:1]
            term = None
            for mine, c, t, v in reversed(parts):
                if t in ("tzinfo",) or t.startswith("opt:"):
                    c, t = "(opt_is_some %s)" % c, "bool"
                if t != "bool":
                    fail(v, "and-operand typing " + t)
                inner = ("(Ok %s)" % c) if term is None else "(if %s then %s else (Ok false))" % (c, term)
                term = self.wrap(mine, inner)
            v = self.newvar("b")
            self.pre.append((v, term))
            return v, "bool"
        if isinstance(n, ast.Call):
            f = n.func
            # cast(T, e)
            if isinstance(f, ast.Name) and f.id == "cast" and len(n.args) == 2:
                T = ast.unparse(n.args[0])
                a, ta = self.e(n.args[1])
                if T in CASTS and ta == "timingu":
                    v = self.newvar("x")
                    self.pre.append((v, "(%s %s)" % (CASTS[T][0], a)))
                    return v, CASTS[T][1]
                if T in CASTS and ta == CASTS[T][1]:
                    return a, ta
                fail(n, "cast")
            # x.astimezone(tz)
            if isinstance(f, ast.Attribute) and f.attr == "astimezone" and len(n.args) == 1 and not n.keywords:
                a, ta = self.e(f.value)
                b, tb = self.e(n.args[0])
                if ta == "datetime" and tb == "tzinfo":
                    return "(astimezone %s %s)" % (a, b), "datetime"
                fail(n, "astimezone typing")
            # D[key](args)
            if isinstance(f, ast.Subscript) and isinstance(f.value, ast.Name) and f.value.id in self.dicts:
                k, tk = self.e(f.slice)
                args = [self.e(a) for a in n.args]
                name, argt, rett = self.dicts[f.value.id]
                if tk != "jobtype" or [t for _, t in args] != argt:
                    fail(n, "dict dispatch typing")
                v = self.newvar("r")
                self.pre.append((v, "(%s %s %s)" % (name, k, " ".join(a for a, _ in args))))
                return v, rett
            # self.method(...) : recursion with fewer arguments
            if isinstance(f, ast.Attribute) and isinstance(f.value, ast.Name) and f.value.id == self.self_name \
                    and f.attr == self.fd.name and not n.args and not n.keywords and self.recursive_as:
                v = self.newvar("s")
                self.pre.append((v, "(%s self)" % self.recursive_as))
                return v, "state"
        if isinstance(n, ast.Attribute):
            # truthiness source: x.tzinfo handled by ATTRS in Fn
            pass
        return super().e(n)

    # ---- statements
    def block(self, stmts):
        if not stmts:
            return "(Ok self)" if self.ret == "none" else fail(self.fd, "missing return")
        s, rest = stmts[0], stmts[1:]
        if isinstance(s, ast.With) and len(s.items) == 1 and ast.unparse(s.items[0].context_expr).endswith("__lock"):
            return self.block(s.body + rest)
        if isinstance(s, ast.Return) and s.value is None:
            return "(Ok self)"
        if isinstance(s, ast.Expr) and isinstance(s.value, ast.Call):
            pre, c, t = self.expr(s.value)
            if t == "state":
                return self.wrap(pre, "(let self := %s in %s)" % (c, self.block(rest)))
            fail(s, "expression statement")
        if isinstance(s, ast.Assign) and len(s.targets) == 1 and isinstance(s.targets[0], ast.Attribute) \
                and isinstance(s.targets[0].value, ast.Name) and s.targets[0].value.id == self.self_name:
            key = "__" + s.targets[0].attr.split("__")[-1]
            if key not in self.fields:
                fail(s, "assignment to unknown field")
            proj, fty, setter = self.fields[key]
            pre, c, t = self.expr(s.value)
            # self.__timing = cast(T, self.__timing): a refinement of the static type, no state change
            if isinstance(s.value, ast.Call) and isinstance(s.value.func, ast.Name) and s.value.func.id == "cast" \
                    and ast.unparse(s.value.args[1]) == ast.unparse(s.targets[0]):
                saved = dict(self.refined)
                self.refined[key] = (c, t)
                body = self.block(rest)
                self.refined = saved
                return self.wrap(pre, body)
            if t != fty:
                fail(s, "field %s has type %s, assigned %s" % (key, fty, t))
            saved = dict(self.refined)
            self.refined.pop(key, None)
            body = self.block(rest)
            self.refined = saved
            return self.wrap(pre, "(let self := %s self %s in %s)" % (setter, c, body))
        if isinstance(s, ast.If):
            # truthiness of an Optional / narrowing of `p is not None` inside a conjunction
            test = s.test
            narrowed = None
            conj = test.values if isinstance(test, ast.BoolOp) and isinstance(test.op, ast.And) else [test]
            for v in conj:
                if isinstance(v, ast.Compare) and len(v.ops) == 1 and isinstance(v.ops[0], ast.IsNot) \
                        and isinstance(v.left, ast.Name) and v.left.id in self.env \
                        and self.env[v.left.id].startswith("opt:") and v.left.id not in self.folded \
                        and v.left.id not in self.narrow:
                    narrowed = v.left.id
            if narrowed:
                var = narrowed + "_v"
                inner_t = self.env[narrowed][4:]
                saved = dict(self.narrow)
                self.narrow[narrowed] = (var, inner_t)
                some_branch = self.block([s] + rest)
                self.narrow = saved
                # in the None branch the test is false: only the else part and the continuation run
                self.folded = dict(self.folded, **{narrowed: "None"})
                none_branch = self.block(list(s.orelse) + rest)
                self.folded.pop(narrowed)
                return "(match %s with Some %s => %s | None => %s end)" % (narrowed, var, some_branch, none_branch)
            pre, c, t = self.expr(test)
            if t == "tzinfo" or t.startswith("opt:"):
                c, t = "(opt_is_some %s)" % c, "bool"
            if t != "bool":
                fail(s, "if test typing " + t)

            def arm(stm):
                saved_env, saved_ref = dict(self.env), dict(self.refined)
                try:
                    return self.block(stm + rest)
                finally:
                    self.env, self.refined = saved_env, saved_ref
            if c == "false":
                return self.wrap(pre, arm(s.orelse))
            if c == "true":
                return self.wrap(pre, arm(s.body))
            return self.wrap(pre, "(if %s then %s else %s)" % (c, arm(s.body), arm(s.orelse)))
        return super().block(stmts)

    def emit(self, name):
        args = " ".join("(%s : %s)" % (a, COQTY[t]) for a, t in self.params if a not in self.folded)
        body = self.block(self.fd.body)
        ret = self.state_type if self.ret == "none" else COQTY[self.ret]
        return "Definition %s (self : %s) %s : res %s :=\n  %s.\n" % (name, self.state_type, args, ret, body)


def dict_dispatch(tree, name, coqname, known):
    """module-level  NAME = {JobType.X: function, ...}  ->  a match on the key"""
    for st in tree.body:
        if isinstance(st, ast.Assign) and len(st.targets) == 1 and isinstance(st.targets[0], ast.Name) \
                and st.targets[0].id == name and isinstance(st.value, ast.Dict):
            arms = []
            for k, v in zip(st.value.keys, st.value.values):
                ks = ast.unparse(k)
                if not ks.startswith("JobType.") or ks[8:] not in JOBTYPE or not isinstance(v, ast.Name) or v.id not in known:
                    fail(st, "dict entry")
                arms.append("  | %s => %s now t" % (JOBTYPE[ks[8:]], v.id))
            return ("Definition %s (k : pyjobtype) (now : datetime) (t : time) : res datetime :=\n  match k with\n%s\n"
                    "  | _ => Err OtherError\n  end.\n" % (coqname, "\n".join(arms)))
    raise Untranslatable("untranslatable: dict %s not found" % name)


def find_method(tree, cls, meth):
    for st in tree.body:
        if isinstance(st, ast.ClassDef) and st.name == cls:
            for m in st.body:
                if isinstance(m, (ast.FunctionDef, ast.AsyncFunctionDef)) and m.name == meth:
                    return m
    raise Untranslatable("untranslatable: method %s.%s not found" % (cls, meth))
