"""The registry operations of the threading Scheduler: delete_job, delete_jobs, get_jobs, jobs.
A small structural translator over one state variable (`jobs`, the current value of self.__jobs, a set of Job
objects compared by identity).  Every method becomes  jobs -> args -> res (new jobs * result).  Known forms only:
  with self.__jobs_lock: ...                              sequential
  try: self.__jobs.remove(job) except KeyError: raise SchedulerError(..) from None
  if tags is None or tags == set(): A  [else B]           tags : Optional[set[str]], narrowed in B
  x = len(S) | self.__jobs = set() | x = select_jobs_by_tag(self.__jobs, tags, any_tag) | self.__jobs = self.__jobs - x
  return x | return len(x) | return self.__jobs.copy() | return select_jobs_by_tag(self.__jobs, tags, any_tag)
Fail closed."""
import ast

from py2v import fail
from py2v_methods import find_method

JOBS = ("self.__jobs", "self._Scheduler__jobs")


class Reg:
    def __init__(self, fd, result):
        self.fd = fd
        self.result = result        # 'unit' | 'int' | 'set'
        self.narrowed = False
        self.locals = {}            # name -> 'nat' | 'set'

    def is_jobs(self, n):
        return ast.unparse(n) in JOBS

    def ret(self, value):
        return "(Ok (jobs, %s))" % value

    def setexpr(self, n):
        """a set-of-jobs valued expression -> (binds, term)"""
        if self.is_jobs(n):
            return [], "jobs"
        if isinstance(n, ast.Name) and self.locals.get(n.id) == "set":
            return [], n.id
        if isinstance(n, ast.Call) and ast.unparse(n.func) == "select_jobs_by_tag" and len(n.args) == 3 and not n.keywords \
                and self.is_jobs(n.args[0]) and ast.unparse(n.args[1]) == "tags" and ast.unparse(n.args[2]) == "any_tag":
            if not self.narrowed:
                fail(n, "select_jobs_by_tag with tags that may be None")
            return [("sel", "(select_jobs_by_tag jobs tags_v any_tag)")], "sel"
        if isinstance(n, ast.Call) and isinstance(n.func, ast.Attribute) and n.func.attr == "copy" and not n.args \
                and self.is_jobs(n.func.value):
            return [], "jobs"
        if isinstance(n, ast.BinOp) and isinstance(n.op, ast.Sub):
            b1, a = self.setexpr(n.left)
            b2, b = self.setexpr(n.right)
            return b1 + b2, "(tagjob_diff %s %s)" % (a, b)
        if isinstance(n, ast.Call) and ast.unparse(n) == "set()":
            return [], "[]"
        fail(n, "set expression")

    def natexpr(self, n):
        if isinstance(n, ast.Name) and self.locals.get(n.id) == "nat":
            return [], n.id
        if isinstance(n, ast.Call) and isinstance(n.func, ast.Name) and n.func.id == "len" and len(n.args) == 1:
            b, a = self.setexpr(n.args[0])
            return b, "(length %s)" % a
        fail(n, "count expression")

    @staticmethod
    def wrap(binds, body):
        for v, t in reversed(binds):
            body = "(bind %s (fun %s => %s))" % (t, v, body)
        return body

    def block(self, stmts):
        if not stmts:
            if self.result == "unit":
                return self.ret("tt")
            fail(self.fd, "control reaches the end of the method")
        s, rest = stmts[0], stmts[1:]
        if isinstance(s, ast.Expr) and isinstance(s.value, ast.Constant) and isinstance(s.value.value, str):
            return self.block(rest)
        if isinstance(s, ast.With) and len(s.items) == 1 and ast.unparse(s.items[0].context_expr).endswith("__jobs_lock"):
            return self.block(list(s.body) + rest)
        if isinstance(s, ast.Try):
            want = ast.parse("try:\n    with self.__jobs_lock:\n        self.__jobs.remove(job)\nexcept KeyError:\n"
                             "    raise SchedulerError('An unscheduled Job can not be deleted!') from None\n").body[0]
            if ast.dump(s) != ast.dump(want):
                fail(s, "try statement differs from the known remove/KeyError form")
            return "(if tagjob_mem job jobs then (let jobs := tagjob_remove job jobs in %s) else (Err SchedulerError))" % self.block(rest)
        if isinstance(s, ast.If) and ast.unparse(s.test) == "tags is None or tags == set()" and not self.narrowed:
            a = self.block(list(s.body) + rest)
            self.narrowed = True
            saved = dict(self.locals)
            b = self.block(list(s.orelse) + rest)
            self.narrowed, self.locals = False, saved
            return "(match tags with None => %s | Some tags_v => (if is_nil tags_v then %s else %s) end)" % (a, a, b)
        if isinstance(s, ast.Assign) and len(s.targets) == 1:
            t = s.targets[0]
            if self.is_jobs(t):
                b, v = self.setexpr(s.value)
                return self.wrap(b, "(let jobs := %s in %s)" % (v, self.block(rest)))
            if isinstance(t, ast.Name):
                saved = dict(self.locals)
                try:
                    b, v = self.natexpr(s.value)
                    kind = "nat"
                except Exception as ex:  # noqa
                    if type(ex).__name__ != "Untranslatable":
                        raise
                    b, v = self.setexpr(s.value)
                    kind = "set"
                self.locals[t.id] = kind
                body = self.block(rest)
                self.locals = saved
                return self.wrap(b, "(let %s := %s in %s)" % (t.id, v, body))
        if isinstance(s, ast.Return) and s.value is not None:
            if self.result == "int":
                b, v = self.natexpr(s.value)
                return self.wrap(b, self.ret("(Z.of_nat %s)" % v))
            if self.result == "set":
                if self.is_jobs(s.value):
                    fail(s, "the internal job set itself is handed out (no copy)")
                b, v = self.setexpr(s.value)
                return self.wrap(b, self.ret(v))
        fail(s, "unsupported statement in a registry operation")


DEFAULTS = {"tags": "None", "any_tag": "False"}

THR_INIT = """
super().__init__(logger=logger)
self.__max_exec = max_exec
self.__tzinfo = tzinfo
self.__priority_function = priority_function
self.__jobs_lock = threading.RLock()
if not jobs:
    self.__jobs = set()
elif isinstance(jobs, set):
    self.__jobs = jobs
else:
    self.__jobs = set(jobs)
for job in self.__jobs:
    if job._tzinfo != self.__tzinfo:
        raise SchedulerError(TZ_ERROR_MSG)
self.__jobs = {job for job in self.__jobs if job.has_attempts_remaining}
self.__n_threads = n_threads
self.__tz_str = check_tzname(tzinfo=tzinfo)
"""
THR_SCHEDULE = """
job: Job = create_job_instance(Job, tzinfo=self.__tzinfo, **kwargs)
if job.has_attempts_remaining:
    with self.__jobs_lock:
        self.__jobs.add(job)
return job
"""
AIO_INIT = """
super().__init__(logger=logger)
try:
    self.__loop = loop if loop else aio.get_running_loop()
except RuntimeError:
    raise SchedulerError('The asyncio Scheduler requires a running event loop.') from None
self.__tzinfo = tzinfo
self.__tz_str = check_tzname(tzinfo=tzinfo)
self._jobs: dict[Job, aio.Task[None]] = {}
"""
BASE_INIT = "self._logger = logger if logger else LOGGER\n"
CREATE = """
if not isinstance(timing, list):
    timing_list = cast(TimingJobUnion, [timing])
else:
    timing_list = cast(TimingJobUnion, timing)
return job_class(timing=timing_list, **kwargs)
"""


def nodoc(body):
    return [b for b in body if not (isinstance(b, ast.Expr) and isinstance(b.value, ast.Constant) and isinstance(b.value.value, str))]


def check_body(tree, cls, name, text, what):
    """a method (or module-level function when cls is None) must be exactly the known text"""
    if cls is None:
        fds = [f for f in tree.body if isinstance(f, ast.FunctionDef) and f.name == name]
        if len(fds) != 1:
            fail(tree, "%s not found" % name)
        fd = fds[0]
    else:
        fd = find_method(tree, cls, name)
    if ast.dump(ast.Module(body=nodoc(fd.body), type_ignores=[])) != ast.dump(ast.parse(text)):
        fail(fd, "%s differs from the template the translator knows" % what)
    return fd


def check_defaults(fd):
    args = fd.args.args[1:]
    ds = [None] * (len(args) - len(fd.args.defaults)) + list(fd.args.defaults)
    for a, d in zip(args, ds):
        if a.arg in DEFAULTS and (d is None or ast.unparse(d) != DEFAULTS[a.arg]):
            fail(fd, "default of %s in %s" % (a.arg, fd.name))


def method(tree, name, coqname, args, result):
    fd = find_method(tree, "Scheduler", name)
    got = [a.arg for a in fd.args.args[1:]]
    check_defaults(fd)
    if got != [a for a, _ in args] or fd.args.kwonlyargs or fd.args.vararg or fd.args.kwarg:
        fail(fd, "signature of %s" % name)
    body = Reg(fd, result).block(list(fd.body))
    rt = {"unit": "unit", "int": "Z", "set": "list pytagjob"}[result]
    return "Definition %s (jobs : list pytagjob) %s : res (list pytagjob * %s) :=\n  %s.\n" % (
        coqname, " ".join("(%s : %s)" % (a, t) for a, t in args), rt, body)


# ---- asyncio front end: Scheduler._jobs is a dict Job -> Task ---------------------------------------------
AIO_DELETE = """
try:
    task: aio.Task[None] = self._jobs.pop(job)
    _: bool = task.cancel()
except KeyError:
    raise SchedulerError('An unscheduled Job can not be deleted!') from None
"""
AIO_JOBS = "return set(self._jobs.keys())"


class AioReg(Reg):
    """state: (jobs, cancels) - the dict's keys and the identities whose task.cancel() was called, in order"""
    KEYS = ("set(self._jobs.keys())", "self.jobs")

    def ret(self, value):
        return "(Ok (jobs, cancels, %s))" % value

    def setexpr(self, n):
        if ast.unparse(n) in self.KEYS:
            return [], "jobs"
        if isinstance(n, ast.Call) and ast.unparse(n.func) == "select_jobs_by_tag" and len(n.args) == 3 and not n.keywords \
                and ast.unparse(n.args[1]) == "tags" and ast.unparse(n.args[2]) == "any_tag":
            if not self.narrowed:
                fail(n, "select_jobs_by_tag with tags that may be None")
            b, a = self.setexpr(n.args[0])
            return b + [("sel", "(select_jobs_by_tag %s tags_v any_tag)" % a)], "sel"
        return Reg.setexpr(self, n)

    def block(self, stmts):
        if stmts:
            s, rest = stmts[0], stmts[1:]
            if isinstance(s, ast.Try):
                if ast.dump(s) != ast.dump(ast.parse(AIO_DELETE).body[0]):
                    fail(s, "try statement differs from the known pop/cancel/KeyError form")
                return ("(if tagjob_mem job jobs then (let jobs := tagjob_remove job jobs in (let cancels := cancels ++ [ptj_id job] in %s)) "
                        "else (Err SchedulerError))" % self.block(rest))
            if isinstance(s, ast.AnnAssign) and s.value is None and isinstance(s.target, ast.Name):
                return self.block(rest)       # a bare annotation
            if isinstance(s, ast.AnnAssign) and s.value is not None and isinstance(s.target, ast.Name):
                return self.block([ast.Assign(targets=[s.target], value=s.value)] + rest)
            if isinstance(s, ast.If) and ast.unparse(s.test) == "tags is None or tags == set()" and not self.narrowed:
                # both branches assign locals and fall through: the continuation is translated in each
                return Reg.block(self, stmts)
            if isinstance(s, ast.For) and not s.orelse and isinstance(s.target, ast.Name) and isinstance(s.iter, ast.Name) \
                    and self.locals.get(s.iter.id) == "set" and len(s.body) == 1 \
                    and ast.unparse(s.body[0]) == "self.delete_job(%s)" % s.target.id:
                return ("(bind (foldM (fun st job => aio_delete_job (fst st) (snd st) job) %s (jobs, cancels)) "
                        "(fun st => (let jobs := fst st in (let cancels := snd st in %s))))" % (s.iter.id, self.block(rest)))
        return Reg.block(self, stmts)


def aio_method(tree, name, coqname, args, result, strip_unit=False):
    fd = find_method(tree, "Scheduler", name)
    check_defaults(fd)
    got = [a.arg for a in fd.args.args[1:]]
    if got != [a for a, _ in args] or fd.args.kwonlyargs or fd.args.vararg or fd.args.kwarg:
        fail(fd, "signature of %s" % name)
    body = AioReg(fd, result).block(list(fd.body))
    rt = {"unit": "unit", "int": "Z", "set": "list pytagjob"}[result]
    if strip_unit:
        # used inside a fold: state only
        return ("Definition %s (jobs : list pytagjob) (cancels : list nat) %s : res (list pytagjob * list nat) :=\n"
                "  bind %s (fun r => Ok (fst r)).\n" % (coqname, " ".join("(%s : %s)" % (a, t) for a, t in args), body))
    return "Definition %s (jobs : list pytagjob) (cancels : list nat) %s : res (list pytagjob * list nat * %s) :=\n  %s.\n" % (
        coqname, " ".join("(%s : %s)" % (a, t) for a, t in args), rt, body)
