"""scheduler/trigger/core.py: the Weekday base class (two stored fields behind read-only properties), the seven
day classes (each hands its own constant to the base class) and the weekday() factory with its mapping.
Structural: every class and the factory must have the known shape; the constants are read from the source."""
import ast

from py2v import fail, Untranslatable

DAYS = ["Monday", "Tuesday", "Wednesday", "Thursday", "Friday", "Saturday", "Sunday"]
BASE_INIT = "self.__time = time\nself.__value = value\n"
FACTORY = "weekday_cls: type[_Weekday] = _weekday_mapping[value]\nweekday_instance = weekday_cls(time)\nreturn weekday_instance\n"


def strip(body):
    return [b for b in body if not (isinstance(b, ast.Expr) and isinstance(b.value, ast.Constant) and isinstance(b.value.value, str))]


def same(stmts, text):
    return ast.dump(ast.Module(body=stmts, type_ignores=[])) == ast.dump(ast.parse(text))


def translate(tree):
    classes = {c.name: c for c in tree.body if isinstance(c, ast.ClassDef)}
    base = classes.get("Weekday")
    if base is None:
        raise Untranslatable("untranslatable: class Weekday not found")
    meths = {m.name: m for m in base.body if isinstance(m, ast.FunctionDef)}
    if not ({"__init__", "time", "value"} <= set(meths)) or [a.arg for a in meths["__init__"].args.args] != ["self", "time", "value"] \
            or not same(strip(meths["__init__"].body), BASE_INIT) \
            or not same(strip(meths["time"].body), "return self.__time\n") or not same(strip(meths["value"].body), "return self.__value\n"):
        fail(base, "Weekday base class differs from the known shape")
    consts = {}
    for d in DAYS:
        c = classes.get(d)
        if c is None or [ast.unparse(b) for b in c.bases] != ["Weekday"]:
            fail(c or tree, "day class %s" % d)
        ms = [m for m in c.body if isinstance(m, ast.FunctionDef)]
        if len(ms) != 1 or ms[0].name != "__init__" or [a.arg for a in ms[0].args.args] != ["self", "time"] \
                or [ast.unparse(x) for x in ms[0].args.defaults] != ["dt.time()"]:
            fail(c, "constructor of %s" % d)
        body = strip(ms[0].body)
        if len(body) != 1 or not isinstance(body[0], ast.Expr) or not isinstance(body[0].value, ast.Call):
            fail(c, "constructor body of %s" % d)
        call = body[0].value
        if ast.unparse(call.func) != "super().__init__" or len(call.args) != 2 or ast.unparse(call.args[0]) != "time" \
                or not isinstance(call.args[1], ast.Constant) or not isinstance(call.args[1].value, int) or call.keywords:
            fail(c, "constructor body of %s" % d)
        consts[d] = call.args[1].value
    mapping = None
    for st in tree.body:
        if isinstance(st, ast.AnnAssign) and isinstance(st.target, ast.Name) and st.target.id == "_weekday_mapping" \
                and isinstance(st.value, ast.Dict):
            mapping = {}
            for k, v in zip(st.value.keys, st.value.values):
                if not (isinstance(k, ast.Constant) and isinstance(k.value, int) and isinstance(v, ast.Name) and v.id in consts):
                    fail(st, "_weekday_mapping entry")
                mapping[k.value] = v.id
    if mapping is None:
        raise Untranslatable("untranslatable: _weekday_mapping not found")
    fac = [f for f in tree.body if isinstance(f, ast.FunctionDef) and f.name == "weekday"]
    if len(fac) != 1 or [a.arg for a in fac[0].args.args] != ["value", "time"] \
            or [ast.unparse(x) for x in fac[0].args.defaults] != ["dt.time()"] or not same(strip(fac[0].body), FACTORY):
        fail(fac[0] if fac else tree, "weekday() factory differs from the known shape")
    arms = "\n".join("  | %d => Ok (mkWd (%d) time)" % (k, consts[v]) for k, v in sorted(mapping.items()))
    day_defs = "\n".join("Definition day_%s (time : time) : weekday := mkWd (%d) time." % (d.lower(), consts[d]) for d in DAYS)
    return ("(* Monday(time) ... Sunday(time): the value each class hands to Weekday.__init__ *)\n%s\n\n"
            "(* weekday(value, time) = _weekday_mapping[value](time); an unknown value is a KeyError *)\n"
            "Definition weekday_factory (value : Z) (time : time) : res weekday :=\n  match value with\n%s\n  | _ => Err OtherError\n  end.\n"
            "Definition weekday_default_time : time := mkTime 0 0 0 0 None.\n" % (day_defs, arms))
