"""Scheduler.__exec_jobs of the threading front end.  The hand-over of the batch to the worker threads (queue,
workers, join) and _exec_job_worker are recognised by exact templates - their meaning is the worker-pool model of
Model/Conc.v, any edit leaves the subset - and the post-run loop

    for job in jobs:
        job._calc_next_exec(ref_dt)
        if not job.has_attempts_remaining:
            with self.__jobs_lock:
                self.__jobs.discard(job)
    return n_jobs

is translated over a heap of job states (jobs are identities) and the set of registered identities."""
import ast

from py2v import fail
from py2v_methods import find_method

WORKER = """
running = True
while running:
    try:
        job = que.get(block=False)
    except queue.Empty:
        running = False
    else:
        job._exec(logger=logger)
        que.task_done()
"""
HANDOVER = """
n_jobs = len(jobs)
que: queue.Queue[Job] = queue.Queue()
for job in jobs:
    que.put(job)
workers = []
for _ in range(self.__n_threads or n_jobs):
    worker = threading.Thread(target=_exec_job_worker, args=(que, self._logger))
    worker.daemon = True
    worker.start()
    workers.append(worker)
que.join()
for worker in workers:
    worker.join()
"""


def strip(body):
    return [b for b in body if not (isinstance(b, ast.Expr) and isinstance(b.value, ast.Constant) and isinstance(b.value.value, str))]


def same(stmts, template):
    return ast.dump(ast.Module(body=stmts, type_ignores=[])) == ast.dump(ast.parse(template))


def translate(tree):
    worker = [f for f in tree.body if isinstance(f, ast.FunctionDef) and f.name == "_exec_job_worker"]
    if len(worker) != 1 or not same(strip(worker[0].body), WORKER):
        fail(worker[0] if worker else tree, "_exec_job_worker differs from the template the translator knows")
    fd = find_method(tree, "Scheduler", "__exec_jobs")
    if [a.arg for a in fd.args.args] != ["self", "jobs", "ref_dt"]:
        fail(fd, "signature of __exec_jobs")
    body = strip(fd.body)
    n_pre = len(ast.parse(HANDOVER).body)
    if len(body) != n_pre + 2 or not same(body[:n_pre], HANDOVER):
        fail(fd, "the hand-over part of __exec_jobs differs from the template the translator knows")
    loop, ret = body[n_pre], body[n_pre + 1]
    if not (isinstance(ret, ast.Return) and ast.unparse(ret.value) == "n_jobs"):
        fail(ret, "__exec_jobs must return n_jobs")
    if not (isinstance(loop, ast.For) and ast.unparse(loop.target) == "job" and ast.unparse(loop.iter) == "jobs" and not loop.orelse):
        fail(loop, "post-run loop header")
    term = "(Ok (heap, reg))"
    for st in reversed(loop.body):
        src = ast.unparse(st)
        if src == "job._calc_next_exec(ref_dt)":
            term = ("(bind (heap_get heap job) (fun o => (bind (job_calc_next_exec o ref_dt) (fun o' => "
                    "(let heap := heap_set heap job o' in %s)))))" % term)
        elif isinstance(st, ast.If) and ast.unparse(st.test) == "not job.has_attempts_remaining" and not st.orelse \
                and len(st.body) == 1 and isinstance(st.body[0], ast.With) \
                and ast.unparse(st.body[0].items[0].context_expr).endswith("__jobs_lock") \
                and [ast.unparse(x) for x in st.body[0].body] == ["self.__jobs.discard(job)"]:
            term = ("(bind (heap_get heap job) (fun o => (bind (has_attempts_remaining o) (fun h => "
                    "(if negb h then (let reg := idset_discard job reg in %s) else %s)))))" % (term, term))
        else:
            fail(st, "statement of the post-run loop")
    return ("Definition sched_post_loop (heap : list (nat * pyjobstate)) (reg : list nat) (jobs : list nat) (ref_dt : datetime)\n"
            "  : res (list (nat * pyjobstate) * list nat * Z) :=\n"
            "  bind (foldM (fun st job => let '(heap, reg) := st in %s) jobs (heap, reg))\n"
            "       (fun st => Ok (st, Z.of_nat (length jobs))).\n" % term)
