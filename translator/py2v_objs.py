"""Methods of an object that owns other objects (BaseJob and its JobTimers).  Adds to py2v_funcs.Func:
  * `self` with record fields (as py2v_methods.Method), Optional fields narrowed by `self.__f is not None`
  * an ALIAS field: `self.__pending_timer` is a reference to one element of the list field `self.__timers`
    (the translator's modelling decision: reads go through the index, a mutating call on the alias updates
    the list element, an assignment from get_pending_timer() stores the index)
  * properties and methods of owned objects (`timer.datetime`, `timer.timedelta(x)`) as calls of their translations
  * `for x in self.__list: [if c:] x.mutator(args)`                      -> mapM over the list field
  * `if p is None: p = e` on an Optional parameter
  * functions recognised by an exact template of their source (get_pending_timer)
Fail closed like py2v.py."""
import ast
import copy

from py2v import fail, COQTY, CMP, ANN
from py2v_methods import CASTS
from py2v_funcs import Func

COQTY.update({"list:pytimer": "list pytimer", "nat": "nat", "pytimer": "pytimer"})
CASTS.update({"dt.datetime": (None, "datetime")})
ANN.update({"TimingJobTimerUnion": "timingu"})


class ObjMethod(Func):
    def __init__(self, fd, known, state_type, fields, aliases, objmethods, templates, valdicts=None,
                 opaque_params=(), opaque_fields=(), constructors=None, opaque_values=None):
        fd = copy.deepcopy(fd)
        # keyword-only parameters are ordinary parameters of the model function; parameters the model has no
        # value for (the callback, its arguments, tags, alias) are dropped: any use of them fails as an unbound name
        fd.args.args = [a for a in fd.args.args + fd.args.kwonlyargs if a.arg not in opaque_params]
        fd.args.kwonlyargs, fd.args.kw_defaults, fd.args.defaults = [], [], []
        Func.__init__(self, fd, known, valdicts=valdicts, has_self=True, state_type=state_type, fields=fields)
        self.opaque_fields = set(opaque_fields)    # fields without a model value: assignments are skipped unread ...
        self.opaque_values = opaque_values or {}   # ... unless the only value they may be given is listed here (source text)
        self.constructors = constructors or {}     # class name -> (coq function, [arg types], result type)
        self.aliases = aliases          # '__pending_timer' -> (list field key, index projection, index setter, element type)
        self.objmethods = objmethods    # (type, name) -> (coq function, [arg types], result type, kind)
        self.templates = templates      # function name -> (coq function, [arg types], result type)
        self.field_none = set()
        self.uses_outcome = False       # the method calls the user's callback: its outcome is the parameter `raises`
        self.selfmethods = {}           # (method name, number of arguments) -> coq function on the state
        self.skip_fields = {}           # field -> source text of the only value it may be assigned (no model state)

    def fkey(self, n):
        if isinstance(n, ast.Attribute) and isinstance(n.value, ast.Name) and n.value.id == self.self_name:
            return "__" + n.attr.split("__")[-1]
        return None

    def coerce_args(self, node, args, sig):
        out = []
        if len(args) != len(sig):
            fail(node, "argument count")
        for (c, t), want in zip(args, sig):
            if want == "opt:" + t:
                c, t = "(Some %s)" % c, want
            if t != want:
                fail(node, "argument type %s, expected %s" % (t, want))
            out.append(c)
        return out

    def e(self, n):
        key = self.fkey(n)
        if key is not None and key in self.aliases and key not in self.refined:
            lst, idx, _, et = self.aliases[key]
            return "(py_nth (%s self) (%s self))" % (idx, self.fields[lst][0]), et
        if isinstance(n, ast.Compare) and len(n.ops) == 1 and isinstance(n.ops[0], (ast.Is, ast.IsNot)) \
                and isinstance(n.comparators[0], ast.Constant) and n.comparators[0].value is None:
            k = self.fkey(n.left)
            if k is not None and k in self.fields and self.fields[k][1].startswith("opt:"):
                isnot = isinstance(n.ops[0], ast.IsNot)
                if k in self.refined:
                    return ("true" if isnot else "false"), "bool"
                if k in self.field_none:
                    return ("false" if isnot else "true"), "bool"
        if isinstance(n, ast.Compare) and len(n.ops) == 1 and isinstance(n.ops[0], ast.NotEq):
            a, ta = self.e(n.left)
            b, tb = self.e(n.comparators[0])
            if ta == tb == "int":
                return "(negb (%s =? %s))" % (a, b), "bool"
            fail(n, "!= typing")
        if isinstance(n, ast.BoolOp) and isinstance(n.op, ast.Or):
            # short-circuit or over pure boolean operands
            parts = []
            for v in n.values:
                saved = self.pre
                self.pre = []
                c, t = self.e(v)
                mine, self.pre = self.pre, saved
                if mine or t != "bool":
                    fail(v, "or-operand must be a pure boolean")
                parts.append(c)
            return "(" + " || ".join(parts) + ")", "bool"
        # property of an owned object
        if isinstance(n, ast.Attribute) and self.fkey(n) is None:
            v, t = self.e(n.value)
            om = self.objmethods.get((t, n.attr))
            if om and om[3] == "property":
                r = self.newvar("p")
                self.pre.append((r, "(%s %s)" % (om[0], v)))
                return r, om[2]
            if om:
                fail(n, "method used as a value")
            n2 = ast.Attribute(value=ast.Name(id="__tmp"), attr=n.attr)
            saved = self.env.get("__tmp")
            self.env["__tmp"] = t
            try:
                c, rt = Func.e(self, n2)
            finally:
                if saved is None:
                    self.env.pop("__tmp", None)
                else:
                    self.env["__tmp"] = saved
            return c.replace("__tmp", v), rt
        if isinstance(n, ast.Call) and isinstance(n.func, ast.Attribute) and self.fkey(n.func) is None \
                and not (isinstance(n.func.value, ast.Name) and n.func.value.id in ("dt", "JobType")):
            f = n.func
            # method of an owned object (pure)
            saved = self.pre
            self.pre = []
            try:
                v, t = self.e(f.value)
                ok = True
            except Exception as ex:  # noqa
                if type(ex).__name__ != "Untranslatable":
                    raise
                ok = False
            mine, self.pre = self.pre, saved
            if ok and (t, f.attr) in self.objmethods:
                om = self.objmethods[(t, f.attr)]
                if om[3] != "pure":
                    fail(n, "mutating call used as a value")
                self.pre += mine
                args = self.coerce_args(n, [self.e(a) for a in n.args], om[1])
                if n.keywords:
                    fail(n, "keywords")
                r = self.newvar("m")
                self.pre.append((r, "(%s %s %s)" % (om[0], v, " ".join(args))))
                return r, om[2]
        if isinstance(n, ast.Call) and isinstance(n.func, ast.Name) and n.func.id in self.constructors and not n.keywords:
            name, sig, rt = self.constructors[n.func.id]
            args = self.coerce_args(n, [self.e(a) for a in n.args], sig)
            r = self.newvar("o")
            self.pre.append((r, "(%s %s)" % (name, " ".join(args))))
            return r, rt
        if isinstance(n, ast.Call) and isinstance(n.func, ast.Name) and n.func.id in self.known and not n.keywords \
                and len(self.known[n.func.id]) > 2 and self.known[n.func.id][2]:
            # a translated function that reads the clock
            sig = self.known[n.func.id]
            args = self.coerce_args(n, [self.e(a) for a in n.args], sig[0])
            self.uses_clock = True
            r = self.newvar("r")
            self.pre.append((r, "(%s now_us %s)" % (n.func.id, " ".join(args))))
            return r, sig[1]
        if isinstance(n, ast.Call) and isinstance(n.func, ast.Name) and n.func.id in self.templates and not n.keywords:
            name, sig, rt = self.templates[n.func.id]
            args = self.coerce_args(n, [self.e(a) for a in n.args], sig)
            r = self.newvar("t")
            self.pre.append((r, "(%s %s)" % (name, " ".join(args))))
            return r, rt
        return Func.e(self, n)

    def block(self, stmts):
        if not stmts:
            return "(Ok self)" if self.ret == "none" else fail(self.fd, "missing return")
        s, rest = stmts[0], stmts[1:]
        if isinstance(s, ast.Return) and s.value is None:
            return "(Ok self)"
        if isinstance(s, ast.Assign) and len(s.targets) == 1 and self.fkey(s.targets[0]) in self.opaque_fields:
            want = self.opaque_values.get(self.fkey(s.targets[0]))
            if want is not None and ast.unparse(s.value) != want:
                fail(s, "the field without a model value must be assigned `%s`" % want)
            return self.block(rest)
        # f(args) for a translated function that only checks (returns None)
        if isinstance(s, ast.Expr) and isinstance(s.value, ast.Call) and isinstance(s.value.func, ast.Name) \
                and (s.value.func.id in self.known or s.value.func.id in self.templates):
            pre, c, t = self.expr(s.value)
            if t != "none":
                fail(s, "result of a call is dropped")
            return self.wrap(pre, self.block(rest))
        # try: [await] self.__handle(*self.__args, **self.__kwargs)  except Exception: <handler>
        # the callback is external code: whether it raises (an Exception subclass) is the parameter `raises`
        if isinstance(s, ast.Try) and not s.orelse and not s.finalbody and len(s.handlers) == 1 \
                and isinstance(s.handlers[0].type, ast.Name) and s.handlers[0].type.id == "Exception" \
                and s.handlers[0].name is None and len(s.body) == 1 and isinstance(s.body[0], ast.Expr):
            call = s.body[0].value
            if isinstance(call, ast.Await):
                call = call.value
            ok = (isinstance(call, ast.Call) and self.fkey(call.func) == "__handle" and len(call.args) == 1
                  and isinstance(call.args[0], ast.Starred) and self.fkey(call.args[0].value) == "__args"
                  and len(call.keywords) == 1 and call.keywords[0].arg is None
                  and self.fkey(call.keywords[0].value) == "__kwargs")
            if not ok:
                fail(s, "try body must be the call of the job's callback with its stored arguments")
            self.uses_outcome = True
            failing = self.block(list(s.handlers[0].body) + rest)
            return "(if raises then %s else %s)" % (failing, self.block(rest))
        # logger.exception("Unhandled exception in `%r`!", self): one error record, no model state
        if isinstance(s, ast.Expr) and ast.unparse(s.value) == "logger.exception('Unhandled exception in `%r`!', self)":
            return self.block(rest)
        # self.__f += <int>
        if isinstance(s, ast.AugAssign) and isinstance(s.op, ast.Add) and self.fkey(s.target) in self.fields:
            proj, fty, setter = self.fields[self.fkey(s.target)]
            pre, c, t = self.expr(s.value)
            if fty != "int" or t != "int" or setter is None:
                fail(s, "+= typing")
            return self.wrap(pre, "(let self := %s self ((%s self) + %s) in %s)" % (setter, proj, c, self.block(rest)))
        # self.__lock = threading.RLock(): no model state
        if isinstance(s, ast.Assign) and len(s.targets) == 1 and self.fkey(s.targets[0]) in self.skip_fields:
            if ast.unparse(s.value) != self.skip_fields[self.fkey(s.targets[0])]:
                fail(s, "unexpected value for " + self.fkey(s.targets[0]))
            return self.block(rest)
        # self.m(args) for a translated method of the same object
        if isinstance(s, ast.Expr) and isinstance(s.value, ast.Call) and isinstance(s.value.func, ast.Attribute) \
                and isinstance(s.value.func.value, ast.Name) and s.value.func.value.id == self.self_name \
                and (s.value.func.attr, len(s.value.args)) in self.selfmethods and not s.value.keywords:
            pre, args = [], []
            self.pre = []
            args = [self.e(a)[0] for a in s.value.args]
            pre, self.pre = self.pre, []
            fn = self.selfmethods[(s.value.func.attr, len(s.value.args))]
            return self.wrap(pre, "(bind (%s self %s) (fun self => %s))" % (fn, " ".join(args), self.block(rest)))
        # if p is None: p = e      (Optional parameter)
        if isinstance(s, ast.If) and not s.orelse and isinstance(s.test, ast.Compare) and len(s.test.ops) == 1 \
                and isinstance(s.test.ops[0], ast.Is) and isinstance(s.test.left, ast.Name) \
                and isinstance(s.test.comparators[0], ast.Constant) and s.test.comparators[0].value is None \
                and s.test.left.id in self.env and self.env[s.test.left.id].startswith("opt:") \
                and s.test.left.id not in self.narrow and s.test.left.id not in self.folded:
            x = s.test.left.id
            var = x + "_v"
            savedf = dict(self.folded)
            self.folded[x] = "None"
            none_branch = self.block(list(s.body) + rest)
            self.folded = savedf
            saved = dict(self.narrow)
            self.narrow[x] = (var, self.env[x][4:])
            some_branch = self.block(rest)
            self.narrow = saved
            return "(match %s with Some %s => %s | None => %s end)" % (x, var, some_branch, none_branch)
        # narrowing of an Optional FIELD by `self.__f is not None` (alone or first in a conjunction)
        if isinstance(s, ast.If):
            conj = s.test.values if isinstance(s.test, ast.BoolOp) and isinstance(s.test.op, ast.And) else [s.test]
            v = conj[0]
            if isinstance(v, ast.Compare) and len(v.ops) == 1 and isinstance(v.ops[0], ast.IsNot) \
                    and isinstance(v.comparators[0], ast.Constant) and v.comparators[0].value is None:
                k = self.fkey(v.left)
                if k is not None and k in self.fields and self.fields[k][1].startswith("opt:") \
                        and k not in self.refined and k not in self.field_none:
                    proj, ty, _ = self.fields[k]
                    var = k.strip("_") + "_v"
                    saved = dict(self.refined)
                    self.refined[k] = (var, ty[4:])
                    some_branch = self.block([s] + rest)
                    self.refined = saved
                    self.field_none.add(k)
                    none_branch = self.block([s] + rest)
                    self.field_none.discard(k)
                    return "(match (%s self) with Some %s => %s | None => %s end)" % (proj, var, some_branch, none_branch)
        # assignment to the alias field from a template function returning an index
        if isinstance(s, ast.Assign) and len(s.targets) == 1 and self.fkey(s.targets[0]) in self.aliases:
            lst, idx, setter, et = self.aliases[self.fkey(s.targets[0])]
            pre, c, t = self.expr(s.value)
            if t != "index:" + lst:
                fail(s, "the alias field may only be assigned an element of its list")
            return self.wrap(pre, "(let self := %s self %s in %s)" % (setter, c, self.block(rest)))
        # mutating call on an owned object:  self.__alias.m(args)
        if isinstance(s, ast.Expr) and isinstance(s.value, ast.Call) and isinstance(s.value.func, ast.Attribute):
            f = s.value.func
            k = self.fkey(f.value)
            if k in self.aliases:
                lst, idx, setter, et = self.aliases[k]
                om = self.objmethods.get((et, f.attr))
                if not om or om[3] != "mutator" or s.value.keywords:
                    fail(s, "unknown mutating method")
                self.pre = []
                args = self.coerce_args(s, [self.e(a) for a in s.value.args], om[1])
                pre, self.pre = self.pre, []
                lproj, _, lset = self.fields[lst]
                body = "(bind (%s (py_nth (%s self) (%s self)) %s) (fun o_new => (let self := %s self (replace_nth (%s self) (%s self) o_new) in %s)))" % (
                    om[0], idx, lproj, " ".join(args), lset, idx, lproj, self.block(rest))
                return self.wrap(pre, body)
        # for x in self.__list: [if c:] x.mutator(args)
        if isinstance(s, ast.For) and self.fkey(s.iter) in self.fields and self.fields[self.fkey(s.iter)][1].startswith("list:") \
                and isinstance(s.target, ast.Name) and not s.orelse:
            lk = self.fkey(s.iter)
            lproj, lty, lset = self.fields[lk]
            et = lty[5:]
            x = s.target.id
            body = list(s.body)
            cond = None
            if len(body) == 1 and isinstance(body[0], ast.If) and not body[0].orelse:
                cond = body[0].test
                body = list(body[0].body)
            if not (len(body) == 1 and isinstance(body[0], ast.Expr) and isinstance(body[0].value, ast.Call)
                    and isinstance(body[0].value.func, ast.Attribute) and isinstance(body[0].value.func.value, ast.Name)
                    and body[0].value.func.value.id == x and not body[0].value.keywords):
                fail(s, "loop over owned objects must be `[if c:] x.method(args)`")
            call = body[0].value
            om = self.objmethods.get((et, call.func.attr))
            if not om or om[3] != "mutator":
                fail(s, "unknown mutating method")
            saved_env = dict(self.env)
            self.env[x] = et
            self.pre = []
            args = self.coerce_args(s, [self.e(a) for a in call.args], om[1])
            if self.pre:
                fail(s, "monadic argument in loop call")
            step = "(%s %s %s)" % (om[0], x, " ".join(args))
            if cond is not None:
                cpre, cc, ct = self.expr(cond)
                if ct != "bool":
                    fail(cond, "loop condition typing")
                step = self.wrap(cpre, "(if %s then %s else (Ok %s))" % (cc, step, x))
            self.env = saved_env
            return "(bind (mapM (fun %s => %s) (%s self)) (fun l_new => (let self := %s self l_new in %s)))" % (
                x, step, lproj, lset, self.block(rest))
        return Func.block(self, stmts)

    def emit(self, name):
        body = self.block(self.fd.body)
        args = " ".join("(%s : %s)" % (a, COQTY[t]) for a, t in self.params if a not in self.folded)
        if self.uses_clock:
            args = "(now_us : Z) " + args
        if self.uses_outcome:
            args = "(raises : bool) " + args
        ret = self.state_type if self.ret == "none" else COQTY[self.ret]
        return "Definition %s (self : %s) %s : res (%s) :=\n  %s.\n" % (name, self.state_type, args, ret, body)


def check_template(tree, name, template):
    """the function's source must be exactly the template (modulo docstring, comments and layout)"""
    for st in tree.body:
        if isinstance(st, ast.FunctionDef) and st.name == name:
            body = [b for b in st.body if not (isinstance(b, ast.Expr) and isinstance(b.value, ast.Constant)
                                               and isinstance(b.value.value, str))]
            got = ast.dump(ast.Module(body=body, type_ignores=[]))
            want = ast.dump(ast.parse(template))
            if got != want or ast.dump(st.args) != ast.dump(ast.parse("def f(%s): pass" % TEMPLATE_ARGS[name]).body[0].args):
                fail(st, "function differs from the template the translator knows")
            return
    from py2v import Untranslatable
    raise Untranslatable("untranslatable: function %s not found" % name)


TEMPLATE_ARGS = {"get_pending_timer": "timers: list[JobTimer]",
                 "sane_timing_types": "job_type: JobType, timing: TimingJobUnion"}
TEMPLATES = {"get_pending_timer": """
unsorted_timer_datetimes: dict[JobTimer, dt.datetime] = {}
for timer in timers:
    unsorted_timer_datetimes[timer] = timer.datetime
sorted_timers = sorted(
    unsorted_timer_datetimes,
    key=unsorted_timer_datetimes.get,  # type: ignore
)
return sorted_timers[0]
""", "sane_timing_types": """
try:
    tg.check_type(timing, JOB_TIMING_TYPE_MAPPING[job_type]["type"])
    if job_type == JobType.CYCLIC:
        if not len(timing) == 1:
            raise TypeError
except TypeError as err:
    raise SchedulerError(JOB_TIMING_TYPE_MAPPING[job_type]["err"]) from err
"""}
