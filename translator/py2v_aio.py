"""The supervising coroutine Scheduler.__supervise_job of the asyncio front end, cut at its suspension points.

    try:
        R = now(tz)                                  | sup_enter
        while job.has_attempts_remaining:            | sup_head: test, then the statements up to the first await
            S = job.timedelta(R).total_seconds()     |
            await aio.sleep(S)                       |   -> SupSleep S R
            await job._exec(logger=self._logger)     |   (the job's coroutine: Job._exec, translated separately)
            R = now(tz)                              | sup_after_exec: the statements after the second await,
            job._calc_next_exec(R)                   |   then sup_head again
    except aio.CancelledError: pass                  | cancellation: modelled (Model/Aio.v), not translated
    else: self._jobs.pop(job, None)                  |   -> SupDone (the model unregisters the job)

The shape is fixed (anything else is untranslatable); inside the shape the statements are translated: variable names
are free, the clock read, the call of job.timedelta and of job._calc_next_exec are read from the source."""
import ast

from py2v import fail
from py2v_methods import find_method

NOW = "dt.datetime.now(tz=self.__tzinfo)"


def straight(stmts, env):
    """simple statements -> list of (binder-kind, text) transforming (job, locals); env: python name -> coq name"""
    out = []
    for s in stmts:
        if isinstance(s, ast.Assign) and len(s.targets) == 1 and isinstance(s.targets[0], ast.Name) and ast.unparse(s.value) == NOW:
            env[s.targets[0].id] = "datetime"
            out.append("(let %s := dt_now now_us tz in " % s.targets[0].id)
        elif isinstance(s, ast.AnnAssign) and isinstance(s.target, ast.Name) and ast.unparse(s.annotation) == "float" \
                and isinstance(s.value, ast.Call) and ast.unparse(s.value.func).endswith(".total_seconds") and not s.value.args \
                and isinstance(s.value.func.value, ast.Call) and ast.unparse(s.value.func.value.func) == "job.timedelta" \
                and len(s.value.func.value.args) == 1 and isinstance(s.value.func.value.args[0], ast.Name) \
                and env.get(s.value.func.value.args[0].id) == "datetime" and not s.value.func.value.keywords:
            env[s.target.id] = "tsec"
            out.append("(bind (job_timedelta job now_us (Some %s)) (fun %s => " % (s.value.func.value.args[0].id, s.target.id))
        elif isinstance(s, ast.Expr) and isinstance(s.value, ast.Call) and ast.unparse(s.value.func) == "job._calc_next_exec" \
                and len(s.value.args) == 1 and isinstance(s.value.args[0], ast.Name) and env.get(s.value.args[0].id) == "datetime" \
                and not s.value.keywords:
            out.append("(bind (job_calc_next_exec job %s) (fun job => " % s.value.args[0].id)
        else:
            fail(s, "statement of the supervising coroutine")
    return out


def close(parts, tail):
    return "".join(parts) + tail + ")" * sum(2 if p.startswith("(bind") else 1 for p in parts)


SCHEDULE = """
job: Job = create_job_instance(Job, tzinfo=self.__tzinfo, **kwargs)
task = self.__loop.create_task(self.__supervise_job(job))
self._jobs[job] = task
return job
"""


def translate(tree):
    # __schedule: the job is built for the scheduler's tzinfo, one supervising task is created for it ON THE
    # SCHEDULER'S OWN LOOP and registered under the job (recognised by template: task creation is modelled)
    sd = find_method(tree, "Scheduler", "__schedule")
    sbody = [b for b in sd.body if not (isinstance(b, ast.Expr) and isinstance(b.value, ast.Constant))]
    if ast.dump(ast.Module(body=sbody, type_ignores=[])) != ast.dump(ast.parse(SCHEDULE)):
        fail(sd, "asyncio __schedule differs from the template the translator knows")
    fd = find_method(tree, "Scheduler", "__supervise_job")
    if not isinstance(fd, ast.AsyncFunctionDef) or [a.arg for a in fd.args.args] != ["self", "job"]:
        fail(fd, "signature of __supervise_job")
    body = [b for b in fd.body if not (isinstance(b, ast.Expr) and isinstance(b.value, ast.Constant))]
    if len(body) != 1 or not isinstance(body[0], ast.Try):
        fail(fd, "__supervise_job must be one try statement")
    t = body[0]
    if not (len(t.handlers) == 1 and ast.unparse(t.handlers[0].type) == "aio.CancelledError" and t.handlers[0].name is None
            and [ast.unparse(x) for x in t.handlers[0].body] == ["pass"] and not t.finalbody
            and [ast.unparse(x) for x in t.orelse] == ["self._jobs.pop(job, None)"]):
        fail(t, "cancellation handler / else branch of __supervise_job")
    if len(t.body) < 2 or not isinstance(t.body[-1], ast.While):
        fail(t, "the try body must end with the supervising loop")
    pre, loop = t.body[:-1], t.body[-1]
    if ast.unparse(loop.test) != "job.has_attempts_remaining" or loop.orelse:
        fail(loop, "loop condition")
    awaits = [i for i, s in enumerate(loop.body) if isinstance(s, ast.Expr) and isinstance(s.value, ast.Await)]
    if len(awaits) != 2 or awaits[1] != awaits[0] + 1:
        fail(loop, "the loop must suspend exactly twice, in sleep() and then in the job's coroutine")
    a_sleep, a_exec = loop.body[awaits[0]].value.value, loop.body[awaits[1]].value.value
    if not (isinstance(a_sleep, ast.Call) and ast.unparse(a_sleep.func) == "aio.sleep" and len(a_sleep.args) == 1
            and isinstance(a_sleep.args[0], ast.Name) and not a_sleep.keywords):
        fail(a_sleep, "first suspension must be aio.sleep(<seconds>)")
    if ast.unparse(a_exec) != "job._exec(logger=self._logger)":
        fail(a_exec, "second suspension must be the job's coroutine")
    # sup_enter
    env = {}
    p_enter = straight(pre, env)
    refs = [k for k, v in env.items() if v == "datetime"]
    if len(refs) != 1:
        fail(t, "exactly one reference instant must be live at the loop head")
    ref = refs[0]
    enter = close(p_enter, "(sup_head job now_us %s)" % ref)
    # sup_head: statements before the first await
    env_h = {ref: "datetime"}
    p_head = straight(loop.body[:awaits[0]], env_h)
    if env_h.get(a_sleep.args[0].id) != "tsec":
        fail(a_sleep, "sleep() argument")
    head = close(p_head, "(Ok (SupSleep %s %s))" % (a_sleep.args[0].id, ref))
    # sup_after_exec: statements after the second await; the reference live at the loop head must be assigned
    env_a = {}
    p_after = straight(loop.body[awaits[1] + 1:], env_a)
    if env_a.get(ref) != "datetime":
        fail(loop, "the reference instant is not refreshed after the job ran")
    after = close(p_after, "(bind (sup_head job now_us %s) (fun st => (Ok (job, st))))" % ref)
    return ("Definition sup_head (job : pyjobstate) (now_us : Z) (%s : datetime) : res supstep :=\n"
            "  (bind (has_attempts_remaining job) (fun live => (if live then %s else (Ok SupDone)))).\n\n"
            "Definition sup_enter (tz : option Z) (job : pyjobstate) (now_us : Z) : res supstep :=\n  %s.\n\n"
            "Definition sup_after_exec (tz : option Z) (job : pyjobstate) (now_us : Z) : res (pyjobstate * supstep) :=\n  %s.\n"
            % (ref, head, enter, after))
