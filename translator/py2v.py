#!/usr/bin/env python3
"""Fail-closed translator: a fixed list of functions of DigonIO/scheduler -> Gallina over
coq/Lib/PyTime.v.  It walks the Python ast of exactly those functions, types every
sub-expression from the annotations, and stops with "untranslatable: <why> at file:line" on
anything outside the subset it knows the meaning of (it never guesses).

usage: py2v.py <repo> <outdir>      writes <outdir>/Gen*.v and status.json (per file: translated | untranslatable: ...)
"""
import ast
import os
import sys


class Untranslatable(Exception):
    pass


CURFILE = ["?"]


def fail(node, why):
    raise Untranslatable("untranslatable: %s: %s at %s:%s" % (
        why, ast.unparse(node)[:70].replace("\n", " "), CURFILE[0], getattr(node, "lineno", "?")))


# Python annotation -> internal type name
ANN = {
    "dt.datetime": "datetime", "dt.time": "time", "int": "int", "bool": "bool", "Weekday": "weekday",
    "dt.timedelta": "timedelta", "float": "float", "str": "str", "Job": "job",
    "list[dt.time]": "list:time", "list[Weekday]": "list:weekday", "Optional[dt.tzinfo]": "tzinfo",
    "JobType": "jobtype", "TimingJobUnion": "timinglist", "None": "none",
    "set[BaseJobType]": "set:job", "set[str]": "set:str",
}
COQTY = {
    "int": "Z", "bool": "bool", "datetime": "datetime", "time": "time", "timedelta": "timedelta",
    "weekday": "weekday", "float": "pyfloat", "str": "pystr", "job": "pyjob", "list:time": "list time",
    "list:weekday": "list weekday", "tzinfo": "option Z", "date": "Z", "jobtype": "pyjobtype",
    "none": "unit",
}
ATTRS = {
    ("time", "hour"): ("t_hour", "int"), ("time", "minute"): ("t_minute", "int"),
    ("time", "second"): ("t_second", "int"), ("time", "microsecond"): ("t_micro", "int"),
    ("time", "tzinfo"): ("t_off", "tzinfo"),
    ("weekday", "value"): ("wd_value", "int"), ("weekday", "time"): ("wd_time", "time"),
    ("datetime", "tzinfo"): ("off", "tzinfo"),
    ("job", "weight"): ("pj_weight", "float"),
}
CMP = {"LtE": "<=?", "Lt": "<?", "Eq": "=?", "GtE": ">=?", "Gt": ">?"}


class Fn:
    def __init__(self, fd, known):
        self.fd = fd
        self.known = known
        self.env = {}
        self.fresh = 0
        for a in fd.args.args:
            if a.annotation is None:
                fail(a, "argument without annotation")
            t = ast.unparse(a.annotation)
            if t not in ANN:
                fail(a, "unknown annotation " + t)
            self.env[a.arg] = ANN[t]
        self.params = list(self.env.items())
        rt = ast.unparse(fd.returns) if fd.returns is not None else None
        if rt not in ANN:
            fail(fd, "unknown return type %s" % rt)
        self.ret = ANN[rt]
        self.defaults = {}
        nd = len(fd.args.defaults)
        for a, d in zip(fd.args.args[len(fd.args.args) - nd:], fd.args.defaults):
            self.defaults[a.arg] = d

    def newvar(self, base="v"):
        self.fresh += 1
        return "%s_%d" % (base, self.fresh)

    # ---- expressions: returns (coq term, type); monadic sub-terms are hoisted into self.pre
    def e(self, n):
        if isinstance(n, ast.Name):
            if n.id not in self.env:
                fail(n, "unbound name")
            return n.id, self.env[n.id]
        if isinstance(n, ast.Constant):
            if isinstance(n.value, bool):
                return ("true" if n.value else "false"), "bool"
            if isinstance(n.value, int):
                return "(%d)" % n.value, "int"
            if isinstance(n.value, str):
                return "[%s]%%Z" % "; ".join(str(ord(c)) for c in n.value), "str"
            fail(n, "constant")
        if isinstance(n, ast.Attribute):
            v, t = self.e(n.value)
            if (t, n.attr) in ATTRS:
                f, rt = ATTRS[(t, n.attr)]
                return "(%s %s)" % (f, v), rt
            fail(n, "unknown attribute of " + t)
        if isinstance(n, ast.BinOp):
            a, ta = self.e(n.left)
            b, tb = self.e(n.right)
            op = type(n.op).__name__
            if ta == tb == "int" and op in ("Add", "Sub", "Mult", "Mod"):
                return "(%s %s %s)" % (a, dict(Add="+", Sub="-", Mult="*", Mod="mod")[op], b), "int"
            if (ta, tb, op) == ("datetime", "timedelta", "Add"):
                return "(dt_add %s %s)" % (a, b), "datetime"
            if (ta, tb, op) == ("datetime", "datetime", "Sub"):
                v = self.newvar("d")
                self.pre.append((v, "(dt_sub %s %s)" % (a, b)))
                return v, "timedelta"
            if ta == tb == "timedelta" and op in ("Add", "Sub", "Mod"):
                return "(%s %s %s)" % (a, dict(Add="+", Sub="-", Mod="mod")[op], b), "timedelta"
            if (ta, tb, op) == ("float", "int", "Add"):
                return "(fl_add_int %s %s)" % (a, b), "float"
            if (ta, tb, op) == ("float", "float", "Mult"):
                return "(fl_mul %s %s)" % (a, b), "float"
            if ta == tb == "str" and op == "Add":
                return "(%s ++ %s)" % (a, b), "str"
            fail(n, "binop typing %s %s %s" % (ta, op, tb))
        if isinstance(n, ast.UnaryOp):
            c, t = self.e(n.operand)
            if isinstance(n.op, ast.Not) and t == "bool":
                return "(negb %s)" % c, "bool"
            if isinstance(n.op, ast.USub) and t == "int":
                return "(- %s)" % c, "int"
            fail(n, "unary op typing")
        if isinstance(n, ast.BoolOp):
            # special pattern: <time>.utcoffset() or dt.timedelta()
            if (isinstance(n.op, ast.Or) and len(n.values) == 2
                    and ast.unparse(n.values[1]) == "dt.timedelta()"
                    and isinstance(n.values[0], ast.Call)
                    and isinstance(n.values[0].func, ast.Attribute)
                    and n.values[0].func.attr == "utcoffset" and not n.values[0].args):
                v, t = self.e(n.values[0].func.value)
                if t == "time":
                    return "(oz (t_off %s))" % v, "timedelta"
                fail(n, "utcoffset receiver")
            vs = [self.e(v) for v in n.values]
            if any(t != "bool" for _, t in vs):
                fail(n, "boolop typing")
            return "(" + (" && " if isinstance(n.op, ast.And) else " || ").join(c for c, _ in vs) + ")", "bool"
        if isinstance(n, ast.Compare):
            if len(n.ops) == 1:
                a, ta = self.e(n.left)
                b, tb = self.e(n.comparators[0])
                op = type(n.ops[0]).__name__
                if ta == "tsec" and tb == "int" and op in ("LtE", "Lt"):
                    return "(%s %s %s)" % ("ts_le" if op == "LtE" else "ts_lt", a, b), "bool"
                if ta == "float" and tb == "int" and op == "Lt":
                    return "(fl_lt_int %s %s)" % (a, b), "bool"
                if ta == tb and ta in ("int", "date") and op in CMP:
                    return "(%s %s %s)" % (a, CMP[op], b), "bool"
                if ta == tb == "nat" and op == "Eq":
                    return "(Nat.eqb %s %s)" % (a, b), "bool"
                fail(n, "compare typing %s %s %s" % (ta, op, tb))
            parts = []
            left = n.left
            for op, right in zip(n.ops, n.comparators):
                parts.append(self.e(ast.Compare(left=left, ops=[op], comparators=[right]))[0])
                left = right
            return "(" + " && ".join(parts) + ")", "bool"
        if isinstance(n, ast.IfExp):
            c, tc = self.e(n.test)
            a, ta = self.e(n.body)
            b, tb = self.e(n.orelse)
            if tc != "bool" or ta != tb:
                fail(n, "conditional expression typing")
            return "(if %s then %s else %s)" % (c, a, b), ta
        if isinstance(n, ast.Subscript):
            v, t = self.e(n.value)
            if t == "str" and isinstance(n.slice, ast.Slice) and n.slice.step is None:
                def bound(x):
                    if x is None:
                        return "None"
                    c, tx = self.e(x)
                    if tx != "int":
                        fail(n, "slice bound typing")
                    return "(Some %s)" % c
                return "(py_slice %s %s %s)" % (v, bound(n.slice.lower), bound(n.slice.upper)), "str"
            fail(n, "subscript")
        if isinstance(n, ast.SetComp) and len(n.generators) == 1:
            g = n.generators[0]
            if g.ifs or g.is_async or not isinstance(g.target, ast.Name):
                fail(n, "comprehension form")
            it, tit = self.e(g.iter)
            if not tit.startswith("list:"):
                fail(n, "comprehension iterable")
            saved = dict(self.env)
            savedpre = self.pre
            self.pre = []
            self.env[g.target.id] = tit[5:]
            body, tb = self.e(n.elt)
            if self.pre:
                fail(n, "monadic expression inside a comprehension")
            self.pre = savedpre
            self.env = saved
            if tb != "timedelta":
                fail(n, "set element type " + tb)
            return "(zdedup (map (fun %s => %s) %s))" % (g.target.id, body, it), "set:timedelta"
        if isinstance(n, ast.Call):
            f = n.func
            if isinstance(f, ast.Name) and f.id == "len" and len(n.args) == 1 and not n.keywords:
                v, t = self.e(n.args[0])
                if t == "str":
                    return "(Z.of_nat (length %s))" % v, "int"
                if t.startswith("list:") or t.startswith("set:"):
                    return "(length %s)" % v, "nat"
                fail(n, "len() argument type " + t)
            if isinstance(f, ast.Attribute) and ast.unparse(f) == "dt.timedelta":
                kw = {}
                for k in n.keywords:
                    c, t = self.e(k.value)
                    if t != "int":
                        fail(n, "timedelta keyword type")
                    kw[k.arg] = c
                if n.args or set(kw) - {"days", "hours", "minutes", "seconds", "microseconds"}:
                    fail(n, "timedelta arguments")
                g = lambda k: kw.get(k, "0")  # noqa
                return "(td_make5 %s %s %s %s %s)" % (g("days"), g("hours"), g("minutes"), g("seconds"),
                                                     g("microseconds")), "timedelta"
            if isinstance(f, ast.Attribute):
                v, t = self.e(f.value)
                if t == "datetime" and f.attr == "replace":
                    kw = {k.arg: self.e(k.value) for k in n.keywords}
                    if n.args or set(kw) - {"hour", "minute", "second", "microsecond"}:
                        fail(n, "replace arguments")
                    for k, (c, ty) in kw.items():
                        if ty != "int":
                            fail(n, "replace argument type")
                    g = lambda k: "(Some %s)" % kw[k][0] if k in kw else "None"  # noqa
                    return "(dt_replace %s %s %s %s %s)" % (v, g("hour"), g("minute"), g("second"),
                                                            g("microsecond")), "datetime"
                if t == "datetime" and f.attr == "weekday" and not n.args and not n.keywords:
                    return "(dt_weekday %s)" % v, "int"
                if t == "datetime" and f.attr == "date" and not n.args and not n.keywords:
                    return "(dt_date %s)" % v, "date"
                if t == "timedelta" and f.attr == "total_seconds" and not n.args and not n.keywords:
                    return v, "tsec"
                fail(n, "unknown method %s of %s" % (f.attr, t))
            if isinstance(f, ast.Name) and f.id in self.known:
                args = [self.e(a) for a in n.args]
                sig = self.known[f.id]
                if n.keywords or [t for _, t in args] != sig[0]:
                    fail(n, "call argument types")
                v = self.newvar("r")
                self.pre.append((v, "(%s %s)" % (f.id, " ".join(a for a, _ in args))))
                return v, sig[1]
            fail(n, "unknown call")
        fail(n, "unsupported expression")

    def expr(self, n):
        """translate with hoisting: returns (binds, term, type)"""
        self.pre = []
        c, t = self.e(n)
        pre = self.pre
        self.pre = []
        return pre, c, t

    @staticmethod
    def wrap(pre, body):
        for v, term in reversed(pre):
            body = "(bind %s (fun %s => %s))" % (term, v, body)
        return body

    # ---- statements, continuation style: a Coq term of type res <ret>
    def block(self, stmts):
        if not stmts:
            if self.ret == "none":
                return "(Ok tt)"
            fail(self.fd, "control reaches the end of a function that returns a value")
        s, rest = stmts[0], stmts[1:]
        if isinstance(s, ast.Expr) and isinstance(s.value, ast.Constant) and isinstance(s.value.value, str):
            return self.block(rest)
        if isinstance(s, ast.Return):
            if s.value is None:
                fail(s, "bare return")
            pre, c, t = self.expr(s.value)
            if t == "int" and self.ret == "float":
                c, t = "(fl_of_int %s)" % c, "float"
            if t != self.ret:
                fail(s, "return type %s, expected %s" % (t, self.ret))
            return self.wrap(pre, "(Ok %s)" % c)
        if isinstance(s, ast.Assign) and len(s.targets) == 1 and isinstance(s.targets[0], ast.Name):
            name = s.targets[0].id
            pre, c, t = self.expr(s.value)
            saved = dict(self.env)
            if name == "_":
                body = self.block(rest)
                return self.wrap(pre, body)
            self.env[name] = t
            body = self.block(rest)
            self.env = saved
            return self.wrap(pre, "(let %s := %s in %s)" % (name, c, body))
        if isinstance(s, ast.If):
            pre, c, t = self.expr(s.test)
            if t != "bool":
                fail(s, "if test typing")

            def arm(stm):
                saved = dict(self.env)
                try:
                    return self.block(stm + rest)   # Python falls through to the continuation
                finally:
                    self.env = saved
            return self.wrap(pre, "(if %s then %s else %s)" % (c, arm(s.body), arm(s.orelse)))
        if isinstance(s, ast.Raise):
            src = ast.unparse(s.exc) if s.exc is not None else ""
            if src.startswith("SchedulerError("):
                return "(Err SchedulerError)"
            if src.startswith("ValueError("):
                return "(Err ValueError)"
            fail(s, "raise")
        fail(s, "unsupported statement")

    def emit(self, name=None):
        args = " ".join("(%s : %s)" % (a, COQTY[t]) for a, t in self.params)
        body = self.block(self.fd.body)
        return "Definition %s %s : res %s :=\n  %s.\n" % (name or self.fd.name, args, COQTY[self.ret], body)


HEADER = """(* GENERATED by translator/py2v.py from %s -- do not edit *)
From Coq Require Import ZArith List Bool.
From Sv Require Import PyTime.
Import ListNotations.
Open Scope Z_scope.

"""


def translate_module(path, want, header_extra=""):
    CURFILE[0] = path
    tree = ast.parse(open(path).read())
    known = {}
    out = [HEADER % path + header_extra]
    found = set()
    for fd in tree.body:
        if isinstance(fd, ast.FunctionDef) and fd.name in want:
            f = Fn(fd, known)
            out.append(f.emit())
            known[fd.name] = ([t for _, t in f.params], f.ret)
            found.add(fd.name)
            for a, d in f.defaults.items():
                f.env = {}
                pre, c, t = f.expr(d)
                if pre:
                    fail(d, "monadic default value")
                out.append("Definition %s_default_%s : %s := %s.\n" % (fd.name, a, COQTY[t], c))
    missing = [w for w in want if w not in found]
    if missing:
        raise Untranslatable("untranslatable: function(s) %s not found in %s" % (", ".join(missing), path))
    return "\n".join(out)


TARGETS = [
    ("GenOccur.v", "scheduler/util.py",
     ["days_to_weekday", "next_daily_occurrence", "next_hourly_occurrence", "next_minutely_occurrence",
      "next_weekday_time_occurrence"]),
    ("GenDup.v", "scheduler/util.py", ["are_times_unique"]),
    ("GenPrio.v", "scheduler/prioritization.py",
     ["constant_weight_prioritization", "linear_priority_function"]),
    ("GenStr.v", "scheduler/base/scheduler_util.py", ["str_cutoff"]),
]


def translate_timer(repo):
    """scheduler/base/job_timer.py::JobTimer.calc_next_exec (+ the dispatch dict of util.py)"""
    import py2v_methods as M
    util = os.path.join(repo, "scheduler/util.py")
    CURFILE[0] = util
    utree = ast.parse(open(util).read())
    known = {}
    for fd in utree.body:
        if isinstance(fd, ast.FunctionDef) and fd.name in ("next_daily_occurrence", "next_hourly_occurrence",
                                                           "next_minutely_occurrence", "next_weekday_time_occurrence"):
            f = Fn(fd, {})
            known[fd.name] = ([t for _, t in f.params], f.ret)
    disp = M.dict_dispatch(utree, "JOB_NEXT_DAYLIKE_MAPPING", "job_next_daylike_mapping", known)
    path = os.path.join(repo, "scheduler/base/job_timer.py")
    CURFILE[0] = path
    tree = ast.parse(open(path).read())
    fd = M.find_method(tree, "JobTimer", "calc_next_exec")
    fields = TIMER_FIELDS
    dicts = {"JOB_NEXT_DAYLIKE_MAPPING": ("job_next_daylike_mapping", ["datetime", "time"], "datetime")}
    m0 = M.Method(fd, known, "pytimer", fields, dicts, folded={"ref": "None"})
    t0 = m0.emit("calc_next_exec_none")
    m1 = M.Method(fd, known, "pytimer", fields, dicts, recursive_as="calc_next_exec_none")
    t1 = m1.emit("calc_next_exec")
    head = HEADER % path + "From Gen Require Import GenOccur.\n\n"
    return head + disp + "\n" + t0 + "\n" + t1 + "\n" + translate_timer_rest(repo)


TIMER_FIELDS = {"__job_type": ("pt_type", "jobtype", "set_pt_type"), "__timing": ("pt_timing", "timingu", "set_pt_timing"),
                "__next_exec": ("pt_next", "datetime", "set_pt_next"), "__skip": ("pt_skip", "bool", "set_pt_skip")}


def translate_timer_rest(repo):
    """JobTimer.__init__, .datetime, .timedelta (appended to GenTimer.v)"""
    import py2v_methods as M
    import py2v_objs as O
    path = os.path.join(repo, "scheduler/base/job_timer.py")
    CURFILE[0] = path
    tree = ast.parse(open(path).read())
    out = []
    ANN["TimingJobTimerUnion"] = "timingu"
    for meth, name in (("datetime", "jobtimer_datetime"), ("timedelta", "jobtimer_timedelta")):
        fd = M.find_method(tree, "JobTimer", meth)
        out.append(O.ObjMethod(fd, {}, "pytimer", TIMER_FIELDS, {}, {}, {}).emit(name))
    fd = M.find_method(tree, "JobTimer", "__init__")
    m = O.ObjMethod(fd, {}, "pytimer", TIMER_FIELDS, {}, {}, {})
    m.selfmethods = {("calc_next_exec", 0): "calc_next_exec_none"}
    m.skip_fields = {"__lock": "threading.RLock()"}
    out.append(m.emit("jobtimer_init"))
    args = [a for a, _ in m.params]
    out.append("Definition jobtimer_new %s : res pytimer := jobtimer_init blank_pytimer %s.\n" % (
        " ".join("(%s : %s)" % (a, COQTY[t]) for a, t in m.params), " ".join(args)))
    return "\n".join(out)


JOB_FIELDS = {"__mark_delete": ("pj_mark_delete", "bool", "set_pj_mark_delete"), "__max_attempts": ("pj_max_attempts", "int", None),
              "__attempts": ("pj_attempts", "int", "set_pj_attempts"),
              "__failed_attempts": ("pj_failed_attempts", "int", "set_pj_failed_attempts"), "__delay": ("pj_delay", "bool", None),
              "__skip_missing": ("pj_skip_missing", "bool", None), "__start": ("pj_start", "datetime", None),
              "__stop": ("pj_stop", "opt:datetime", None), "__tzinfo": ("pj_tzinfo", "tzinfo", None),
              "__timers": ("pj_timers", "list:pytimer", "set_pj_timers")}
JOB_ALIASES = {"__pending_timer": ("__timers", "pj_pending", "set_pj_pending", "pytimer")}
TIMER_METHODS = {("pytimer", "datetime"): ("jobtimer_datetime", [], "datetime", "property"),
                 ("pytimer", "timedelta"): ("jobtimer_timedelta", ["datetime"], "timedelta", "pure"),
                 ("pytimer", "calc_next_exec"): ("calc_next_exec", ["opt:datetime"], "pytimer", "mutator")}


def translate_jobstate(repo):
    """BaseJob.has_attempts_remaining, ._calc_next_exec, .timedelta, .datetime (+ template check of get_pending_timer)"""
    import py2v_methods as M
    import py2v_objs as O
    upath = os.path.join(repo, "scheduler/base/job_util.py")
    CURFILE[0] = upath
    O.check_template(ast.parse(open(upath).read()), "get_pending_timer", O.TEMPLATES["get_pending_timer"])
    path = os.path.join(repo, "scheduler/base/job.py")
    CURFILE[0] = path
    tree = ast.parse(open(path).read())
    templates = {"get_pending_timer": ("py_pending_index", ["list:pytimer"], "index:__timers")}
    # BaseJob.__lt__ (the order of the table rows and of sorted(jobs)): due instants compared as datetimes
    lt = M.find_method(tree, "BaseJob", "__lt__")
    if [a.arg for a in lt.args.args] != ["self", "other"] or \
            [ast.unparse(b) for b in lt.body if not (isinstance(b, ast.Expr) and isinstance(b.value, ast.Constant))] != ["return self.datetime < other.datetime"]:
        fail(lt, "BaseJob.__lt__ differs from the template the translator knows")
    out = []
    for meth, name in (("has_attempts_remaining", "has_attempts_remaining"), ("_calc_next_exec", "job_calc_next_exec"),
                       ("timedelta", "job_timedelta"), ("datetime", "job_datetime")):
        fd = M.find_method(tree, "BaseJob", meth)
        out.append(O.ObjMethod(fd, {}, "pyjobstate", JOB_FIELDS, JOB_ALIASES, TIMER_METHODS, templates).emit(name))
    # Job._exec of both front ends (the callback's outcome is a parameter)
    for rel, name in (("scheduler/threading/job.py", "thr_job_exec"), ("scheduler/asyncio/job.py", "aio_job_exec")):
        p2 = os.path.join(repo, rel)
        CURFILE[0] = p2
        fd = M.find_method(ast.parse(open(p2).read()), "Job", "_exec")
        out.append(O.ObjMethod(fd, {}, "pyjobstate", JOB_FIELDS, JOB_ALIASES, TIMER_METHODS, templates,
                               opaque_params=("logger",)).emit(name))
    return HEADER % path + "From Gen Require Import GenOccur GenTimer.\n\n" + "\n".join(out)


JOBUTIL_KNOWN = {}


def translate_strrow(repo):
    """BaseJob._str, prettify_timedelta, JobType member names"""
    import py2v_strrow as R
    jp, up, dp = (os.path.join(repo, x) for x in ("scheduler/base/job.py", "scheduler/base/job_util.py", "scheduler/base/definition.py"))
    CURFILE[0] = jp
    jt = ast.parse(open(jp).read())
    text = R.translate(jt, ast.parse(open(up).read()), ast.parse(open(dp).read()))
    tp, ap = (os.path.join(repo, x) for x in ("scheduler/threading/job.py", "scheduler/asyncio/job.py"))
    text += "\n" + R.translate_job_str(jt, ast.parse(open(tp).read()), ast.parse(open(ap).read()))
    return HEADER % jp + "From Sv Require Import Timer Job Sched Table PyRepr.\n\n" + text


def translate_table(repo):
    """Scheduler.__str__ of both front ends: columns, names, cells"""
    import py2v_table as T
    out = []
    upath = os.path.join(repo, "scheduler/base/scheduler_util.py")
    CURFILE[0] = upath
    T.check_tzname(ast.parse(open(upath).read()))
    for rel, skel, prefix, w in (("scheduler/threading/scheduler.py", T.SKELETON_THR, "thr", True),
                                 ("scheduler/asyncio/scheduler.py", T.SKELETON_AIO, "aio", False)):
        path = os.path.join(repo, rel)
        CURFILE[0] = path
        out.append(T.translate(ast.parse(open(path).read()), skel, prefix, w))
    head = HEADER % os.path.join(repo, "scheduler/threading/scheduler.py") + "From Sv Require Import Table.\nFrom Gen Require Import GenStr.\n\n" + \
        "Definition row_nth (row : list pystr) (i : nat) : pystr := nth i row [].\n" + \
        "Definition col_width (cols : list (bool * nat)) (i : nat) : nat := snd (nth i cols (true, O)).\n" + \
        "Definition str_or_empty (s : pystr) : pystr := match s with [] => [] | _ => s end.\n" + \
        "(* str_cutoff with a width >= 1 never raises *)\n" + \
        "Definition py_cut (s : pystr) (w : nat) (tail : bool) : pystr :=\n" + \
        "  match str_cutoff s (Z.of_nat w) tail with Ok r => r | Err _ => s end.\n\n"
    return head + "\n".join(out)


def translate_trigger(repo):
    """scheduler/trigger/core.py: Weekday classes and the weekday() factory"""
    import py2v_trigger as T
    path = os.path.join(repo, "scheduler/trigger/core.py")
    CURFILE[0] = path
    return HEADER % path + T.translate(ast.parse(open(path).read()))


def translate_supervisor(repo):
    """asyncio Scheduler.__supervise_job, cut at its suspension points"""
    import py2v_aio as A
    path = os.path.join(repo, "scheduler/asyncio/scheduler.py")
    CURFILE[0] = path
    return HEADER % path + "From Gen Require Import GenOccur GenTimer GenJobState.\n\n" + A.translate(ast.parse(open(path).read()))


def translate_postloop(repo):
    """threading Scheduler.__exec_jobs: hand-over by template, post-run loop translated"""
    import py2v_post as P
    check_job_wrappers(repo, ["_calc_next_exec"])
    path = os.path.join(repo, "scheduler/threading/scheduler.py")
    CURFILE[0] = path
    return HEADER % path + "From Gen Require Import GenOccur GenTimer GenJobState.\n\n" + P.translate(ast.parse(open(path).read()))


def translate_registry(repo):
    """threading Scheduler.delete_job / delete_jobs / get_jobs / jobs"""
    import py2v_reg as R
    path = os.path.join(repo, "scheduler/threading/scheduler.py")
    CURFILE[0] = path
    tree = ast.parse(open(path).read())
    # constructors, __schedule and create_job_instance: recognised by template (their meaning: Model/Sched.v's
    # sched_init / schedule and Model/Aio.v's a_init / a_schedule)
    R.check_body(tree, "Scheduler", "__init__", R.THR_INIT, "threading Scheduler.__init__")
    R.check_body(tree, "Scheduler", "__schedule", R.THR_SCHEDULE, "threading Scheduler.__schedule")
    bpath = os.path.join(repo, "scheduler/base/scheduler.py")
    CURFILE[0] = bpath
    R.check_body(ast.parse(open(bpath).read()), "BaseScheduler", "__init__", R.BASE_INIT, "BaseScheduler.__init__")
    upath = os.path.join(repo, "scheduler/base/scheduler_util.py")
    CURFILE[0] = upath
    R.check_body(ast.parse(open(upath).read()), None, "create_job_instance", R.CREATE, "create_job_instance")
    CURFILE[0] = path
    tags = [("tags", "option (list Z)"), ("any_tag", "bool")]
    out = [R.method(tree, "delete_job", "reg_delete_job", [("job", "pytagjob")], "unit"),
           R.method(tree, "delete_jobs", "reg_delete_jobs", tags, "int"),
           R.method(tree, "get_jobs", "reg_get_jobs", tags, "set"),
           R.method(tree, "jobs", "reg_jobs", [], "set")]
    # asyncio front end: a dict Job -> Task; delete_job pops the entry and cancels the task
    apath = os.path.join(repo, "scheduler/asyncio/scheduler.py")
    CURFILE[0] = apath
    atree = ast.parse(open(apath).read())
    R.check_body(atree, "Scheduler", "__init__", R.AIO_INIT, "asyncio Scheduler.__init__")
    out += [R.aio_method(atree, "delete_job", "aio_delete_job", [("job", "pytagjob")], "unit", strip_unit=True),
            R.aio_method(atree, "delete_jobs", "aio_delete_jobs", tags, "int"),
            R.aio_method(atree, "get_jobs", "aio_get_jobs", tags, "set"),
            R.aio_method(atree, "jobs", "aio_jobs", [], "set")]
    return HEADER % path + "From Gen Require Import GenSelect.\n\n" + "\n".join(out)


def translate_once(repo):
    """Scheduler.once() of both front ends (+ JOB_TYPE_MAPPING of base/definition.py)"""
    import py2v_once as N
    dpath = os.path.join(repo, "scheduler/base/definition.py")
    CURFILE[0] = dpath
    out = [N.type_mapping(ast.parse(open(dpath).read()))]
    bpath = os.path.join(repo, "scheduler/base/scheduler.py")
    CURFILE[0] = bpath
    N.check_deprecated(ast.parse(open(bpath).read()))
    jpath = os.path.join(repo, "scheduler/base/job.py")
    CURFILE[0] = jpath
    defaults = N.init_defaults(ast.parse(open(jpath).read()))
    for rel, name, w in (("scheduler/threading/scheduler.py", "thr_once_call", True),
                         ("scheduler/asyncio/scheduler.py", "aio_once_call", False)):
        path = os.path.join(repo, rel)
        CURFILE[0] = path
        out.append(N.once_method(ast.parse(open(path).read()), defaults, name, w))
        out.append(N.schedule_types(ast.parse(open(path).read()), name.replace("once_call", "schedule_type")))
    return HEADER % dpath + "\n".join(out)


JOB_WRAPPERS = {
    "timedelta": ("dt_stamp", "with self.__lock:\n    return super().timedelta(dt_stamp)\n"),
    "datetime": (None, "with self.__lock:\n    return super().datetime\n"),
    "_calc_next_exec": ("ref_dt", "with self.__lock:\n    super()._calc_next_exec(ref_dt)\n"),
    "has_attempts_remaining": (None, "with self.__lock:\n    return super().has_attempts_remaining\n"),
}


def check_job_init(repo):
    """threading Job.__init__ hands every argument unchanged to BaseJob.__init__ (positionals in order, every
    keyword-only parameter but `weight` under its own name), then creates its lock and stores the weight; the
    asyncio Job has no __init__ of its own.  Recognised by a template derived from the signature."""
    import py2v_methods as M
    path = os.path.join(repo, "scheduler/threading/job.py")
    CURFILE[0] = path
    fd = M.find_method(ast.parse(open(path).read()), "Job", "__init__")
    pos = [a.arg for a in fd.args.args[1:]]
    kwo = [a.arg for a in fd.args.kwonlyargs]
    if pos != ["job_type", "timing", "handle"] or "weight" not in kwo or fd.args.vararg or fd.args.kwarg:
        fail(fd, "threading Job.__init__ signature")
    text = "super().__init__(%s)\nself.__lock = threading.RLock()\nself.__weight = weight\n" % ", ".join(
        pos + ["%s=%s" % (k, k) for k in kwo if k != "weight"])
    body = [b for b in fd.body if not (isinstance(b, ast.Expr) and isinstance(b.value, ast.Constant) and isinstance(b.value.value, str))]
    if ast.dump(ast.Module(body=body, type_ignores=[])) != ast.dump(ast.parse(text)):
        fail(fd, "threading Job.__init__ must pass its arguments unchanged to BaseJob.__init__")
    bpath = os.path.join(repo, "scheduler/base/job.py")
    bfd = M.find_method(ast.parse(open(bpath).read()), "BaseJob", "__init__")
    if [a.arg for a in bfd.args.kwonlyargs] != [k for k in kwo if k != "weight"] or [a.arg for a in bfd.args.args[1:]] != pos:
        fail(fd, "threading Job.__init__ and BaseJob.__init__ take different parameters")
    apath = os.path.join(repo, "scheduler/asyncio/job.py")
    CURFILE[0] = apath
    for c in ast.parse(open(apath).read()).body:
        if isinstance(c, ast.ClassDef) and c.name == "Job":
            for st in c.body:
                if isinstance(st, (ast.FunctionDef, ast.AsyncFunctionDef)) and st.name not in ("_exec", "__repr__"):
                    fail(st, "asyncio Job overrides %s" % st.name)


def check_job_wrappers(repo, names):
    """threading Job overrides timedelta / datetime / _calc_next_exec only to take the job's own lock around the
    BaseJob method: recognised by template (a missing or different override leaves the subset)"""
    import py2v_methods as M
    path = os.path.join(repo, "scheduler/threading/job.py")
    CURFILE[0] = path
    tree = ast.parse(open(path).read())
    for name in names:
        fd = M.find_method(tree, "Job", name)
        arg, text = JOB_WRAPPERS[name]
        body = [b for b in fd.body if not (isinstance(b, ast.Expr) and isinstance(b.value, ast.Constant) and isinstance(b.value.value, str))]
        if [a.arg for a in fd.args.args[1:]] != ([arg] if arg else []) or \
                ast.dump(ast.Module(body=body, type_ignores=[])) != ast.dump(ast.parse(text)):
            fail(fd, "threading Job.%s must take the job lock around the BaseJob method" % name)


def translate_sched(repo):
    """threading Scheduler.exec_jobs up to the hand-over to the workers (selection)"""
    import py2v_methods as M
    import py2v_sched as S
    path = os.path.join(repo, "scheduler/threading/scheduler.py")
    CURFILE[0] = path
    tree = ast.parse(open(path).read())
    check_job_wrappers(repo, ["timedelta", "datetime"])
    CURFILE[0] = path
    fd = M.find_method(tree, "Scheduler", "exec_jobs")
    fields = {"__max_exec": ("ps_max_exec", "int", None), "__tzinfo": ("ps_tzinfo", "tzinfo", None),
              "__jobs": ("ps_jobs", "set:jobobj", None)}
    objm = {("jobobj", "timedelta"): ("jobobj_timedelta now_us", ["opt:datetime"], "timedelta", "pure")}
    m = S.SchedMethod(fd, "pysched", fields, objm)
    text = m.emit("sched_exec_select")
    head = HEADER % path + "From Gen Require Import GenOccur GenTimer GenJobState.\n\n" + \
        "(* Job.timedelta (threading) takes the job lock and calls BaseJob.timedelta *)\n" + \
        "Definition jobobj_timedelta (now_us : Z) (o : pyjobobj) (stamp : option datetime) : res timedelta :=\n" + \
        "  job_timedelta (jo_state o) now_us stamp.\n\n"
    return head + text


def translate_jobinit(repo):
    """BaseJob.__init__ (needs translate_jobutil's signatures)"""
    import py2v_methods as M
    check_job_init(repo)
    check_job_wrappers(repo, ["has_attempts_remaining"])
    import py2v_objs as O
    if not JOBUTIL_KNOWN:
        translate_jobutil(repo)
    upath = os.path.join(repo, "scheduler/base/job_util.py")
    CURFILE[0] = upath
    utree = ast.parse(open(upath).read())
    O.check_template(utree, "get_pending_timer", O.TEMPLATES["get_pending_timer"])
    O.check_template(utree, "sane_timing_types", O.TEMPLATES["sane_timing_types"])
    path = os.path.join(repo, "scheduler/base/job.py")
    CURFILE[0] = path
    tree = ast.parse(open(path).read())
    fields = dict(JOB_FIELDS)
    for k, (proj, ty, _) in JOB_FIELDS.items():
        fields[k] = (proj, ty, "set_" + proj)
    templates = {"get_pending_timer": ("py_pending_index", ["list:pytimer"], "index:__timers"),
                 "sane_timing_types": ("py_sane_timing_types", ["jobtype", "timinglist"], "none")}
    fd = M.find_method(tree, "BaseJob", "__init__")
    m = O.ObjMethod(fd, dict(JOBUTIL_KNOWN), "pyjobstate", fields, JOB_ALIASES, TIMER_METHODS, templates,
                    opaque_params=("handle", "args", "kwargs", "tags", "alias"),
                    opaque_fields=("__type", "__timing", "__handle", "__args", "__kwargs", "__tags", "__alias"),
                    # the job owns its arguments, keyword mapping and tags as values (C19: Model/Job.v keeps them in
                    # the configuration); the only forms the constructor may store them in:
                    opaque_values={"__type": "job_type", "__timing": "timing", "__handle": "handle", "__alias": "alias",
                                   "__args": "() if args is None else args",
                                   "__kwargs": "{} if kwargs is None else kwargs.copy()",
                                   "__tags": "set() if tags is None else tags.copy()"},
                    constructors={"JobTimer": ("jobtimer_new", ["jobtype", "timingu", "datetime", "bool"], "pytimer")})
    text = m.emit("basejob_init")
    params = [(a, t) for a, t in m.params]
    new = "Definition basejob_new (now_us : Z) %s : res pyjobstate := basejob_init blank_pyjobstate now_us %s.\n" % (
        " ".join("(%s : %s)" % (a, COQTY[t]) for a, t in params), " ".join(a for a, _ in params))
    head = HEADER % path + "From Gen Require Import GenOccur GenDup GenTimer GenJobUtil.\n\n"
    return head + text + "\n" + new


def translate_jobutil(repo):
    """scheduler/base/job_util.py: the checks of BaseJob.__init__; scheduler/util.py::are_weekday_times_unique"""
    import py2v_funcs as F
    util = os.path.join(repo, "scheduler/util.py")
    CURFILE[0] = util
    utree = ast.parse(open(util).read())
    known = {}
    out = []
    for fd in utree.body:
        if isinstance(fd, ast.FunctionDef) and fd.name in ("next_weekday_time_occurrence", "are_times_unique"):
            f = Fn(fd, {})
            known[fd.name] = ([t for _, t in f.params], f.ret)
    fds = {fd.name: fd for fd in utree.body if isinstance(fd, ast.FunctionDef)}
    if "are_weekday_times_unique" not in fds:
        raise Untranslatable("untranslatable: are_weekday_times_unique not found")
    f = F.Func(fds["are_weekday_times_unique"], known)
    out.append(f.emit())
    known["are_weekday_times_unique"] = ([t for _, t in f.params], f.ret)
    path = os.path.join(repo, "scheduler/base/job_util.py")
    CURFILE[0] = path
    tree = ast.parse(open(path).read())
    vd_text, vd_keys = F.value_dict(tree, "_DAYLIKE_PERIOD", "daylike_period", "timedelta")
    out.append(vd_text)
    valdicts = {"_DAYLIKE_PERIOD": ("daylike_period", vd_keys, "timedelta")}
    fds = {fd.name: fd for fd in tree.body if isinstance(fd, ast.FunctionDef)}
    for name in ("standardize_timing_format", "check_timing_tzinfo", "check_duplicate_effective_timings",
                 "set_start_check_stop_tzinfo"):
        if name not in fds:
            raise Untranslatable("untranslatable: %s not found in %s" % (name, path))
        f = F.Func(fds[name], known, valdicts=valdicts)
        out.append(f.emit())
        JOBUTIL_KNOWN[name] = ([t for _, t in f.params], f.ret, f.uses_clock)
    head = HEADER % path + "From Gen Require Import GenOccur GenDup.\n\n"
    return head + "\n".join(out)


def translate_select(repo):
    import py2v_funcs as F
    path = os.path.join(repo, "scheduler/base/scheduler.py")
    CURFILE[0] = path
    tree = ast.parse(open(path).read())
    fds = {fd.name: fd for fd in tree.body if isinstance(fd, ast.FunctionDef)}
    if "select_jobs_by_tag" not in fds:
        raise Untranslatable("untranslatable: select_jobs_by_tag not found")
    return HEADER % path + F.Func(fds["select_jobs_by_tag"], {}).emit()


def main():
    if len(sys.argv) != 3:
        print(__doc__)
        return 2
    repo, outdir = sys.argv[1], sys.argv[2]
    sys.modules.setdefault("py2v", sys.modules[__name__])    # the helper modules import this one by name
    os.makedirs(outdir, exist_ok=True)
    status = {}
    for fname, src, want in TARGETS:
        try:
            text = translate_module(os.path.join(repo, src), want)
            with open(os.path.join(outdir, fname), "w") as fh:
                fh.write(text)
            status[fname] = "translated"
        except Untranslatable as e:
            status[fname] = str(e)
        except (OSError, SyntaxError) as e:
            status[fname] = "untranslatable: cannot read/parse %s: %s" % (src, e)
    sys.path.insert(0, os.path.dirname(os.path.abspath(__file__)))
    for fname, fn in (("GenTimer.v", translate_timer), ("GenJobState.v", translate_jobstate),
                      ("GenJobUtil.v", translate_jobutil), ("GenSelect.v", translate_select),
                      ("GenJobInit.v", translate_jobinit), ("GenSched.v", translate_sched), ("GenOnce.v", translate_once), ("GenRegistry.v", translate_registry), ("GenPost.v", translate_postloop), ("GenSupervisor.v", translate_supervisor), ("GenTrigger.v", translate_trigger), ("GenTable.v", translate_table), ("GenStrRow.v", translate_strrow)):
        try:
            text = fn(repo)
            with open(os.path.join(outdir, fname), "w") as fh:
                fh.write(text)
            status[fname] = "translated"
        except (OSError, SyntaxError) as e:
            status[fname] = "untranslatable: cannot read/parse: %s" % e
        except Exception as e:  # py2v is both __main__ and an imported module: match the class by name
            if type(e).__name__ != "Untranslatable":
                raise
            status[fname] = str(e)
    import json
    import py2v_surface
    for fname, why in py2v_surface.check(repo).items():
        if status.get(fname) == "translated":
            status[fname] = why
    with open(os.path.join(outdir, "status.json"), "w") as fh:
        json.dump(status, fh, indent=1)
    for k, v in status.items():
        print(k, v)
    return 0


if __name__ == "__main__":
    sys.exit(main())
